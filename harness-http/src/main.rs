//! HTTP-level harness: REAL `polytune_http_server::Server`s (in-process, 127.0.0.1:0), a real output destination, real `reqwest` requests.
//! Every response is replayed through the Lean model of `api.rs` (`Http.serve`, per-server registry); the end-to-end oracle is the property's:
//! stray requests are answered with an error status and the computation under way still delivers exactly one correct result per destination.
use std::{collections::{BTreeMap, HashMap}, sync::{Arc, Mutex}, time::{Duration, Instant}};
use axum::{Json, Router, extract::{Path, State}, routing::post};
use garble_lang::literal::Literal;
use polytune_http_server::{Cancel, Server, ServerOpts};
use polytune_server_core::{ConstsRequest, Policy, RunRequest, ValidateRequest};
use serde_json::{Value, json};
use url::Url;
use uuid::Uuid;
mod model;

struct Rng(u64);
impl Rng { fn next(&mut self) -> u64 { self.0 ^= self.0 << 13; self.0 ^= self.0 >> 7; self.0 ^= self.0 << 17; self.0 } fn below(&mut self, n: u64) -> u64 { self.next() % n } }

type Outs = Arc<Mutex<Vec<(Uuid, usize, Value)>>>;
async fn output(State(o): State<Outs>, Path((id, party)): Path<(Uuid, usize)>, Json(v): Json<Value>) { o.lock().unwrap().push((id, party, v)); }
async fn start_output(outs: Outs) -> Url {
    let app = Router::new().route("/output/{id}/{party}", post(output)).with_state(outs);
    let l = tokio::net::TcpListener::bind("127.0.0.1:0").await.expect("bind"); let u = Url::parse(&format!("http://{}/output/", l.local_addr().unwrap())).unwrap();
    tokio::spawn(async move { axum::serve(l, app).await.unwrap() }); u
}
async fn start_servers(n: usize, conc: usize) -> Vec<Url> { start_servers_c(n, conc, &[]).await }
async fn start_servers_c(n: usize, conc: usize, cancels: &[Cancel]) -> Vec<Url> {
    let mut urls = vec![];
    for i in 0..n { let mut s = Server::new_with_opts("127.0.0.1:0".parse().unwrap(), ServerOpts { concurrency: conc, tmp_dir: None, jwt_conf: None, cancel: cancels.get(i).cloned() });
        let a = s.bind_socket().await.expect("bind"); urls.push(Url::parse(&format!("http://{a}")).unwrap()); tokio::spawn(async move { let _ = s.start().await; }); }
    tokio::time::sleep(Duration::from_millis(40)).await; urls
}
const P2: &str = "pub fn main(a: u8, b: u8) -> u8 { a + b }";
const P3: &str = "pub fn main(a: u8, b: u8, c: u8) -> u8 { a + b + c }";
const P2C: &str = "const K: u8 = PARTY_0::K;\npub fn main(a: u8, b: u8) -> u8 { a + b + K }";
/// enough AND gates for the MPC to take a few hundred milliseconds over HTTP: stray requests sent after the leader's schedule call has returned arrive while it runs
const P2BIG: &str = "pub fn main(a: u32, b: u32) -> u32 { a * b * a * b }";
fn policy(parts: &[Url], party: usize, leader: usize, out: &Url, id: Uuid, prog: &str) -> Policy {
    let mut constants = HashMap::new(); if party == 0 && prog.contains("PARTY_0::K") { constants.insert("K".to_string(), Literal::from(5u8)); }
    let input = if prog == P2BIG { Literal::from((party as u32) + 3) } else { Literal::from((party as u8) + 3) };
    Policy { computation_id: id, participants: parts.to_vec(), program: prog.to_string(), leader, party, input, output: Some(out.join(&format!("{id}/{party}")).unwrap()), constants }
}
fn expected(n: usize, prog: &str) -> Value {
    let v = if prog == P2BIG { json!({"NumUnsigned": [144, "U32"]}) } else { let s: u8 = (0..n as u8).map(|p| p + 3).sum::<u8>() + if prog.contains("PARTY_0::K") { 5 } else { 0 }; json!({"NumUnsigned": [s, "U8"]}) };
    json!({"type": "success", "details": v})
}

#[derive(Debug, Clone, Copy, PartialEq)]
enum Stray { DupSchedule, DupIllTyped, Run, ConstsUnknown, ValidateBogus, MsgOob, MsgSelf }
struct Obs { srv: usize, route: &'static str, id: Uuid, status: u16, typ: String }
struct Ctx { client: reqwest::Client, parts: Vec<Url>, out: Url, obs: Mutex<Vec<Obs>> }
impl Ctx {
    async fn post_json<T: serde::Serialize>(&self, srv: usize, route: &'static str, id: Uuid, body: &T) -> (u16, String) {
        let slot = self.issue(srv, route, id); let r = self.client.post(self.parts[srv].join(route).unwrap()).json(body).send().await; self.record(slot, r).await }
    async fn post_msg(&self, srv: usize, id: Uuid, from: usize) -> (u16, String) {
        let slot = self.issue(srv, "msg", id); let r = self.client.post(self.parts[srv].join(&format!("msg/{id}/{from}")).unwrap()).body(vec![1u8, 2, 3]).send().await; self.record(slot, r).await }
    /// requests are replayed through the model in the order in which they were ISSUED (a schedule call returns only after validation, long after later requests)
    fn issue(&self, srv: usize, route: &'static str, id: Uuid) -> usize { let mut o = self.obs.lock().unwrap(); o.push(Obs { srv, route, id, status: 0, typ: "pending".into() }); o.len() - 1 }
    async fn record(&self, slot: usize, r: Result<reqwest::Response, reqwest::Error>) -> (u16, String) {
        let r = match r { Ok(r) => r, Err(e) => { return (0, format!("no response: {}", e.to_string().chars().take(80).collect::<String>())); } };
        let status = r.status().as_u16(); let body = r.text().await.unwrap_or_default();
        let typ = serde_json::from_str::<Value>(&body).ok().and_then(|v| v.get("type").and_then(|t| t.as_str().map(|s| s.to_string()))).unwrap_or_default();
        { let mut o = self.obs.lock().unwrap(); o[slot].status = status; o[slot].typ = typ.clone(); } (status, typ) }
    async fn stray(&self, s: Stray, victim: usize, leader: usize, id: Uuid, prog: &str) -> (u16, String) {
        match s {
            Stray::DupSchedule => self.post_json(victim, "schedule", id, &policy(&self.parts, victim, leader, &self.out, id, prog)).await,
            Stray::DupIllTyped => self.post_json(victim, "schedule", id, &policy(&self.parts, victim, leader, &self.out, id, "pub fn main(a: u8) -> u8 { a + true }")).await,
            Stray::Run => self.post_json(victim, "run", id, &RunRequest { computation_id: id }).await,
            Stray::ConstsUnknown => self.post_json(victim, "consts", id, &ConstsRequest { from: 9, computation_id: id, consts: HashMap::from([("X".to_string(), Literal::from(1u8))]) }).await,
            Stray::ValidateBogus => self.post_json(victim, "validate", id, &ValidateRequest { computation_id: id, program_hash: "x".into(), leader: 0 }).await,
            Stray::MsgOob => self.post_msg(victim, id, 9).await,
            Stray::MsgSelf => self.post_msg(victim, id, victim).await,
        }
    }
}
/// wait until `srv` has registered computation `id` (its schedule request has been accepted by the route): an unrecorded `/run` probe is answered 404 before
/// that and 400 (`InvalidState`, state kept) afterwards. A fixed delay is not enough on a loaded machine.
async fn wait_registered(ctx: &Ctx, srv: usize, id: Uuid) -> bool {
    let t0 = Instant::now();
    while t0.elapsed() < Duration::from_secs(15) {
        if let Ok(r) = ctx.client.post(ctx.parts[srv].join("run").unwrap()).json(&RunRequest { computation_id: id }).send().await { if r.status().as_u16() != 404 { return true; } }
        tokio::time::sleep(Duration::from_millis(10)).await; }
    false
}
/// which statuses the property allows for a stray request that reaches a computation under way
fn allowed(s: Stray) -> &'static [u16] { match s { Stray::MsgOob => &[500], Stray::MsgSelf => &[200, 500], _ => &[400] } }

#[tokio::main(flavor = "multi_thread", worker_threads = 6)]
async fn main() {
    let a: Vec<String> = std::env::args().collect(); let prop = a.get(1).cloned().unwrap_or_default();
    let seed: u64 = std::env::var("VERIF_SEED").ok().and_then(|s| s.parse().ok()).unwrap_or(1);
    let cases: usize = a.iter().position(|x| x == "--cases").and_then(|i| a.get(i + 1)).and_then(|s| s.parse().ok()).unwrap_or(12);
    let model_path = a.iter().position(|x| x == "--model").and_then(|i| a.get(i + 1)).cloned().unwrap_or("/verif/lean/.lake/build/bin/ptmodel".into());
    if prop != "C14h" && prop != "C15h" && prop != "C17h" { eprintln!("unknown property"); std::process::exit(2); }
    let mut m = model::Model::spawn(&model_path).expect("spawn ptmodel"); let mut r = Rng(seed.wrapping_mul(0x9E3779B97F4A7C15) | 1);
    let mut failures: Vec<Value> = vec![]; let mut disagreements: Vec<Value> = vec![]; let mut dist: BTreeMap<String, u64> = BTreeMap::new(); let mut samples = vec![]; let mut execs = 0u64; let mut steps = 0u64;
    let outs: Outs = Arc::new(Mutex::new(vec![])); let out_url = start_output(outs.clone()).await;
    if prop == "C17h" {
        // The concurrency budget of ONE real server that leads k computations; the follower is played by this harness (an HTTP endpoint that
        // validates everything, records when `/run` arrives for which computation and keeps the computation "in progress" by not answering the
        // leader's MPC messages until it is told to end it: then they are answered 404, the leader's MPC fails and its permit must come back).
        // At no time may more than `conc` computations have received `/run` and not been ended; ending one must let the next one run; in the end
        // the whole budget is available again (a further computation gets its `/run`).
        #[derive(Default)] struct Fake { runs: Mutex<Vec<Uuid>>, ended: Mutex<Vec<Uuid>>, max_live: Mutex<usize> }
        async fn f_ok() {}
        async fn f_run(State(f): State<Arc<Fake>>, Json(r): Json<RunRequest>) { let mut runs = f.runs.lock().unwrap(); runs.push(r.computation_id); let ended = f.ended.lock().unwrap(); let live = runs.iter().filter(|i| !ended.contains(i)).count(); let mut m = f.max_live.lock().unwrap(); *m = (*m).max(live); }
        async fn f_msg(State(f): State<Arc<Fake>>, Path((id, _from)): Path<(Uuid, usize)>) -> axum::http::StatusCode {
            for _ in 0..3000 { if f.ended.lock().unwrap().contains(&id) { return axum::http::StatusCode::NOT_FOUND; } tokio::time::sleep(Duration::from_millis(10)).await; } axum::http::StatusCode::NOT_FOUND }
        for case in 0..cases {
            let conc = 1 + case % 2; let k = conc + 1 + case % 3; let with_dest = case % 4 < 2;
            let fake = Arc::new(Fake::default());
            let app = Router::new().route("/validate", post(f_ok)).route("/consts", post(f_ok)).route("/run", post(f_run)).route("/msg/{id}/{from}", post(f_msg)).with_state(fake.clone());
            let l = tokio::net::TcpListener::bind("127.0.0.1:0").await.expect("bind"); let fake_url = Url::parse(&format!("http://{}", l.local_addr().unwrap())).unwrap(); let srv_task = tokio::spawn(async move { axum::serve(l, app).await.unwrap() });
            let leader_url = start_servers(1, conc).await.remove(0); let parts = vec![leader_url.clone(), fake_url];
            let client = reqwest::Client::builder().timeout(Duration::from_secs(60)).build().unwrap();
            let ids: Vec<Uuid> = (0..=k).map(|j| Uuid::from_u128(0x7000 + (case * 16 + j) as u128 + ((seed as u128) << 32))).collect(); let mut bad: Vec<String> = vec![];
            let mk = |j: usize| { let mut p = policy(&parts, 0, 0, &out_url, ids[j], P2); if !with_dest { p.output = None; } p };
            for j in 0..k { let st = client.post(leader_url.join("schedule").unwrap()).json(&mk(j)).send().await.map(|r| r.status().as_u16()).unwrap_or(0); if st != 200 { bad.push(format!("schedule call {j} answered {st}")); } }
            let live = |f: &Fake| { let runs = f.runs.lock().unwrap(); let ended = f.ended.lock().unwrap(); runs.iter().filter(|i| !ended.contains(i)).cloned().collect::<Vec<_>>() };
            let wait_live = |want: usize, ms: u64| { let fake = fake.clone(); async move { let t0 = Instant::now(); while t0.elapsed() < Duration::from_millis(ms) { if live(&fake).len() >= want { break; } tokio::time::sleep(Duration::from_millis(10)).await; } live(&fake).len() } };
            // all k are validated; exactly `conc` of them may be running now, and no more however long we wait
            let got = wait_live(conc, 15000).await; if got < conc { bad.push(format!("only {got} of {conc} permitted computations were started")); }
            tokio::time::sleep(Duration::from_millis(400)).await;
            let mut log = vec![format!("{k} computations led by one server with concurrency {conc}: {} running", live(&fake).len())];
            // end them one by one: each end must let exactly one waiting computation start
            for step in 0..k { let l = live(&fake); if l.is_empty() { bad.push(format!("after {step} ended computations nothing is running although {} have not run yet", k - step)); break; }
                fake.ended.lock().unwrap().push(l[0]); let remaining = k - step - 1; let want = remaining.min(conc);
                let t0 = Instant::now(); while t0.elapsed() < Duration::from_secs(15) { if live(&fake).len() >= want && fake.runs.lock().unwrap().len() >= (step + 1 + want).min(k) { break; } tokio::time::sleep(Duration::from_millis(10)).await; }
                tokio::time::sleep(Duration::from_millis(120)).await; log.push(format!("ended one: {} running, {} started so far", live(&fake).len(), fake.runs.lock().unwrap().len()));
                if live(&fake).len() < want { bad.push(format!("after computation {step} ended only {} are running, {want} should be (a permit did not come back)", live(&fake).len())); break; } }
            let max_live = *fake.max_live.lock().unwrap(); if max_live > conc { bad.push(format!("{max_live} computations had received /run and not ended at the same time, concurrency is {conc}")); }
            // the whole budget is back: `conc` further computations all get their /run
            let before = fake.runs.lock().unwrap().len();
            { let st = client.post(leader_url.join("schedule").unwrap()).json(&mk(k)).send().await.map(|r| r.status().as_u16()).unwrap_or(0); if st != 200 { bad.push(format!("final schedule call answered {st}")); } }
            let t0 = Instant::now(); while t0.elapsed() < Duration::from_secs(15) && fake.runs.lock().unwrap().len() <= before { tokio::time::sleep(Duration::from_millis(10)).await; }
            if bad.is_empty() && fake.runs.lock().unwrap().len() <= before { bad.push("after all computations ended a further one is never run: the budget is not available again".into()); }
            let rest = live(&fake); fake.ended.lock().unwrap().extend(rest); tokio::time::sleep(Duration::from_millis(150)).await; srv_task.abort();
            if with_dest { let errs = outs.lock().unwrap().iter().filter(|(i, _, v)| ids.contains(i) && v.get("type").and_then(|t| t.as_str()) == Some("error")).count(); if errs < k && bad.is_empty() { bad.push(format!("{errs} error notifications for {k} failed computations with a destination")); } }
            execs += 1; *dist.entry(format!("concurrency:{conc}")).or_default() += 1; *dist.entry(format!("policies:{k}")).or_default() += 1; *dist.entry(format!("destination:{with_dest}")).or_default() += 1;
            if !bad.is_empty() { failures.push(json!({"witness": "C17:http-budget", "failure": bad, "case": json!({"case": case, "concurrency": conc, "policies": k, "destination": with_dest, "log": log})})); }
            if samples.len() < 3 { samples.push(json!({"case": case, "concurrency": conc, "policies": k, "max_running_at_once": max_live, "log": log})); }
            if std::env::var("VERIF_DEBUG").is_ok() { eprintln!("case {case} conc {conc} k {k}: max_live {max_live} log {log:?} bad {bad:?}"); }
        }
        println!("{}", serde_json::to_string_pretty(&json!({"executions": execs, "distinct_nontrivial": dist.len(), "distribution": dist, "samples": samples, "model_steps_compared": steps, "model_disagreements": disagreements, "impl_vs_oracle_failures": failures})).unwrap());
        std::process::exit(0);
    }
    if prop == "C15h" {
        // `Server`'s graceful shutdown (`Cancel::cancel` -> `cancel_all` -> `PolicyStateHandle::cancel` of every registered computation) at three moments
        for case in 0..cases {
            let n = 2usize; let leader = case % 2; let victim = (case / 2) % 2; let when = match (case / 4) % 3 { 0 => "under-way", 1 => "follower-waits", _ => "after-the-result" };
            let victim = if when == "follower-waits" { 1 - leader } else { victim };
            let cancels: Vec<Cancel> = (0..n).map(|_| Cancel::new()).collect(); let parts = start_servers_c(n, 1, &cancels).await;
            let id = Uuid::from_u128(0x5000 + case as u128 + ((seed as u128) << 32)); let prog = if when == "after-the-result" { P2 } else { P2BIG };
            let ctx = Arc::new(Ctx { client: reqwest::Client::builder().timeout(Duration::from_secs(60)).build().unwrap(), parts: parts.clone(), out: out_url.clone(), obs: Mutex::new(vec![]) });
            let sched = |p: usize| { let c = ctx.clone(); let pol = policy(&ctx.parts, p, leader, &ctx.out, id, prog); tokio::spawn(async move { c.post_json(p, "schedule", id, &pol).await }) };
            let mut bad: Vec<String> = vec![]; let mut tasks = vec![];
            match when {
                "follower-waits" => { tasks.push(sched(victim)); if !wait_registered(&ctx, victim, id).await { bad.push("the follower never registered its computation".into()); } }
                "under-way" => { let mut lt = None; for p in 0..n { let t = sched(p); if p == leader { lt = Some(t); } else { tasks.push(t); } }
                    let _ = tokio::time::timeout(Duration::from_secs(70), lt.unwrap()).await; tokio::time::sleep(Duration::from_millis(r.below(40))).await; }
                _ => { for p in 0..n { tasks.push(sched(p)); } let t0 = Instant::now(); while outs.lock().unwrap().iter().filter(|(i, _, _)| *i == id).count() < n && t0.elapsed() < Duration::from_secs(20) { tokio::time::sleep(Duration::from_millis(10)).await; } tokio::time::sleep(Duration::from_millis(100)).await; }
            }
            let before: Vec<Value> = outs.lock().unwrap().iter().filter(|(i, q, _)| *i == id && *q == victim).map(|(_, _, v)| v.clone()).collect();
            let returned = tokio::time::timeout(Duration::from_secs(15), cancels[victim].cancel()).await.is_ok();
            let at_return: Vec<Value> = outs.lock().unwrap().iter().filter(|(i, q, _)| *i == id && *q == victim).map(|(_, _, v)| v.clone()).collect();
            if !returned { bad.push("Cancel::cancel() did not return within 15 s".into()); }
            tokio::time::sleep(Duration::from_millis(400)).await;
            let later: Vec<Value> = outs.lock().unwrap().iter().filter(|(i, q, _)| *i == id && *q == victim).map(|(_, _, v)| v.clone()).collect();
            if returned && at_return.len() != 1 { bad.push(format!("when cancel() returned the victim's destination held {} notifications: {}", at_return.len(), serde_json::to_string(&at_return).unwrap().chars().take(200).collect::<String>())); }
            if later.len() != at_return.len() { bad.push(format!("after cancel() had returned the destination was sent something more: {}", serde_json::to_string(&later).unwrap().chars().take(300).collect::<String>())); }
            if when == "after-the-result" && before != later { bad.push("a computation that had already delivered its result was notified again by cancel".into()); }
            if when != "after-the-result" && returned && at_return.len() == 1 { let v = &at_return[0]; let is_cancel = v.get("type").and_then(|t| t.as_str()) == Some("error") && v.to_string().to_lowercase().contains("cancel"); let is_result = *v == expected(n, prog);
                if !is_cancel && !is_result { bad.push(format!("the one notification is neither `cancelled` nor the real result: {v}")); } }
            // the cancelled computation is gone from the victim's registry and the server still answers
            let mut gone = false; let t1 = Instant::now(); while !gone && t1.elapsed() < Duration::from_secs(10) { if let Ok(x) = ctx.client.post(parts[victim].join("run").unwrap()).json(&RunRequest { computation_id: id }).send().await { gone = x.status().as_u16() == 404; } tokio::time::sleep(Duration::from_millis(15)).await; }
            if returned && !gone { bad.push("the cancelled computation is still registered ten seconds later".into()); }
            let h = ctx.client.get(parts[victim].join("health").unwrap()).send().await; if !matches!(h, Ok(ref x) if x.status().as_u16() == 200) { bad.push("server is not healthy after cancel".into()); }
            for t in tasks { t.abort(); }
            // model: schedule registered the computation, the end of its state machine (cancel) unregisters it
            let idn = 0x5000 + case as u64; if when != "after-the-result" { let a1 = m.ask(&format!("http {victim} req schedule {idn} err")); let _ = m.ask(&format!("http {victim} fin {idn}")); let a2 = m.ask(&format!("http {victim} req run {idn} ok")); steps += 2;
                if !a1.contains("reached=1") || (gone && !a2.contains("status=404")) { disagreements.push(json!({"case": case, "model": [a1, a2]})); } }
            execs += 1; *dist.entry(format!("cancel:{when}")).or_default() += 1; *dist.entry(format!("victim:{}", if victim == leader { "leader" } else { "follower" })).or_default() += 1;
            if !bad.is_empty() { failures.push(json!({"witness": "C15:http-cancel", "failure": bad, "case": json!({"case": case, "leader": leader, "victim": victim, "when": when, "at_return": at_return})})); }
            if samples.len() < 3 { samples.push(json!({"case": case, "leader": leader, "victim": victim, "when": when, "cancel_returned": returned, "notifications_at_return": at_return})); }
            if std::env::var("VERIF_DEBUG").is_ok() { eprintln!("case {case} {when} leader {leader} victim {victim}: returned={returned} at_return={at_return:?} bad={bad:?}"); }
        }
        println!("{}", serde_json::to_string_pretty(&json!({"executions": execs, "distinct_nontrivial": dist.len(), "distribution": dist, "samples": samples, "model_steps_compared": steps, "model_disagreements": disagreements, "impl_vs_oracle_failures": failures})).unwrap());
        std::process::exit(0);
    }
    // one set of servers for all cases: the registries hold many computations over time (finished ones must disappear)
    let n_srv = 3usize; let parts_all = start_servers(n_srv, 2).await;
    let strays_a = [Stray::DupSchedule, Stray::DupIllTyped, Stray::Run, Stray::ConstsUnknown, Stray::MsgOob, Stray::MsgSelf];
    let strays_b = [Stray::DupSchedule, Stray::DupIllTyped, Stray::ConstsUnknown, Stray::ValidateBogus, Stray::MsgOob, Stray::MsgSelf];
    assert_eq!(m.ask("http reset"), "ok");
    for case in 0..cases {
        // deterministic enumeration first (stage × stray × leader), then seeded
        let n = if case % 5 == 3 { 3 } else { 2 }; let leader = (case / 2) % n; let stage = match case % 4 { 0 => 'A', 1 => 'B', 2 => 'U', _ => 'L' };
        let prog = if stage == 'B' { P2BIG } else if n == 3 { P3 } else if case % 5 == 0 { P2C } else { P2 }; let n = if prog == P2BIG { 2 } else { n }; let leader = leader % n;
        let id = Uuid::from_u128(0x1000 + case as u128 + ((seed as u128) << 32)); let idn = 0x1000 + case as u64;
        let ctx = Arc::new(Ctx { client: reqwest::Client::builder().timeout(Duration::from_secs(60)).build().unwrap(), parts: parts_all[..n].to_vec(), out: out_url.clone(), obs: Mutex::new(vec![]) });
        let follower = (leader + 1 + r.below(n as u64 - 1) as usize) % n; let mut bad: Vec<String> = vec![]; let mut stray_log = vec![];
        let sched = |p: usize| { let c = ctx.clone(); let pol = policy(&ctx.parts, p, leader, &ctx.out, id, prog); tokio::spawn(async move { c.post_json(p, "schedule", id, &pol).await }) };
        let mut tasks: Vec<(usize, tokio::task::JoinHandle<(u16, String)>)> = vec![];
        match stage {
            'U' => {
                // nothing is known about this computation yet: run / consts / msg must be 404 and must create nothing
                for p in 0..n { for s in [Stray::Run, Stray::ConstsUnknown, Stray::MsgOob] { let (st, ty) = ctx.stray(s, p, leader, id, prog).await; stray_log.push(format!("{s:?}@{p} before anything -> {st} {ty}"));
                    if st != 404 { bad.push(format!("{s:?} for an unknown computation answered {st} {ty}, want 404")); } } }
                for p in 0..n { tasks.push((p, sched(p))); }
            }
            'L' => {
                // the LEADER is scheduled first: its validate request reaches followers that have not been scheduled yet (the route creates their state
                // machine: ValidateRequested); stray requests reach such a follower; then the followers are scheduled
                tasks.push((leader, sched(leader))); if !wait_registered(&ctx, follower, id).await { bad.push("the leader's validate request never registered the computation at the follower".into()); }
                // the registration was made by the leader SERVER's validate request, which the harness does not see: tell the model (inferred from the probe turning from 404 to 400)
                ctx.obs.lock().unwrap().push(Obs { srv: follower, route: "validate", id, status: 200, typ: "inferred".into() });
                for s in [[Stray::Run, Stray::ConstsUnknown, Stray::MsgOob][(case / 4) % 3]] {
                    let (st, ty) = ctx.stray(s, follower, leader, id, prog).await; stray_log.push(format!("{s:?}@{follower} validated-before-scheduled -> {st} {ty}")); *dist.entry(format!("stray:{s:?}/validate-requested")).or_default() += 1;
                    if !allowed(s).contains(&st) { bad.push(format!("{s:?} at a follower that has the leader's validate but no policy yet answered {st} {ty}, want one of {:?}", allowed(s))); } }
                for p in 0..n { if p != leader { tasks.push((p, sched(p))); } }
            }
            'A' => {
                // the follower is scheduled and waits for the leader (AwaitingValidation); stray requests reach it; then the leader is scheduled
                tasks.push((follower, sched(follower))); if !wait_registered(&ctx, follower, id).await { bad.push("the follower never registered its computation".into()); }
                let k = (case / 3) % strays_a.len(); for s in [strays_a[k], strays_a[(k + 1 + r.below(5) as usize) % strays_a.len()]] {
                    let (st, ty) = ctx.stray(s, follower, leader, id, prog).await; stray_log.push(format!("{s:?}@{follower} while it waits for the leader -> {st} {ty}")); *dist.entry(format!("stray:{s:?}/awaiting-validation")).or_default() += 1;
                    if !allowed(s).contains(&st) { bad.push(format!("{s:?} at the waiting follower answered {st} {ty}, want one of {:?}", allowed(s))); } }
                for p in 0..n { if p != follower { tasks.push((p, sched(p))); } }
            }
            _ => {
                // all parties scheduled; as soon as the leader's schedule call has returned (everybody validated) stray requests hit a victim while run / constants / MPC proceed
                let mut lt = None; for p in 0..n { let t = sched(p); if p == leader { lt = Some(t); } else { tasks.push((p, t)); } }
                let lres = tokio::time::timeout(Duration::from_secs(70), lt.unwrap()).await.map(|x| x.unwrap()).unwrap_or((0, "no response".into())); if lres.0 != 200 { bad.push(format!("leader's schedule answered {} {}", lres.0, lres.1)); }
                let victim = if (case / 3) % 2 == 0 { follower } else { leader }; let k = (case / 6) % strays_b.len();
                for s in [strays_b[k], strays_b[(k + 1 + r.below(5) as usize) % strays_b.len()], strays_b[r.below(6) as usize]] {
                    let done_before = outs.lock().unwrap().iter().filter(|(i, _, _)| *i == id).count() > 0;
                    let (st, ty) = ctx.stray(s, victim, leader, id, prog).await; stray_log.push(format!("{s:?}@{victim} during the run -> {st} {ty}")); *dist.entry(format!("stray:{s:?}/under-way")).or_default() += 1;
                    let done_after = outs.lock().unwrap().iter().filter(|(i, _, _)| *i == id).count() > 0;
                    if !done_before && !done_after && !allowed(s).contains(&st) { bad.push(format!("{s:?} at party {victim} during the run answered {st} {ty}, want one of {:?}", allowed(s))); } }
            }
        }
        for (p, t) in tasks { match tokio::time::timeout(Duration::from_secs(70), t).await { Ok(Ok((st, ty))) => if st != 200 { bad.push(format!("schedule call of party {p} answered {st} {ty}")); }, _ => bad.push(format!("schedule call of party {p} did not return")) } }
        // every destination gets exactly one result, the right one
        let t0 = Instant::now(); let want = expected(n, prog);
        loop { let got = outs.lock().unwrap().iter().filter(|(i, _, _)| *i == id).count(); if got >= n || t0.elapsed() > Duration::from_secs(60) { break; } tokio::time::sleep(Duration::from_millis(10)).await; }
        tokio::time::sleep(Duration::from_millis(30)).await;
        for p in 0..n { let got: Vec<Value> = outs.lock().unwrap().iter().filter(|(i, q, _)| *i == id && *q == p).map(|(_, _, v)| v.clone()).collect();
            if got != vec![want.clone()] { bad.push(format!("destination of party {p} got {}, want one {want}", serde_json::to_string(&got).unwrap().chars().take(300).collect::<String>())); } }
        // the finished computation disappears from every registry (the handle is removed once the state machine has finished)
        let mut gone = vec![false; n]; let t1 = Instant::now();
        while bad.is_empty() && gone.iter().any(|g| !g) && t1.elapsed() < Duration::from_secs(10) { for p in 0..n { if !gone[p] {
            if let Ok(r) = ctx.client.post(ctx.parts[p].join("run").unwrap()).json(&RunRequest { computation_id: id }).send().await { if r.status().as_u16() == 404 { gone[p] = true; } } } } tokio::time::sleep(Duration::from_millis(15)).await; }
        if bad.is_empty() && gone.iter().any(|g| !g) { bad.push(format!("ten seconds after the results the computation is still registered at parties {:?}", (0..n).filter(|p| !gone[*p]).collect::<Vec<_>>())); }
        for p in 0..n { let h = ctx.client.get(ctx.parts[p].join("health").unwrap()).send().await; if !matches!(h, Ok(ref x) if x.status().as_u16() == 200) { bad.push(format!("server {p} is not healthy afterwards")); } }
        // replay every recorded response through the Lean model of api.rs (per-server registry)
        for o in ctx.obs.lock().unwrap().iter() { if o.id != id || o.status == 0 { continue; }
            let reply = if o.status == 200 { "ok" } else if o.typ == "StateMachineStopped" { "stopped" } else { "err" };
            let ans = m.ask(&format!("http {} req {} {} {}", o.srv, o.route, idn, reply)); steps += 1;
            let want_status = ans.split("status=").nth(1).unwrap_or("?").to_string(); let reached = ans.contains("reached=1");
            let typ_is_unknown = o.typ == "UnknownComputationId";
            if o.typ != "inferred" && (want_status != o.status.to_string() || reached == typ_is_unknown) { disagreements.push(json!({"server": o.srv, "route": o.route, "status": o.status, "type": o.typ, "model": ans, "case": case})); } }
        for p in 0..n { if gone[p] { assert_eq!(m.ask(&format!("http {p} fin {idn}")), "ok"); let ans = m.ask(&format!("http {p} req run {idn} ok")); steps += 1; if !ans.contains("status=404") { disagreements.push(json!({"server": p, "after": "fin", "model": ans})); } } }
        if std::env::var("VERIF_DEBUG").is_ok() { eprintln!("case {case} stage {stage} n {n} leader {leader}: {stray_log:?} bad={bad:?}"); }
        execs += 1; *dist.entry(format!("stage:{}", match stage { 'A' => "follower-waits", 'B' => "under-way", 'L' => "leader-first", _ => "unknown-id-first" })).or_default() += 1; *dist.entry(format!("n:{n}")).or_default() += 1;
        if !bad.is_empty() { failures.push(json!({"witness": "C14:http-stray", "failure": bad, "case": json!({"case": case, "n": n, "leader": leader, "stage": stage.to_string(), "program": prog, "strays": stray_log})})); }
        if samples.len() < 3 { samples.push(json!({"case": case, "n": n, "leader": leader, "stage": stage.to_string(), "strays": stray_log})); }
    }
    println!("{}", serde_json::to_string_pretty(&json!({"executions": execs, "distinct_nontrivial": dist.len(), "distribution": dist, "samples": samples, "model_steps_compared": steps, "model_disagreements": disagreements, "impl_vs_oracle_failures": failures})).unwrap());
    std::process::exit(0);
}
