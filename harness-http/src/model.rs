//! Pipe to the Lean model driver (`ptmodel`): one request line in, one response line out.
use std::io::{BufRead, BufReader, Write};
use std::process::{Child, ChildStdin, ChildStdout, Command, Stdio};

pub struct Model { child: Child, stdin: ChildStdin, stdout: BufReader<ChildStdout>, pub requests: u64 }
impl Model {
    pub fn spawn(path: &str) -> std::io::Result<Self> {
        let mut child = Command::new(path).stdin(Stdio::piped()).stdout(Stdio::piped()).spawn()?;
        let stdin = child.stdin.take().unwrap();
        let stdout = BufReader::new(child.stdout.take().unwrap());
        Ok(Model { child, stdin, stdout, requests: 0 })
    }
    pub fn ask(&mut self, line: &str) -> String {
        self.requests += 1;
        writeln!(self.stdin, "{line}").expect("model driver died");
        self.stdin.flush().unwrap();
        let mut resp = String::new();
        self.stdout.read_line(&mut resp).expect("model driver died");
        resp.trim_end().to_string()
    }
}
impl Drop for Model { fn drop(&mut self) { let _ = self.child.kill(); let _ = self.child.wait(); } }
