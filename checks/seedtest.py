#!/usr/bin/env python3
"""Run the registered quick checks against a seeded change: `python3 checks/seedtest.py <seed-dir-name> [props…]`.
Applies seeded/<name>/patch.diff to /repo's working tree, runs the checks of the properties listed in meta.json (or given),
records which ones report a VIOLATION into seeded/<name>/result.json, and restores /repo (git checkout -- . ; git clean of new files).
/repo must be clean when this starts. Never commits anything to /repo."""
import json, os, pathlib, subprocess, sys, time
ROOT = pathlib.Path(__file__).resolve().parent.parent
REPO = "/repo"

def sh(cmd, **kw): return subprocess.run(cmd, shell=True, capture_output=True, text=True, **kw)

def main():
    name = sys.argv[1]; d = ROOT / "seeded" / name
    meta = json.loads((d / "meta.json").read_text())
    props = sys.argv[2:] or meta["breaks"]
    if sh(f"git -C {REPO} status --porcelain --untracked-files=no").stdout.strip():
        print("/repo has uncommitted changes; refusing"); sys.exit(2)
    import shutil, tempfile
    keep = tempfile.mkdtemp(prefix="evidence_keep_", dir="/var/tmp"); shutil.copytree(ROOT / "evidence", keep + "/evidence")   # evidence of the unchanged tree must survive a seeded run
    r = sh(f"git -C {REPO} apply {d/'patch.diff'}")
    if r.returncode != 0: print("patch does not apply:", r.stderr); shutil.rmtree(keep); sys.exit(2)
    out = {}
    try:
        for p in props:
            t0 = time.time()
            r = sh(f"python3 checks/run.py {p} --tier quick", cwd=ROOT, timeout=3600)
            viol = [l for l in r.stdout.splitlines() if l.startswith("VIOLATION")]
            detail = None
            if viol:
                rp = viol[0].split("replay=")[1].split()[0]
                try:
                    j = json.loads(pathlib.Path(rp).read_text())
                    detail = (j.get("failing_inputs") or j.get("no_longer_checks") or [None])[0]
                except Exception as e: detail = str(e)
            out[p] = {"rc": r.returncode, "violation": viol[:1], "first": json.dumps(detail)[:600] if detail else None, "wall_s": round(time.time() - t0, 1)}
            print(p, "rc", r.returncode, (viol[:1] or ["-"])[0], "|", (out[p]["first"] or "")[:300])
    finally:
        sh(f"git -C {REPO} checkout -- . && git -C {REPO} clean -fdq -- src crates examples tests benches")
        shutil.rmtree(ROOT / "evidence"); shutil.copytree(keep + "/evidence", ROOT / "evidence"); shutil.rmtree(keep)
    (d / "result.json").write_text(json.dumps({"detected_by": [p for p, v in out.items() if v["rc"] != 0], "missed_by": [p for p, v in out.items() if v["rc"] == 0], "runs": out}, indent=1))

if __name__ == "__main__": main()
