#!/usr/bin/env python3
"""Self-assessment of the server harness (companion of mutate_checks.py): statement-level mutants of
crates/polytune-server-core/src/state.rs in the isolated copy /var/tmp/mut/{repo,harness-server}:
  A  a `self.state_kind = state;` (state put back after a refused command) is deleted  -> the state is lost (Default)
  B  a `return ControlFlow::Break(());` becomes `return ControlFlow::Continue(self);`   -> the actor survives an error
  C  a stand-alone `self.<helper>(…);` call is deleted                                   -> an effect is skipped
Each mutant is built and the five server drivers are run on it; a mutant no driver notices is a transition the tie does not
exercise.  Never touches /repo, never commits, not a registered check.  Report: seeded/self-mutation-server-ops.json
usage: mutate_server.py [--list] [--only N,M]"""
import json, re, subprocess, sys, time
REPO = "/var/tmp/mut/repo"; H = "/var/tmp/mut/harness-server"; F = f"{REPO}/crates/polytune-server-core/src/state.rs"; MODEL = "/verif/lean/.lake/build/bin/ptmodel"
def sh(c, cwd=None, t=3000): return subprocess.run(c, shell=True, cwd=cwd, capture_output=True, text=True, timeout=t)

def sites():
    sh("git checkout -- .", cwd=REPO); s = open(F).read().split("\n"); out = []; fn = "-"
    for i, l in enumerate(s):
        m = re.match(r'\s*(?:pub(?:\([a-z]+\))?\s+)?(?:async\s+)?fn\s+([A-Za-z0-9_]+)', l)
        if m: fn = m.group(1)
        if l.startswith("mod tests {"): break
        t = l.strip()
        if t == "self.state_kind = state;": out.append(dict(line=i + 1, fn=fn, kind="A", new="", what="state not put back"))
        elif t == "return ControlFlow::Break(());": out.append(dict(line=i + 1, fn=fn, kind="B", new=l.replace("ControlFlow::Break(())", "ControlFlow::Continue(self)"), what="Break -> Continue"))
        elif re.match(r'self\.[a-z_]+\(.*\)(\.await)?\??;$', t) and "=" not in t.split("(")[0]: out.append(dict(line=i + 1, fn=fn, kind="C", new="", what=f"deleted `{t[:60]}`"))
    return out

def main():
    a = sys.argv[1:]; S = sites()
    if "--list" in a:
        for k, x in enumerate(S): print(k, x["kind"], x["line"], x["fn"], x["what"])
        return
    only = [int(x) for x in a[a.index("--only") + 1].split(",")] if "--only" in a else None
    rep = []
    for k, x in enumerate(S):
        if only is not None and k not in only: continue
        sh("git checkout -- .", cwd=REPO); s = open(F).read().split("\n"); s[x["line"] - 1] = x["new"]; open(F, "w").write("\n".join(s)); t0 = time.time()
        b = sh("cargo build --release --offline 2>&1 | tail -2", cwd=H)
        if "Finished" not in b.stdout: rep.append({**x, "k": k, "result": "does-not-compile"}); print(k, "no-compile", x, flush=True); continue
        caught = []
        for d, c in [("C14", 40), ("C15", 16), ("C17", 22), ("C13", 12), ("C16", 24)]:
            try: r = sh(f"./target/release/ptsrvverif {d} --cases {c} --model {MODEL}", cwd=H, t=900)
            except subprocess.TimeoutExpired: caught.append(f"{d}:timeout"); break
            try: j = json.loads(r.stdout)
            except Exception: caught.append(f"{d}:crash"); break
            if j.get("impl_vs_oracle_failures") or j.get("model_disagreements"):
                caught.append(f"{d}:{(j.get('impl_vs_oracle_failures') or [{}])[0].get('witness', 'disagreement')}"); break
        rep.append({**x, "k": k, "result": "caught" if caught else "SURVIVED", "by": caught, "wall_s": round(time.time() - t0)})
        print(k, rep[-1]["result"], caught, x["kind"], x["line"], x["fn"], x["what"], flush=True)
    sh("git checkout -- .", cwd=REPO)
    out = "/verif/seeded/self-mutation-server-ops.json"; prev = []
    try: prev = [y for y in json.load(open(out)) if only is not None and y["k"] not in only]
    except Exception: pass
    json.dump(sorted(prev + rep, key=lambda y: y["k"]), open(out, "w"), indent=1)

if __name__ == "__main__": main()
