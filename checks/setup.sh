#!/bin/bash
# Builds the framework offline from files on disk: Lean library (all quick-tier theorem modules),
# the native model driver `ptmodel`, and the three Rust harnesses against /repo's working tree.
set -e
cd "$(dirname "$0")/.."
ROOT=$(pwd)
REPO=${VERIF_REPO:-/repo}
python3-vt translator/rs2lean.py $REPO/src/block/gf128.rs > lean/PolytuneModel/Gen/Gf128.lean.new && mv lean/PolytuneModel/Gen/Gf128.lean.new lean/PolytuneModel/Gen/Gf128.lean
python3 translator/rs2lean_validate.py $REPO > lean/PolytuneModel/Gen/Validate.lean.new && mv lean/PolytuneModel/Gen/Validate.lean.new lean/PolytuneModel/Gen/Validate.lean
python3 translator/checksites.py $REPO > lean/PolytuneModel/Gen/Sites.lean.new && mv lean/PolytuneModel/Gen/Sites.lean.new lean/PolytuneModel/Gen/Sites.lean
python3-vt translator/rs2lean_nat.py $REPO > lean/PolytuneModel/Gen/Arith.lean.new && mv lean/PolytuneModel/Gen/Arith.lean.new lean/PolytuneModel/Gen/Arith.lean
(cd lean && lake build ptmodel $(ls PolytuneModel/Thm/*.lean | grep -v -e C13term -e C13n3 | sed 's#/#.#g; s#\.lean$##'))
for h in harness harness-server harness-http; do
  cp $REPO/Cargo.lock $h/Cargo.lock
  (cd $h && CARGO_NET_OFFLINE=true cargo build --release --offline)
done
echo setup-ok
