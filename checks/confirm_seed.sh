#!/bin/bash
# confirm_seed.sh <seed-id>   — confirms a sub-agent's seeded change in ITS scratch worktree (/tmp/seed/<id>/wt), never in /repo:
#   demo passes on the unchanged tree, fails with the patch; the existing fast tests still pass with the patch.
# Writes /tmp/seed/<id>/confirm.json
id=$1; D=/tmp/seed/$id; WT=$D/wt; OUT=$D/out
export CARGO_TARGET_DIR=$WT/target CARGO_NET_OFFLINE=true
cd $WT || exit 2
git checkout -q -- . ; git clean -fdq -e target
cmd=$(python3 -c "import json,re;print(re.sub(r'git apply( +[^ &]+)+ *&& *','',json.load(open('$OUT/meta.json'))['demo_cmd']))")
git apply $OUT/demo.diff || { echo "demo.diff does not apply"; exit 2; }
( eval "$cmd" ) > $D/demo_clean.log 2>&1; rc_clean=$?
git apply $OUT/patch.diff || { echo "patch.diff does not apply"; exit 2; }
( eval "$cmd" ) > $D/demo_patched.log 2>&1; rc_patched=$?
# existing tests with the patch (demo removed so that only the suite as it exists runs)
git apply -R $OUT/demo.diff
( cargo test --offline -p polytune --lib && cargo test --offline -p polytune-server-core && cargo test --offline --release -p polytune --test protocol -- --skip eval_mixed_circuits ) > $D/suite_patched.log 2>&1; rc_suite=$?
if git diff --name-only | grep -q '^crates/'; then ( cargo test --offline -p polytune-http-server ) >> $D/suite_patched.log 2>&1; rc_suite=$((rc_suite + $?)); fi
git checkout -q -- . ; git clean -fdq -e target
echo "{\"id\": \"$id\", \"demo_rc_unchanged\": $rc_clean, \"demo_rc_patched\": $rc_patched, \"suite_rc_patched\": $rc_suite}" | tee $D/confirm.json
