#!/usr/bin/env python3
"""Writes /verif/MANIFEST.json from the per-property table below (kept next to checks/run.py so the two stay in step)."""
import json, pathlib, subprocess
ROOT = pathlib.Path(__file__).resolve().parent.parent

TB = ("Trusted: Lean 4.33.0 kernel; axioms of every listed theorem are audited on each run and must be a subset of {propext, Classical.choice, Quot.sound} "
      "(no sorry/admit/native_decide/bv_decide/own axioms; finite tables use decide/decide +kernel); the hand-written model is tied to /repo by the correspondence "
      "harness (real code in-process, same inputs to model and code, outputs diffed) and, for the pure functions named, by the translator that regenerates the Lean "
      "definitions from the current source; harness, translator and checks/run.py are trusted to feed both sides identically. ")

P = {
 "C01": ("Theorem C01_honest_correct (any n, any instruction list incl. register reuse, any evaluator, any coins, preprocessing by its specification), C01_batches_agree_gen and C19_mpc_use (garbler flush loop, init_and_shares flush loop and evaluator chunking coincide for every AND count, about the batch-size and chunk functions regenerated from the source); tie: real mpc under a deterministic executor vs clear-text evaluation (result level, n<=4, every tmp_dir pattern x AND counts across the batch boundary) and a three-way byte-level comparison proof-model = array model = recorded online traffic incl. every decrypted garbled row.",
         "AEAD correctness, preprocessing spec (discharged by the C10 chain C10_abit .. C10_beaver), atomic rounds (C12) and buffer refinement (C19) are hypotheses; the tie is sampled.", "4 C01"),
 "C02": ("Detect-or-extract theorems for the output opening (openReg_detect_or_extract, openOutput_sound), for the evaluator's row shares over any gate list (C02_evaluator_rows, C02_evaluator_values) and C02_agreement (all honest output parties that accept agree, any n); tie: forged output-phase bytes (one and several fields) to the real output() vs the Lean handler built from openReg + Lean bincode (verdict, error kind, register), and the oracle Ok => value in {f(x_H,x')} over forgeries of every online message with rotating adversary/victim roles.",
         "F_pre-hybrid: preprocessing material valid w.r.t. adversary's keys; label/AEAD secrecy symbolic; probability of guessing a global key not formalised (extractor exhibited).", "4 C02"),
 "C03": ("macCheck_detect_or_extract and C03_output_label: any accepted (bit,MAC)/(value,label) differing from the honest one yields the victim's global key by XOR (all positions, all n); "
         "tie: one forged authenticated field per run against the real code, the consumer must return Err; handler-level tie as C02.",
         "Row-byte tampering relies on AEAD integrity (hypothesis).", "4 C03"),
 "C04": ("C04_laand_check_value (exact value of the leaky-AND check, all n, any hash), C04_kos_check_exact (exact acceptance condition of the KOS check), C04_dm_bound/C04_open_is_committed, presence of every check site (C04_check_sites_present over the regenerated inventory), C04_cex_* for the known findings; tie: first/last/random bit flips and several simultaneous lies in every preprocessing message under rotating roles (the victim must fail in preprocessing), commit-before-reveal ordering under seeded schedules, challenge predictor vs tapped values, every commitment recomputed by the Lean BLAKE3.",
         "commit binding and hash collision freedom are hypotheses; soundness probabilities of sacrificed checks are not formalised. Known findings C04-a/b (challenge predetermined / reused) are listed, not repaired.", "4 C04"),
 "C05": ("C05_non_output_silent, C05_output_party_messages on the phase-list skeleton and C05_out_shares_recipients / C05_lambda_recipients / C05_slots_are_output_regs on the message-level proof model (any circuit, evaluator, output set); tie: recorded per-pair traffic of real runs equals the model pattern, every online message byte-equal to the proof model's.",
         "Ties are sampled (n in 2..4).", "4 C05"),
 "C06": ("C06_mask_bijective, C06_balanced_count (counting form of unbiasedness for both input values), C06_check_blinded (the aBit consistency-check message is a bijective function of the discarded surplus bits for every value of the kept bits); tie: taps show the own share is drawn fresh, message-level reproduction of masked inputs and of the real fabitn check message from the tapped coefficient seed (Lean AES); "
         "statistical supporting run (balance, fresh delta/mask vector, canary).", "Entropy of rand::random is runtime behaviour no model can exhibit: observed, not proved.", "4 C06"),
 "C07": ("C07_mac_view_independent, C07_ashare_opening_independent (re-parametrisation: view identical under any alternative key), C07_cex_ashare_offset (pinned-tree leak), C07_cex_laand_e_lie (known finding C07-b: a lie about the LaAND e bit makes the opened check value leak the key before the abort); "
         "tie: opened values of real fashare vs the Lean `opened` function; traffic scan for the tapped key (1-/2-element XOR sets, both byte orders); LaAND e-bit lies replayed on the real code.",
         "Hashed and encrypted values are opaque atoms (secrecy through BLAKE3/AES/ChaCha20 assumed).", "4 C07"),
 "C08": ("decVec_bounded/decN_length (decoder total, allocation bounded by bytes received), handler no-panic theorems with explicit panic outcomes for the aShare decommitments, d-values and the masked-inputs merge (C08_masked_no_panic) plus counterexamples for the old handlers, presence of the length guards (site inventory); tie/search: every message index x byte-level class, structure-aware classes incl. optional fields present/absent, crash points, on the real honest party under catch_unwind with a counting allocator and exact hang detection.",
         "Panics inside dependencies and real allocator behaviour are outside the model; wall-clock boundedness is observed.", "4 C08"),
 "C09": ("C09_len_value_independent, C09_len_formula, message-shape lemmas, C09_row_len: encoded length of every online message is a function of public selectors; "
         "tie: two executions per public configuration, per ordered pair the (phase,length) sequence equals the model pattern computed from public parameters only.", "Pattern tie is sampled.", "4 C09"),
 "C10": ("C10_abit (OT sessions give valid shares), C10_bucket (every bucket size), C10_beaver, C10_haand_pair, C10_laand_rel, C10_laand_valid, andOK_of_beaver, Gen_bucketSize_pos (about the regenerated bucket_size), all for arbitrary n; tie: relations checked on exported real shares (n<=5, bucket sizes 5 and 4), unit ties of combine_two_leaky_ands and of combine_bucket for every bucket size 1..8 against combineBucket, message-level reproduction of haand/flaand/dvalue/Beaver messages and final AND shares from tapped coins using the theorems' own functions.",
         "The KOS/aBit messages themselves are not recomputed by the model (result-level tie for fashare outputs).", "4 C10"),
 "C11": ("C11_cot, column_relation (correlated message at every index, hence every length), C11_in_step, C11_kos_check_honest_spec with carry-less multiplication proved bilinear and commutative; "
         "tie: real KOS sessions through the __bench re-exports at boundary and random lengths, both session orders.", "PRG/tweakable hash arbitrary functions; base OT ideal.", "4 C11"),
 "C12": ("C12_phased_no_deadlock, C12_polytune(_sequential), C12_phased_schedule_independent (any n, phases, capacity >= 1), C12_same_object, C12_stream_fits_peer_buffer (for every AND count the garbled-gate stream plus the wire-shares message fits the per-peer buffer of the server's command loop; batch-size functions and buffer capacity regenerated from the source); tie: the phase list is the object compared with the wire "
         "(pattern tie) and the program-order tie (issue/completion order of every send/receive per peer); real futures under adversarial schedules and capacities 1/2/1024 with exact deadlock detection; at the server level three real PolicyState actors with one directed link delivered only at quiescence (every link, every leader, circuits with 3 and with 9 chunks).",
         "Phased.Ok for the real program order is supported by the order tie only; tokio's scheduler is represented by the harness executor.", "4 C12"),
 "C13": ("C13_n2_reachable_ok / C13_n2_all_setups: for all 32 two-party setups every state reachable under any delivery order is good-final or has a successor (kernel-checked certificates, closed_covers); "
         "thorough adds termination (C13_n2_terminates) and n=3 instances; tie: every observed step of real PolicyState actors replayed through the Lean step function; oracle on real runs.",
         "Finite statements (n=2 all setups; n=3 by instances), labelled as such; mpc abstracted in the network model; tokio primitives as modelled.", "4 C13-C17"),
 "C14": ("C14_no_disturb (repaired configuration: a rejected command leaves the whole state untouched, all states/commands), C14_msg_no_panic, cex theorems for the pinned tree; tie: injected stray commands on real actors, "
         "steps replayed through the Lean step function.", "Single-actor theorems; network effect observed by the harness.", "4 C13-C17"),
 "C15": ("C15_current_all_schedules (every schedule of any length of actor and task: a replied cancel implies exactly one notification, task ended, permit released; never two notifications; no stuck state), counterexamples for the old single-Notify design; tie: cancel injected at quiescence and in the compile window on real actors with a destination whose notification takes time, the destination's content is snapshotted at the moment cancel returns.",
         "tokio Notify/oneshot/select semantics as documented; the Lean model is hand-written and validated by the oracle runs only; multi-threaded runtime not modelled.", "4 C13-C17"),
 "C16": ("C16_n2_mismatch_net (all 32 two-party setups with a mismatching follower, every delivery order: nobody ever runs, every terminal state has both schedule calls answered with an error), C16_mismatch_after_schedule, C16_mismatch_before_schedule, C16_illtyped on the step function; tie: mismatch scenarios on real actors (other program, near-collision programs, ill-typed, wrong leader, refused re-schedule carrying the leader's program), both arrival orders, zero MPC messages, steps replayed through the model.",
         "garble_lang::check and BLAKE3 equality are parameters.", "4 C13-C17"),
 "C17": ("C17_n2_failure_ok (all 32 two-party setups, every delivery order, any single failing validate/run/consts call: every reachable state is terminal with the caller stopped, permit-free and notified, or has a successor), C17_bound / C17_all_released (counting invariant for any number of policies on a host), network-level counterexamples for the old tree; tie: deterministic corpus and seeded RPC failures on real actors (2 and 3 parties), batches of 2..8 policies sharing semaphores with a permit snapshot at every actor step, every step replayed through the Lean step function.",
         "Finite statements for n=2 at network level; tokio Semaphore as modelled.", "4 C13-C17"),
 "C18": ("Gen.validateArgs (protocol.rs::validate regenerated by the translator) proved equal to the model (Gen_validateArgs_eq); validateArgs_ok_iff and the reject theorems for own index, evaluator index, output index, input length, empty and repeating output list, Input after a gate; C18_accepted_pout_ok; tie: every generated argument tuple's verdict and error class vs the real mpc (zero sends), non-adjacent repeats, validate-ok-but-not-wf circuits.",
         "The translator accepts a small statement subset and fails loudly outside it.", "4 C18"),
 "C19": ("C19_refines (every operation sequence, unbounded: file variant with a shared offset = memory variant, incl. chunk boundaries), C19_mpc_use (the chunks mpc appends are the chunks it later asks for, for every instruction list); tie: op sequences on both real variants and the model; mpc under every tmp_dir pattern (results, traffic equal to the all-memory run, chunk lengths tapped at the buffer vs Gen.chunkSizeIter, no file left).",
         "BufReader/BufWriter/tempfile/OS offset semantics are modelled; 'no file remains' is observed.", "4 C19"),
 "C20": ("C20_clmul64_holes (the holes multiplication regenerated from gf128.rs is the exact carry-less product, all 2^128 pairs), C20_clmul128_portable_eq_spec (portable 128x128 product = specification, unconditionally), C20_simd_eq_portable (given the intrinsic's spec), C20_ctr_single_call (AesRng model: one fill on a fresh generator = keystream prefix, any length, any parallelism), C20_transpose_portable (the algorithm of portable.rs - 16x8 blocks, byte-lane mask, 64-bit lane shifts, modelled at bit level - returns the exact transpose for every accepted shape and any output buffer; writes_in_bounds / loads_in_bounds: no slice access out of range); tie: dispatching and portable transpose/clmul, CR/TCCR hashes, AesRng single fills and call sequences vs the Lean specifications and the stateful model (Lean AES-128 passes FIPS-197); the real portable transpose also vs the algorithm model on shapes only it accepts (16..144 rows).",
         "Both transpose implementations and the AES transcription are at correspondence level only; intrinsic semantics assumed.", "4 C20"),
}

def main():
    checks = []
    for pid, (text, note, ref) in P.items():
        checks.append({"property_id": pid, "quick_cmd": f"python3 checks/run.py {pid} --tier quick", "thorough_cmd": f"python3 checks/run.py {pid} --tier thorough",
                       "evidence_file": f"evidence/{pid}.json", "replay_cmd_template": f"python3 checks/run.py {pid} --replay {{path}}", "engine": "lean-proof+correspondence",
                       "level_claimed": {"category": "proof", "text": text, "design_ref": "DESIGN.md section " + ref},
                       "level_note": TB + note, "technique": "Lean 4 theorems about a formal model + checked correspondence (differential run of model and code) + translator-regenerated definitions"})
    commits = subprocess.run("git -C /repo log --format=%H --grep='^verif hooks' ", shell=True, capture_output=True, text=True).stdout.split()
    m = {"version": 1,
         "setup_cmd": "bash checks/setup.sh",
         "hooks": {"guard": "cargo feature __verif (crates polytune and polytune-server-core)",
                   "enable": "harness crates depend on /repo by path with features [\"__bench\", \"__verif\"] (polytune) and [\"__verif\"] (polytune-server-core)",
                   "baseline_off_cmd": "cd /repo && cargo nextest run --workspace --no-fail-fast --test-threads 8 --offline || cargo test --workspace --no-fail-fast --offline",
                   "source_commits": commits, "add_only": True},
         "engines": [{"name": "lean-proof+correspondence", "path": "lean/ + harness/ + harness-server/ + translator/ + checks/run.py", "serves_properties": sorted(P),
                      "kind_free_text": "Lean 4 library PolytuneModel (model + theorems), native line-protocol driver ptmodel, Rust harnesses running the real code in-process, Python check driver"}],
         "checks": checks,
         "notes": "Every check: regenerate Gen/ from /repo, lake build the property's theorem modules, audit axioms and forbidden tokens, rebuild the harness against /repo's working tree, run corpus + generated cases, verdict. See DESIGN.md.",
         "not_applicable": []}
    (ROOT / "MANIFEST.json").write_text(json.dumps(m, indent=1) + "\n")

if __name__ == "__main__": main()
