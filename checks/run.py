#!/usr/bin/env python3
"""Check driver: `python3 checks/run.py <Cxx> [--tier quick|thorough] [--replay FILE]`.

Verdict procedure (DESIGN.md §2.3):
  1. regenerate Gen/ from /repo (translator)            -> obligation broken on failure
  2. lake build the property's theorem module + driver  -> obligation broken on failure
  3. audit: forbidden tokens, `#print axioms`           -> obligation broken on failure
  4. build the harness against /repo's working tree, run the correspondence + the property's own oracle
  5. verdict: oracle failure -> VIOLATION with replay; broken obligation/correspondence without an oracle failure
     -> VIOLATION ... no-failing-input-found; known findings are printed as KNOWN-FINDING and do not fail the run.
"""
import json, os, re, subprocess, sys, time, pathlib, shutil

ROOT = pathlib.Path(__file__).resolve().parent.parent
LEAN = ROOT / "lean"
HARNESS = ROOT / "harness"
REPO = pathlib.Path(os.environ.get("VERIF_REPO", "/repo"))
ALLOWED_AXIOMS = {"propext", "Classical.choice", "Quot.sound"}
FORBIDDEN = re.compile(r"\b(sorry|admit|native_decide|bv_decide|implemented_by|unsafe)\b|^axiom |maxHeartbeats 0", re.M)

# property -> (theorem module, theorems to audit, drive args per tier, nontrivial rule)
PROPS = {
    "C01": dict(modules=["PolytuneModel.Thm.C01", "PolytuneModel.Thm.C01batches", "PolytuneModel.Thm.GenArith", "PolytuneModel.Thm.C01tied"], theorems=["PolytuneModel.OnlineMsgs.C01_tied_model_results", "PolytuneModel.OnlineMsgs.walk_state", "PolytuneModel.C01_batches_agree_gen", "PolytuneModel.Gen_chunkSizeIter_eq", "PolytuneModel.C01_batches_agree", "PolytuneModel.C01_batches_cover", "PolytuneModel.C01_honest_correct", "PolytuneModel.step_inv", "PolytuneModel.eval_label"], drive="C01", also=["C01m", "C19m"], cases=dict(quick=60, thorough=600),
                rule="generated register circuits x inputs x n x p_eval x p_out x tmp_dir x capacity x schedule, plus AND chains on both sides of the 1000-gate batch boundary; non-trivial = has an AND gate or register reuse; distinct by (circuit, p_eval, p_out)"),
    "C02": dict(modules=["PolytuneModel.Thm.C02beaver", "PolytuneModel.Thm.C03", "PolytuneModel.Thm.C02agree", "PolytuneModel.Thm.Sites", "PolytuneModel.Thm.C02eval"], theorems=["PolytuneModel.C02_beaver_open", "PolytuneModel.C02_cex_beaver_and", "PolytuneModel.C02_beaver_rejects_flipped_d", "PolytuneModel.C02_evaluator_rows", "PolytuneModel.C02_evaluator_values", "PolytuneModel.C03_check_sites_present", "PolytuneModel.C02_agreement", "PolytuneModel.openReg_detect_or_extract", "PolytuneModel.openOutput_sound", "PolytuneModel.C02_cex_missing_output_share", "PolytuneModel.C02_fixed_rejects_missing"], drive="C03", only="C02", cases=dict(quick=1, thorough=1),
                rule="one forged field of one online message per run (13 fields x adversary role x n in {2,3} x 3 inputs); oracle: an honest Ok is f(x_H, x') for some x'; distinct by (n, phase, field, role)"),
    "C03": dict(modules=["PolytuneModel.Thm.C03broadcast", "PolytuneModel.Thm.C03", "PolytuneModel.Thm.Sites"], theorems=["PolytuneModel.Bcast.C03_broadcast_consistent", "PolytuneModel.Bcast.C03_cex_half_echo", "PolytuneModel.Bcast.C03_full_echo_rejects", "PolytuneModel.C03_check_sites_present", "PolytuneModel.macCheck_detect_or_extract", "PolytuneModel.C03_output_label", "PolytuneModel.openReg_detect_or_extract"], drive="C03", also=["C03m"], only="C03", cases=dict(quick=40, thorough=400),
                rule="one forged authenticated field per run; oracle: the consumer returns Err; distinct by (n, phase, field, role)"),
    "C04": dict(modules=["PolytuneModel.Thm.C02beaver", "PolytuneModel.Thm.C04mirror", "PolytuneModel.Thm.C04", "PolytuneModel.Thm.C04laand", "PolytuneModel.Thm.Sites", "PolytuneModel.Thm.C04kos"], theorems=["PolytuneModel.C02_beaver_open", "PolytuneModel.C02_cex_beaver_and", "PolytuneModel.C02_beaver_rejects_flipped_d", "PolytuneModel.Mirror.C04_cex_mirror", "PolytuneModel.Mirror.C04_mirror_rejected", "PolytuneModel.Mirror.C04_accept_forces_own_value", "PolytuneModel.Kos.C04_kos_check_exact", "PolytuneModel.Kos.C04_kos_wrong_t_rejected", "PolytuneModel.Kos.C04_kos_detect_or_extract", "PolytuneModel.C04_check_sites_present", "PolytuneModel.C04_laand_check_value", "PolytuneModel.C04_laand_zero", "PolytuneModel.C04_laand_detect", "PolytuneModel.C04.C04_cex_cm_unchecked", "PolytuneModel.C04.C04_dm_bound", "PolytuneModel.C04.C04_open_is_committed", "PolytuneModel.C04.C04_cex_challenge_predetermined"], drive="C04", also=["C04p", "C04m"], cases=dict(quick=30, thorough=200),
                rule="one flipped payload bit per preprocessing message (18 phases x occurrence x recipients x n), commit-before-reveal under seeded schedules, challenge predictor from wire openings vs probes; distinct by (n, phase, occurrence) / schedule"),
    "C05": dict(modules=["PolytuneModel.Thm.C05", "PolytuneModel.Thm.C05msgs"], theorems=["PolytuneModel.OnlineMsgs.C05_out_shares_recipients", "PolytuneModel.OnlineMsgs.C05_lambda_recipients", "PolytuneModel.OnlineMsgs.C05_slots_are_output_regs", "PolytuneModel.C05_non_output_silent", "PolytuneModel.C05_output_party_messages"], drive="C09", also=["C01m"], cases=dict(quick=40, thorough=400),
                rule="recorded messages per ordered pair vs model pattern; nothing to a non-output party after input processing; distinct by (circuit, p_eval, p_out)"),
    "C06": dict(modules=["PolytuneModel.Thm.C06C07", "PolytuneModel.Thm.C06abit"], theorems=["PolytuneModel.C06_check_blinded", "PolytuneModel.C06_cex_unblinded", "PolytuneModel.C06_mask_bijective", "PolytuneModel.C06_balanced_count"], drive="C06", also=["C10l"], only="C06", cases=dict(quick=400, thorough=4000),
                rule="repeated honest executions with taps; balance of revealed^others for input 0 and 1 (6 sigma), fresh delta and mask vector per party and run, 128-bit canary; distinct by run"),
    "C07": dict(modules=["PolytuneModel.Thm.C06C07", "PolytuneModel.Thm.C07laand"], theorems=["PolytuneModel.C07_cex_laand_e_lie", "PolytuneModel.C07_mac_view_independent", "PolytuneModel.C07_ashare_opening_independent", "PolytuneModel.C07_cex_ashare_offset", "PolytuneModel.C07_peers_can_compute"], drive="C07", also=["C07m"], only="C07", cases=dict(quick=100, thorough=1000),
                rule="global key (tap) searched in all sent bytes (both byte orders) and as XOR of two aligned 128-bit fields; distinct by run"),
    "C08": dict(also=["C08d"], modules=["PolytuneModel.Thm.C08", "PolytuneModel.Thm.Sites", "PolytuneModel.Thm.C08masked", "PolytuneModel.Thm.C08fpre", "PolytuneModel.Thm.C08roundtrip", "PolytuneModel.Thm.C08canon"], theorems=["PolytuneModel.Bincode.accept_iff", "PolytuneModel.Bincode.masked_accept_iff", "PolytuneModel.Bincode.canon_share_msg", "PolytuneModel.Bincode.canon_vecvec_u128", "PolytuneModel.Bincode.canon_vec", "PolytuneModel.Bincode.canon_u64", "PolytuneModel.Bincode.canon_u128", "PolytuneModel.Bincode.canon_opt", "PolytuneModel.Bincode.canon_pair", "PolytuneModel.Bincode.canon_bool", "PolytuneModel.Bincode.enc_leVal", "PolytuneModel.Bincode.rt_vec", "PolytuneModel.Bincode.rt_opt", "PolytuneModel.Bincode.rt_pair", "PolytuneModel.Bincode.rt_bool", "PolytuneModel.Bincode.decU64_enc", "PolytuneModel.Bincode.decU128_enc", "PolytuneModel.Bincode.rt_share_msg", "PolytuneModel.Bincode.rt_vecvec_u128", "PolytuneModel.Bincode.rt_masked_msg", "PolytuneModel.Bincode.rt_labels_msg", "PolytuneModel.Bincode.rt_vec_on", "PolytuneModel.Bincode.rt_injective", "PolytuneModel.Bincode.encVec_injective", "PolytuneModel.Bincode.decN_enc", "PolytuneModel.FpreCheck.C08_fpre_check_no_panic", "PolytuneModel.FpreCheck.C08_fpre_cex_unguarded", "PolytuneModel.Masked.C08_masked_no_panic", "PolytuneModel.Masked.C08_cex_masked_extra_some", "PolytuneModel.Masked.merge_inRange", "PolytuneModel.C08_length_guards_present", "PolytuneModel.decVec_bounded", "PolytuneModel.decN_length", "PolytuneModel.C08_ashare_no_panic", "PolytuneModel.C08_dvalue_no_panic", "PolytuneModel.C08_cex_ashare_dm_short", "PolytuneModel.C08_cex_dvalue_short"], drive="C08", cases=dict(quick=150, thorough=1),
                rule="every adversary message index x 8 byte-level classes (sampled in quick), structure-aware classes on nested vectors, crash after k-th message; oracle: Ok or Err, no panic, no hang, no allocation > 64x bytes + 1 MiB; distinct by (victim role, phase, class, outcome)"),
    "C09": dict(modules=["PolytuneModel.Thm.C09", "PolytuneModel.Thm.C09tied"], theorems=["PolytuneModel.OnlineMsgs.C09_tied_lengths_public", "PolytuneModel.OnlineMsgs.walk_masked_regs", "PolytuneModel.C09_len_value_independent", "PolytuneModel.C09_len_formula", "PolytuneModel.C09_shares_msg", "PolytuneModel.C09_masked_msg", "PolytuneModel.C09_labels_msg", "PolytuneModel.C09_row_len"], drive="C09", also=["C01m"], cases=dict(quick=40, thorough=400),
                rule="two executions per public configuration (different inputs and coins); per ordered pair the (phase,len) sequence vs the model's pattern of the public parameters; distinct by (circuit, p_eval, p_out)"),
    "C10": dict(modules=["PolytuneModel.Thm.C10", "PolytuneModel.Thm.C10laand", "PolytuneModel.Thm.C01C10", "PolytuneModel.Thm.GenArith", "PolytuneModel.Thm.C10abit", "PolytuneModel.Thm.C10fpre"], theorems=["PolytuneModel.C10_fpre_dealer_valid", "PolytuneModel.C10_fpre_dealer_and", "PolytuneModel.dealerAndBit_sum", "PolytuneModel.C10_fpre_cex_swapped", "PolytuneModel.C10_abit", "PolytuneModel.C10_abit_valid", "PolytuneModel.Gen_bucketSize_pos", "PolytuneModel.C10_bucket", "PolytuneModel.C10_beaver", "PolytuneModel.C10_haand_pair", "PolytuneModel.combine_two", "PolytuneModel.C10_laand_rel", "PolytuneModel.C10_laand_valid", "PolytuneModel.andOK_of_beaver"], only="C10", drive="C10", also=["C10u", "C10m", "C10l", "C19m", "C10d"], cases=dict(quick=8, thorough=40),
                rule="real coin toss + fashare + beaver_aand among n parties through wrappers; MAC relation for every ordered pair and index, AND relation for every triple, identical shared coins; distinct by (n, shares, triples)"),
    "C11": dict(modules=["PolytuneModel.Thm.C11", "PolytuneModel.Thm.C11kos"], theorems=["PolytuneModel.Kos.C11_kos_check_honest_spec", "PolytuneModel.Kos.M_comm", "PolytuneModel.Kos.clmulNat_eq_M", "PolytuneModel.OT.C11_cot", "PolytuneModel.OT.column_relation", "PolytuneModel.OT.C11_draws_agree", "PolytuneModel.OT.C11_in_step"], drive="C11", cases=dict(quick=20, thorough=1),
                rule="two back-to-back KOS sessions (both role orders) per length incl. 8k+-1, 128k+-1; all-0 / all-1 / random choices; distinct by (length, choices, order)"),
    "C12": dict(server="C12", server_cases=dict(quick=4, thorough=22), modules=["PolytuneModel.Thm.C12buffer", "PolytuneModel.Thm.C12generic", "PolytuneModel.Thm.C12rounds", "PolytuneModel.Thm.C12phases", "PolytuneModel.Thm.C12", "PolytuneModel.Thm.C12det", "PolytuneModel.Thm.C12phasesDet"], theorems=["PolytuneModel.C12_stream_fits_peer_buffer", "PolytuneModel.garbled_chunks_le_nine", "PolytuneModel.C12_stream_tight", "PolytuneModel.phasedOf_ok", "PolytuneModel.C12_polytune_sequential", "PolytuneModel.Sched.demo_ok", "PolytuneModel.Sched.C12_run_canonical", "PolytuneModel.Sched.C12_phased_schedule_independent", "PolytuneModel.C12_polytune", "PolytuneModel.C12_same_object", "PolytuneModel.Sched.min_undone_send_enabled", "PolytuneModel.Sched.min_undone_recv_enabled", "PolytuneModel.Sched.rank_increases", "PolytuneModel.Sched.C12_no_deadlock", "PolytuneModel.Sched.C12_phased_no_deadlock", "PolytuneModel.Sched.C12_cex_recv_before_send"], drive="C01", also=["C12o"], cases=dict(quick=60, thorough=600),
                rule="real mpc futures under round-robin / seeded random / starving schedules, capacities 1, 2, 1024; exact deadlock detection; at most one outstanding send and receive per peer; distinct by (circuit, p_eval, p_out) x schedule"),
    "C13": dict(modules=["PolytuneModel.Thm.C13", "PolytuneModel.Thm.C13all2", "PolytuneModel.Thm.C13reach"], thorough_modules=["PolytuneModel.Thm.C13term", "PolytuneModel.Thm.C13n3"], thorough_theorems=["PolytuneModel.Server.C13_n2_terminates", "PolytuneModel.Server.C13_n3_leader1", "PolytuneModel.Server.C13_n3_leader0_consts"], theorems=["PolytuneModel.Server.C13_n2_all_setups", "PolytuneModel.Server.C13_n2_reachable_ok", "PolytuneModel.Server.closed_covers", "PolytuneModel.Server.C13_n2_leader0", "PolytuneModel.Server.C13_n2_leader1_consts", "PolytuneModel.Server.C13_n2_both_consts_no_dest", "PolytuneModel.Server.C13_n2_complete", "PolytuneModel.Server.C13_n2_reaches_end"], server="C13", cases=dict(quick=24, thorough=200), rule="compatible policies, seeded delivery orders of validate/run/consts RPCs, leaders, destinations, constants; every observed actor step replayed through the Lean step function; distinct by delivery order"),
    "C14": dict(http="C14h", http_cases=dict(quick=18, thorough=120), modules=["PolytuneModel.Thm.C14net", "PolytuneModel.Thm.C14", "PolytuneModel.Thm.Sites", "PolytuneModel.Thm.C14http"], theorems=["PolytuneModel.Http.C14_http_registered_until_finished", "PolytuneModel.Http.C14_http_never_404_while_alive", "PolytuneModel.Http.serve_unknown", "PolytuneModel.Http.C14_http_cex_unregister_on_error", "PolytuneModel.Server.C14_cex_stray_consts", "PolytuneModel.Server.C14_stray_consts_refused", "PolytuneModel.Server.C14_n2_stray_net", "PolytuneModel.Server.C14_n2_stray_explored", "PolytuneModel.Server.C14_cex_stray_net", "PolytuneModel.C14_reply_sites_present", "PolytuneModel.Server.C14_no_disturb", "PolytuneModel.Server.C14_msg_no_panic", "PolytuneModel.Server.C14_cex_msg_oob", "PolytuneModel.Server.C14_cex_dup_schedule", "PolytuneModel.Server.C14_cex_illtyped_dup"], server="C14", cases=dict(quick=40, thorough=300), rule="one stray / malformed command injected at a seeded point of a normal run; distinct by (command, point, n)"),
    "C15": dict(http="C15h", http_cases=dict(quick=12, thorough=60), modules=["PolytuneModel.Thm.C15", "PolytuneModel.Thm.C14http"], theorems=["PolytuneModel.Http.finish_self", "PolytuneModel.Http.finish_other", "PolytuneModel.Cancel.C15_current_all_schedules", "PolytuneModel.Cancel.C15_current_sound", "PolytuneModel.Cancel.C15_current_at_most_one", "PolytuneModel.Cancel.C15_current_live", "PolytuneModel.Cancel.C15_fixpoint", "PolytuneModel.Cancel.C15_cex_notify_self", "PolytuneModel.Cancel.C15_cex_pinned_stuck"], server="C15", cases=dict(quick=60, thorough=400), rule="cancel injected at quiescence after k deliveries or a few yields after a delivery; distinct by (point, victim, n, leader)"),
    "C16": dict(modules=["PolytuneModel.Thm.C14", "PolytuneModel.Thm.Sites", "PolytuneModel.Thm.C16net", "PolytuneModel.Thm.C16general", "PolytuneModel.Thm.C16live"], theorems=["PolytuneModel.Server.C16_general_mismatch_ends", "PolytuneModel.Server.deliver_inv2", "PolytuneModel.Server.reach_inv", "PolytuneModel.Server.C16_general_mismatch_net", "PolytuneModel.Server.C16_general_mismatch_program", "PolytuneModel.Server.deliver_inv", "PolytuneModel.Server.initNetBad_inv", "PolytuneModel.Server.C16_n2_mismatch_net", "PolytuneModel.Server.C16_n2_both_orders_explored", "PolytuneModel.C16_reply_sites_present", "PolytuneModel.Server.C16_mismatch_after_schedule", "PolytuneModel.Server.C16_mismatch_before_schedule", "PolytuneModel.Server.C16_illtyped"], server="C16", cases=dict(quick=24, thorough=200), rule="program / leader mismatch or ill-typed program at one follower, both arrival orders; distinct by (kind, n, leader, follower, order)"),
    "C17": dict(http="C17h", http_cases=dict(quick=6, thorough=24), modules=["PolytuneModel.Thm.C17compile", "PolytuneModel.Thm.C14", "PolytuneModel.Thm.C17", "PolytuneModel.Thm.C17net"], theorems=["PolytuneModel.Server.C17_n2_compile_error_ok", "PolytuneModel.Server.C17_n2_compile_error_explored", "PolytuneModel.Sem.C17_bound", "PolytuneModel.Sem.C17_all_released", "PolytuneModel.Server.C17_n2_failure_ok", "PolytuneModel.Server.C17_n2_failures_explored", "PolytuneModel.Server.C17_cex_run_fail_net", "PolytuneModel.Server.C17_cex_consts_fail_net", "PolytuneModel.Server.C17_cex_run_fail_no_output"], server=["C17", "C15"], cases=dict(quick=28, thorough=120), rule="deterministic corpus (RPC kind x leader x destinations) then seeded: first validate / run / consts RPC fails, the CALLER must end, be notified and give its permit back; batches of 2..8 policies sharing the hosts' semaphores with concurrency 1..3: permit holders per host never exceed the concurrency, budget restored; distinct by (rpc, n, leader, destinations) / batch shape"),
    "C18": dict(modules=["PolytuneModel.Thm.C18", "PolytuneModel.Thm.Sites", "PolytuneModel.Thm.C18gen"], theorems=["PolytuneModel.Gen_validateArgs_eq", "PolytuneModel.C18_gen_reject_peval", "PolytuneModel.C18_gen_reject_pout_repeats", "PolytuneModel.C18_gen_accepted_ok", "PolytuneModel.C18_guard_sites_present", "PolytuneModel.validateArgs_ok_iff", "PolytuneModel.C18_reject_own_index", "PolytuneModel.C18_reject_peval", "PolytuneModel.C18_reject_pout_index", "PolytuneModel.C18_reject_input_len", "PolytuneModel.C18_reject_invalid_circuit", "PolytuneModel.C18_reject_empty_pout", "PolytuneModel.C18_reject_pout_repeats", "PolytuneModel.C18_accepted_pout_ok", "PolytuneModel.C18_input_after_gate_rejected"], drive="C18", cases=dict(quick=60, thorough=600),
                rule="one invalid argument per single-party run (10 classes), repeated output indices (all parties), validate-ok-but-not-wf circuits (5 classes); distinct by (class, circuit, indices)"),
    "C19": dict(modules=["PolytuneModel.Thm.C19", "PolytuneModel.Thm.GenArith", "PolytuneModel.Thm.C19mpc"], theorems=["PolytuneModel.C19_mpc_use", "PolytuneModel.initLoop_spec", "PolytuneModel.chunkSizeIter_regular", "PolytuneModel.Buf.C19_refines", "PolytuneModel.Buf.C19_from_new", "PolytuneModel.chunksOf_flatten", "PolytuneModel.Gen_chunkSizeIter_eq"], drive="C19", also=["C19m"], cases=dict(quick=400, thorough=6000),
                rule="seeded op sequences (non-empty appends, partial/full item reads, chunked reads, len<=12) on both real variants and the model; non-trivial = a read after an append; distinct by op sequence"),
    "C20": dict(modules=["PolytuneModel.Thm.C20avxOuter", "PolytuneModel.Thm.C20avx", "PolytuneModel.Thm.C20transpose", "PolytuneModel.Thm.C20", "PolytuneModel.Thm.C20spec", "PolytuneModel.Thm.C20holes", "PolytuneModel.Thm.C20final", "PolytuneModel.Thm.C20ctr"], theorems=["PolytuneModel.Avx.Outer.C20_transpose_avx_executable", "PolytuneModel.Avx.Outer.transposeAvxM_eq", "PolytuneModel.Avx.transpose128A_eq", "PolytuneModel.Avx.Outer.C20_transpose_avx", "PolytuneModel.Avx.Outer.C20_transpose_avx_into", "PolytuneModel.Avx.Outer.writes_in_bounds", "PolytuneModel.Avx.Outer.loads_in_bounds", "PolytuneModel.Avx.C20_avx_transpose128", "PolytuneModel.Avx.pullAll_transposes", "PolytuneModel.TransposeP.C20_transpose_portable", "PolytuneModel.TransposeP.C20_transpose_portable_into", "PolytuneModel.TransposeP.writes_in_bounds", "PolytuneModel.TransposeP.loads_in_bounds", "PolytuneModel.AesRng.C20_ctr_single_call", "PolytuneModel.Holes.C20_clmul64_holes", "PolytuneModel.C20_clmul128_portable_exact", "PolytuneModel.C20_clmul128_portable_eq_spec", "PolytuneModel.C20_simd_eq_portable", "PolytuneModel.C20_clmul128_exact", "PolytuneModel.C20_pclmul128_exact", "PolytuneModel.clmul128Spec_eq_M", "PolytuneModel.C20_scalar_eq_simd", "PolytuneModel.karatsuba_mid"], drive="C20", cases=dict(quick=30, thorough=60), rule="transpose shapes 128 x c and random (single-bit, all-ones, random; unaligned), clmul basis / sparse / dense / random pairs, CR / TCCR hashes, AesRng fills of every sampled length; both dispatching and portable paths vs the Lean definitions; distinct by input"),
}

def sh(cmd, cwd=None, timeout=3600, env=None):
    e = dict(os.environ); e.update(env or {})
    p = subprocess.run(cmd, cwd=cwd, shell=True, capture_output=True, text=True, timeout=timeout, env=e)
    return p.returncode, p.stdout, p.stderr

def strip_comments(src):
    src = re.sub(r"/-.*?-/", "", src, flags=re.S)
    return re.sub(r"--.*", "", src)

def audit(prop):
    problems = []
    for f in LEAN.rglob("*.lean"):
        if ".lake" in f.parts: continue
        m = FORBIDDEN.search(strip_comments(f.read_text()))
        if m: problems.append(f"forbidden token {m.group(0)!r} in {f.relative_to(LEAN)}")
    thms = PROPS[prop]["theorems"]
    axioms = {}
    if thms:
        src = "".join(f"import {m}\n" for m in PROPS[prop]['modules']) + "".join(f"#print axioms {t}\n" for t in thms)
        tmp = LEAN / f".audit_{prop}.lean"; tmp.write_text(src)
        rc, out, err = sh(f"lake env lean {tmp.name}", cwd=LEAN, timeout=900); tmp.unlink()
        if rc != 0: problems.append("audit file does not check: " + (out + err)[-400:])
        for t in thms:
            m = re.search(re.escape(t) + r"' (does not depend on any axioms|depends on axioms: \[(.*?)\])", out)
            if not m: problems.append(f"no axiom report for {t}"); continue
            ax = set(a.strip() for a in (m.group(2) or "").split(",") if a.strip()); axioms[t] = sorted(ax)
            if not ax <= ALLOWED_AXIOMS: problems.append(f"{t} uses axioms {sorted(ax - ALLOWED_AXIOMS)}")
    return problems, axioms

def known_findings(prop):
    f = ROOT / "known_findings.txt"; out = []
    if f.exists():
        for line in f.read_text().splitlines():
            m = re.match(r"known: property=(\S+) (\S+) (.*)", line)
            if m and m.group(1) == prop: out.append((m.group(2), m.group(3)))
    return out

def main():
    prop = sys.argv[1]; tier = os.environ.get("VERIF_TIER", "quick")
    if "--tier" in sys.argv: tier = sys.argv[sys.argv.index("--tier") + 1]
    seed = int(os.environ.get("VERIF_SEED", "1")); t0 = time.time(); cfg = PROPS[prop]
    if "--replay" in sys.argv:
        # a replay file records (property, seed, tier) and the failing inputs / broken obligations; every random choice of the harness derives from
        # the seed, so re-running the check with the recorded seed and tier re-executes exactly the recorded cases against the current tree
        rp = json.loads(pathlib.Path(sys.argv[sys.argv.index("--replay") + 1]).read_text())
        if rp.get("property") != prop: print(f"replay file is for {rp.get('property')}, not {prop}"); sys.exit(2)
        seed, tier = int(rp.get("seed", seed)), rp.get("tier", tier)
        print(f"replaying {prop} with seed={seed} tier={tier}; recorded: " + json.dumps((rp.get("failing_inputs") or rp.get("no_longer_checks") or [None])[0])[:600])
    # one build at a time: concurrent checks share the lake build directory and the cargo target directories
    import fcntl
    lock = open(ROOT / ".build.lock", "w"); fcntl.flock(lock, fcntl.LOCK_EX)
    if tier == "thorough":      # slow kernel evaluations live in separate modules
        cfg["modules"] = cfg["modules"] + cfg.get("thorough_modules", []); cfg["theorems"] = cfg["theorems"] + cfg.get("thorough_theorems", [])
    broken = []           # broken proof obligations / correspondence
    # 1. translator: regenerate the Gen/ definitions from the current sources (written only when the text changes, so lake rebuilds only dependents of a change)
    for script, arg, target, must in [("rs2lean.py", f"{REPO}/src/block/gf128.rs", "Gf128.lean", "def clmul128"), ("rs2lean_nat.py", f"{REPO}", "Arith.lean", "def bucketSize"), ("checksites.py", f"{REPO}", "Sites.lean", "def errSites"), ("rs2lean_validate.py", f"{REPO}", "Validate.lean", "def validateArgs")]:
        rct, outt, errt = sh(f"python3-vt {ROOT}/translator/{script} {arg}", timeout=300)
        if rct != 0 or must not in outt: broken.append({"kind": "translator", "what": f"{script} failed on the current sources (construct outside the accepted subset, or item missing)", "log": (outt + errt)[-800:]})
        else:
            tgt = LEAN / "PolytuneModel" / "Gen" / target
            if not tgt.exists() or tgt.read_text() != outt: tgt.write_text(outt)
    # 2. proofs
    rc, out, err = sh(f"lake build {' '.join(cfg['modules'])} ptmodel", cwd=LEAN, timeout=3000)
    if rc != 0: broken.append({"kind": "theorem", "what": f"lake build {cfg['modules']} failed", "log": (out + err)[-1500:]})
    # 3. audit
    problems, axioms = audit(prop) if rc == 0 else ([], {})
    for p in problems: broken.append({"kind": "audit", "what": p})
    # 3b. thorough tier: the compiled theorem modules are re-checked by the toolchain's independent checker
    rechecked = []
    if tier == "thorough" and rc == 0:
        for mod in cfg["modules"]:
            rcl, outl, errl = sh(f"lake env leanchecker {mod}", cwd=LEAN, timeout=3000)
            if rcl != 0: broken.append({"kind": "leanchecker", "what": f"leanchecker rejects {mod}", "log": (outl + errl)[-600:]})
            else: rechecked.append(mod)
    # 4. harnesses against the current working tree
    results = []
    runs = []   # (harness dir, command)
    n = cfg["cases"][tier]; extra = " --thorough" if tier == "thorough" else ""
    if "drive" in cfg: runs += [(ROOT / "harness", f"./target/release/drive {d} --cases {n}{extra}") for d in [cfg["drive"]] + cfg.get("also", [])]
    if "server" in cfg:
        ns = cfg.get("server_cases", cfg["cases"])[tier]
        runs += [(ROOT / "harness-server", f"./target/release/ptsrvverif {sv} --cases {ns}") for sv in ([cfg["server"]] if isinstance(cfg["server"], str) else cfg["server"])]
    if "http" in cfg: runs += [(ROOT / "harness-http", f"./target/release/pthttpverif {cfg['http']} --cases {cfg['http_cases'][tier]}")]
    built = {}
    for hdir in dict.fromkeys(h for h, _ in runs):
        shutil.copy(REPO / "Cargo.lock", hdir / "Cargo.lock")
        rc2, out2, err2 = sh("cargo build --release --offline", cwd=hdir, timeout=3000, env={"CARGO_NET_OFFLINE": "true"}); built[hdir] = rc2 == 0
        if rc2 != 0: broken.append({"kind": "harness-build", "what": f"{hdir.name} does not build against /repo", "log": err2[-1500:]})
    fcntl.flock(lock, fcntl.LOCK_UN)
    for hdir, cmd in runs:
        if not built[hdir]: continue
        rc3, out3, err3 = sh(cmd + f" --model {LEAN}/.lake/build/bin/ptmodel", cwd=hdir, timeout=7200, env={"VERIF_SEED": str(seed)})
        try: results.append(json.loads(out3))
        except Exception: broken.append({"kind": "harness-run", "what": f"`{cmd}` produced no JSON", "log": (out3 + err3)[-1500:]})
    result = {"executions": sum(r.get("executions", r.get("cases", 0)) for r in results), "distinct_nontrivial": sum(r.get("distinct_nontrivial", 0) for r in results),
              "samples": [x for r in results for x in r.get("samples", [])][:4], "distribution": {k: v for r in results for k, v in r.get("distribution", {}).items()},
              "model_disagreements": [x for r in results for x in r.get("model_disagreements", [])],
              "impl_vs_oracle_failures": [x for r in results for x in r.get("impl_vs_oracle_failures", []) if cfg.get("only") in (None, x.get("property", cfg.get("only")))]} if results else None
    disagreements = (result or {}).get("model_disagreements", []); failures = (result or {}).get("impl_vs_oracle_failures", [])
    for d in disagreements: broken.append({"kind": "correspondence", "what": d})
    # 5. verdict
    known = known_findings(prop); violations = 0; lines = []
    (ROOT / "replays").mkdir(exist_ok=True); (ROOT / "evidence").mkdir(exist_ok=True)
    unlisted = []
    for f in failures:
        wid = f.get("witness")
        hit = next((k for k in known if k[0] == wid), None)
        if hit:
            l = f"KNOWN-FINDING: property={prop} {hit[1]}"
            if l not in lines: lines.append(l)
        else: unlisted.append(f)
    if unlisted:
        rp = ROOT / "replays" / f"{prop}-{seed}.json"; rp.write_text(json.dumps({"property": prop, "seed": seed, "tier": tier, "failing_inputs": unlisted[:5], "broken": broken[:5]}, indent=1))
        lines.append(f"VIOLATION property={prop} replay={rp}"); violations = len(unlisted)
    elif broken:
        rp = ROOT / "replays" / f"{prop}-{seed}.json"; rp.write_text(json.dumps({"property": prop, "seed": seed, "tier": tier, "no_longer_checks": broken[:10]}, indent=1))
        lines.append(f"VIOLATION property={prop} replay={rp} no-failing-input-found"); violations = 1
    obligations = len(cfg["theorems"]) + 1 + (result or {}).get("executions", (result or {}).get("cases", 0))
    discharged = obligations - len(broken)
    ev = {"property_id": prop, "tier": tier, "seed": seed, "level": "proof", "wall_s": round(time.time() - t0, 2), "violations": violations,
          "coverage": {"obligations": obligations, "discharged": max(discharged, 0), "checker_cmd": f"cd lean && lake build {' '.join(cfg['modules'])} && lake env lean <#print axioms of the listed theorems>",
                       "trusted_base": ["Lean 4.33.0 kernel", "axioms: " + json.dumps(axioms), "harness + ptmodel driver (correspondence)", "see DESIGN.md §6"],
                       "evaluations": (result or {}).get("executions", (result or {}).get("cases", 0)), "distinct_nontrivial": (result or {}).get("distinct_nontrivial", 0), "rule": cfg["rule"],
                       "samples": (result or {}).get("samples", []), "distribution": (result or {}).get("distribution", {}),
                       "model_vs_impl_disagreements": len(disagreements), "impl_vs_oracle_failures": len(failures), "theorems": cfg["theorems"], "leanchecker_rechecked_modules": rechecked},
          "assumptions": ["model tied to code by sampled correspondence only", "see DESIGN.md per-property 'Partial/assumed'"]}
    (ROOT / "evidence" / f"{prop}.json").write_text(json.dumps(ev, indent=1))
    for l in lines: print(l)
    print(f"{prop} {tier}: obligations={obligations} discharged={discharged} disagreements={len(disagreements)} oracle_failures={len(failures)} wall={ev['wall_s']}s")
    sys.exit(1 if violations else 0)

if __name__ == "__main__": main()
