#!/bin/bash
# take_seed.sh <id> [props…] : copy a sub-agent's deliverables into /verif/seeded/<id>, start its confirmation in the background, run the checks against it
id=$1; shift
mkdir -p /verif/seeded/$id && cp /tmp/seed/$id/out/patch.diff /tmp/seed/$id/out/demo.diff /verif/seeded/$id/ || exit 2
python3 - $id "$@" <<'PY'
import json,sys
id=sys.argv[1]; props=sys.argv[2:]; m=json.load(open(f'/tmp/seed/{id}/out/meta.json'))
json.dump({"kind":"sub-agent","breaks":props or [m["property"]],"property":m["property"],"summary":m.get("summary"),"needs":m.get("needs_to_manifest"),"demo_cmd":m.get("demo_cmd"),"agent_meta":m}, open(f'/verif/seeded/{id}/meta.json','w'), indent=1)
PY
(bash /verif/checks/confirm_seed.sh $id > /tmp/seed/$id/confirm.out 2>&1; cp /tmp/seed/$id/confirm.json /verif/seeded/$id/confirm.json) &
cd /verif && python3 checks/seedtest.py $id "$@" | cut -c1-900
