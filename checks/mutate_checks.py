#!/usr/bin/env python3
"""Self-assessment of the harnesses: disable ONE error-returning guard of the protocol sources at a time (`if C { return Err(..) }` becomes
`if false && (C) { … }`), in an isolated copy of the repository (/var/tmp/mut/repo, a git worktree) with an isolated copy of the engine harness,
and run the drivers of the properties that guard belongs to. A guard whose removal no driver notices is a check the tie does not exercise.
This never touches /repo, never commits anything, and is not a registered check; its report (seeded/self-mutation.json) lists the survivors.
usage: mutate_checks.py [--files faand.rs,protocol.rs,kos.rs] [--only N,M,…] [--list]"""
import json, os, re, subprocess, sys, time
MUT = "/var/tmp/mut"; REPO = f"{MUT}/repo"; H = f"{MUT}/harness"; MODEL = "/verif/lean/.lake/build/bin/ptmodel"
FILES = {"faand.rs": "src/mpc/faand.rs", "protocol.rs": "src/mpc/protocol.rs", "kos.rs": "src/ot_core/kos.rs", "alsz.rs": "src/ot_core/alsz.rs", "channel.rs": "src/channel.rs"}
DRIVERS = {"faand.rs": ["C04", "C08", "C03", "C07m"], "protocol.rs": ["C03", "C08", "C18", "C04"], "kos.rs": ["C04", "C11", "C08"], "alsz.rs": ["C08", "C04"], "channel.rs": ["C08", "C04"]}
KNOWN = {"C04-a:challenge-predetermined", "C04-b:chi-reused", "C07-b:laand-e-lie-leaks-on-abort"}

def guards(path):
    src = open(path).read().split("\n"); out = []; fn = "-"
    i = 0
    while i < len(src):
        l = src[i]; m = re.match(r'\s*(?:pub(?:\([a-z]+\))?\s+)?(?:async\s+)?fn\s+([A-Za-z0-9_]+)', l)
        if m: fn = m.group(1)
        if "#[cfg(test)]" in l: break
        s = l.strip()
        if (s.startswith("if ") or s.startswith("} else if ")) and not s.startswith("if let") and "else if let" not in s:
            # the condition runs to the line that ends with `{`
            j = i
            while not src[j].rstrip().endswith("{") and j < i + 8: j += 1
            body = "\n".join(src[j + 1:j + 7])
            mret = re.match(r'\s*return Err\(([^;]*)\);\s*\n\s*\}', body, re.S)
            if mret and src[j].rstrip().endswith("{"):
                cond = " ".join(x.strip() for x in src[i:j + 1]); cond = re.sub(r'^(\} else )?if ', '', cond)[:-1].strip()
                out.append({"file": path, "line": i + 1, "end": j + 1, "fn": fn, "cond": cond, "err": " ".join(mret.group(1).split())[:80], "elseif": s.startswith("} else if ")})
            i = j
        i += 1
    return out

def apply(g):
    src = open(g["file"]).read().split("\n"); pre = "} else if " if g["elseif"] else "if "
    indent = re.match(r'\s*', src[g["line"] - 1]).group(0)
    cond = g.get("newcond") or f"false && ({g['cond']})"
    src[g["line"] - 1:g["end"]] = [f"{indent}{pre}{cond} {{"]
    open(g["file"], "w").write("\n".join(src))

def split_top(cond, op):
    """split at the first top-level occurrence of `op` (not inside parentheses / brackets / braces / closures)"""
    depth = 0
    for i in range(len(cond) - 1):
        c = cond[i]
        if c in "([{": depth += 1
        elif c in ")]}": depth -= 1
        elif depth == 0 and cond[i:i + 2] == op and (op != "||" or cond[max(0, i - 1)] != "|"): return cond[:i].strip(), cond[i + 2:].strip()
    return None

def operator_variants(g):
    out = []
    for op, other in (("||", "&&"), ("&&", "||")):
        sp = split_top(g["cond"], op)
        if sp and not (op == "||" and "|row|" in g["cond"][:0]):
            a, b = sp
            out.append({**g, "newcond": f"({a}) {other} ({b})", "variant": f"first `{op}` -> `{other}`"})
            if op == "||":
                out.append({**g, "newcond": a, "variant": "second disjunct dropped"}); out.append({**g, "newcond": b, "variant": "first disjunct dropped"})
    return out

def sh(cmd, cwd=None, timeout=1800):
    return subprocess.run(cmd, shell=True, cwd=cwd, capture_output=True, text=True, timeout=timeout)

def main():
    files = ["faand.rs", "protocol.rs", "kos.rs"]; only = None; lst = False
    a = sys.argv[1:]
    if "--files" in a: files = a[a.index("--files") + 1].split(",")
    if "--only" in a: only = [int(x) for x in a[a.index("--only") + 1].split(",")]
    if "--list" in a: lst = True
    ops = "--ops" in a
    allg = []
    for f in files:
        for g in guards(f"{REPO}/{FILES[f]}"):
            g["short"] = f
            if ops: allg += operator_variants(g)
            else: allg.append(g)
    if lst:
        for k, g in enumerate(allg): print(k, g["short"], g["line"], g["fn"], "|", (g.get("variant", "") + " :: " + g.get("newcond", g["cond"]))[:120], "=>", g["err"][:40])
        return
    report = []
    for k, g in enumerate(allg):
        if only is not None and k not in only: continue
        sh("git checkout -- .", cwd=REPO); apply(g); t0 = time.time()
        b = sh("cargo build --release --offline 2>&1 | tail -3", cwd=H)
        if "error" in b.stdout and "Finished" not in b.stdout: report.append({**g, "k": k, "result": "does-not-compile", "log": b.stdout[-300:]}); print(k, "no-compile", g["fn"], g["cond"][:60]); continue
        caught = []
        for d in DRIVERS[g["short"]]:
            try: r = sh(f"./target/release/drive {d} --seed 1 --cases {12 if d in ('C04','C07m') else 60} --model {MODEL}", cwd=H, timeout=900)
            except subprocess.TimeoutExpired: caught.append(f"{d}:timeout"); break
            try: j = json.loads(r.stdout)
            except Exception: caught.append(f"{d}:crash"); break
            fails = [f for f in j.get("impl_vs_oracle_failures", []) if f.get("witness") not in KNOWN]
            if fails or j.get("model_disagreements"): caught.append(f"{d}:{(fails or [{}])[0].get('witness', 'disagreement')}"); break
        report.append({**g, "k": k, "result": "caught" if caught else "SURVIVED", "by": caught, "wall_s": round(time.time() - t0)})
        print(k, report[-1]["result"], caught, "|", g["short"], g["line"], g["fn"], "|", (g.get("variant", "") + " " + g.get("newcond", g["cond"]))[:100], "=>", g["err"][:40], flush=True)
    sh("git checkout -- .", cwd=REPO)
    out = "/verif/seeded/self-mutation-operators.json" if ops else "/verif/seeded/self-mutation.json"; prev = []
    if only is not None and os.path.exists(out): prev = [x for x in json.load(open(out)) if x["k"] not in only]
    json.dump(sorted(prev + report, key=lambda x: x["k"]), open(out, "w"), indent=1)

if __name__ == "__main__": main()
