//! Harness for polytune-server-core: real `PolicyState` actors, in-process `PolicyClient` whose coordination RPCs
//! (validate / run / consts) are released one at a time by a seeded explorer; failure, stray-command and cancel injection.
mod model;
use garble_lang::literal::Literal;
use polytune_server_core::*;
use serde_json::json;
use std::{collections::{BTreeMap, HashMap}, sync::{atomic::{AtomicUsize, Ordering}, Arc, Mutex, OnceLock}, time::Duration};
use tokio::sync::{oneshot, Semaphore};
use url::Url;
use uuid::Uuid;

#[derive(Clone)]
struct Rng(u64);
impl Rng {
    fn new(s: u64) -> Self { Rng(s ^ 0x9E37_79B9_7F4A_7C15) }
    fn next(&mut self) -> u64 { self.0 = self.0.wrapping_add(0x9E37_79B9_7F4A_7C15); let mut z = self.0; z = (z ^ (z >> 30)).wrapping_mul(0xBF58_476D_1CE4_E5B9); z = (z ^ (z >> 27)).wrapping_mul(0x94D0_49BB_1331_11EB); z ^ (z >> 31) }
    fn below(&mut self, n: u64) -> u64 { if n == 0 { 0 } else { self.next() % n } }
    fn bool(&mut self) -> bool { self.next() & 1 == 1 }
}

#[derive(Debug, thiserror::Error)]
#[error("{0}")]
struct E(String);

/// a coordination RPC waiting for the explorer
struct Pending { from: usize, to: usize, kind: &'static str, go: oneshot::Sender<bool> }   // bool: deliver (true) or fail (false)

#[derive(Default)]
struct Shared {
    handles: OnceLock<Vec<PolicyStateHandle>>,
    pending: Mutex<Vec<Pending>>,
    outputs: Mutex<Vec<(usize, String)>>,           // (party, rendered result) in arrival order
    events: Mutex<Vec<String>>,
    msgs: AtomicUsize,
    controlled: bool,
    idb: usize,                                     // observer id of party 0 of this policy (batches: 10 * policy index)
    held: Mutex<std::collections::VecDeque<(usize, MpcMsg, oneshot::Sender<Result<(), E>>)>>,   // MPC messages of the slow link, in sending order
}
/// (from, to): MPC messages on this link are handed over only when the rest of the system has stopped moving (C12, server level)
static SLOW: Mutex<Option<(usize, usize)>> = Mutex::new(None);
/// the MPC message links go DOWN (every `msg` call fails, in every direction) once this many MPC messages have been delivered in the scenario
static LINK_DOWN_AFTER: Mutex<Option<usize>> = Mutex::new(None);
/// the FIRST notification this party sends to its destination arrives (is recorded) but the call reports an error (the response was lost)
static OUTPUT_FLAKY: Mutex<Option<usize>> = Mutex::new(None);
/// parties one of whose `msg` calls has failed because the links are down
static LINK_FAILED: Mutex<Vec<usize>> = Mutex::new(Vec::new());
#[derive(Clone)]
struct Cl { sh: Arc<Shared>, me: usize }
impl PolicyClientBuilder for Cl { type Client = Cl; fn new_client(&self, _p: &Policy) -> Cl { self.clone() } }
fn m<T: std::fmt::Debug>(r: Result<(), HandleError<T>>) -> Result<(), E> { r.map_err(|e| E(format!("{e:?}"))) }
impl Cl {
    async fn gate(&self, to: usize, kind: &'static str) -> Result<(), E> {
        self.sh.events.lock().unwrap().push(format!("call {kind} {}->{to}", self.me));
        if !self.sh.controlled { return Ok(()); }
        let (tx, rx) = oneshot::channel();
        self.sh.pending.lock().unwrap().push(Pending { from: self.me, to, kind, go: tx });
        match rx.await { Ok(true) => Ok(()), _ => Err(E(format!("injected failure of {kind} {}->{to}", self.me))) }
    }
}
/// when set, the RESPONSE of every coordination RPC is a separate event the explorer releases (a response may be slower than the peer's next request)
static REPLY_GATES: std::sync::atomic::AtomicBool = std::sync::atomic::AtomicBool::new(false);
impl Cl {
    async fn reply_gate(&self, to: usize, kind: &'static str) { if REPLY_GATES.load(Ordering::SeqCst) { let _ = self.gate(to, kind).await; } }
}
impl PolicyClient for Cl {
    type Error = E;
    async fn validate(&self, to: usize, req: ValidateRequest) -> Result<(), E> { self.gate(to, "validate").await?; let r = m(self.sh.handles.get().unwrap()[to].validate(req).await); self.reply_gate(to, "validate-reply").await; r }
    async fn run(&self, to: usize, req: RunRequest) -> Result<(), E> { self.gate(to, "run").await?; let r = m(self.sh.handles.get().unwrap()[to].run(req).await); self.reply_gate(to, "run-reply").await; r }
    async fn consts(&self, to: usize, req: ConstsRequest) -> Result<(), E> { self.gate(to, "consts").await?; let r = m(self.sh.handles.get().unwrap()[to].consts(req).await); self.reply_gate(to, "consts-reply").await; r }
    async fn msg(&self, to: usize, msg: MpcMsg) -> Result<(), E> {
        if *SLOW.lock().unwrap() == Some((self.me, to)) { let (tx, rx) = oneshot::channel(); self.sh.held.lock().unwrap().push_back((to, msg, tx)); return rx.await.unwrap_or_else(|_| Err(E("slow link dropped".into()))); }
        if let Some(k) = *LINK_DOWN_AFTER.lock().unwrap() { if self.sh.msgs.load(Ordering::SeqCst) >= k { let mut f = LINK_FAILED.lock().unwrap(); if !f.contains(&self.me) { f.push(self.me); } return Err(E("link down".into())); } }
        self.sh.msgs.fetch_add(1, Ordering::SeqCst); m(self.sh.handles.get().unwrap()[to].mpc_msg(msg).await) }
    async fn output(&self, _to: Url, result: Result<Literal, OutputError>) -> Result<(), E> {
        let s = match result { Ok(l) => format!("Ok({l})"), Err(OutputError::Cancelled) => "Cancelled".to_string(), Err(e) => format!("Err({})", e.to_string().chars().take(60).collect::<String>()) };
        // a real destination is a network call: the notification has been delivered only when this future completes
        tokio::time::sleep(Duration::from_millis(6)).await;
        self.sh.events.lock().unwrap().push(format!("output {} {s}", self.me)); self.sh.outputs.lock().unwrap().push((self.me, s));
        // batches: the completed delivery takes its place in the global sequence of actor steps
        { let snap: Vec<usize> = SEMS.lock().unwrap().iter().map(|s| s.available_permits()).collect(); OBS2.lock().unwrap().push((self.sh.idb + self.me, "OutputDelivered".into(), String::new(), String::new(), snap)); }
        { let mut f = OUTPUT_FLAKY.lock().unwrap(); if *f == Some(self.me) { *f = None; return Err(E("response lost".into())); } }
        Ok(())
    }
}

const P2: &str = "pub fn main(a: u8, b: u8) -> u8 { a + b }";
const P3: &str = "pub fn main(a: u8, b: u8, c: u8) -> u8 { a + b + c }";
// same text up to the position of one line break: in the B variant the `+ b` is part of the comment, so the programs compute different functions
const NL_A2: &str = "pub fn main(a: u8, b: u8) -> u8 {\n    a // lhs\n    + b\n}";
const NL_B2: &str = "pub fn main(a: u8, b: u8) -> u8 {\n    a // lhs    + b\n}";
const NL_A3: &str = "pub fn main(a: u8, b: u8, c: u8) -> u8 {\n    a + c // lhs\n    + b\n}";
const NL_B3: &str = "pub fn main(a: u8, b: u8, c: u8) -> u8 {\n    a + c // lhs    + b\n}";
const P3C: &str = "const K: u8 = PARTY_0::K;\npub fn main(a: u8, b: u8, c: u8) -> u8 { a + b + c + K }";
const P3C2: &str = "const K: u8 = PARTY_0::K;\nconst L: u8 = PARTY_2::L;\npub fn main(a: u8, b: u8, c: u8) -> u8 { a + b + c + K + L }";
const P2C: &str = "const K: u8 = PARTY_0::K;\npub fn main(a: u8, b: u8) -> u8 { a + b + K }";
fn policy(n: usize, party: usize, leader: usize, out: bool, id: Uuid, prog: &str, consts: bool) -> Policy {
    let mut constants = HashMap::new(); if consts && party == 0 && prog.contains("PARTY_0::K") { constants.insert(if WRONG_CONST.load(Ordering::SeqCst) { "M" } else { "K" }.to_string(), Literal::from(5u8)); }
    if consts && party == 2 && prog.contains("PARTY_2::L") { constants.insert("L".to_string(), Literal::from(5u8)); }
    Policy { computation_id: id, participants: (0..n).map(|i| Url::parse(&format!("http://h{i}")).unwrap()).collect(), program: prog.to_string(), leader, party,
        input: if *BAD_INPUT.lock().unwrap() == Some(party) { Literal::True } else { Literal::from((party as u8) + 3) }, output: if out { Some(Url::parse(&format!("http://out{party}")).unwrap()) } else { None }, constants }
}
fn expected_prog(n: usize, prog: &str) -> String { let s: u8 = (0..n as u8).map(|p| p + 3).sum::<u8>() + 5 * prog.matches("= PARTY_").count() as u8; format!("Ok({s})") }
fn expected(n: usize, consts: bool) -> String { let s: u8 = (0..n as u8).map(|p| p + 3).sum::<u8>() + if consts { 5 } else { 0 }; format!("Ok({s})") }

struct Sys { sh: Arc<Shared>, handles: Vec<PolicyStateHandle>, joins: Vec<tokio::task::JoinHandle<()>>, sems: Vec<Arc<Semaphore>> }
fn sys(n: usize, conc: usize, controlled: bool) -> Sys { sys_with((0..n).map(|_| Arc::new(Semaphore::new(conc))).collect(), 0, controlled) }
/// one policy's actors on hosts that share the given per-host semaphores with other policies; observer ids are `id_base + party`
fn sys_with(sems: Vec<Arc<Semaphore>>, id_base: usize, controlled: bool) -> Sys {
    let n = sems.len(); let sh = Arc::new(Shared { controlled, idb: id_base, ..Default::default() }); let (mut hs, mut js) = (vec![], vec![]);
    for me in 0..n { let (st, h) = PolicyState::new(Cl { sh: sh.clone(), me }, sems[me].clone()); let st = st.with_verif_id(id_base + me); js.push(tokio::spawn(st.start())); hs.push(h); }
    sh.handles.set(hs.clone()).ok(); Sys { sh, handles: hs, joins: js, sems }
}
async fn settle() { for _ in 0..40 { tokio::task::yield_now().await; } tokio::time::sleep(Duration::from_millis(3)).await; for _ in 0..40 { tokio::task::yield_now().await; } }

/// release pending coordination RPCs one at a time in a seeded random order until nothing is pending for a while
async fn explore(s: &Sys, r: &mut Rng, fail: Option<(&'static str, usize)>, mut hook: impl FnMut(usize, u64) -> Option<Inject>, max_wait_ms: u64) -> Vec<String> { explore2(s, r, fail, hook, |_| None, max_wait_ms).await }
async fn explore2(s: &Sys, r: &mut Rng, fail: Option<(&'static str, usize)>, mut hook: impl FnMut(usize, u64) -> Option<Inject>, mut fast: impl FnMut(usize) -> Option<(usize, Inject)>, max_wait_ms: u64) -> Vec<String> {
    let mut log = vec![]; let mut idle = 0u64; let mut step = 0usize; let mut nth: HashMap<&'static str, usize> = HashMap::new();
    loop {
        settle().await;
        if let Some(inj) = hook(step, idle) { log.push(format!("inject@{step} {inj:?}")); do_inject(s, inj, &mut log).await; }
        let next = { let mut p = s.sh.pending.lock().unwrap(); let held = *HOLD.lock().unwrap();
            let cand: Vec<usize> = (0..p.len()).filter(|i| !matches!(held, Some((k, f, t)) if k == p[*i].kind && f == p[*i].from && t == p[*i].to)).collect();
            if cand.is_empty() { None } else { let i = cand[r.below(cand.len() as u64) as usize]; Some(p.remove(i)) } };
        match next {
            Some(p) => { idle = 0; step += 1; let k = { let e = nth.entry(p.kind).or_insert(0); *e += 1; *e - 1 };
                let deliver = !matches!(fail, Some((kind, j)) if kind == p.kind && j == k);
                log.push(format!("{} {} {}->{}", if deliver { "deliver" } else { "FAIL" }, p.kind, p.from, p.to)); let _ = p.go.send(deliver);
                if let Some((yields, inj)) = fast(step) { for _ in 0..yields { tokio::task::yield_now().await; } log.push(format!("inject-fast@{step}+{yields}y {inj:?}")); do_inject(s, inj, &mut log).await; } }
            None => { idle += 1; if s.joins.iter().all(|j| j.is_finished()) || idle * 4 > max_wait_ms { break; } tokio::time::sleep(Duration::from_millis(4)).await; }
        }
    }
    log
}
/// a coordination RPC (kind, from, to) that the explorer does not release while this is set
static HOLD: Mutex<Option<(&'static str, usize, usize)>> = Mutex::new(None);
#[derive(Debug, Clone)]
enum Inject { Cancel(usize), MsgSelf(usize), MsgOob(usize), DupSchedule(usize, bool), DupScheduleOob(usize, usize), StrayRun(usize), StrayConsts(usize), StrayValidate(usize), RescheduleWith(usize, &'static str), LateSchedule(usize) }
/// a party whose own schedule call is NOT issued at the start of the scenario but by `Inject::LateSchedule` (its prepared policy waits in `LATE_POLICY`)
static LATE: Mutex<Option<usize>> = Mutex::new(None);
static LATE_POLICY: Mutex<Option<Policy>> = Mutex::new(None);
static LATE_TASK: Mutex<Option<tokio::task::JoinHandle<Result<Result<(), HandleError<ScheduleError>>, tokio::time::error::Elapsed>>>> = Mutex::new(None);
/// party 0 announces its constant under a wrong name (`M` instead of `K`): the program type-checks and validates, compilation fails after the constants exchange
static WRONG_CONST: std::sync::atomic::AtomicBool = std::sync::atomic::AtomicBool::new(false);
/// this party's input literal does not have the type the program expects (`true` for a `u8` parameter): `run()` ends with `InvalidInput` after validation
static BAD_INPUT: Mutex<Option<usize>> = Mutex::new(None);
/// the leader of the scenario that is running (stray policies name it, so that a stray schedule at a follower is a follower's schedule)
static LEADER: AtomicUsize = AtomicUsize::new(0);
async fn do_inject(s: &Sys, inj: Inject, log: &mut Vec<String>) {
    let id = Uuid::from_u128(7);
    let t = Duration::from_millis(1500);
    let res = match inj {
        Inject::Cancel(p) => { let f = s.handles[p].cancel(); let res = format!("{:?}", tokio::time::timeout(t, f).await.map(|r| r.map_err(|e| format!("{e:?}"))));
            // what the destination of the cancelled party holds at the very moment `cancel()` returns
            let now: Vec<String> = s.sh.outputs.lock().unwrap().iter().filter(|(q, _)| *q == p).map(|(_, x)| x.clone()).collect();
            format!("{res} at-return={}", now.join("|")) }
        // an MPC message that names the RECEIVER itself as its sender: the index is in range, no engine ever reads that queue
        Inject::MsgSelf(p) => format!("{:?}", tokio::time::timeout(t, s.handles[p].mpc_msg(MpcMsg { from: p, data: vec![1, 2, 3] })).await.map(|r| r.map_err(|e| format!("{e:?}")))),
        Inject::MsgOob(p) => format!("{:?}", tokio::time::timeout(t, s.handles[p].mpc_msg(MpcMsg { from: 9, data: vec![1, 2, 3] })).await.map(|r| r.map_err(|e| format!("{e:?}")))),
        Inject::LateSchedule(p) => { let pol = LATE_POLICY.lock().unwrap().take().expect("late policy prepared"); let h = s.handles[p].clone();
            *LATE_TASK.lock().unwrap() = Some(tokio::spawn(async move { tokio::time::timeout(Duration::from_secs(20), h.schedule(pol)).await })); "scheduled".to_string() }
        Inject::RescheduleWith(p, prog) => { let n = s.handles.len(); let pol = policy(n, p, LEADER.load(Ordering::SeqCst), true, id, prog, false);
            format!("{:?}", tokio::time::timeout(t, s.handles[p].schedule(pol)).await.map(|r| r.map_err(|e| format!("{e:?}").chars().take(60).collect::<String>()))) }
        // a duplicate schedule whose policy names an out-of-range party (variant 0), leader (1) or both (2)
        Inject::DupScheduleOob(p, variant) => { let n = s.handles.len(); let mut pol = policy(n, p, LEADER.load(Ordering::SeqCst), true, id, if n == 2 { P2 } else { P3 }, false);
            if variant != 1 { pol.party = 9; } if variant != 0 { pol.leader = 9; }
            format!("{:?}", tokio::time::timeout(t, s.handles[p].schedule(pol)).await.map(|r| r.map_err(|e| format!("{e:?}").chars().take(60).collect::<String>()))) }
        Inject::DupSchedule(p, illtyped) => { let n = s.handles.len(); let pol = policy(n, p, LEADER.load(Ordering::SeqCst), true, id, if illtyped { "pub fn main(a: u8) -> u8 { a + true }" } else if n == 2 { P2 } else { P3 }, false);
            format!("{:?}", tokio::time::timeout(t, s.handles[p].schedule(pol)).await.map(|r| r.map_err(|e| format!("{e:?}").chars().take(60).collect::<String>()))) }
        Inject::StrayRun(p) => format!("{:?}", tokio::time::timeout(t, s.handles[p].run(RunRequest { computation_id: id })).await.map(|r| r.map_err(|e| format!("{e:?}").chars().take(60).collect::<String>()))),
        Inject::StrayConsts(p) => format!("{:?}", tokio::time::timeout(t, s.handles[p].consts(ConstsRequest { from: 9, computation_id: id, consts: HashMap::from([("X".to_string(), Literal::from(1u8))]) })).await.map(|r| r.map_err(|e| format!("{e:?}").chars().take(60).collect::<String>()))),
        Inject::StrayValidate(p) => format!("{:?}", tokio::time::timeout(t, s.handles[p].validate(ValidateRequest { computation_id: id, program_hash: "x".into(), leader: 0 })).await.map(|r| r.map_err(|e| format!("{e:?}").chars().take(60).collect::<String>()))),
    };
    log.push(format!("  -> {res}"));
}

/// C12 at the server level: n real actors, coordination undisturbed, one directed link whose MPC messages are delivered (in order, none lost)
/// only when no other message has moved for a while. Every such schedule must end with the result at every destination.
const PBIG: &str = "pub fn main(a: u32, b: u32, c: u32) -> u32 { a * b * c }";
/// more than 8000 AND gates: every contributor streams the maximal number of garbled-gate chunks (9) to the evaluator
const PBIG64: &str = "pub fn main(a: u64, b: u64, c: u64) -> u64 { a * b * c }";
async fn slow_link_run(n: usize, leader: usize, slow: (usize, usize), prog: &str, deadline_s: u64) -> (Vec<(usize, String)>, usize, usize, bool) {
    polytune_server_core::verif::set_observer(None); *SLOW.lock().unwrap() = Some(slow);
    let s = sys(n, 1, false); let id = Uuid::from_u128(12);
    for p in 0..n { let h = s.handles[p].clone(); let mut pol = policy(n, p, leader, true, id, prog, false); pol.input = if prog == PBIG64 { Literal::from(p as u64 + 3) } else { Literal::from(p as u32 + 3) };
        tokio::spawn(async move { let _ = tokio::time::timeout(Duration::from_secs(30), h.schedule(pol)).await; }); }
    let t0 = std::time::Instant::now(); let (mut last, mut still, mut released) = (0usize, 0u32, 0usize); let mut stuck = false;
    let mut progress = std::time::Instant::now();   // nothing at all has moved for 40 s: the parties are deadlocked, no need to wait for the deadline
    while s.sh.outputs.lock().unwrap().len() < n && t0.elapsed().as_secs() < deadline_s && progress.elapsed().as_secs() < 40 {
        tokio::time::sleep(Duration::from_millis(5)).await;
        let now = s.sh.msgs.load(Ordering::SeqCst) + s.sh.outputs.lock().unwrap().len(); if now != last { last = now; still = 0; progress = std::time::Instant::now(); continue; } still += 1;
        if still >= 4 { let next = s.sh.held.lock().unwrap().pop_front();
            if let Some((to, msg, done)) = next { released += 1; still = 0;
                progress = std::time::Instant::now(); let left = Duration::from_secs(40);
                match tokio::time::timeout(left, s.handles[to].mpc_msg(msg)).await { Ok(res) => { let _ = done.send(m(res)); } Err(_) => { stuck = true; break; } } } }
    }
    *SLOW.lock().unwrap() = None; let outs = s.sh.outputs.lock().unwrap().clone(); let total = s.sh.msgs.load(Ordering::SeqCst);
    for j in s.joins { j.abort(); }
    (outs, total, released, stuck)
}

static OBS: Mutex<Vec<(usize, String, String, String)>> = Mutex::new(Vec::new());
struct Outcome { obs: Vec<(usize, String, String, String)>, sched: Vec<String>, outputs: Vec<(usize, String)>, panicked: Vec<bool>, finished: Vec<bool>, permits: Vec<usize>, msgs: usize, log: Vec<String> }
/// one scenario: all parties schedule (in a seeded order), the explorer drives the coordination
async fn scenario(n: usize, leader: usize, outs: &[bool], consts: bool, progs: &[&str], leaders: &[usize], conc: usize, r: &mut Rng, fail: Option<(&'static str, usize)>, hook: impl FnMut(usize, u64) -> Option<Inject>) -> Outcome { scenario2(n, leader, outs, consts, progs, leaders, conc, r, fail, hook, |_| None).await }
async fn scenario2(n: usize, leader: usize, outs: &[bool], consts: bool, progs: &[&str], leaders: &[usize], conc: usize, r: &mut Rng, fail: Option<(&'static str, usize)>, hook: impl FnMut(usize, u64) -> Option<Inject>, fast: impl FnMut(usize) -> Option<(usize, Inject)>) -> Outcome {
    OBS.lock().unwrap().clear(); polytune_server_core::verif::set_observer(Some(Box::new(|id, c, b, a| OBS.lock().unwrap().push((id, c.to_string(), b.to_string(), a.to_string())))));
    let s = sys(n, conc, true); let id = Uuid::from_u128(7); LEADER.store(leader, Ordering::SeqCst);
    let mut order: Vec<usize> = (0..n).collect(); for i in (1..n).rev() { let j = r.below(i as u64 + 1) as usize; order.swap(i, j); }
    let mut sched_tasks = vec![];
    let late = *LATE.lock().unwrap();
    for &p in &order { let h = s.handles[p].clone(); let pol = policy(n, p, leaders[p], outs[p], id, progs[p], consts);
        if late == Some(p) { *LATE_POLICY.lock().unwrap() = Some(pol); continue; }
        sched_tasks.push((p, tokio::spawn(async move { tokio::time::timeout(Duration::from_secs(20), h.schedule(pol)).await })));
        if r.bool() { settle().await; } }
    let _ = leader;
    let log = explore2(&s, r, fail, hook, fast, 1200).await;
    let mut sched = vec![String::new(); n];
    if let (Some(p), Some(t)) = (late, LATE_TASK.lock().unwrap().take()) { sched_tasks.push((p, t)); }
    for (p, t) in sched_tasks { sched[p] = if t.is_finished() { match t.await { Ok(Ok(Ok(()))) => "Ok".into(), Ok(Ok(Err(e))) => format!("Err({})", format!("{e:?}").chars().take(50).collect::<String>()), Ok(Err(_)) => "Timeout".into(), Err(_) => "JoinErr".into() } } else { t.abort(); "Pending".into() }; }
    let finished: Vec<bool> = s.joins.iter().map(|j| j.is_finished()).collect(); let mut panicked = vec![false; n];
    for (p, j) in s.joins.into_iter().enumerate() { if finished[p] { panicked[p] = j.await.is_err(); } else { j.abort(); } }
    Outcome { obs: OBS.lock().unwrap().clone(), sched, outputs: s.sh.outputs.lock().unwrap().clone(), panicked, finished, permits: s.sems.iter().map(|x| x.available_permits()).collect(), msgs: s.sh.msgs.load(Ordering::SeqCst), log }
}


/// C17, first sentence: `k` policies on the same two hosts, which share one semaphore per host with `conc` permits; mixed leaders and destinations.
/// Every actor step is observed together with a snapshot of every host's available permits.
static OBS2: Mutex<Vec<(usize, String, String, String, Vec<usize>)>> = Mutex::new(Vec::new());
static SEMS: Mutex<Vec<Arc<Semaphore>>> = Mutex::new(Vec::new());
struct BatchOutcome { obs: Vec<(usize, String, String, String, Vec<usize>)>, outputs: Vec<Vec<(usize, String)>>, finished: Vec<Vec<bool>>, permits: Vec<usize>, sched: Vec<Vec<String>> }
async fn batch(k: usize, conc: usize, leaders: &[usize], outs: &[Vec<bool>], r: &mut Rng) -> BatchOutcome {
    let n = 2; let sems: Vec<Arc<Semaphore>> = (0..n).map(|_| Arc::new(Semaphore::new(conc))).collect();
    *SEMS.lock().unwrap() = sems.clone(); OBS2.lock().unwrap().clear();
    polytune_server_core::verif::set_observer(Some(Box::new(|id, c, b, a| { let snap: Vec<usize> = SEMS.lock().unwrap().iter().map(|s| s.available_permits()).collect(); OBS2.lock().unwrap().push((id, c.split(['(', ' ']).next().unwrap_or("").to_string(), b.to_string(), a.to_string(), snap)); })));
    let systems: Vec<Sys> = (0..k).map(|j| sys_with(sems.clone(), 10 * j, true)).collect();
    let mut sched_tasks = vec![];
    for j in 0..k { let id = Uuid::from_u128(100 + j as u128); let mut order = vec![0usize, 1]; if r.bool() { order.reverse(); }
        for p in order { let h = systems[j].handles[p].clone(); let pol = policy(n, p, leaders[j], outs[j][p], id, P2, false);
            sched_tasks.push((j, p, tokio::spawn(async move { tokio::time::timeout(Duration::from_secs(30), h.schedule(pol)).await }))); } }
    // one explorer per policy, all running concurrently on this thread
    let mut rngs: Vec<Rng> = (0..k).map(|_| Rng::new(r.next())).collect();
    let futs: Vec<_> = systems.iter().zip(rngs.iter_mut()).map(|(s, rr)| explore(s, rr, None, |_, _| None, 2500)).collect();
    futures_join_all(futs).await;
    let mut sched = vec![vec![String::new(); n]; k];
    for (j, p, t) in sched_tasks { sched[j][p] = if t.is_finished() { match t.await { Ok(Ok(Ok(()))) => "Ok".into(), Ok(Ok(Err(e))) => format!("Err({})", format!("{e:?}").chars().take(50).collect::<String>()), Ok(Err(_)) => "Timeout".into(), Err(_) => "JoinErr".into() } } else { t.abort(); "Pending".into() }; }
    let finished: Vec<Vec<bool>> = systems.iter().map(|s| s.joins.iter().map(|j| j.is_finished()).collect()).collect();
    let outputs = systems.iter().map(|s| s.sh.outputs.lock().unwrap().clone()).collect();
    for s in &systems { for j in &s.joins { j.abort(); } }
    BatchOutcome { obs: OBS2.lock().unwrap().clone(), outputs, finished, permits: sems.iter().map(|x| x.available_permits()).collect(), sched }
}
/// minimal join_all for futures on the current thread (no extra dependency)
async fn futures_join_all<F: std::future::Future>(futs: Vec<F>) -> Vec<F::Output> {
    let mut futs: Vec<std::pin::Pin<Box<F>>> = futs.into_iter().map(Box::pin).collect(); let mut outs: Vec<Option<F::Output>> = futs.iter().map(|_| None).collect();
    std::future::poll_fn(move |cx| { let mut pending = false;
        for (i, f) in futs.iter_mut().enumerate() { if outs[i].is_none() { match f.as_mut().poll(cx) { std::task::Poll::Ready(v) => outs[i] = Some(v), std::task::Poll::Pending => pending = true } } }
        if pending { std::task::Poll::Pending } else { std::task::Poll::Ready(outs.iter_mut().map(|o| o.take().unwrap()).collect()) } }).await
}

/// replay the observed (command, kind before, kind after) sequence of every actor through the Lean step function
/// (state kind before, command) pairs of the real actors that have been replayed through the Lean step function in this run
static COVER: Mutex<std::collections::BTreeSet<String>> = Mutex::new(std::collections::BTreeSet::new());
fn correspond(m: &mut model::Model, o: &Outcome, fail: Option<&str>, disagreements: &mut Vec<serde_json::Value>, steps: &mut u64) {
    let re_num = |s: &str, key: &str| -> Option<usize> { regex::Regex::new(&format!(r"{key}: (\d+)")).unwrap().captures(s).and_then(|c| c[1].parse().ok()) };
    let prog_id = |s: &str| -> (usize, bool) { if s.contains("a + true") { (99, false) } else if s.contains("// lhs    + b") { (5, true) } else if s.contains("// lhs") { (6, true) } else if s.contains("a + a }") || s.contains("a + b + b }") { (7, true) } else if s.contains("a ^ b") { (2, true) } else if s.contains("PARTY_0::K") { (3, true) } else if s.contains("a + b + c") { (4, true) } else { (1, true) } };
    let hash_id = |h: &str| -> usize { for (p, id) in [(NL_B2, 5usize), (NL_B3, 5), (NL_A2, 6), (NL_A3, 6), ("pub fn main(a: u8, b: u8) -> u8 { a + a }", 7), ("pub fn main(a: u8, b: u8, c: u8) -> u8 { a + b + b }", 7), (P2, 1usize), (P3, 4), (P2C, 3), (P3C, 3), (P3C2, 3), ("pub fn main(a: u8, b: u8) -> u8 { a ^ b }", 2), ("pub fn main(a: u8, b: u8, c: u8) -> u8 { a ^ b ^ c }", 2)] { let pol = policy(2, 0, 0, false, Uuid::from_u128(7), p, false); if h.contains(&pol.program_hash()) { return id; } } 77 };
    let mut actors: Vec<usize> = o.obs.iter().map(|e| e.0).collect(); actors.sort(); actors.dedup();
    for a in actors { m.ask(&format!("srv {a} reset")); let mut inits = 0usize;
        for (_, cmd, before, after) in o.obs.iter().filter(|e| e.0 == a) {
            if cmd == "InitChannel" { inits += 1; continue; }          // reported from inside `init_channel`, i.e. before the event of the command that caused it
            *steps += 1;
            let name = cmd.split(['(', ' ']).next().unwrap_or("");
            COVER.lock().unwrap().insert(format!("{before}/{name}{}", if before == after && name != "MpcMsg" { " (state kept)" } else { "" }));
            let mut lines: Vec<String> = vec![];
            match name {
                "Schedule" => { let (party, leader) = (re_num(cmd, "party").unwrap_or(0), re_num(cmd, "leader").unwrap_or(0)); let n = cmd.matches("http://h").count(); let (pid, wt) = prog_id(cmd);
                    let out = !cmd.contains("output: None"); let oc = !cmd.contains("constants: {}"); let deps = cmd.matches("= PARTY_").count();
                    lines.push(format!("schedule {party} {leader} {n} {pid} {} {} {} {deps}", wt as u8, out as u8, oc as u8));
                    if party == leader && before == "Init" && wt { match (after.as_str(), fail) {
                        ("Stopped", Some("run")) => { lines.push("leaderValidated 1".into()); lines.push("leaderPermit".into()); lines.push("leaderRunDone 0".into()); }
                        ("Stopped", _) => lines.push("leaderValidated 0".into()),      // a follower rejected the validate request (or the RPC failed)
                        (_, Some("run")) => { lines.push("leaderValidated 1".into()); lines.push("leaderPermit".into()); lines.push("leaderRunDone 0".into()); }
                        _ => { lines.push("leaderValidated 1".into()); lines.push("leaderPermit".into()); lines.push("leaderRunDone 1".into()); } } } }
                "Validate" => lines.push(format!("validate {} {}", hash_id(cmd), re_num(cmd, "leader").unwrap_or(0))),
                "Run" => { lines.push(format!("run {}", 1)); if before == "Running" { lines.push(format!("compiled {}", (after != "Stopped") as u8)); } }
                "Consts" => lines.push(format!("consts {} {}", re_num(cmd, "from").unwrap_or(0), (!cmd.contains("consts: {}")) as u8)),
                "InternalConstsSent" => lines.push("ics".into()),
                "MpcMsg" => lines.push(format!("msg {}", re_num(cmd, "from").unwrap_or(0))),
                "Stop" => lines.push("stop".into()), "Cancel" => lines.push("cancel".into()), _ => {} }
            let mut resp = String::new(); for l in &lines { resp = m.ask(&format!("srv {a} {l}")); }
            let model_kind = resp.split_whitespace().next().unwrap_or("").trim_start_matches("kind=").to_string();
            // the self-sent Run (ret = None) and the external one look the same to the observer; the model only differs in the reply effect
            if !lines.is_empty() && model_kind != *after { disagreements.push(json!({"actor": a, "command": cmd.chars().take(80).collect::<String>(), "before": before, "real_after": after, "model": resp, "model_cmds": lines})); break; }
            // the MPC channel endpoints: the model replaces them (chanGen) exactly when the real actor calls `init_channel`
            let model_gen: Option<usize> = resp.split_whitespace().find_map(|t| t.strip_prefix("gen=")).and_then(|x| x.parse().ok());
            if !lines.is_empty() && after != "Stopped" { if let Some(g) = model_gen { if g != inits { disagreements.push(json!({"what": "channel endpoints (re)initialised by the real actor but not by the model, or vice versa", "actor": a, "command": cmd.chars().take(80).collect::<String>(), "before": before, "after": after, "real_init_channel_calls": inits, "model_chanGen": g})); break; } } }
        } }
}

#[tokio::main(flavor = "current_thread")]
async fn main() {
    let a: Vec<String> = std::env::args().collect(); let prop = a.get(1).cloned().unwrap_or_default();
    let seed: u64 = std::env::var("VERIF_SEED").ok().and_then(|s| s.parse().ok()).unwrap_or(1);
    let cases: usize = a.iter().position(|x| x == "--cases").and_then(|i| a.get(i + 1)).and_then(|s| s.parse().ok()).unwrap_or(12);
    std::panic::set_hook(Box::new(|_| {}));
    let model_path = a.iter().position(|x| x == "--model").and_then(|i| a.get(i + 1)).cloned().unwrap_or("/verif/lean/.lake/build/bin/ptmodel".into()); let mut m = model::Model::spawn(&model_path).expect("spawn ptmodel"); let mut disagreements: Vec<serde_json::Value> = vec![]; let mut steps = 0u64;
    let mut r = Rng::new(seed); let mut failures = vec![]; let mut samples = vec![]; let mut dist: BTreeMap<String, u64> = BTreeMap::new(); let mut distinct = std::collections::BTreeSet::new(); let mut execs = 0u64;
    for case in 0..cases {
        let n = if r.below(3) == 0 { 3 } else { 2 }; let prog = if n == 2 { P2 } else { P3 }; let leader = r.below(n as u64) as usize;
        let outs: Vec<bool> = (0..n).map(|_| r.below(4) != 0).collect(); let consts = r.below(3) == 0; let prog = if consts { if n == 2 { P2C } else if r.bool() { P3C } else { P3C2 } } else { prog };
        let desc = |extra: serde_json::Value| json!({"case": case, "n": n, "leader": leader, "outputs": outs, "consts": consts, "extra": extra});
        match prop.as_str() {
            "C13" => {
                // responses as separate events. Corpus: three parties, both FOLLOWERS supply constants, the response to the leader's second run request is the
                // slowest event of all (both followers' constants requests reach the leader before it); then one in three seeded cases with all responses gated
                // corpus: a follower's constants reach ANOTHER follower before that one has been told to run (it is still Validated and must take them)
                if case == 2 || case == 3 {
                    let (n2, leader2) = (3usize, case - 1); let other = 3 - leader2; let outs2 = vec![true; 3];     // party 0 supplies K; leader 1 or 2; `other` is the second follower
                    *HOLD.lock().unwrap() = Some(("run", leader2, other)); let mut released = false;
                    let o = scenario(n2, leader2, &outs2, true, &vec![P3C; n2], &vec![leader2; n2], 1, &mut r, None, move |_step, idle| { if !released && idle >= 4 { released = true; *HOLD.lock().unwrap() = None; } None }).await; execs += 1;
                    *HOLD.lock().unwrap() = None; correspond(&mut m, &o, None, &mut disagreements, &mut steps);
                    *dist.entry("order:consts-before-run-at-second-follower".into()).or_default() += 1; distinct.insert(format!("consts-before-run {leader2}"));
                    let want = expected_prog(n2, P3C); let mut bad = vec![];
                    for p in 0..n2 { let got: Vec<&String> = o.outputs.iter().filter(|(q, _)| *q == p).map(|(_, s)| s).collect(); if got != vec![&want] { bad.push(format!("party {p} destination got {got:?}, want one {want}")); } }
                    if o.sched.iter().any(|x| x != "Ok") { bad.push(format!("schedule calls: {:?}", o.sched)); }
                    if o.finished.iter().any(|f| !f) { bad.push(format!("state machines not stopped: {:?}", o.finished)); }
                    if o.permits.iter().any(|p| *p != 1) { bad.push(format!("permits at the end: {:?}", o.permits)); }
                    if !bad.is_empty() { failures.push(json!({"witness": "C13:consts-before-run", "failure": bad, "case": json!({"n": n2, "leader": leader2, "held": format!("run {leader2}->{other}"), "log": o.log})})); }
                    continue;
                }
                // corpus: a follower whose own schedule call comes LATE — after the leader's validate request has reached it (state ValidateRequested, the reply is
                // kept until it is scheduled); the leader must wait for it, then everything completes. 2 and 3 parties, both leaders, with and without constants
                if (4..10).contains(&case) {
                    let k = case - 4; let n2 = if k < 4 { 2usize } else { 3 }; let leader2 = k % 2; let fol = (leader2 + 1) % n2; let prog2 = if n2 == 2 { if k / 2 == 1 { P2C } else { P2 } } else { P3 }; let consts2 = prog2 == P2C; let outs2 = vec![true; n2];
                    *LATE.lock().unwrap() = Some(fol); let mut phase = 0;
                    let o = scenario(n2, leader2, &outs2, consts2, &vec![prog2; n2], &vec![leader2; n2], 1, &mut r, None, move |step, idle| {
                        if phase == 0 && step >= n2 - 1 && idle >= 3 { phase = 1; Some(Inject::LateSchedule(fol)) } else { None } }).await; execs += 1;
                    *LATE.lock().unwrap() = None; *LATE_POLICY.lock().unwrap() = None; correspond(&mut m, &o, None, &mut disagreements, &mut steps);
                    *dist.entry("order:follower-scheduled-after-the-leaders-validate".into()).or_default() += 1; distinct.insert(format!("late-follower {n2} {leader2} {consts2}"));
                    let want = expected_prog(n2, prog2); let mut bad = vec![];
                    for p in 0..n2 { let got: Vec<&String> = o.outputs.iter().filter(|(q, _)| *q == p).map(|(_, s)| s).collect(); if got != vec![&want] { bad.push(format!("party {p} destination got {got:?}, want one {want}")); } }
                    if o.sched.iter().any(|x| x != "Ok") { bad.push(format!("schedule calls: {:?}", o.sched)); }
                    if o.finished.iter().any(|f| !f) { bad.push(format!("state machines not stopped: {:?}", o.finished)); } if o.panicked.iter().any(|p| *p) { bad.push("actor panicked".into()); }
                    if o.permits.iter().any(|p| *p != 1) { bad.push(format!("permits at the end: {:?}", o.permits)); }
                    if !bad.is_empty() { failures.push(json!({"witness": "C13:late-follower", "failure": bad, "case": json!({"n": n2, "leader": leader2, "late_follower": fol, "consts": consts2, "log": o.log})})); }
                    continue;
                }
                if case < 2 || case % 3 == 2 {
                    let (n2, leader2, prog2) = if case < 2 { (3usize, 1usize, P3C2) } else { (n, leader, prog) }; let outs2 = if case < 2 { vec![true; 3] } else { outs.clone() }; let consts2 = if case < 2 { true } else { consts };
                    REPLY_GATES.store(true, Ordering::SeqCst); let mut released = false;
                    if case < 2 { *HOLD.lock().unwrap() = Some(("run-reply", 1, if case == 0 { 2 } else { 0 })); }
                    let o = scenario(n2, leader2, &outs2, consts2, &vec![prog2; n2], &vec![leader2; n2], 1, &mut r, None, move |_step, idle| { if !released && idle >= 4 { released = true; *HOLD.lock().unwrap() = None; } None }).await; execs += 1;
                    REPLY_GATES.store(false, Ordering::SeqCst); *HOLD.lock().unwrap() = None; correspond(&mut m, &o, None, &mut disagreements, &mut steps);
                    *dist.entry(if case < 2 { "replies:slow-run-reply-corpus".to_string() } else { "replies:gated".to_string() }).or_default() += 1; distinct.insert(format!("replies {:?}", o.log));
                    let want = expected_prog(n2, prog2); let mut bad = vec![];
                    for p in 0..n2 { let got: Vec<&String> = o.outputs.iter().filter(|(q, _)| *q == p).map(|(_, s)| s).collect(); if outs2[p] && got != vec![&want] { bad.push(format!("party {p} destination got {got:?}, want one {want}")); } }
                    if o.sched.iter().any(|x| x != "Ok") { bad.push(format!("schedule calls: {:?}", o.sched)); }
                    if o.finished.iter().any(|f| !f) { bad.push(format!("state machines not stopped: {:?}", o.finished)); } if o.panicked.iter().any(|p| *p) { bad.push("actor panicked".into()); }
                    if o.permits.iter().any(|p| *p != 1) { bad.push(format!("permits at the end: {:?}", o.permits)); }
                    if !bad.is_empty() { failures.push(json!({"witness": "C13:slow-response", "failure": bad, "case": json!({"n": n2, "leader": leader2, "consts": consts2, "responses_are_events": true, "log": o.log})})); }
                    continue;
                }
                let o = scenario(n, leader, &outs, consts, &vec![prog; n], &vec![leader; n], 1, &mut r, None, |_, _| None).await; execs += 1; correspond(&mut m, &o, None, &mut disagreements, &mut steps);
                let want = expected_prog(n, prog); let key = o.log.iter().filter(|l| l.starts_with("deliver")).cloned().collect::<Vec<_>>().join(";");
                *dist.entry(format!("n:{n}")).or_default() += 1; *dist.entry(format!("consts:{consts}")).or_default() += 1; distinct.insert(key);
                let mut bad = vec![];
                if o.sched.iter().any(|s| s != "Ok") { bad.push(format!("schedule results {:?}", o.sched)); }
                for p in 0..n { let got: Vec<&String> = o.outputs.iter().filter(|(q, _)| *q == p).map(|(_, s)| s).collect(); if outs[p] { if got != vec![&want] { bad.push(format!("party {p} destination got {got:?}, want one {want}")); } } else if !got.is_empty() { bad.push(format!("party {p} without destination got {got:?}")); } }
                if o.finished.iter().any(|f| !f) { bad.push(format!("state machines not stopped: {:?}", o.finished)); } if o.panicked.iter().any(|p| *p) { bad.push("actor panicked".into()); }
                if o.permits.iter().any(|p| *p != 1) { bad.push(format!("permits {:?}", o.permits)); }
                if !bad.is_empty() { failures.push(json!({"witness": "C13:other", "failure": bad, "case": desc(json!({"log": o.log}))})); }
                if samples.len() < 2 { samples.push(desc(json!({"log": o.log, "outputs": o.outputs}))); }
            }
            "C14" => {
                // corpus first: a duplicate schedule at a party that still waits for a peer's constants while another party is already sending MPC messages to it
                if case < 2 {
                    let (n, prog, leader) = (3usize, P3C2, case % 2); let outs = vec![true; 3];
                    *HOLD.lock().unwrap() = Some(("consts", 2, 1)); let mut done = false;
                    let o = scenario(n, leader, &outs, true, &vec![prog; n], &vec![leader; n], 1, &mut r, None, move |_step, idle| if !done && idle >= 3 { done = true; *HOLD.lock().unwrap() = None; Some(Inject::DupSchedule(1, false)) } else { None }).await; execs += 1;
                    *HOLD.lock().unwrap() = None; correspond(&mut m, &o, None, &mut disagreements, &mut steps);
                    *dist.entry("inject:DupSchedule-in-consts-window".into()).or_default() += 1; distinct.insert(format!("consts-window {leader}"));
                    let want = expected_prog(n, prog); let mut bad = vec![]; let reply = o.log.iter().skip_while(|l| !l.starts_with("inject@")).nth(1).cloned().unwrap_or_default();
                    if reply.contains("Ok(Ok(()))") || !reply.contains("Err") { bad.push(format!("duplicate schedule was not answered with an error: {reply}")); }
                    for p in 0..n { let got: Vec<&String> = o.outputs.iter().filter(|(q, _)| *q == p).map(|(_, s)| s).collect(); if got != vec![&want] { bad.push(format!("party {p} destination got {got:?}, want one {want} (MPC messages sent: {})", o.msgs)); } }
                    if o.finished.iter().any(|f| !f) { bad.push(format!("state machines not stopped: {:?}", o.finished)); } if o.panicked.iter().any(|p| *p) { bad.push("actor panicked".into()); }
                    if !bad.is_empty() { failures.push(json!({"witness": "C14:dup-schedule-consts-window", "failure": bad, "case": json!({"n": n, "leader": leader, "program": "two const suppliers (0, 2)", "held": "consts 2->1", "log": o.log})})); }
                    continue;
                }
                // corpus: a duplicate schedule that names an out-of-range party / leader index, while the computation is under way (injected once the run
                // request is held back at a follower, i.e. everybody is validated; victim = the waiting follower or the leader)
                if (16..28).contains(&case) {
                    let (n, leader) = (2usize, case % 2); let fol = 1 - leader; let variant = ((case - 16) / 2) % 3; let victim = if case < 22 { fol } else { leader }; let outs = vec![true; 2];
                    // the follower is parked before its run request; the leader (which awaits the run replies inside its schedule handler) is hit once the run request has gone through
                    if victim == fol { *HOLD.lock().unwrap() = Some(("run", leader, fol)); } let mut done = false;
                    let o = scenario(n, leader, &outs, false, &vec![P2; n], &vec![leader; n], 1, &mut r, None, move |step, idle| if !done && ((victim == fol && idle >= 3) || (victim != fol && step >= 2)) { done = true; *HOLD.lock().unwrap() = None; Some(Inject::DupScheduleOob(victim, variant)) } else { None }).await; execs += 1;
                    *HOLD.lock().unwrap() = None; correspond(&mut m, &o, None, &mut disagreements, &mut steps);
                    *dist.entry("inject:DupSchedule-with-out-of-range-indices".into()).or_default() += 1; distinct.insert(format!("dup-oob {leader} {variant} {victim}"));
                    let want = expected_prog(n, P2); let mut bad = vec![]; let reply = o.log.iter().skip_while(|l| !l.starts_with("inject@")).nth(1).cloned().unwrap_or_default();
                    if !reply.contains("Ok(Err(") { bad.push(format!("the duplicate schedule was not answered with an error: {reply}")); }
                    for p in 0..n { let got: Vec<&String> = o.outputs.iter().filter(|(q, _)| *q == p).map(|(_, s)| s).collect(); if got != vec![&want] { bad.push(format!("party {p} destination got {got:?}, want one {want}")); } }
                    if o.finished.iter().any(|f| !f) { bad.push(format!("state machines not stopped: {:?}", o.finished)); } if o.panicked.iter().any(|p| *p) { bad.push("actor panicked".into()); }
                    if !bad.is_empty() { failures.push(json!({"witness": "C14:dup-schedule-out-of-range-indices", "failure": bad, "case": json!({"n": n, "leader": leader, "victim": victim, "out_of_range": (["party", "leader", "party and leader"][variant]), "log": o.log})})); }
                    continue;
                }
                // corpus: the leader's validate reaches a follower that has not been scheduled yet (it is held back: ValidateRequested); a SECOND validate
                // arrives (invalid for that state: answered with an error); then the follower is scheduled. The computation must complete.
                // corpus: a constants request WITH a payload from an unknown party reaches a follower that has been scheduled but not validated yet (it accepts
                // no constants in that state: error reply), on a program that uses constants; the run must complete with the right constants
                if case == 14 || case == 15 {
                    let (n, leader) = (2usize, case % 2); let fol = 1 - leader; let outs = vec![true; 2];
                    *HOLD.lock().unwrap() = Some(("validate", leader, fol)); let mut done = false;
                    let o = scenario(n, leader, &outs, true, &vec![P2C; n], &vec![leader; n], 1, &mut r, None, move |_step, idle| if !done && idle >= 3 { done = true; *HOLD.lock().unwrap() = None; Some(Inject::StrayConsts(fol)) } else { None }).await; execs += 1;
                    *HOLD.lock().unwrap() = None; correspond(&mut m, &o, None, &mut disagreements, &mut steps);
                    *dist.entry("inject:StrayConsts-with-payload-while-awaiting-validation".into()).or_default() += 1; distinct.insert(format!("stray-consts-payload {leader}"));
                    let want = expected_prog(n, P2C); let mut bad = vec![]; let reply = o.log.iter().skip_while(|l| !l.starts_with("inject@")).nth(1).cloned().unwrap_or_default();
                    if !reply.contains("Ok(Err(") { bad.push(format!("the stray constants request was not answered with an error: {reply}")); }
                    for p in 0..n { let got: Vec<&String> = o.outputs.iter().filter(|(q, _)| *q == p).map(|(_, s)| s).collect(); if got != vec![&want] { bad.push(format!("party {p} destination got {got:?}, want one {want}")); } }
                    if o.finished.iter().any(|f| !f) { bad.push(format!("state machines not stopped: {:?}", o.finished)); }
                    if !bad.is_empty() { failures.push(json!({"witness": "C14:stray-consts-payload", "failure": bad, "case": json!({"n": n, "leader": leader, "follower": fol, "log": o.log})})); }
                    continue;
                }
                // … and the same with every other command that is invalid while a validate is pending before the own schedule (cases 4..9, then one in five seeded cases)
                if (2..10).contains(&case) || case % 5 == 4 {
                    let (n, leader) = if case < 10 { (2usize, case % 2) } else { (n, leader) }; let fol = (leader + 1 + if case < 10 { 0 } else { r.below(n as u64 - 1) as usize }) % n; let outs = vec![true; n];
                    let stray = match if case < 10 { (case - 2) / 2 } else { r.below(4) as usize } { 0 => Inject::StrayValidate(fol), 1 => Inject::StrayRun(fol), 2 => Inject::StrayConsts(fol), _ => Inject::MsgOob(fol) };
                    let (stray2, p2) = (stray.clone(), if n == 2 { P2 } else { P3 });
                    // the stray command is injected once the leader's validate has been handed to the late follower (all validates delivered: step >= n-1)
                    *LATE.lock().unwrap() = Some(fol); let mut phase = 0;
                    let o = scenario(n, leader, &outs, false, &vec![p2; n], &vec![leader; n], 1, &mut r, None, move |step, idle| {
                        if phase == 0 && step >= n - 1 && idle >= 2 { phase = 1; Some(stray2.clone()) } else if phase == 1 && idle >= 2 { phase = 2; Some(Inject::LateSchedule(fol)) } else { None } }).await; execs += 1;
                    *LATE.lock().unwrap() = None; *LATE_POLICY.lock().unwrap() = None; correspond(&mut m, &o, None, &mut disagreements, &mut steps);
                    *dist.entry(format!("inject:{}-before-late-schedule", format!("{stray:?}").split('(').next().unwrap())).or_default() += 1; distinct.insert(format!("late {stray:?} {leader} {n}"));

                    let want = expected_prog(n, p2); let mut bad = vec![]; let reply = o.log.iter().skip_while(|l| !l.starts_with("inject@")).nth(1).cloned().unwrap_or_default();
                    if !reply.contains("Ok(Err(") { bad.push(format!("{stray:?} (invalid in that state) was not answered with an error: {reply}")); }
                    for p in 0..n { let got: Vec<&String> = o.outputs.iter().filter(|(q, _)| *q == p).map(|(_, s)| s).collect(); if got != vec![&want] { bad.push(format!("party {p} destination got {got:?}, want one {want}")); } }
                    if o.sched.iter().any(|x| x != "Ok") { bad.push(format!("schedule calls: {:?}", o.sched)); }
                    if o.finished.iter().any(|f| !f) { bad.push(format!("state machines not stopped: {:?}", o.finished)); } if o.panicked.iter().any(|p| *p) { bad.push("actor panicked".into()); }
                    if !bad.is_empty() { failures.push(json!({"witness": "C14:stray-before-late-schedule", "failure": bad, "case": json!({"n": n, "leader": leader, "late_follower": fol, "stray": format!("{stray:?}"), "log": o.log})})); }
                    continue;
                }
                let mut at = r.below(6) as usize; let victim = r.below(n as u64) as usize; let kind = if (10..14).contains(&case) { 6 } else { r.below(7) }; if kind == 1 || kind == 2 || kind == 6 { at = at.max(1); } if kind == 5 { at = 2 * (n - 1); } // a validate is only *invalid for the state* once the party is past AwaitingValidation
                let inj = match kind { 0 => Inject::MsgOob(victim), 1 => Inject::DupSchedule(victim, false), 2 => Inject::DupSchedule(victim, true), 3 => Inject::StrayRun(victim), 4 => Inject::StrayConsts(victim), 6 => Inject::MsgSelf(victim), _ => Inject::StrayValidate(victim) };
                let inj2 = inj.clone(); let mut done = false;
                let o = scenario(n, leader, &outs, consts, &vec![prog; n], &vec![leader; n], 1, &mut r, None, move |step, idle| if !done && (step >= at || idle >= 1 + (at as u64) / 3) { done = true; Some(inj2.clone()) } else { None }).await; execs += 1; correspond(&mut m, &o, None, &mut disagreements, &mut steps);
                *dist.entry(format!("inject:{}", format!("{inj:?}").split('(').next().unwrap())).or_default() += 1; distinct.insert(format!("{:?}", (format!("{inj:?}"), at, n)));
                let want = expected_prog(n, prog); let mut bad = vec![]; let reply = o.log.iter().skip_while(|l| !l.starts_with("inject@")).nth(1).cloned().unwrap_or_default();
                if o.panicked.iter().any(|p| *p) { bad.push(("C14-a:msg-index-panic", format!("actor panicked ({inj:?}) reply {reply}"))); }
                let disturbed = (0..n).any(|p| outs[p] && o.outputs.iter().filter(|(q, _)| *q == p).map(|(_, s)| s.clone()).collect::<Vec<_>>() != vec![want.clone()]);
                // a stray command that arrives before the party's own schedule legitimately changes the flow (e.g. a bogus validate); only count disturbance when the reply was an error
                if disturbed && !o.panicked.iter().any(|p| *p) && (reply.contains("Err(") || matches!(inj, Inject::MsgSelf(_))) { let w = match inj { Inject::DupSchedule(_, true) => "C14-c:illtyped-dup-schedule", Inject::DupSchedule(_, false) => "C14-b:dup-schedule-replaces-endpoints", _ => "C14:other-disturbance" };
                    bad.push((w, format!("computation disturbed by {inj:?} at step {at}: outputs {:?} reply {reply}", o.outputs))); }
                for (w, b) in bad { failures.push(json!({"witness": w, "failure": b, "case": desc(json!({"inject": format!("{inj:?}"), "at": at, "log": o.log}))})); }
                if samples.len() < 2 { samples.push(desc(json!({"inject": format!("{inj:?}"), "at": at, "reply": reply}))); }
            }
            "C15" => {
                // corpus first: the party that supplies constants is cancelled while its consts call is still in flight; the call fails AFTER the cancel
                if case < 2 {
                    let (n, prog, leader) = (2usize, P2C, case % 2); let outs = vec![true; 2]; let victim = 0usize;
                    *HOLD.lock().unwrap() = Some(("consts", 0, 1)); let mut done = false;
                    let o = scenario(n, leader, &outs, true, &vec![prog; n], &vec![leader; n], 1, &mut r, Some(("consts", 0)), move |_step, idle| if !done && idle >= 3 { done = true; *HOLD.lock().unwrap() = None; Some(Inject::Cancel(victim)) } else { None }).await; execs += 1;
                    *HOLD.lock().unwrap() = None;
                    *dist.entry("mode:cancel-with-consts-call-in-flight".into()).or_default() += 1; distinct.insert(format!("consts-in-flight {leader}"));
                    let reply = o.log.iter().skip_while(|l| !l.starts_with("inject")).nth(1).cloned().unwrap_or_default(); let ok = reply.contains("Ok(Ok(()))");
                    let got: Vec<String> = o.outputs.iter().filter(|(q, _)| *q == victim).map(|(_, s)| s.clone()).collect();
                    let at_return: Vec<String> = reply.split("at-return=").nth(1).map(|x| x.split('|').filter(|y| !y.is_empty()).map(|y| y.to_string()).collect()).unwrap_or_default();
                    let mut bad = vec![];
                    if ok && at_return != got { bad.push(format!("when cancel() returned Ok the destination held {at_return:?}, in the end {got:?}: a notification was sent after cancel had returned")); }
                    if ok && got.len() != 1 { bad.push(format!("destination got {got:?} (want exactly one notification)")); }
                    if got.len() > 1 { bad.push(format!("the destination was notified {} times: {got:?} (cancel replied {reply})", got.len())); }
                    if !o.finished[victim] { bad.push("state machine of the cancelled party still running at the end".to_string()); }
                    if o.permits[victim] != 1 { bad.push(format!("permit not returned: {}", o.permits[victim])); }
                    if !bad.is_empty() { failures.push(json!({"witness": "C15:cancel-with-consts-in-flight", "failure": bad, "case": json!({"n": n, "leader": leader, "victim": victim, "held_then_failed": "consts 0->1", "reply": reply, "log": o.log})})); }
                    continue;
                }
                // corpus: a command that is invalid in state Executing (a repeated run request, a repeated validate, a consts request) reaches the party
                // whose MPC is in flight (its outgoing MPC messages are held back, so the run cannot complete); then the party is cancelled.
                // Cancel must still deliver `Cancelled` exactly once before it returns, stop the state machine and free the permit.
                if (2..8).contains(&case) {
                    let (n, leader) = (2usize, case % 2); let victim = (case / 2) % 2; let outs = vec![true; 2];
                    let stray = match (case - 2) / 2 { 0 => Inject::StrayRun(victim), 1 => Inject::StrayValidate(victim), _ => Inject::StrayConsts(victim) };
                    *SLOW.lock().unwrap() = Some((victim, 1 - victim)); let mut phase = 0; let stray2 = stray.clone();
                    let o = scenario(n, leader, &outs, false, &vec![P2; n], &vec![leader; n], 1, &mut r, None, move |step, idle| {
                        if phase == 0 && step >= 2 && idle >= 4 { phase = 1; Some(stray2.clone()) } else if phase == 1 && idle >= 2 { phase = 2; Some(Inject::Cancel(victim)) } else { None } }).await; execs += 1;
                    *SLOW.lock().unwrap() = None; correspond(&mut m, &o, None, &mut disagreements, &mut steps);
                    *dist.entry(format!("mode:{}-then-cancel-while-executing", format!("{stray:?}").split('(').next().unwrap())).or_default() += 1; distinct.insert(format!("stray-then-cancel {stray:?} {leader}"));
                    let replies: Vec<String> = o.log.iter().filter(|l| l.starts_with("  -> ")).cloned().collect(); let reply = replies.get(1).cloned().unwrap_or_default(); let ok = reply.contains("Ok(Ok(()))");
                    let got: Vec<String> = o.outputs.iter().filter(|(q, _)| *q == victim).map(|(_, s)| s.clone()).collect();
                    let at_return: Vec<String> = reply.split("at-return=").nth(1).map(|x| x.split('|').filter(|y| !y.is_empty()).map(|y| y.to_string()).collect()).unwrap_or_default();
                    let executing = o.obs.iter().any(|e| e.0 == victim && e.3 == "Executing");
                    let mut bad = vec![];
                    if !executing { bad.push("harness: the victim never reached Executing".to_string()); }
                    if !ok { bad.push(format!("cancel() did not return Ok: {reply}")); }
                    if ok && at_return != vec!["Cancelled".to_string()] { bad.push(format!("when cancel() returned Ok the destination held {at_return:?}, want exactly [Cancelled]")); }
                    if got != vec!["Cancelled".to_string()] { bad.push(format!("destination of the cancelled party got {got:?} in the end (want exactly one `Cancelled`)")); }
                    if !o.finished[victim] { bad.push("state machine of the cancelled party still running at the end".to_string()); }
                    if o.permits[victim] != 1 { bad.push(format!("permit not returned: {}", o.permits[victim])); }
                    if !bad.is_empty() { failures.push(json!({"witness": "C15:cancel-after-invalid-command-while-executing", "failure": bad, "case": json!({"n": n, "leader": leader, "victim": victim, "stray": format!("{stray:?}"), "replies": replies, "log": o.log})})); }
                    continue;
                }
                // corpus: cancel in every state a party can WAIT in, made deterministic by holding back the RPC that would move it on:
                // a follower after its own schedule (awaiting validation), a follower after validation (awaiting run), the leader while its validate is out
                if (8..14).contains(&case) {
                    let k = case - 8; let (n, leader) = (2usize, k % 2); let fol = 1 - leader; let outs = vec![true; 2];
                    let (held, victim, what) = match k / 2 { 0 => (("validate", leader, fol), fol, "follower-awaiting-validation"), 1 => (("run", leader, fol), fol, "follower-awaiting-run"), _ => (("validate", leader, fol), leader, "leader-awaiting-validate-replies") };
                    *HOLD.lock().unwrap() = Some(held); let mut done = false;
                    let o = scenario(n, leader, &outs, false, &vec![P2; n], &vec![leader; n], 1, &mut r, None, move |_step, idle| if !done && idle >= 3 { done = true; Some(Inject::Cancel(victim)) } else { None }).await; execs += 1;
                    *HOLD.lock().unwrap() = None; correspond(&mut m, &o, None, &mut disagreements, &mut steps);
                    *dist.entry(format!("mode:cancel-{what}")).or_default() += 1; distinct.insert(format!("cancel-wait {what} {leader}"));
                    let reply = o.log.iter().skip_while(|l| !l.starts_with("inject")).nth(1).cloned().unwrap_or_default(); let ok = reply.contains("Ok(Ok(()))");
                    let got: Vec<String> = o.outputs.iter().filter(|(q, _)| *q == victim).map(|(_, s)| s.clone()).collect();
                    let at_return: Vec<String> = reply.split("at-return=").nth(1).map(|x| x.split('|').filter(|y| !y.is_empty()).map(|y| y.to_string()).collect()).unwrap_or_default();
                    let mut bad = vec![];
                    // a leader that is still inside its own `schedule` call is cancelled only once that call is over: nothing is claimed while cancel has not returned
                    if ok { if at_return != vec!["Cancelled".to_string()] { bad.push(format!("when cancel() returned Ok the destination held {at_return:?}, want exactly [Cancelled]")); }
                        if got != vec!["Cancelled".to_string()] { bad.push(format!("destination got {got:?} in the end (want exactly one `Cancelled`)")); }
                        if !o.finished[victim] { bad.push("state machine of the cancelled party still running".to_string()); }
                        if o.permits[victim] != 1 { bad.push(format!("permit not returned: {}", o.permits[victim])); } }
                    if got.len() > 1 { bad.push(format!("the destination was notified {} times: {got:?}", got.len())); }
                    if !bad.is_empty() { failures.push(json!({"witness": "C15:cancel-while-waiting", "failure": bad, "case": json!({"n": n, "leader": leader, "victim": victim, "state": what, "reply": reply, "log": o.log})})); }
                    continue;
                }
                // corpus: a destination whose FIRST answer is lost (the notification arrives, the call reports an error): however cancel ends, the destination
                // must not be notified twice
                if (14..18).contains(&case) {
                    let k = case - 14; let (n, leader) = (2usize, k % 2); let fol = 1 - leader; let outs = vec![true; 2];
                    let (held, victim, what) = if k / 2 == 0 { (("validate", leader, fol), fol, "follower-awaiting-validation") } else { (("run", leader, fol), fol, "follower-awaiting-run") };
                    *HOLD.lock().unwrap() = Some(held); *OUTPUT_FLAKY.lock().unwrap() = Some(victim); let mut done = false;
                    let o = scenario(n, leader, &outs, false, &vec![P2; n], &vec![leader; n], 1, &mut r, None, move |_step, idle| if !done && idle >= 3 { done = true; Some(Inject::Cancel(victim)) } else { None }).await; execs += 1;
                    *HOLD.lock().unwrap() = None; *OUTPUT_FLAKY.lock().unwrap() = None;
                    *dist.entry(format!("mode:cancel-{what}-destination-answer-lost")).or_default() += 1; distinct.insert(format!("cancel-flaky {what} {leader}"));
                    let reply = o.log.iter().skip_while(|l| !l.starts_with("inject")).nth(1).cloned().unwrap_or_default(); let ok = reply.contains("Ok(Ok(()))");
                    let got: Vec<String> = o.outputs.iter().filter(|(q, _)| *q == victim).map(|(_, s)| s.clone()).collect(); let mut bad = vec![];
                    if got.len() > 1 { bad.push(format!("the destination was notified {} times: {got:?} (cancel returned {})", got.len(), if ok { "Ok" } else { "an error" })); }
                    if ok && got.len() != 1 { bad.push(format!("cancel returned Ok, the destination holds {got:?}")); }
                    if !o.finished[victim] { bad.push("state machine of the cancelled party still running".to_string()); }
                    if !bad.is_empty() { failures.push(json!({"witness": "C15:cancel-flaky-destination", "failure": bad, "case": json!({"n": n, "leader": leader, "victim": victim, "state": what, "reply": reply})})); }
                    continue;
                }
                let at = r.below(6) as usize; let after_idle = r.below(12); let victim = r.below(n as u64) as usize; let mut done = false;
                let use_fast = r.bool(); let yields = r.below(40) as usize; let total_steps = 2 * (n - 1) + if consts { n - 1 } else { 0 }; let at_fast = 1 + r.below(total_steps as u64) as usize; let mut done2 = false;
                let o = scenario2(n, leader, &outs, consts, &vec![prog; n], &vec![leader; n], 1, &mut r, None,
                    move |step, idle| if !use_fast && !done && ((step >= at && idle >= after_idle.min(3)) || idle >= after_idle + 1) { done = true; Some(Inject::Cancel(victim)) } else { None },
                    move |step| if use_fast && !done2 && step >= at_fast { done2 = true; Some((yields, Inject::Cancel(victim))) } else { None }).await; execs += 1;
                *dist.entry(format!("mode:{}", if use_fast { "right-after-delivery" } else { "at-quiescence" })).or_default() += 1;
                *dist.entry(format!("cancel_at:{at}")).or_default() += 1; distinct.insert(format!("{:?}", (at, victim, n, leader)));
                let reply = o.log.iter().skip_while(|l| !l.starts_with("inject")).nth(1).cloned().unwrap_or_default(); let ok = reply.contains("Ok(Ok(()))");
                let got: Vec<String> = o.outputs.iter().filter(|(q, _)| *q == victim).map(|(_, s)| s.clone()).collect(); let want = expected_prog(n, prog);
                // whatever cancel() returned (Ok, an error, or nothing because the environment held it up): a destination is never notified twice
                if got.len() > 1 { failures.push(json!({"witness": "C15:two-notifications", "failure": format!("the destination of the cancelled party was notified {} times: {got:?} (cancel replied {reply})", got.len()), "case": desc(json!({"cancel_at": at, "victim": victim, "log": o.log}))})); }
                if reply.contains("Elapsed") { let mut bad = vec![];
                    // the environment may legitimately hold the cancel up (a withheld RPC); once everything has been released it must have taken effect
                    if !o.finished[victim] { bad.push("cancel never returned and the state machine is still running at the end of the scenario".to_string()); }
                    if o.permits[victim] != 1 { bad.push(format!("cancel never returned and the permit is not back: {}", o.permits[victim])); }
                    if !bad.is_empty() { failures.push(json!({"witness": "C15:cancel-hangs", "failure": bad, "case": desc(json!({"cancel_at": at, "victim": victim, "log": o.log}))})); } }
                if ok { let mut bad = vec![];
                    if !o.finished[victim] { bad.push("state machine still running after cancel returned Ok".to_string()); }
                    if outs[victim] && !(got == vec!["Cancelled".to_string()] || got == vec![want.clone()]) { bad.push(format!("destination got {got:?} (want exactly one Cancelled or the real result)")); }
                    let at_return: Vec<String> = reply.split("at-return=").nth(1).map(|x| x.split('|').filter(|y| !y.is_empty()).map(|y| y.to_string()).collect()).unwrap_or_default();
                    if outs[victim] && at_return != got { bad.push(format!("when cancel() returned Ok the destination held {at_return:?}, in the end {got:?}: a notification was sent after cancel had returned")); }
                    if !outs[victim] && !got.is_empty() { bad.push(format!("no destination but got {got:?}")); }
                    if o.permits[victim] != 1 { bad.push(format!("permit not returned: {}", o.permits[victim])); }
                    if !bad.is_empty() { failures.push(json!({"witness": if got.iter().any(|g| g.starts_with("Err(")) { "C15-a:cancel-consumes-own-notify" } else { "C15:other" }, "failure": bad, "case": desc(json!({"cancel_at": at, "victim": victim, "log": o.log}))})); } }
                if samples.len() < 2 { samples.push(desc(json!({"cancel_at": at, "victim": victim, "reply": reply, "got": got}))); }
            }
            "C16" => {
                // tie of the hash the parties compare: `Policy::program_hash()` is the hex form of BLAKE3 over the program's bytes, nothing more and nothing
                // less (no normalisation of line ends, white space or case) — computed here by the Lean BLAKE3 on the same bytes
                if case == 0 {
                    let mut texts: Vec<String> = [P2, P3, P2C, P3C, P3C2, NL_A2, NL_B2, NL_A3, NL_B3, "", "a", "pub fn main(a: u8) -> u8 { a }\r\n", "pub fn main(a: u8) -> u8 { a }\n", "pub fn main(a: u8) -> u8 {\ta }", "PUB FN MAIN", "pub fn main(x: u8) -> u8 { x } // \u{e4}\u{20ac}"].iter().map(|x| x.to_string()).collect();
                    for k in 0..8 { let len = [1usize, 63, 64, 65, 127, 128, 500, 1000][k]; texts.push((0..len).map(|_| (32 + r.below(95) as u8) as char).collect()); }
                    for t in texts { let pol = Policy { program: t.clone(), ..policy(2, 0, 0, true, Uuid::from_u128(1), P2, false) };
                        let hex: String = t.as_bytes().iter().map(|b| format!("{b:02x}")).collect(); let want = m.ask(&format!("prim blake3 {}", if hex.is_empty() { "-".to_string() } else { hex }));
                        *dist.entry("program_hash_tie".into()).or_default() += 1; steps += 1;
                        if want != format!("blake3 {}", pol.program_hash()) { disagreements.push(json!({"what": "Policy::program_hash() is not BLAKE3 of the program bytes (Lean BLAKE3)", "program": t, "real": pol.program_hash(), "model": want})); } }
                }
                // kinds 3 and 4: programs that are DIFFERENT (they compute different functions) but textually as close as possible — a line break that
                // moves code into a comment, and a difference in the very last token; kinds cycle deterministically first, then seeded
                // corpus: the mismatching follower schedules first; while it waits for validation a SECOND schedule arrives with the leader's program
                // (it is refused: the state is not Init); then the leader's validate request is delivered — it must still find the mismatch
                if case == 5 || case == 6 {
                    let (n, leader) = (2usize, case % 2); let bad = 1 - leader; let outs = vec![true; 2]; let other = "pub fn main(a: u8, b: u8) -> u8 { a ^ b }";
                    let mut progs = vec![P2; n]; progs[bad] = other;
                    *HOLD.lock().unwrap() = Some(("validate", leader, bad)); let mut done = false;
                    let o = scenario(n, leader, &outs, false, &progs, &vec![leader; n], 1, &mut r, None, move |_step, idle| if !done && idle >= 3 { done = true; *HOLD.lock().unwrap() = None; Some(Inject::RescheduleWith(bad, P2)) } else { None }).await; execs += 1;
                    *HOLD.lock().unwrap() = None; correspond(&mut m, &o, None, &mut disagreements, &mut steps);
                    *dist.entry("mismatch:program+refused-reschedule".into()).or_default() += 1; distinct.insert(format!("reschedule {leader}"));
                    let mut bad_v = vec![];
                    if o.sched[bad] == "Ok" { bad_v.push("mismatching follower's schedule returned Ok".to_string()); }
                    if o.sched[leader] == "Ok" { bad_v.push("leader's schedule returned Ok".to_string()); }
                    if o.outputs.iter().any(|(_, s)| s.starts_with("Ok(")) { bad_v.push(format!("a successful result was delivered: {:?}", o.outputs)); }
                    if o.msgs != 0 { bad_v.push(format!("{} MPC messages exchanged", o.msgs)); }
                    if !bad_v.is_empty() { failures.push(json!({"witness": "C16:mismatch-after-refused-reschedule", "failure": bad_v, "case": json!({"n": n, "leader": leader, "bad_follower": bad, "sched": o.sched, "log": o.log})})); }
                    continue;
                }
                // corpus: three parties, the mismatch in the program or in the LEADER field, and both arrival orders at the mismatching follower made
                // deterministic: its own schedule first (the normal scenario), or the leader's validate first (the follower is scheduled late)
                if (7..15).contains(&case) {
                    let k = case - 7; let (n, leader, leader_kind, late) = (3usize, k % 2, (k / 2) % 2 == 1, k / 4 == 1); let bad = (leader + 1) % n; let outs = vec![true; 3];
                    let mut progs = vec![P3; n]; let mut leaders = vec![leader; n];
                    if leader_kind { leaders[bad] = (leader + 2) % n; } else { progs[bad] = "pub fn main(a: u8, b: u8, c: u8) -> u8 { a ^ b ^ c }"; }
                    if late { *LATE.lock().unwrap() = Some(bad); } let mut fired = false;
                    let o = scenario(n, leader, &outs, false, &progs, &leaders, 1, &mut r, None, move |step, idle| if late && !fired && step >= n - 1 && idle >= 2 { fired = true; Some(Inject::LateSchedule(bad)) } else { None }).await; execs += 1;
                    *LATE.lock().unwrap() = None; *LATE_POLICY.lock().unwrap() = None; correspond(&mut m, &o, None, &mut disagreements, &mut steps);
                    let what = format!("{}/{}", if leader_kind { "leader" } else { "program" }, if late { "validate-first" } else { "schedule-first" });
                    *dist.entry(format!("mismatch3:{what}")).or_default() += 1; distinct.insert(format!("m3 {what} {leader}"));
                    let mut bad_v = vec![];
                    if o.sched[bad] == "Ok" { bad_v.push("mismatching follower's schedule returned Ok".to_string()); }
                    if o.sched[leader] == "Ok" { bad_v.push("leader's schedule returned Ok".to_string()); }
                    if o.outputs.iter().any(|(_, s)| s.starts_with("Ok(")) { bad_v.push(format!("a successful result was delivered: {:?}", o.outputs)); }
                    if o.msgs != 0 { bad_v.push(format!("{} MPC messages exchanged", o.msgs)); }
                    if !bad_v.is_empty() { failures.push(json!({"witness": "C16:mismatch-corpus", "failure": bad_v, "case": json!({"n": n, "leader": leader, "bad_follower": bad, "what": what, "sched": o.sched, "log": o.log})})); }
                    continue;
                }
                let bad_follower = (leader + 1 + r.below(n as u64 - 1) as usize) % n; let kind = if case < 5 { case as u64 } else { r.below(5) };
                let mut progs = vec![prog; n]; let mut leaders = vec![leader; n]; let other = if n == 2 { "pub fn main(a: u8, b: u8) -> u8 { a ^ b }" } else { "pub fn main(a: u8, b: u8, c: u8) -> u8 { a ^ b ^ c }" };
                let what = match kind { 0 => { progs[bad_follower] = other; "program" } 1 => { leaders[bad_follower] = (0..n).find(|p| *p != leader && *p != bad_follower).unwrap_or(leader); if leaders[bad_follower] == leader { progs[bad_follower] = other; "program" } else { "leader" } }
                    2 => { progs[bad_follower] = "pub fn main(a: u8) -> u8 { a + true }"; "illtyped" }
                    3 => { progs = vec![if n == 2 { NL_A2 } else { NL_A3 }; n]; progs[bad_follower] = if n == 2 { NL_B2 } else { NL_B3 }; "program_linebreak" }
                    _ => { progs[bad_follower] = if n == 2 { "pub fn main(a: u8, b: u8) -> u8 { a + a }" } else { "pub fn main(a: u8, b: u8, c: u8) -> u8 { a + b + b }" }; "program_tail" } };
                let o = scenario(n, leader, &outs, false, &progs, &leaders, 1, &mut r, None, |_, _| None).await; execs += 1; correspond(&mut m, &o, None, &mut disagreements, &mut steps);
                *dist.entry(format!("mismatch:{what}")).or_default() += 1; distinct.insert(format!("{:?}", (what, n, leader, bad_follower, o.log.join(";"))));
                let mut bad = vec![];
                if o.sched[bad_follower] == "Ok" { bad.push(format!("mismatching follower's schedule returned Ok")); }
                if what != "illtyped" && o.sched[leader] == "Ok" { bad.push("leader's schedule returned Ok".to_string()); }
                if o.outputs.iter().any(|(_, s)| s.starts_with("Ok(")) { bad.push(format!("a successful result was delivered: {:?}", o.outputs)); }
                if o.msgs != 0 { bad.push(format!("{} MPC messages exchanged", o.msgs)); }
                if !bad.is_empty() { failures.push(json!({"witness": "C16:other", "failure": bad, "case": desc(json!({"what": what, "bad_follower": bad_follower, "sched": o.sched, "log": o.log}))})); }
                if samples.len() < 2 { samples.push(desc(json!({"what": what, "bad_follower": bad_follower, "sched": o.sched}))); }
            }
            "C17" => {
                // corpus: the policy ends with a COMPILE error after the constants exchange (party 0 announces its constant under another name than the
                // program reads: type check and validation pass, `compile_with_options` fails at every party): every state machine ends, the budget is back
                if case >= 12 && case < 16 {
                    let (n, leader, dest) = (2usize, case % 2, case < 14); let outs = vec![dest; 2];
                    WRONG_CONST.store(true, Ordering::SeqCst);
                    let o = scenario(n, leader, &outs, true, &vec![P2C; n], &vec![leader; n], 1, &mut r, None, |_, _| None).await; execs += 1;
                    WRONG_CONST.store(false, Ordering::SeqCst); correspond(&mut m, &o, Some("compile"), &mut disagreements, &mut steps);
                    *dist.entry("end:compile-error".into()).or_default() += 1; distinct.insert(format!("compile-error {leader} {dest}"));
                    let mut bad = vec![];
                    if o.finished.iter().any(|f| !f) { bad.push(format!("state machines still running after the policy ended with a compile error: {:?}", o.finished)); }
                    if o.permits.iter().any(|p| *p != 1) { bad.push(format!("permits after the policy ended: {:?}, budget 1", o.permits)); }
                    if o.panicked.iter().any(|p| *p) { bad.push("actor panicked".into()); }
                    if dest { for p in 0..n { let got: Vec<&String> = o.outputs.iter().filter(|(q, _)| *q == p).map(|(_, s)| s).collect(); if got.len() != 1 || !got[0].starts_with("Err(") { bad.push(format!("party {p} destination got {got:?}, want one error notification")); } } }
                    if !bad.is_empty() { failures.push(json!({"witness": "C17:compile-error-end", "failure": bad, "case": json!({"n": n, "leader": leader, "destinations": dest, "constant_announced_as": "M", "program_reads": "PARTY_0::K", "outputs": o.outputs, "log": o.log})})); }
                    if samples.len() < 3 { samples.push(json!({"compile_error_end": {"leader": leader, "permits": o.permits, "outputs": o.outputs}})); }
                    continue;
                }
                // corpus: the MPC message links go down in both directions after k delivered messages (k from 1 to the middle of the protocol): the MPC of every
                // party must END with an error (a concurrent send/receive exchange whose send has failed must not wait for the peer's half, which will never
                // come), the destinations are notified, the state machines stop and the leader's permit is back
                if case >= 20 && case < 28 {
                    let (n, leader, dest) = (2usize, case % 2, case % 4 < 2); let outs = vec![dest; 2]; let k = [1usize, 3, 8, 20][(case - 20) / 2];
                    *LINK_DOWN_AFTER.lock().unwrap() = Some(k); LINK_FAILED.lock().unwrap().clear();
                    let o = scenario(n, leader, &outs, false, &vec![P2; n], &vec![leader; n], 1, &mut r, None, |_, _| None).await; execs += 1;
                    *LINK_DOWN_AFTER.lock().unwrap() = None; let failed: Vec<usize> = LINK_FAILED.lock().unwrap().clone();
                    *dist.entry("end:mpc-links-down".into()).or_default() += 1; *dist.entry(format!("links-down:parties-with-a-failed-send:{}", failed.len())).or_default() += 1; distinct.insert(format!("links-down {leader} {dest} {k}"));
                    // the claim is about the CALLER of a failed call: a party that was only waiting to receive when its peer went away has observed nothing (it waits on; not claimed)
                    let mut bad = vec![];
                    if failed.is_empty() { bad.push("no msg call failed although the links went down (the scenario did not reach the MPC?)".to_string()); }
                    for &p in &failed { if !o.finished[p] { bad.push(format!("party {p}: a msg call of it failed, but its state machine is still running (finished {:?})", o.finished)); }
                        if o.permits[p] != 1 { bad.push(format!("party {p}: permits after its policy ended: {}, budget 1", o.permits[p])); }
                        if dest { let got: Vec<&String> = o.outputs.iter().filter(|(q, _)| *q == p).map(|(_, s)| s).collect(); if got.len() != 1 || !got[0].starts_with("Err(") { bad.push(format!("party {p}'s destination got {got:?}, want one error notification")); } } }
                    if o.panicked.iter().any(|p| *p) { bad.push("actor panicked".into()); }
                    if !bad.is_empty() { failures.push(json!({"witness": "C17:mpc-links-down", "failure": bad, "case": json!({"n": n, "leader": leader, "destinations": dest, "links_down_after_messages": k, "parties_with_a_failed_send": failed, "mpc_messages_delivered": o.msgs, "outputs": o.outputs, "finished": o.finished, "permits": o.permits})})); }
                    continue;
                }
                // corpus: the LEADER's own input literal has the wrong type: its run ends with `InvalidInput` after validation (its followers wait for an
                // MPC that never starts — nothing is claimed about them); the leader's state machine ends, it is notified, its permit is back
                if case >= 16 && case < 20 {
                    let (n, leader, dest) = (2usize, case % 2, case < 18); let outs = vec![dest; 2];
                    *BAD_INPUT.lock().unwrap() = Some(leader);
                    let o = scenario(n, leader, &outs, false, &vec![P2; n], &vec![leader; n], 1, &mut r, None, |_, _| None).await; execs += 1;
                    *BAD_INPUT.lock().unwrap() = None;
                    *dist.entry("end:leader-invalid-input".into()).or_default() += 1; distinct.insert(format!("invalid-input {leader} {dest}"));
                    let mut bad = vec![];
                    if !o.finished[leader] { bad.push("the leader's state machine is still running after its run ended with InvalidInput".to_string()); }
                    if o.permits[leader] != 1 { bad.push(format!("leader's permits after its policy ended: {}, budget 1", o.permits[leader])); }
                    if o.panicked.iter().any(|p| *p) { bad.push("actor panicked".into()); }
                    if dest { let got: Vec<&String> = o.outputs.iter().filter(|(q, _)| *q == leader).map(|(_, s)| s).collect(); if got.len() != 1 || !got[0].starts_with("Err(") { bad.push(format!("leader's destination got {got:?}, want one error notification")); } }
                    if !bad.is_empty() { failures.push(json!({"witness": "C17:leader-invalid-input-end", "failure": bad, "case": json!({"n": n, "leader": leader, "destinations": dest, "outputs": o.outputs, "finished": o.finished, "permits": o.permits, "log": o.log})})); }
                    continue;
                }
                // corpus first: every RPC kind x both leaders x destinations absent/present (n = 2), deterministically; then seeded random scenarios
                let fixed = case < 12;
                let kind = if fixed { ["validate", "run", "consts"][case % 3] } else { ["validate", "run", "consts"][r.below(3) as usize] }; let consts2 = if fixed { kind == "consts" } else { consts || kind == "consts" }; let n2 = if fixed { 2 } else if consts2 { n } else { n }; let prog2 = if consts2 { if n2 == 2 { P2C } else { P3C } } else if n2 == 2 { P2 } else { P3 };
                let leader2 = if fixed { (case / 3) % 2 } else { leader % n2 }; let outs2: Vec<bool> = if fixed { vec![case / 6 == 1; 2] } else { outs.iter().take(n2).cloned().collect() };
                let o = scenario(n2, leader2, &outs2, consts2, &vec![prog2; n2], &vec![leader2; n2], 1, &mut r, Some((kind, 0)), |_, _| None).await; execs += 1; correspond(&mut m, &o, Some(kind), &mut disagreements, &mut steps);
                *dist.entry(format!("fail:{kind}")).or_default() += 1; *dist.entry(format!("leader_has_dest:{}", outs2[leader2])).or_default() += 1; distinct.insert(format!("{:?}", (kind, n2, leader2, outs2.clone())));
                let failed = o.log.iter().any(|l| l.starts_with("FAIL"));
                // the property speaks about the CALLER of the failed RPC: its policy ends (error notification if it has a destination; for validate the
                // error reply of its own schedule call is the notification) and, if it is the leader, its permit is back. A peer that merely waits for the caller is not covered.
                let caller = o.log.iter().find(|l| l.starts_with("FAIL")).and_then(|l| l.split_whitespace().nth(2)).and_then(|x| x.split("->").next()).and_then(|x| x.parse::<usize>().ok());
                if let (true, Some(c)) = (failed, caller) {
                    let mut bad = vec![];
                    if !o.finished[c] { bad.push(format!("caller {c}'s policy did not end")); }
                    if c == leader2 && o.permits[leader2] != 1 { bad.push("leader's permit not returned".to_string()); }
                    if outs2[c] && kind != "validate" && !o.outputs.iter().any(|(p, s)| *p == c && s.starts_with("Err")) { bad.push(format!("caller {c} has a destination but got no error notification")); }
                    if !bad.is_empty() { failures.push(json!({"witness": if kind == "run" { "C17-a:run-failure-no-destination" } else if kind == "consts" { "C17-b:consts-failure-lingers" } else { "C17:other" }, "failure": format!("after a failed {kind} RPC issued by party {c}: {}; available {:?}, finished {:?}", bad.join("; "), o.permits, o.finished), "case": json!({"n": n2, "leader": leader2, "outputs": outs2, "log": o.log, "got": o.outputs})})); }
                }
                if samples.len() < 2 { samples.push(json!({"n": n2, "leader": leader2, "fail": kind, "permits": o.permits, "outputs": o.outputs})); }
                // ---- batches of policies sharing the hosts' semaphores (bound + no leak), deterministic corpus (k, concurrency) then seeded
                if case < 4 || case % 6 == 0 {
                    let (k, conc) = match case { 0 => (2usize, 1usize), 1 => (3, 1), 2 => (5, 2), 3 => (8, 3), _ => (2 + r.below(7) as usize, 1 + r.below(3) as usize) };
                    let leaders_b: Vec<usize> = (0..k).map(|j| if case < 2 { 0 } else { (j + r.below(2) as usize) % 2 }).collect(); let outs_b: Vec<Vec<bool>> = (0..k).map(|_| vec![r.below(4) != 0, r.below(4) != 0]).collect();
                    let b = batch(k, conc, &leaders_b, &outs_b, &mut r).await; execs += 1; *dist.entry(format!("batch:k{k}/c{conc}")).or_default() += 1; distinct.insert(format!("batch {k} {conc} {leaders_b:?} {outs_b:?}"));
                    let mut bad = vec![]; let want = expected(2, false);
                    // per host: leaders that certainly hold a permit (between acquiring it inside `schedule` and handing it to the MPC task)
                    let mut kind_of: HashMap<usize, String> = HashMap::new(); let mut max_certain = vec![0usize; 2];
                    for (id, cmd, _before, after, snap) in &b.obs { kind_of.insert(*id, after.clone());
                        let _ = cmd;
                        for host in 0..2 { let certain = (0..k).filter(|j| leaders_b[*j] == host && matches!(kind_of.get(&(10 * j + host)).map(|s| s.as_str()), Some("Validated") | Some("SendingConsts") | Some("SendingConstsCompleted") | Some("Running"))).count();
                            max_certain[host] = max_certain[host].max(certain);
                            if certain > conc && bad.len() < 3 { bad.push(format!("host {host}: {certain} leader computations hold a permit at once, concurrency is {conc}")); }
                            if snap[host] > conc || conc - snap[host] < certain && bad.len() < 3 { bad.push(format!("host {host}: {certain} leaders are past the permit point but only {} permits are taken", conc - snap[host].min(conc))); } } }
                    // a led computation is IN PROGRESS at its leader from the moment the leader holds the permit (state Validated) until its result has been
                    // delivered to the leader's destination (or, without destination, until the leader's state machine has stopped): never more than `conc` at once
                    { let mut started: Vec<bool> = vec![false; k]; let mut done: Vec<bool> = vec![false; k];
                      for (id, cmd, _b, after, _snap) in &b.obs { let (j, p) = (id / 10, id % 10); if j >= k || p != leaders_b[j] { continue; }
                        if cmd == "OutputDelivered" || (after == "Stopped" && !outs_b[j][p]) { done[j] = true; }
                        if after == "Validated" && !started[j] { started[j] = true;
                            let live = (0..k).filter(|q| leaders_b[*q] == p && started[*q] && !done[*q]).count();
                            if live > conc && bad.len() < 3 { bad.push(format!("host {p}: policy {j} obtained a permit while {} other led computations had not delivered their result yet (concurrency {conc})", live - 1)); } } } }
                    if b.permits.iter().any(|p| *p != conc) { bad.push(format!("permits after the batch: {:?}, budget {conc}", b.permits)); }
                    for j in 0..k { if b.sched[j].iter().any(|x| x != "Ok") { bad.push(format!("policy {j}: schedule results {:?}", b.sched[j])); } if b.finished[j].iter().any(|f| !f) { bad.push(format!("policy {j}: state machines not stopped {:?}", b.finished[j])); }
                        for p in 0..2 { let got: Vec<&String> = b.outputs[j].iter().filter(|(q, _)| *q == p).map(|(_, s)| s).collect(); if outs_b[j][p] && got != vec![&want] { bad.push(format!("policy {j} party {p}: destination got {got:?}")); } } }
                    if !bad.is_empty() { failures.push(json!({"witness": "C17:batch", "failure": bad.iter().take(4).collect::<Vec<_>>(), "case": json!({"policies": k, "concurrency": conc, "leaders": leaders_b, "outputs": outs_b})})); }
                    if samples.len() < 3 { samples.push(json!({"batch": {"policies": k, "concurrency": conc, "leaders": leaders_b, "max_certain_holders_per_host": max_certain, "permits_after": b.permits, "observed_steps": b.obs.len()}})); }
                }
            }
            "C12" => {
                // corpus first: the links into the leader (= evaluator) from each contributor; then all directed links and leaders in turn
                let all: Vec<(usize, (usize, usize))> = (0..3).flat_map(|l| (0..3).flat_map(move |f| (0..3).filter(move |t| *t != f).map(move |t| (l, (f, t))))).collect();
                let (leader, slow) = match case { 0 => (0, (2, 0)), 1 => (0, (1, 0)), 2 => (1, (0, 1)), 3 => (0, (2, 0)), _ => all[(case - 4) % all.len()] };
                // every fourth case (and the last corpus entry): the circuit with the maximal number of one-way chunks
                let prog = if case == 3 || case % 4 == 3 { PBIG64 } else { PBIG };
                let (outs, total, released, stuck) = slow_link_run(3, leader, slow, prog, 300).await; execs += 1;
                *dist.entry(format!("ands:{}", if prog == PBIG64 { ">8000 (9 chunks)" } else { "2001..8000" })).or_default() += 1; *dist.entry(format!("slow-link:{}->{}{}", slow.0, slow.1, if slow.1 == leader { " (into evaluator)" } else if slow.0 == leader { " (from evaluator)" } else { "" })).or_default() += 1; distinct.insert(format!("{leader} {slow:?}"));
                let want = "Ok(60)".to_string(); let mut bad = vec![];
                for p in 0..3 { let got: Vec<&String> = outs.iter().filter(|(q, _)| *q == p).map(|(_, s)| s).collect(); if got != vec![&want] { bad.push(format!("party {p}: destination got {got:?}, want one {want}")); } }
                if stuck { bad.push("a message of the slow link could not be handed to the receiving actor: its command loop is blocked".into()); }
                if !bad.is_empty() { failures.push(json!({"witness": "C12:server-slow-link", "failure": bad, "case": json!({"n": 3, "leader": leader, "slow_link": [slow.0, slow.1], "program": prog, "mpc_messages": total, "released_one_by_one": released})})); }
                if samples.len() < 3 { samples.push(json!({"leader": leader, "slow_link": [slow.0, slow.1], "mpc_messages": total, "released_one_by_one": released, "outputs": outs})); }
            }
            _ => { eprintln!("unknown property"); std::process::exit(2); }
        }
    }
    { let c = COVER.lock().unwrap(); dist.insert(format!("transitions_replayed_through_model:{}", c.len()), c.len() as u64); if samples.len() < 6 { samples.push(json!({"transition_coverage (state/command)": c.iter().cloned().collect::<Vec<_>>()})); } }
    println!("{}", serde_json::to_string_pretty(&json!({"executions": execs, "distinct_nontrivial": distinct.len(), "distribution": dist, "samples": samples, "model_steps_compared": steps, "model_disagreements": disagreements, "impl_vs_oracle_failures": failures})).unwrap());
}
