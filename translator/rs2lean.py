#!/usr/bin/env python3-vt
"""Scratch prototype: translate straight-line integer Rust fns (gf128 scalar) to Lean BitVec defs."""
import re, sys
from lark import Lark, Transformer, Tree, Token

GRAMMAR = r"""
start: item*
item: fn_item | const_item
const_item: "const" NAME ":" TYPE "=" expr ";"
fn_item: attr* vis? "fn" NAME "(" params? ")" ("->" rtype)? block
attr: "#" "[" /[^\]]+/ "]"
vis: "pub" ("(" /[a-z]+/ ")")?
params: param ("," param)* ","?
param: NAME ":" TYPE
rtype: TYPE | "(" TYPE ("," TYPE)* ")"
block: "{" stmt* expr? "}"
stmt: "let" pat (":" TYPE)? "=" expr ";"   -> let
    | NAME ASSIGNOP expr ";"               -> assign
    | item                                 -> nested
pat: MUT? NAME | "(" pat ("," pat)* ")"
MUT: "mut"
ASSIGNOP: "&=" | "^=" | "|="
?expr: or_e
?or_e: xor_e ("|" xor_e)*
?xor_e: and_e ("^" and_e)*
?and_e: shift_e ("&" shift_e)*
?shift_e: add_e (SHOP add_e)*
SHOP: "<<" | ">>"
?add_e: mul_e (ADDOP mul_e)*
ADDOP: "+" | "-"
?mul_e: cast_e ("*" cast_e)*
?cast_e: atom ("as" TYPE)*
?atom: NUMBER -> num | NAME -> var | "(" expr ")" | "(" expr ("," expr)+ ")" -> tuple
     | "const" "{" expr "}" -> constblk | NAME "(" (expr ("," expr)*)? ")" -> call
TYPE: "u64" | "u128" | "u32" | "usize"
NAME: /(?!(let|fn|const|as|mut|pub)\b)[A-Za-z_][A-Za-z0-9_]*/
NUMBER: /0b[01_]+|0x[0-9a-fA-F_]+|[0-9][0-9_]*/
COMMENT: /\/\/[^\n]*/
%import common.WS
%ignore WS
%ignore COMMENT
"""
W = {"u64": 64, "u128": 128, "u32": 32}

def extract_fn(src, name):
    m = re.search(r'(?:pub\(super\)\s+)?fn\s+' + name + r'\s*\(', src)
    assert m, name
    i = src.index('{', m.end()); depth = 0; j = i
    while True:
        if src[j] == '{': depth += 1
        elif src[j] == '}':
            depth -= 1
            if depth == 0: break
        j += 1
    return src[m.start():j+1]

class Tr:
    def __init__(self): self.consts = {}; self.out = []; self.fnsig = {}
    def ty(self, t): return f"BitVec {W[str(t)]}"
    def expr(self, e, env):
        """returns (lean_text, width)"""
        if isinstance(e, Token): raise ValueError(e)
        d = e.data
        if d == 'num':
            s = str(e.children[0]).replace('_', ''); v = int(s, 0); return (str(v), None)
        if d == 'var':
            n = str(e.children[0])
            if n in env: return env[n]
            if n in self.consts: return self.consts[n]
            raise KeyError(n)
        if d == 'constblk': return self.expr(e.children[0], env)
        if d == 'tuple': return ('(' + ', '.join(self.expr(c, env)[0] for c in e.children) + ')', tuple(self.expr(c, env)[1] for c in e.children))
        if d == 'call':
            f = str(e.children[0]); args = [self.expr(c, env) for c in e.children[1:]]
            return (f'({f} ' + ' '.join(a[0] if a[0].isidentifier() else f'({a[0]})' for a in args) + ')', self.fnsig[f])
        if d == 'cast_e':
            t, w = self.expr(e.children[0], env)
            for ty in e.children[1:]:
                w2 = W[str(ty)]
                if w is None: t = f'({t} : BitVec {w2})'
                elif w2 != w: t = f'(({t}).setWidth {w2})'
                w = w2
            return (t, w)
        ops = {'or_e': '|||', 'xor_e': '^^^', 'and_e': '&&&', 'mul_e': '*'}
        if d in ops:
            parts = [self.expr(c, env) for c in e.children]; w = next((p[1] for p in parts if p[1] is not None), None)
            txt = [p[0] if p[1] is not None else f'({p[0]} : BitVec {w})' for p in parts]
            return ('(' + f' {ops[d]} '.join(txt) + ')', w)
        if d in ('shift_e', 'add_e'):
            t, w = self.expr(e.children[0], env)
            for k in range(1, len(e.children), 2):
                op = str(e.children[k]); r, rw = self.expr(e.children[k+1], env)
                if d == 'shift_e':
                    amt = r if rw is None else f'({r}).toNat'
                    t = f'({t} {"<<<" if op == "<<" else ">>>"} {amt})'
                else:
                    if w is None and rw is None: t = str(eval(f'{t}{op}{r}'))
                    else:
                        ww = w or rw
                        if w is None: t = f'({t} : BitVec {ww})'
                        if rw is None: r = f'({r} : BitVec {ww})'
                        t = f'({t} {op} {r})'; w = ww
            return (t, w)
        raise ValueError(d)
    def fn(self, tree, consts_outer=None):
        kids = [c for c in tree.children if not (isinstance(c, Tree) and c.data in ('attr', 'vis'))]
        name = str(kids[0]); params = []; rt = None; block = None
        for c in kids[1:]:
            if c.data == 'params': params = [(str(p.children[0]), str(p.children[1])) for p in c.children]
            elif c.data == 'rtype': rt = [str(t) for t in c.children]
            elif c.data == 'block': block = c
        env = {n: (n, W[t]) for n, t in params}; lines = []; ver = {}
        def fresh(n):
            ver[n] = ver.get(n, -1) + 1; return n if ver[n] == 0 else f"{n}_{ver[n]}"
        def bind(p, val):
            names = [str(c) for c in p.children if isinstance(c, Token) and c.type == 'NAME']
            if names:
                ln = fresh(names[0]); env[names[0]] = (ln, val[1]); return ln
            subs = [bind(c, (None, val[1][k])) for k, c in enumerate(p.children)]
            return '(' + ', '.join(subs) + ')'
        tail = None
        for s in block.children:
            if isinstance(s, Tree) and s.data == 'nested':
                it = s.children[0].children[0]
                if it.data == 'const_item': self.const(it, env)
                else: self.fn(it)
            elif isinstance(s, Tree) and s.data == 'let':
                pat = s.children[0]; e = s.children[-1]; val = self.expr(e, env)
                if val[1] is None and len(s.children) == 3: w = W[str(s.children[1])]; val = (f'({val[0]} : BitVec {w})', w)
                ln = bind(pat, val); lines.append(f"  let {ln} := {val[0]}")
            elif isinstance(s, Tree) and s.data == 'assign':
                n = str(s.children[0]); op = {'&=': '&&&', '^=': '^^^', '|=': '|||'}[str(s.children[1])]
                r, rw = self.expr(s.children[2], env); old, w = env[n]
                r = r if rw is not None else f'({r} : BitVec {w})'
                ln = fresh(n); env[n] = (ln, w); lines.append(f"  let {ln} := {old} {op} {r}")
            else: tail = self.expr(s, env)
        rtxt = ' × '.join(self.ty(t) for t in rt)
        self.fnsig[name] = W[rt[0]] if len(rt) == 1 else tuple(W[t] for t in rt)
        sig = ' '.join(f'({n} : {self.ty(t)})' for n, t in params)
        self.out.append(f"def {name} {sig} : {rtxt} :=\n" + '\n'.join(lines) + ('\n' if lines else '') + f"  {tail[0]}\n")
    def const(self, tree, env):
        n = str(tree.children[0]); w = W[str(tree.children[1])]; t, _ = self.expr(tree.children[2], env)
        self.consts[n] = (f'({t} : BitVec {w})', w)

def main(path):
    src = open(path).read(); scalar = src[src.index('mod scalar {'):]
    parser = Lark(GRAMMAR, parser='earley'); tr = Tr()
    for fn in ['clmul64', 'clmul128', 'gf128_reduce']:
        tree = parser.parse(extract_fn(scalar, fn)); tr.fn(tree.children[0].children[0])
    print("-- GENERATED from " + path + " — do not edit\nnamespace PolytuneModel.Gen\n" + '\n'.join(tr.out) + "end PolytuneModel.Gen")
main(sys.argv[1])
