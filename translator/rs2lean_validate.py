#!/usr/bin/env python3
"""Translate `protocol.rs::validate` (the argument checks `mpc` performs before anything else) into a Lean definition
`Gen.validateArgs`. The function is a sequence of guards; each statement must match one of the templates below, whose holes are
expressions of a tiny language. A statement that matches none makes the translator FAIL LOUDLY (a broken proof obligation).
Removing, reordering or changing a guard changes the generated definition, and `Thm/C18gen.lean` (Gen.validateArgs = the
hand-written `validateArgs` the C18 theorems are about) stops checking.

templates (NAME, W, IDX, X: identifiers; E: expression; C: condition; V: error variant):
  circ.validate()?;
  let NAME = circ.insts.iter().position(|inst| !matches!(inst.op, Op::Input(_))).unwrap_or(circ.insts.len());
  if let Some((W, inst)) = circ.insts.iter().enumerate().skip(NAME).find(|(_, inst)| matches!(inst.op, Op::Input(_))) { return Err(CircuitError::InvalidInput(W, *inst).into()); }
  let Some(NAME) = circ.input_regs.get(E) else { return Err(Error::V); };
  if C { return Err(Error::V…); }
  for (IDX, X) in p_out.iter().enumerate() { if C { return Err(Error::V(*X)); } }
  Ok(())
E ::= NAME | *NAME | NAME.len()          C ::= A (|| A)*          A ::= E (>=|<=|==|!=|<|>) E | NAME.is_empty() | NAME[..IDX].contains(X)
"""
import re, sys

def extract(src):
    m = re.search(r'fn\s+validate\s*\(ctx:[^)]*\)\s*->\s*Result<\(\),\s*Error>\s*\{', src)
    if not m: raise SystemExit("translator(validate): `fn validate(ctx: …) -> Result<(), Error>` not found")
    i = m.end() - 1; depth = 0; j = i
    while True:
        if src[j] == '{': depth += 1
        elif src[j] == '}':
            depth -= 1
            if depth == 0: break
        j += 1
    return src[i + 1:j]

def statements(body):
    body = re.sub(r'//[^\n]*', '', body); out = []; cur = ''; depth = 0
    for ch in body:
        cur += ch
        if ch in '{([': depth += 1
        elif ch in '})]':
            depth -= 1
            if depth == 0 and ch == '}' and re.match(r'\s*(if|for)\b', cur): out.append(' '.join(cur.split())); cur = ''
        elif ch == ';' and depth == 0: out.append(' '.join(cur.split())); cur = ''
    if cur.strip(): out.append(' '.join(cur.split()))
    return out

NAMES = {'p_own': 'p_own', 'p_max': 'p_max', 'p_eval': 'p_eval', 'p_out': 'p_out', 'inputs': 'inputs'}
def expr(e, env):
    e = e.strip()
    if re.fullmatch(r'\*?[a-z_]+', e):
        n = e.lstrip('*')
        if n in env: return env[n]
        raise SystemExit(f"translator(validate): unknown name `{n}`")
    m = re.fullmatch(r'([a-z_]+)\.len\(\)', e)
    if m and m.group(1) == 'inputs': return 'inputs_len'
    if m and m.group(1) in env: return f"{env[m.group(1)]}.length"
    raise SystemExit(f"translator(validate): expression outside the subset: `{e}`")
def atom(a, env):
    a = a.strip()
    m = re.fullmatch(r'([a-z_]+)\.is_empty\(\)', a)
    if m: return f"({expr(m.group(1), env)}.isEmpty = true)"
    m = re.fullmatch(r'([a-z_]+)\[\.\.([a-z_]+)\]\.contains\(([a-z_]+)\)', a)
    if m: return f"(({expr(m.group(1), env)}.take {expr(m.group(2), env)}).contains {expr(m.group(3), env)} = true)"
    m = re.fullmatch(r'(.+?)\s*(>=|<=|==|!=|<|>)\s*(.+)', a)
    if m:
        op = {'>=': '≥', '<=': '≤', '==': '=', '!=': '≠', '<': '<', '>': '>'}[m.group(2)]
        return f"({expr(m.group(1), env)} {op} {expr(m.group(3), env)})"
    raise SystemExit(f"translator(validate): condition outside the subset: `{a}`")
def cond(c, env): return ' ∨ '.join(atom(a, env) for a in c.split('||'))
def err(e, env):
    e = e.strip()
    m = re.fullmatch(r'Error::([A-Za-z]+)(?:\s*\((.*)\)|\s*\{(.*)\})?', e)
    if not m: raise SystemExit(f"translator(validate): error value outside the subset: `{e}`")
    v = m.group(1); lean = {'PartyDoesNotExist': '.partyDoesNotExist', 'MissingOutputParties': '.missingOutputParties'}.get(v)
    if lean: return lean
    if v == 'InvalidOutputParty': return f"(.invalidOutputParty {expr(m.group(2), env)})"
    if v == 'WrongInputSize':
        f = dict(x.split(':') for x in m.group(3).split(',') if ':' in x); f = {k.strip(): val for k, val in f.items()}
        return f"(.wrongInputSize {expr(f['expected'], env)} {expr(f['actual'], env)})"
    raise SystemExit(f"translator(validate): unknown error variant `{v}`")

def main(repo):
    src = open(f"{repo}/src/mpc/protocol.rs").read(); st = statements(extract(src)); env = dict(NAMES); lines = []
    if not re.fullmatch(r'let &Context \{[^}]*\} = ctx;', st[0]): raise SystemExit(f"translator(validate): first statement must destructure the context: `{st[0]}`")
    for s in st[1:]:
        if s == 'circ.validate()?;': lines.append("(match c.validate with | .error e => .error (.circuit e) | .ok _ => @R@)"); continue
        m = re.fullmatch(r'let ([a-z_]+) = circ \.insts \.iter\(\) \.position\(\|inst\| !matches!\(inst\.op, Op::Input\(_\)\)\) \.unwrap_or\(circ\.insts\.len\(\)\);', s)
        if m: env[m.group(1)] = m.group(1); lines.append(f"(let {m.group(1)} := (c.insts.findIdx? (fun inst => !inst.op.isInput)).getD c.insts.length; @R@)"); continue
        m = re.fullmatch(r'if let Some\(\(([a-z_]+), inst\)\) = circ \.insts \.iter\(\) \.enumerate\(\) \.skip\(([a-z_]+)\) \.find\(\|\(_, inst\)\| matches!\(inst\.op, Op::Input\(_\)\)\) \{ return Err\(CircuitError::InvalidInput\(\1, \*inst\)\.into\(\)\); \}', s)
        if m: lines.append(f"(match ((c.insts.zipIdx.drop {expr(m.group(2), env)}).find? (fun (inst, _) => inst.op.isInput)) with | some (_, {m.group(1)}) => .error (.circuit (.invalidInput {m.group(1)})) | none => @R@)"); continue
        m = re.fullmatch(r'let Some\(([a-z_]+)\) = circ\.input_regs\.get\((.+?)\) else \{ return Err\((.+?)\); \};', s)
        if m: env[m.group(1)] = m.group(1); lines.append(f"(match c.inputRegs[{expr(m.group(2), env)}]? with | none => .error {err(m.group(3), env)} | some {m.group(1)} => @R@)"); continue
        m = re.fullmatch(r'if (.+?) \{ return Err\((.+)\); \}', s)
        if m: lines.append(f"(if {cond(m.group(1), env)} then .error {err(m.group(2), env)} else @R@)"); continue
        m = re.fullmatch(r'for \(([a-z_]+), ([a-z_]+)\) in ([a-z_]+)\.iter\(\)\.enumerate\(\) \{ if (.+?) \{ return Err\((.+)\); \} \}', s)
        if m:
            idx, x, lst = m.group(1), m.group(2), m.group(3); env2 = dict(env); env2[idx] = idx; env2[x] = x
            lines.append(f"(match ({expr(lst, env)}.zipIdx.find? (fun ({x}, {idx}) => {cond(m.group(4), env2)})) with | some ({x}, _) => .error {err(m.group(5), env2)} | none => @R@)"); continue
        if s == 'Ok(())': lines.append(".ok ()"); continue
        raise SystemExit(f"translator(validate): statement outside the subset: `{s}`")
    if not lines or lines[-1] != ".ok ()": raise SystemExit("translator(validate): the function must end with Ok(())")
    print("-- GENERATED by translator/rs2lean_validate.py from " + repo + "/src/mpc/protocol.rs (fn validate) — do not edit")
    print("import PolytuneModel.Proto.Validate\nnamespace PolytuneModel.Gen\nopen PolytuneModel\n")
    print("def validateArgs (c : Circuit) (p_own inputs_len p_eval : Nat) (p_out : List Nat) : Except ArgErr Unit :=\n  let p_max := c.inputRegs.length")
    body = lines[-1]
    for l in reversed(lines[:-1]): body = l.replace("@R@", body)
    print("  " + body)
    print("\nend PolytuneModel.Gen")

if __name__ == "__main__": main(sys.argv[1] if len(sys.argv) > 1 else "/repo")
