#!/usr/bin/env python3-vt
"""Translate the small `usize`-arithmetic functions of polytune (bucket_size, chunk_size_iter, the two batch-size methods,
the constants RHO / SSP) into Lean definitions over `Nat` / `List Nat`.

Accepted Rust subset (anything else makes the translator FAIL LOUDLY — that is a broken proof obligation, never a fallback):
  fn NAME(params: usize…) -> usize | Box<dyn Iterator<Item = usize> …>     (methods on `&self`: every `self.f` becomes a parameter)
  body  : (`let x = e;` | `if c { return e; }`)*  e
  e     : literals (with `_`), names, `self.f`, + - * / %, comparisons, `if c { … } else { … }`,
          `match x { n if c => e, …, _ => e }`, `cmp::min(a,b)`, `cmp::max(a,b)`, `a.div_ceil(b)`,
          `iter::empty()`, `iter::repeat_n(v, k)`, `e.chain(Some(r))`, `Box::new(e)`
usize is rendered as Nat (no wrap-around: all the quantities are bounded by vector lengths). `a - b` is not accepted.
"""
import re, sys
from lark import Lark, Tree, Token

GRAMMAR = r"""
start: stmt* expr
stmt: "let" NAME "=" expr ";"                         -> let
    | "if" expr "{" "return" expr ";" "}"             -> guard
?expr: cmp
?cmp: add (CMPOP add)?
CMPOP: "==" | "!=" | ">=" | "<=" | ">" | "<"
?add: mul ("+" mul)*
?mul: post (MULOP post)*
MULOP: "*" | "/" | "%"
?post: atom
     | post "." "div_ceil" "(" expr ")"               -> div_ceil
     | post "." "chain" "(" "Some" "(" expr ")" ")"   -> chain
?atom: NUMBER                                         -> num
     | "self" "." NAME                                -> field
     | NAME                                           -> var
     | "(" expr ")"
     | "cmp" "::" MINMAX "(" expr "," expr ","? ")"   -> minmax
     | "iter" "::" "empty" "(" ")"                    -> empty
     | "iter" "::" "repeat_n" "(" expr "," expr ")"   -> repeat_n
     | "Box" "::" "new" "(" expr ")"                  -> boxed
     | "if" expr "{" start "}" "else" "{" start "}"   -> ite
     | "match" NAME "{" arm+ "}"                      -> match
arm: NAME "if" expr "=>" expr ","                     -> garm
   | "_" "=>" expr ","?                               -> darm
MINMAX: "min" | "max"
NAME: /(?!(let|fn|if|else|match|return|self)\b)[A-Za-z_][A-Za-z0-9_]*/
NUMBER: /[0-9][0-9_]*/
COMMENT: /\/\/[^\n]*/
%import common.WS
%ignore WS
%ignore COMMENT
"""

def extract_fn(src, name):
    m = re.search(r'fn\s+' + name + r'\s*\(([^)]*)\)\s*(->\s*[^{]+)?\{', src)
    if not m: raise SystemExit(f"translator: function `{name}` not found")
    i = m.end() - 1; depth = 0; j = i
    while True:
        if src[j] == '{': depth += 1
        elif src[j] == '}':
            depth -= 1
            if depth == 0: break
        j += 1
    return m.group(1), (m.group(2) or ''), src[i + 1:j]

def camel(n):
    p = n.split('_'); return p[0] + ''.join(x.capitalize() for x in p[1:])

class Tr:
    def __init__(self): self.fields = []
    def e(self, t):
        if isinstance(t, Token): raise ValueError(t)
        d = t.data; c = t.children
        if d == 'num': return str(int(str(c[0]).replace('_', '')))
        if d == 'var': return str(c[0])
        if d == 'field':
            f = str(c[0])
            if f not in self.fields: self.fields.append(f)
            return f
        if d == 'cmp':
            op = {'==': '=', '!=': '≠', '>=': '≥', '<=': '≤', '>': '>', '<': '<'}[str(c[1])]
            return f"({self.e(c[0])} {op} {self.e(c[2])})"
        if d == 'add': return '(' + ' + '.join(self.e(x) for x in c) + ')'
        if d == 'mul':
            s = self.e(c[0])
            for k in range(1, len(c), 2): s = f"({s} {str(c[k])} {self.e(c[k+1])})"
            return s
        if d == 'div_ceil': a, b = self.e(c[0]), self.e(c[1]); return f"(({a} + {b} - 1) / {b})"
        if d == 'chain': return f"({self.e(c[0])} ++ [{self.e(c[1])}])"
        if d == 'minmax': return f"({str(c[0])} {self.e(c[1])} {self.e(c[2])})"
        if d == 'empty': return "([] : List Nat)"
        if d == 'repeat_n': return f"(List.replicate {self.e(c[1])} {self.e(c[0])})"
        if d == 'boxed': return self.e(c[0])
        if d == 'ite': return f"(if {self.e(c[0])} then {self.body(c[1])} else {self.body(c[2])})"
        if d == 'match':
            scrut = str(c[0]); out = None; arms = c[1:]
            assert arms[-1].data == 'darm', "match must end with a `_` arm"
            out = self.e(arms[-1].children[0])
            for a in reversed(arms[:-1]):
                binder, cond, val = str(a.children[0]), self.e(a.children[1]), self.e(a.children[2])
                cond = re.sub(r'\b' + binder + r'\b', scrut, cond); val = re.sub(r'\b' + binder + r'\b', scrut, val)
                out = f"(if {cond} then {val} else {out})"
            return out
        raise ValueError(d)
    def body(self, t):
        *stmts, tail = t.children
        out = self.e(tail)
        for s in reversed(stmts):
            if s.data == 'let': out = f"(let {str(s.children[0])} := {self.e(s.children[1])}; {out})"
            else: out = f"(if {self.e(s.children[0])} then {self.e(s.children[1])} else {out})"
        return out

def translate(parser, src, name, lean_name):
    params, ret, body = extract_fn(src, name)
    tr = Tr(); txt = tr.body(parser.parse(body))
    ps = [p.split(':')[0].strip() for p in params.split(',') if ':' in p]
    ps = tr.fields + ps
    rt = 'List Nat' if 'Iterator' in ret else 'Nat'
    if 'usize' not in ret: raise SystemExit(f"translator: unexpected return type of {name}: {ret}")
    return f"def {lean_name} " + ' '.join(f"({p} : Nat)" for p in ps) + f" : {rt} :=\n  {txt}\n"

def const(src, name):
    m = re.search(r'const\s+' + name + r'\s*:\s*usize\s*=\s*([0-9_]+)\s*;', src)
    if not m: raise SystemExit(f"translator: constant `{name}` not found or not a plain usize literal")
    return f"def {name} : Nat := {int(m.group(1).replace('_', ''))}\n"

def peer_buffer(src):
    """the capacity of the per-peer buffer `init_channel` creates for MPC messages that the engine has not consumed yet"""
    _, _, body = extract_fn(src, 'init_channel')
    caps = re.findall(r'mpsc::channel\s*\(([^)]*)\)', body)
    if len(caps) != 1 or not re.fullmatch(r'[0-9_]+', caps[0].strip()): raise SystemExit(f"translator: init_channel must create its per-peer buffers with one literal capacity, found {caps}")
    return f"def mpcPeerBufferSlots : Nat := {int(caps[0].replace('_', ''))}\n"

def main(repo):
    parser = Lark(GRAMMAR, parser='earley')
    state = open(f"{repo}/crates/polytune-server-core/src/state.rs").read(); faand = open(f"{repo}/src/mpc/faand.rs").read(); proto = open(f"{repo}/src/mpc/protocol.rs").read(); kos = open(f"{repo}/src/ot_core/kos.rs").read()
    out = [f"-- GENERATED by translator/rs2lean_nat.py from {repo}/src/mpc/faand.rs, src/mpc/protocol.rs, src/ot_core/kos.rs, crates/polytune-server-core/src/state.rs — do not edit",
           "namespace PolytuneModel.Gen", const(faand, 'RHO'), const(kos, 'SSP'),
           translate(parser, faand, 'bucket_size', 'bucketSize'),
           translate(parser, proto, 'chunk_size_iter', 'chunkSizeIter'),
           translate(parser, proto, 'random_shares_batch_size', 'randomSharesBatchSize'),
           translate(parser, proto, 'and_share_batch_size', 'andShareBatchSize'),
           peer_buffer(state),
           "end PolytuneModel.Gen"]
    print('\n'.join(out))

if __name__ == "__main__": main(sys.argv[1] if len(sys.argv) > 1 else "/repo")
