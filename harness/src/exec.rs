//! Deterministic single-threaded executor for n real `polytune::mpc` futures over a
//! scheduler-controlled, recording, mutating in-process channel.
use crate::rng::Rng;
use polytune::{channel::Channel, garble_lang::register_circuit::Circuit, mpc};
use std::{
    cell::RefCell,
    collections::{HashMap, VecDeque},
    future::Future,
    panic::{catch_unwind, AssertUnwindSafe},
    path::PathBuf,
    pin::Pin,
    rc::Rc,
    sync::{atomic::{AtomicBool, Ordering}, Arc},
    task::{Context, Poll, Wake, Waker},
};

/// (from, to, phase, k-th message of that (from,to,phase), bytes) -> replacement (None = swallow the message)
pub type Mutator = Box<dyn FnMut(usize, usize, &str, usize, Vec<u8>) -> Option<Vec<u8>>>;

/// A RUSHING adversary: (receiver, sender, phase, bytes) -> bytes, applied when the receiver takes the message out of the queue, i.e. as late
/// as delivery. The rewriter may use everything that has been SENT by then (it sees all messages through the send-side `Mutator`).
pub type RecvRewrite = Box<dyn FnMut(usize, usize, &str, Vec<u8>) -> Vec<u8>>;
thread_local! { pub static RECV_REWRITE: RefCell<Option<RecvRewrite>> = const { RefCell::new(None) }; }
pub fn set_recv_rewrite(f: Option<RecvRewrite>) { RECV_REWRITE.with(|r| *r.borrow_mut() = f); }

#[derive(Clone, Debug, PartialEq)]
pub enum Ev { Send { from: usize, to: usize, phase: String, len: usize }, Recv { at: usize, from: usize, phase: String, len: usize }, RecvIssue { at: usize, from: usize }, SendDone { from: usize, to: usize } }

pub struct Net {
    pub q: Vec<Vec<VecDeque<Vec<u8>>>>,
    pub cap: usize,
    pub events: Vec<Ev>,
    pub mutate: Option<Mutator>,
    pub ops: u64,
    pub closed: Vec<bool>,
    pub count: HashMap<(usize, usize, String), usize>,
    pub outstanding_send: HashMap<(usize, usize), usize>,
    pub outstanding_recv: HashMap<(usize, usize), usize>,
    pub max_outstanding: usize,
    /// recv_w[me][from] / send_w[me][to]: waker of the future of `me` that is blocked on that queue
    pub recv_w: Vec<Vec<Option<Waker>>>,
    pub send_w: Vec<Vec<Option<Waker>>>,
    pub current: usize,
    pub payloads: Option<Vec<(usize, usize, String, Vec<u8>)>>,
}
pub type NetRef = Rc<RefCell<Net>>;
pub struct Ch { pub me: usize, pub net: NetRef }
#[derive(Debug)]
pub struct Closed;

impl Net {
    fn wake_recv(&mut self, at: usize, from: usize) { if let Some(w) = self.recv_w[at][from].take() { w.wake(); } }
    fn wake_send(&mut self, at: usize, to: usize) { if let Some(w) = self.send_w[at][to].take() { w.wake(); } }
}

thread_local! { static SLOW_SENDS: std::cell::Cell<bool> = const { std::cell::Cell::new(false) }; }
/// every send takes (at least) two polls: between them the sibling futures of a `join` run, so that two sends a party has issued CONCURRENTLY to one peer are
/// both outstanding (and counted); sends issued one after the other are unaffected. A transport may complete concurrent sends in either order.
pub fn set_slow_sends(on: bool) { SLOW_SENDS.with(|s| s.set(on)); }
struct SendFut<'a> { c: &'a Ch, to: usize, data: Option<Vec<u8>>, registered: bool }
impl Future for SendFut<'_> {
    type Output = Result<(), Closed>;
    fn poll(mut self: Pin<&mut Self>, cx: &mut Context<'_>) -> Poll<Self::Output> {
        let (me, to) = (self.c.me, self.to);
        let mut n = self.c.net.borrow_mut();
        if !self.registered { self.registered = true; let e = n.outstanding_send.entry((me, to)).or_insert(0); *e += 1; let v = *e; n.max_outstanding = n.max_outstanding.max(v);
            if SLOW_SENDS.with(|s| s.get()) { cx.waker().wake_by_ref(); return Poll::Pending; } }
        if to >= n.q.len() { *n.outstanding_send.get_mut(&(me, to)).unwrap() -= 1; return Poll::Ready(Err(Closed)); }
        if n.closed[to] { *n.outstanding_send.get_mut(&(me, to)).unwrap() -= 1; return Poll::Ready(Ok(())); }
        if n.q[me][to].len() < n.cap {
            let d = self.data.take().unwrap();
            n.q[me][to].push_back(d); n.ops += 1;
            *n.outstanding_send.get_mut(&(me, to)).unwrap() -= 1;
            n.events.push(Ev::SendDone { from: me, to });
            n.wake_recv(to, me);
            Poll::Ready(Ok(()))
        } else { n.send_w[me][to] = Some(cx.waker().clone()); Poll::Pending }
    }
}
struct RecvFut<'a> { c: &'a Ch, from: usize, phase: String, registered: bool }
impl Future for RecvFut<'_> {
    type Output = Result<Vec<u8>, Closed>;
    fn poll(mut self: Pin<&mut Self>, cx: &mut Context<'_>) -> Poll<Self::Output> {
        let (me, from) = (self.c.me, self.from);
        let mut n = self.c.net.borrow_mut();
        if !self.registered { self.registered = true; let e = n.outstanding_recv.entry((me, from)).or_insert(0); *e += 1; let v = *e; n.max_outstanding = n.max_outstanding.max(v); n.events.push(Ev::RecvIssue { at: me, from }); }
        if from >= n.q.len() { *n.outstanding_recv.get_mut(&(me, from)).unwrap() -= 1; return Poll::Ready(Err(Closed)); }
        match n.q[from][me].pop_front() {
            Some(d) => {
                let d = RECV_REWRITE.with(|r| match r.borrow_mut().as_mut() { Some(f) => f(me, from, &self.phase, d.clone()), None => d.clone() });
                n.ops += 1; *n.outstanding_recv.get_mut(&(me, from)).unwrap() -= 1;
                let ph = self.phase.clone(); n.events.push(Ev::Recv { at: me, from, phase: ph, len: d.len() });
                n.wake_send(from, me);
                Poll::Ready(Ok(d))
            }
            None => if n.closed[from] { *n.outstanding_recv.get_mut(&(me, from)).unwrap() -= 1; Poll::Ready(Err(Closed)) } else { n.recv_w[me][from] = Some(cx.waker().clone()); Poll::Pending },
        }
    }
}
impl Channel for Ch {
    type SendError = Closed;
    type RecvError = Closed;
    async fn send_bytes_to(&self, p: usize, d: Vec<u8>, ph: &str) -> Result<(), Closed> {
        let d = {
            let mut n = self.net.borrow_mut();
            let k = { let e = n.count.entry((self.me, p, ph.to_string())).or_insert(0); *e += 1; *e - 1 };
            let mut m = n.mutate.take();
            let r = match m.as_mut() { Some(f) => f(self.me, p, ph, k, d), None => Some(d) };
            n.mutate = m;
            if let Some(d) = &r { n.events.push(Ev::Send { from: self.me, to: p, phase: ph.to_string(), len: d.len() }); if let Some(pl) = n.payloads.as_mut() { pl.push((self.me, p, ph.to_string(), d.clone())); } }
            r
        };
        match d { Some(d) => SendFut { c: self, to: p, data: Some(d), registered: false }.await, None => Ok(()) }
    }
    async fn recv_bytes_from(&self, p: usize, ph: &str) -> Result<Vec<u8>, Closed> { RecvFut { c: self, from: p, phase: ph.to_string(), registered: false }.await }
}

struct Flag(AtomicBool);
impl Wake for Flag { fn wake(self: Arc<Self>) { self.0.store(true, Ordering::SeqCst); } }

#[derive(Debug, Clone, PartialEq)]
pub enum Out { Ok(Vec<bool>), Err(String), Panic(String), Blocked }

pub struct PartyArgs { pub inputs: Vec<bool>, pub p_eval: usize, pub p_own: usize, pub p_out: Vec<usize>, pub tmp_dir: Option<PathBuf> }
#[derive(Clone, Copy, Debug)]
pub enum Sched { RoundRobin, Random(u64), Starve(usize) }
pub struct RunCfg { pub cap: usize, pub sched: Sched, pub keep_payloads: bool }
/// crash point: party `.0` disappears once it has sent `.1` messages
pub type Kill = Option<(usize, usize)>;
pub struct Run { pub outs: Vec<Out>, pub events: Vec<Ev>, pub polls: u64, pub max_outstanding: usize, pub payloads: Vec<(usize, usize, String, Vec<u8>)> }

pub fn run(circ: &Circuit, args: &[PartyArgs], cfg: &RunCfg, mutate: Option<Mutator>) -> Run { run_kill(circ, args, cfg, mutate, None) }
pub fn run_kill(circ: &Circuit, args: &[PartyArgs], cfg: &RunCfg, mutate: Option<Mutator>, kill: Kill) -> Run {
    let n = args.len(); let w = n.max(8);
    let net: NetRef = Rc::new(RefCell::new(Net { q: vec![vec![VecDeque::new(); w]; w], cap: cfg.cap, events: vec![], mutate, ops: 0, closed: vec![false; w], count: HashMap::new(),
        outstanding_send: HashMap::new(), outstanding_recv: HashMap::new(), max_outstanding: 0, recv_w: vec![vec![None; w]; w], send_w: vec![vec![None; w]; w], current: 0, payloads: if cfg.keep_payloads { Some(vec![]) } else { None } }));
    let chs: Vec<Ch> = (0..n).map(|me| Ch { me, net: net.clone() }).collect();
    let mut futs: Vec<Pin<Box<dyn Future<Output = Result<Vec<bool>, polytune::Error>> + '_>>> = (0..n).map(|p| {
        let c = &chs[p]; let a = &args[p];
        Box::pin(async move { mpc(c, circ, &a.inputs, a.p_eval, a.p_own, &a.p_out, a.tmp_dir.as_deref()).await }) as Pin<Box<dyn Future<Output = _>>>
    }).collect();
    let flags: Vec<Arc<Flag>> = (0..n).map(|_| Arc::new(Flag(AtomicBool::new(true)))).collect();
    let wakers: Vec<Waker> = flags.iter().map(|f| Waker::from(f.clone())).collect();
    let mut done: Vec<Option<Out>> = vec![None; n]; let mut polls = 0u64;
    let mut rng = Rng::new(match cfg.sched { Sched::Random(s) => s, _ => 0 });
    loop {
        if let Some((kp, kk)) = kill { if done[kp].is_none() && net.borrow().events.iter().filter(|e| matches!(e, Ev::Send { from, .. } if *from == kp)).count() >= kk { done[kp] = Some(Out::Err("killed".into())); close(&net, kp, n); } }
        let runnable: Vec<usize> = (0..n).filter(|&p| done[p].is_none() && flags[p].0.load(Ordering::SeqCst)).collect();
        if done.iter().all(|d| d.is_some()) { break; }
        if runnable.is_empty() { for d in done.iter_mut() { if d.is_none() { *d = Some(Out::Blocked); } } break; }   // exact deadlock detection
        let p = match cfg.sched {
            Sched::RoundRobin => runnable[(polls as usize) % runnable.len()],
            Sched::Random(_) => runnable[rng.below(runnable.len() as u64) as usize],
            Sched::Starve(v) => *runnable.iter().find(|&&q| q != v).unwrap_or(&runnable[0]),
        };
        flags[p].0.store(false, Ordering::SeqCst); polls += 1; net.borrow_mut().current = p; polytune::verif::set_current_party(p);
        let mut cx = Context::from_waker(&wakers[p]);
        match catch_unwind(AssertUnwindSafe(|| futs[p].as_mut().poll(&mut cx))) {
            Ok(Poll::Ready(r)) => { done[p] = Some(match r { Ok(v) => Out::Ok(v), Err(e) => Out::Err(format!("{e:?}")) }); close(&net, p, n); }
            Ok(Poll::Pending) => {}
            Err(e) => { let s = e.downcast_ref::<String>().cloned().or(e.downcast_ref::<&str>().map(|s| s.to_string())).unwrap_or_default(); done[p] = Some(Out::Panic(s)); close(&net, p, n); }
        }
    }
    drop(futs);
    let mut nb = net.borrow_mut();
    Run { outs: done.into_iter().map(|d| d.unwrap()).collect(), events: std::mem::take(&mut nb.events), polls, max_outstanding: nb.max_outstanding, payloads: nb.payloads.take().unwrap_or_default() }
}
fn close(net: &NetRef, p: usize, n: usize) { let mut nb = net.borrow_mut(); nb.closed[p] = true; for q in 0..n { nb.wake_recv(q, p); nb.wake_send(q, p); } }

/// a bare network for harnesses that drive other futures than `mpc` (e.g. the OT sessions).
pub fn new_net(n: usize, cap: usize) -> (NetRef, Vec<Ch>) {
    let w = n.max(8);
    let net: NetRef = Rc::new(RefCell::new(Net { q: vec![vec![VecDeque::new(); w]; w], cap, events: vec![], mutate: None, ops: 0, closed: vec![false; w], count: HashMap::new(),
        outstanding_send: HashMap::new(), outstanding_recv: HashMap::new(), max_outstanding: 0, recv_w: vec![vec![None; w]; w], send_w: vec![vec![None; w]; w], current: 0, payloads: None }));
    let chs = (0..n).map(|me| Ch { me, net: net.clone() }).collect(); (net, chs)
}
/// round-robin over the given futures with real wakers; `None` = blocked forever (deadlock) or panicked.
pub fn poll_all<'a, T>(mut futs: Vec<Pin<Box<dyn Future<Output = T> + 'a>>>, net: &NetRef) -> Vec<Option<T>> {
    let n = futs.len(); let flags: Vec<Arc<Flag>> = (0..n).map(|_| Arc::new(Flag(AtomicBool::new(true)))).collect();
    let wakers: Vec<Waker> = flags.iter().map(|f| Waker::from(f.clone())).collect(); let mut done: Vec<Option<T>> = (0..n).map(|_| None).collect(); let mut fin = vec![false; n];
    loop {
        if fin.iter().all(|f| *f) { break; }
        let runnable: Vec<usize> = (0..n).filter(|&p| !fin[p] && flags[p].0.load(Ordering::SeqCst)).collect();
        if runnable.is_empty() { break; }
        for p in runnable { flags[p].0.store(false, Ordering::SeqCst); let mut cx = Context::from_waker(&wakers[p]);
            match catch_unwind(AssertUnwindSafe(|| futs[p].as_mut().poll(&mut cx))) { Ok(Poll::Ready(v)) => { done[p] = Some(v); fin[p] = true; close(net, p, n); } Ok(Poll::Pending) => {} Err(_) => { fin[p] = true; close(net, p, n); } } }
    }
    done
}
