/// SplitMix64: every random choice of a run derives from VERIF_SEED through this generator.
#[derive(Clone)]
pub struct Rng(pub u64);
impl Rng {
    pub fn new(seed: u64) -> Self { Rng(seed ^ 0x9E37_79B9_7F4A_7C15) }
    pub fn next(&mut self) -> u64 {
        self.0 = self.0.wrapping_add(0x9E37_79B9_7F4A_7C15);
        let mut z = self.0;
        z = (z ^ (z >> 30)).wrapping_mul(0xBF58_476D_1CE4_E5B9);
        z = (z ^ (z >> 27)).wrapping_mul(0x94D0_49BB_1331_11EB);
        z ^ (z >> 31)
    }
    pub fn below(&mut self, n: u64) -> u64 { if n == 0 { 0 } else { self.next() % n } }
    pub fn range(&mut self, lo: u64, hi: u64) -> u64 { lo + self.below(hi - lo + 1) }
    pub fn bool(&mut self) -> bool { self.next() & 1 == 1 }
    pub fn fork(&mut self) -> Rng { Rng::new(self.next()) }
}
