use ptverif::{circ, model::Model};
fn main() {
    let mut m = Model::spawn("/verif/lean/.lake/build/bin/ptmodel").unwrap();
    for k in [10usize, 30, 1001, 5000] { let l = circ::to_line(&circ::and_chain(2, k)); let t = std::time::Instant::now(); m.ask(&l); let w = m.ask("wf"); let tw = t.elapsed(); let o = m.ask("eval 1|1"); eprintln!("ands={k} wf={w} ({tw:?}) eval={o} ({:?})", t.elapsed()); }
}
