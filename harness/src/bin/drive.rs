use polytune::verif::VBuf;
use ptverif::{circ, exec::{self, Out, PartyArgs, RunCfg, Sched}, model::Model, rng::Rng};
use serde_json::json;
#[global_allocator]
static ALLOC: ptverif::alloc_count::Counting = ptverif::alloc_count::Counting;
use std::collections::BTreeMap;

#[derive(Clone, Debug)]
enum Op { Append(Vec<u64>), Iter(usize), Chunks(usize, usize) }
fn nats(v: &[u64]) -> String { if v.is_empty() { "-".into() } else { v.iter().map(|x| x.to_string()).collect::<Vec<_>>().join(",") } }
fn op_line(o: &Op) -> String { match o { Op::Append(c) => format!("append {}", nats(c)), Op::Iter(k) => format!("iter {k}"), Op::Chunks(s, k) => format!("chunks {s} {k}") } }
fn real(b: &mut VBuf, o: &Op) -> String {
    match o {
        Op::Append(c) => b.write_chunk(c).map(|_| "ok".to_string()).unwrap_or_else(|e| format!("err {e}")),
        Op::Iter(k) => b.iter_take(*k).map(|v| format!("items {}", nats(&v))).unwrap_or_else(|e| format!("err {e}")),
        Op::Chunks(s, k) => match std::panic::catch_unwind(std::panic::AssertUnwindSafe(|| b.chunks_take(*s, *k))) {
            Ok(Ok(cs)) => format!("chunks {}", if cs.is_empty() { "-".into() } else { cs.iter().map(|c| nats(c)).collect::<Vec<_>>().join("|") }),
            Ok(Err(e)) => format!("err {e}"), Err(_) => "panic chunks0".into() } } }

/// Op sequences in the regime of the property: non-empty appends; all appends but the last of size s when chunked reads are used.
fn gen_case(r: &mut Rng, max_len: usize) -> (usize, Vec<Op>, &'static str) {
    let s = r.range(1, 4) as usize; let len = r.range(1, max_len as u64) as usize; let regular = r.below(3) != 0;
    let mut ops = vec![]; let mut next = 1u64; let mut closed = false; // closed: a short chunk has been appended (regular mode: no more appends)
    for _ in 0..len {
        match r.below(if closed { 2 } else { 4 }) {
            0 => ops.push(Op::Iter(r.below((next + 2) as u64) as usize)),
            1 if regular => ops.push(Op::Chunks(s, r.below(8) as usize)),
            1 => ops.push(Op::Iter(usize::MAX >> 1)),
            _ => { let n = if regular { if r.below(4) == 0 { closed = true; r.range(1, s as u64) as usize } else { s } } else { r.range(1, 3 * s as u64) as usize };
                   ops.push(Op::Append((0..n).map(|_| { next += 1; next }).collect())); } } }
    (s, ops, if regular { "regular" } else { "irregular" })
}

fn c19(seed: u64, cases: usize, model_path: &str) -> serde_json::Value {
    std::panic::set_hook(Box::new(|_| {}));
    let mut r = Rng::new(seed); let mut m = Model::spawn(model_path).expect("spawn ptmodel");
    let dir = tempfile::tempdir_in("/var/tmp").unwrap();
    let mut dist: BTreeMap<String, u64> = BTreeMap::new(); let mut distinct = std::collections::BTreeSet::new();
    let mut disagreements = vec![]; let mut impl_vs_oracle = vec![]; let mut samples = vec![]; let mut steps = 0u64;
    for case in 0..cases {
        // corpus first: chunk lengths of the size `mpc` uses (a batch is at least 1 000 elements), around powers of two and the batch boundaries
        let big = [1000usize, 1024, 1025, 1500, 2049, 3101];
        let (s, ops, kind) = if case < big.len() { let s = big[case]; let mut next = 0u64; let mut mk = |k: usize| Op::Append((0..k).map(|_| { next += 1; next }).collect());
                (s, vec![mk(s), Op::Chunks(s, 0), mk(s), Op::Chunks(s, 1), mk(s / 3 + 1), Op::Chunks(s, 0), Op::Chunks(s, 2), Op::Iter(usize::MAX >> 1), Op::Iter(s + 1)], "regular-large") }
            else { gen_case(&mut r, 12) };
        *dist.entry(format!("kind:{kind}")).or_default() += 1; *dist.entry(format!("len:{}", ops.len())).or_default() += 1;
        let mut file = VBuf::new(Some(dir.path()), 0).unwrap(); let mut mem = VBuf::new(None, 0).unwrap();
        assert_eq!(m.ask("buf reset"), "ok");
        let mut trace = vec![]; let mut nontrivial = false;
        for o in &ops {
            steps += 1; let l = op_line(o);
            let (rf, rm) = (real(&mut file, o), real(&mut mem, o));
            let (mf, mm) = (m.ask(&format!("buf file {l}")), m.ask(&format!("buf mem {l}")));
            *dist.entry(format!("op:{}", l.split(' ').next().unwrap())).or_default() += 1;
            if matches!(o, Op::Iter(_) | Op::Chunks(..)) && trace.iter().any(|t: &String| t.starts_with("append")) { nontrivial = true; }
            trace.push(l.clone());
            if rf != mf || rm != mm { disagreements.push(json!({"case": case, "s": s, "ops": trace, "real_file": rf, "model_file": mf, "real_mem": rm, "model_mem": mm})); break; }
            // the property's own oracle, independent of the model: the two real variants agree
            if rf != rm { impl_vs_oracle.push(json!({"case": case, "s": s, "ops": trace, "real_file": rf, "real_mem": rm})); break; }
        }
        if nontrivial { distinct.insert(trace.join(";")); }
        if samples.len() < 3 { samples.push(json!({"s": s, "ops": trace})); }
    }
    let leftover = std::fs::read_dir(dir.path()).unwrap().count();
    json!({"cases": cases, "steps": steps, "distinct_nontrivial": distinct.len(), "distribution": dist, "samples": samples,
           "model_disagreements": disagreements, "impl_vs_oracle_failures": impl_vs_oracle, "files_left_in_tmp_dir": leftover, "model_requests": m.requests})
}

fn c01(seed: u64, cases: usize, model_path: &str, thorough: bool) -> serde_json::Value {
    std::panic::set_hook(Box::new(|_| {}));
    let mut r = Rng::new(seed); let mut m = Model::spawn(model_path).expect("spawn ptmodel");
    let dir = tempfile::tempdir_in("/var/tmp").unwrap();
    let mut dist: BTreeMap<String, u64> = BTreeMap::new(); let mut distinct = std::collections::BTreeSet::new();
    let mut disagreements = vec![]; let mut impl_vs_oracle = vec![]; let mut samples = vec![]; let mut execs = 0u64;
    let boundary: &[usize] = if thorough { &[0, 1, 999, 1000, 1001, 2500] } else { &[0, 1, 1001] };
    let max_n = if thorough { 5 } else { 4 };
    for case in 0..cases + boundary.len() {
        let n = r.range(2, max_n) as usize;
        let (c, feat) = if case < boundary.len() { (circ::and_chain(n, boundary[case]), circ::Features { ands: boundary[case], reuse: true, ..Default::default() }) }
                        else { let g = r.range(1, 14) as usize; let a = r.below(g as u64 + 1) as usize; circ::generate(&mut r, n, g, a) };
        let p_eval = r.below(n as u64) as usize;
        let mut p_out: Vec<usize> = (0..n).filter(|_| r.bool()).collect(); if p_out.is_empty() { p_out.push(r.below(n as u64) as usize); }
        if r.bool() { p_out.reverse(); }
        let inputs: Vec<Vec<bool>> = c.input_regs.iter().map(|k| (0..*k).map(|_| r.bool()).collect()).collect();
        let tmp: Vec<bool> = (0..n).map(|_| r.bool()).collect();
        let args: Vec<PartyArgs> = (0..n).map(|p| PartyArgs { inputs: inputs[p].clone(), p_eval, p_own: p, p_out: p_out.clone(), tmp_dir: if tmp[p] { Some(dir.path().to_path_buf()) } else { None } }).collect();
        let cfg = RunCfg { cap: [1usize, 2, 1024][r.below(3) as usize], sched: match r.below(3) { 0 => Sched::RoundRobin, 1 => Sched::Random(r.next()), _ => Sched::Starve(r.below(n as u64) as usize) }, keep_payloads: false };
        // every third case: sends take two polls, so that sends a party issues concurrently to ONE peer are outstanding together (and show up in `max_outstanding`)
        let slow = case % 3 == 2; exec::set_slow_sends(slow);
        let run = exec::run(&c, &args, &cfg, None); execs += 1; exec::set_slow_sends(false); *dist.entry(format!("slow_sends:{slow}")).or_default() += 1;
        let oracle = c.eval(&inputs);                                   // garble_lang's own clear-text evaluator: independent of the model
        assert_eq!(m.ask(&circ::to_line(&c)), "ok");
        let wf = m.ask("wf");
        let model_out = m.ask(&format!("eval {}", inputs.iter().map(|v| circ::bits(v)).collect::<Vec<_>>().join("|")));
        let desc = json!({"case": case, "n": n, "p_eval": p_eval, "p_out": p_out, "tmp_dir": tmp, "cap": cfg.cap, "sched": format!("{:?}", cfg.sched), "circuit": circ::to_line(&c), "inputs": inputs.iter().map(|v| circ::bits(v)).collect::<Vec<_>>()});
        for (k, v) in [("n", n.to_string()), ("eval_in_pout", p_out.contains(&p_eval).to_string()), ("ands", match feat.ands { 0 => "0".into(), 1..=9 => "1-9".into(), 10..=999 => "10-999".into(), _ => ">=1000".to_string() }),
                       ("reuse", feat.reuse.to_string()), ("dup_out", feat.dup_out.to_string()), ("zero_input_party", feat.zero_input_party.to_string()), ("cap", cfg.cap.to_string())] { *dist.entry(format!("{k}:{v}")).or_default() += 1; }
        if wf != "wf" { disagreements.push(json!({"what": "generator produced a circuit the model calls not-wf", "case": desc})); continue; }
        if model_out != format!("out {}", circ::bits(&oracle)) { disagreements.push(json!({"what": "model eval != garble_lang eval", "model": model_out, "oracle": circ::bits(&oracle), "case": desc})); }
        let mut bad = None;
        for p in 0..n { let want = if p_out.contains(&p) { Out::Ok(oracle.clone()) } else { Out::Ok(vec![]) }; if run.outs[p] != want { bad = Some(json!({"party": p, "got": format!("{:?}", run.outs[p]), "want": format!("{want:?}")})); break; } }
        if let Some(b) = bad { impl_vs_oracle.push(json!({"failure": b, "case": desc})); }
        if run.max_outstanding > 1 { impl_vs_oracle.push(json!({"failure": "two sends or two receives outstanding for one peer", "case": desc})); }
        if feat.ands > 0 || feat.reuse { distinct.insert((circ::to_line(&c), p_eval, p_out.clone())); }
        if samples.len() < 2 && case >= boundary.len() { samples.push(desc); }
    }
    json!({"executions": execs, "distinct_nontrivial": distinct.len(), "distribution": dist, "samples": samples, "model_disagreements": disagreements, "impl_vs_oracle_failures": impl_vs_oracle, "model_requests": m.requests,
           "files_left_in_tmp_dir": std::fs::read_dir(dir.path()).unwrap().count()})
}

/// C19m: `mpc` under every per-party tmp_dir pattern (all memory, all file, mixed both ways) for AND counts on both sides of the batch
/// boundary. Oracles: clear-text result at every party; per-pair traffic identical to the all-memory run; no file left behind.
/// Tie (hypothesis of `C19_chunk_boundaries`): the chunk lengths the engine appends to a buffer that is later read chunk-wise with size `s`
/// are exactly the model's `chunkSizeIter total s` (all but the last of length `s`), observed through the `buf_write` / `buf_chunks` taps.
fn c19m(seed: u64, _cases: usize, model_path: &str, thorough: bool) -> serde_json::Value {
    use ptverif::exec::Ev;
    std::panic::set_hook(Box::new(|_| {}));
    let mut r = Rng::new(seed); let mut m = Model::spawn(model_path).expect("spawn ptmodel");
    let dir = tempfile::tempdir_in("/var/tmp").unwrap();
    let mut dist: BTreeMap<String, u64> = BTreeMap::new(); let mut distinct = std::collections::BTreeSet::new();
    let mut disagreements = vec![]; let mut failures = vec![]; let mut samples = vec![]; let mut execs = 0u64;
    let ands: &[usize] = if thorough { &[0, 1, 7, 999, 1000, 1001, 1200, 2000, 2100, 3300, 9500, 18_500] } else { &[0, 3, 1000, 1001, 1200, 2100, 3100, 9300] };   // 9 300: batches of 1 034
    // the last batch falls below a bucket-size threshold the full batches are above: 27 901 ANDs = eight batches of 3 101 (bucket size 4) and one of
    // 3 093 (bucket size 5); 27 900 = nine equal batches of 3 100. All in memory, two parties.
    for a in if thorough { vec![27_900usize, 27_901, 27_955] } else { vec![27_901usize] } {
        let n = 2; let c = circ::and_chain(n, a); let inputs: Vec<Vec<bool>> = c.input_regs.iter().map(|k| (0..*k).map(|_| r.bool()).collect()).collect(); let oracle = c.eval(&inputs);
        let args: Vec<PartyArgs> = (0..n).map(|p| PartyArgs { inputs: inputs[p].clone(), p_eval: 0, p_own: p, p_out: vec![0, 1], tmp_dir: None }).collect();
        let run = exec::run(&c, &args, &RunCfg { cap: 1024, sched: Sched::RoundRobin, keep_payloads: false }, None); execs += 1;
        *dist.entry(format!("ands:{a}")).or_default() += 1; distinct.insert(format!("{n}/{a}/batch-threshold"));
        for p in 0..n { if run.outs[p] != Out::Ok(oracle.clone()) { failures.push(json!({"witness": "C19:mpc-result-depends-on-tmp_dir", "failure": format!("honest run with {a} ANDs (last batch below the bucket-size threshold of the full batches): party {p} returned {} (clear text {})", short(&run.outs[p]), circ::bits(&oracle)), "case": {"n": n, "ands": a}})); break; } }
    }
    for (ci, &a) in ands.iter().enumerate() {
        let n = if ci % 3 == 2 { 3 } else { 2 }; let c = circ::and_chain(n, a);
        let inputs: Vec<Vec<bool>> = c.input_regs.iter().map(|k| (0..*k).map(|_| r.bool()).collect()).collect();
        let oracle = c.eval(&inputs); let p_eval = r.below(n as u64) as usize; let p_out: Vec<usize> = (0..n).collect();
        let mut patterns: Vec<Vec<bool>> = vec![vec![false; n], vec![true; n], (0..n).map(|p| p == 0).collect(), (0..n).map(|p| p != 0).collect()];
        if n == 3 { patterns.push(vec![false, true, false]); }
        let mut reference: Option<Vec<(usize, usize, String, usize)>> = None;
        for tmp in patterns {
            let args: Vec<PartyArgs> = (0..n).map(|p| PartyArgs { inputs: inputs[p].clone(), p_eval, p_own: p, p_out: p_out.clone(), tmp_dir: if tmp[p] { Some(dir.path().to_path_buf()) } else { None } }).collect();
            let taps = std::rc::Rc::new(std::cell::RefCell::new(Vec::<(String, usize, Vec<u128>)>::new())); let t2 = taps.clone();
            polytune::verif::set_sink(Some(Box::new(move |k, p, v| if k.starts_with("buf_") { t2.borrow_mut().push((k.to_string(), p, v.to_vec())) })));
            let run = exec::run(&c, &args, &RunCfg { cap: 1, sched: Sched::RoundRobin, keep_payloads: false }, None); execs += 1;
            polytune::verif::set_sink(None);
            let desc = json!({"n": n, "ands": a, "p_eval": p_eval, "tmp_dir": tmp});
            *dist.entry(format!("ands:{a}")).or_default() += 1; *dist.entry(format!("tmp:{}", tmp.iter().map(|b| if *b { 'F' } else { 'M' }).collect::<String>())).or_default() += 1;
            distinct.insert(format!("{n}/{a}/{tmp:?}"));
            // oracle 1: result
            for p in 0..n { if run.outs[p] != Out::Ok(oracle.clone()) { failures.push(json!({"witness": "C19:mpc-result-depends-on-tmp_dir", "failure": format!("party {p} returned {} (clear text {})", short(&run.outs[p]), circ::bits(&oracle)), "case": desc})); break; } }
            // oracle 2: traffic equal to the all-memory run
            let mut tr: Vec<(usize, usize, String, usize)> = run.events.iter().filter_map(|e| if let Ev::Send { from, to, phase, len } = e { Some((*from, *to, phase.clone(), *len)) } else { None }).collect();
            tr.sort_by(|x, y| (x.0, x.1).cmp(&(y.0, y.1)));   // stable: keeps the per-pair order
            match &reference { None => reference = Some(tr), Some(rf) => if *rf != tr {
                let i = (0..rf.len().max(tr.len())).find(|&i| rf.get(i) != tr.get(i)).unwrap_or(0);
                failures.push(json!({"witness": "C19:mpc-traffic-depends-on-tmp_dir", "failure": format!("per-pair traffic differs from the all-memory run at message {i}: {:?} vs {:?}", rf.get(i), tr.get(i)), "case": desc})); } }
            // tie: appended chunk lengths vs the chunk size later requested, per party and element type
            let taps = taps.borrow();
            for p in 0..n { let mut by_ty: BTreeMap<u128, (Vec<usize>, Vec<usize>)> = BTreeMap::new();
                for (k, q, v) in taps.iter() { if *q != p { continue; } let e = by_ty.entry(v[2]).or_default(); if k == "buf_write" { e.0.push(v[0] as usize) } else { e.1.push(v[0] as usize) } }
                for (ty, (writes, reads)) in by_ty { for s in reads.iter().collect::<std::collections::BTreeSet<_>>() {
                    let total: usize = writes.iter().sum(); let want = m.ask(&format!("chunkiter {total} {s}"));
                    let got = format!("chunkiter {}", if writes.is_empty() { "-".to_string() } else { writes.iter().map(|x| x.to_string()).collect::<Vec<_>>().join(",") });
                    *dist.entry("chunked_buffers_checked".into()).or_default() += 1;
                    if want != got { disagreements.push(json!({"what": "chunks appended to a buffer are not the chunks its reader asks for (hypothesis of C19_chunk_boundaries)", "party": p, "elem_size": ty as u64, "requested_chunk_size": s, "model": want, "real": got, "case": desc})); } } } }
            if samples.len() < 2 && a > 0 { samples.push(json!({"case": desc, "result": short(&run.outs[0]), "buffer_events": taps.iter().take(6).map(|(k, p, v)| format!("{k}@{p}:{v:?}")).collect::<Vec<_>>()})); }
        }
    }
    let left = std::fs::read_dir(dir.path()).unwrap().count();
    if left != 0 { failures.push(json!({"witness": "C19:file-left", "failure": format!("{left} files remain in the temp directory")})); }
    json!({"executions": execs, "distinct_nontrivial": distinct.len(), "distribution": dist, "samples": samples, "model_disagreements": disagreements, "impl_vs_oracle_failures": failures, "model_requests": m.requests})
}

/// C09/C05: per ordered pair, the recorded (phase,len) sequence of sends vs the model's `pattern` of the public parameters;
/// plus the property's own oracle: two runs of one public configuration with different inputs/coins have identical patterns.
fn c09(seed: u64, cases: usize, model_path: &str) -> serde_json::Value {
    use ptverif::exec::Ev;
    std::panic::set_hook(Box::new(|_| {}));
    let mut r = Rng::new(seed); let mut m = Model::spawn(model_path).expect("spawn ptmodel");
    let mut dist: BTreeMap<String, u64> = BTreeMap::new(); let mut distinct = std::collections::BTreeSet::new();
    let mut disagreements = vec![]; let mut impl_vs_oracle = vec![]; let mut samples = vec![]; let mut execs = 0u64; let mut pairs = 0u64;
    let per_pair = |run: &exec::Run, n: usize| -> Vec<Vec<Vec<(String, usize)>>> {
        let mut v = vec![vec![vec![]; n]; n];
        for e in &run.events { if let Ev::Send { from, to, phase, len } = e { if *from < n && *to < n { v[*from][*to].push((phase.clone(), *len)); } } }
        v };
    for case in 0..cases {
        let n = r.range(2, 4) as usize;
        let (c, feat) = if case % 10 == 9 { let a = [1000usize, 1001, 1200][r.below(3) as usize]; (circ::and_chain(n, a), circ::Features { ands: a, ..Default::default() }) }
                        else { let g = r.range(1, 12) as usize; let a = r.below(g as u64 + 1) as usize; circ::generate(&mut r, n, g, a) };
        let p_eval = r.below(n as u64) as usize;
        let mut p_out: Vec<usize> = (0..n).filter(|_| r.bool()).collect(); if p_out.is_empty() { p_out.push(r.below(n as u64) as usize); }
        let mk = |r: &mut Rng| -> Vec<PartyArgs> { let inputs: Vec<Vec<bool>> = c.input_regs.iter().map(|k| (0..*k).map(|_| r.bool()).collect()).collect();
            (0..n).map(|p| PartyArgs { inputs: inputs[p].clone(), p_eval, p_own: p, p_out: p_out.clone(), tmp_dir: None }).collect() };
        let cfg = RunCfg { cap: [1usize, 2, 1024][r.below(3) as usize], sched: Sched::Random(r.next()), keep_payloads: false };
        let run1 = exec::run(&c, &mk(&mut r), &cfg, None); let run2 = exec::run(&c, &mk(&mut r), &RunCfg { cap: cfg.cap, sched: Sched::Random(r.next()), keep_payloads: false }, None); execs += 2;
        let (v1, v2) = (per_pair(&run1, n), per_pair(&run2, n));
        assert_eq!(m.ask(&circ::to_line(&c)), "ok");
        let desc = json!({"case": case, "n": n, "p_eval": p_eval, "p_out": p_out, "circuit": circ::to_line(&c)});
        for (k, v) in [("n", n.to_string()), ("ands", match feat.ands { 0 => "0".into(), 1..=999 => "1-999".into(), _ => ">=1000".to_string() }), ("eval_in_pout", p_out.contains(&p_eval).to_string())] { *dist.entry(format!("{k}:{v}")).or_default() += 1; }
        if !run1.outs.iter().all(|o| matches!(o, Out::Ok(_))) { impl_vs_oracle.push(json!({"failure": "honest run did not return Ok", "outs": format!("{:?}", run1.outs), "case": desc})); continue; }
        for i in 0..n { for k in 0..n { if i == k { continue; } pairs += 1;
            if v1[i][k] != v2[i][k] { impl_vs_oracle.push(json!({"failure": "pattern differs between two executions of the same public configuration", "pair": [i, k], "case": desc})); }
            let real = v1[i][k].iter().map(|(p, l)| format!("{p}:{l}")).collect::<Vec<_>>().join("|");
            let model = m.ask(&format!("pat n={n} peval={p_eval} pout={} from={i} to={k}", p_out.iter().map(|x| x.to_string()).collect::<Vec<_>>().join(",")));
            if model != format!("pat {}", if real.is_empty() { "-".to_string() } else { real.clone() }) {
                let (a, b): (Vec<&str>, Vec<&str>) = (real.split('|').collect(), model[4..].split('|').collect());
                let first = (0..a.len().max(b.len())).find(|&j| a.get(j) != b.get(j)).unwrap_or(0);
                disagreements.push(json!({"pair": [i, k], "first_diff_index": first, "real": a.get(first), "model": b.get(first), "real_len": a.len(), "model_len": b.len(), "case": desc})); }
            // C05: nothing reaches a non-output party after the `labels` step
            if !p_out.contains(&k) { if let Some(pos) = v1[i][k].iter().rposition(|(p, _)| p == "masked inputs" || p == "broadcast masked inputs" || p == "labels") { if pos + 1 != v1[i][k].len() { impl_vs_oracle.push(json!({"failure": "message to a non-output party after input processing", "pair": [i, k], "extra": v1[i][k][pos + 1..].to_vec(), "case": desc})); } } }
        } }
        distinct.insert((circ::to_line(&c), p_eval, p_out.clone()));
        if samples.len() < 2 { samples.push(json!({"case": desc, "pattern_0_to_1": v1[0][1].iter().map(|(p, l)| format!("{p}:{l}")).collect::<Vec<_>>()})); }
    }
    json!({"executions": execs, "ordered_pairs_compared": pairs, "distinct_nontrivial": distinct.len(), "distribution": dist, "samples": samples, "model_disagreements": disagreements, "impl_vs_oracle_failures": impl_vs_oracle, "model_requests": m.requests})
}

/// C18: invalid arguments. (1) single party, nobody else present: must return Err with zero channel operations;
/// (2) repeated output indices: rejected up front or treated as a set; (3) validate-ok-but-not-wf circuits: no panic.
fn c18(seed: u64, cases: usize, model_path: &str) -> serde_json::Value {
    use polytune::garble_lang::register_circuit::*;
    use ptverif::exec::Ev;
    std::panic::set_hook(Box::new(|_| {}));
    let mut r = Rng::new(seed); let mut m = Model::spawn(model_path).expect("spawn ptmodel");
    let mut dist: BTreeMap<String, u64> = BTreeMap::new(); let mut distinct = std::collections::BTreeSet::new();
    let mut disagreements = vec![]; let mut failures = vec![]; let mut samples = vec![]; let mut execs = 0u64;
    let cfg = RunCfg { cap: 1, sched: Sched::RoundRobin, keep_payloads: false };
    let sends = |run: &exec::Run| run.events.iter().filter(|e| matches!(e, Ev::Send { .. })).count();
    for case in 0..cases {
        let n = r.range(2, 3) as usize; let g = r.range(1, 8) as usize; let a = r.below(g as u64 + 1) as usize;
        let (good, _) = circ::generate(&mut r, n, g, a);
        let inputs: Vec<Vec<bool>> = good.input_regs.iter().map(|k| (0..*k).map(|_| r.bool()).collect()).collect();
        let own = r.below(n as u64) as usize; // indices beyond the parties: just beyond, far beyond, and values whose LOW 32 bits name a real party (a narrowing cast would accept them)
        let far = if case < 6 { [1usize << 32, (1usize << 32) | (n - 1), (1usize << 48) | (case % n), (1usize << 63) | 1, usize::MAX - 1, (1usize << 32) + n][case] } else { [n, n + 1, 1000, usize::MAX, (1usize << 32) | r.below(n as u64) as usize, (1usize << 40) | r.below(n as u64) as usize][r.below(6) as usize] };
        // ---- (1) one invalid argument, otherwise valid; single party alone
        let mut c = good.clone(); let mut inp = inputs[own].clone(); let (mut pe, mut po, mut me) = (r.below(n as u64) as usize, vec![r.below(n as u64) as usize], own);
        let class = if case < 6 { ["p_eval", "p_out_index", "own_index"][case % 3] } else { ["own_index", "p_eval", "p_out_index", "input_len", "p_out_empty", "circ_no_outputs", "circ_out_reg_range", "circ_read_before_write", "circ_input_position", "circ_inst_out_range"][r.below(10) as usize] };
        match class {
            // an own index that is not a party, with the inputs that party would have had or with NO inputs (nothing to be "of the wrong length")
            "own_index" => { me = far; if case % 2 == 0 { inp.clear(); } }, "p_eval" => pe = far, "p_out_index" => po.push(far), "p_out_empty" => po.clear(),
            "input_len" => { if r.bool() || inp.is_empty() { inp.push(true) } else { inp.pop(); } }
            "circ_no_outputs" => c.output_regs.clear(), "circ_out_reg_range" => c.output_regs.push(Reg(c.max_reg_count as u32 + r.below(3) as u32)),
            "circ_read_before_write" => { let fresh = c.max_reg_count as u32; c.max_reg_count += 1; c.insts.push(Inst { out: Reg(0), op: Op::Not(Not(Reg(fresh))) }); }
            "circ_input_position" => { c.insts.push(Inst { out: Reg(0), op: Op::Input(Input { party: 0, input: 0 }) }); }
            _ => { c.insts.push(Inst { out: Reg(c.max_reg_count as u32 + 5), op: Op::Not(Not(Reg(0))) }); } }
        let args = vec![PartyArgs { inputs: inp.clone(), p_eval: pe, p_own: me, p_out: po.clone(), tmp_dir: None }];
        let run = exec::run(&c, &args, &cfg, None); execs += 1;
        *dist.entry(format!("class:{class}")).or_default() += 1; distinct.insert((class.to_string(), circ::to_line(&c), me, pe, po.clone(), inp.len()));
        let desc = json!({"case": case, "class": class, "n": n, "p_own": me, "p_eval": pe, "p_out": po, "input_len": inp.len(), "expected_len": good.input_regs.get(me), "circuit": circ::to_line(&c)});
        assert_eq!(m.ask(&circ::to_line(&c)), "ok");
        let model_valid = m.ask("validate");
        if class.starts_with("circ_") && model_valid == "valid" { disagreements.push(json!({"what": "model validate accepts a circuit built to be invalid", "case": desc})); }
        // correspondence: the Lean `validateArgs` (the function the C18 theorems are about) must give the same verdict and error class
        let cls = |o: &Out, sends: usize| -> String { match o { Out::Err(e) if sends == 0 => { for k in ["PartyDoesNotExist", "WrongInputSize", "MissingOutputParties", "InvalidOutputParty"] { if e.contains(k) { return format!("err {k}"); } } if e.contains("CircuitError") || e.contains("Circuit(") || e.contains("InvalidInst") || e.contains("InvalidInput(") || e.contains("InvalidOutput(") || e.contains("InvalidRegAccess") || e.contains("EmptyInputs") || e.contains("EmptyOutputs") { "err circuit".to_string() } else { format!("err other:{e}") } } _ => "ok".to_string() } };
        let pout_s = if po.is_empty() { "-".to_string() } else { po.iter().map(|x| x.to_string()).collect::<Vec<_>>().join(",") };
        let model_args = m.ask(&format!("vargs pown={me} len={} peval={pe} pout={pout_s}", inp.len())); let real_args = cls(&run.outs[0], sends(&run));
        if model_args != real_args { disagreements.push(json!({"what": "validate(args): model vs mpc", "model": model_args, "real": real_args, "case": desc})); }
        let ok = matches!(run.outs[0], Out::Err(_)) && sends(&run) == 0;
        if !ok { failures.push(json!({"witness": if class == "p_eval" { "C18-a:p_eval-unchecked" } else { "C18:other" }, "failure": format!("invalid {class}: outcome {:?} after {} sends", short(&run.outs[0]), sends(&run)), "case": desc})); }
        if samples.len() < 3 { samples.push(desc); }
        // ---- (2) repeated output index, all parties
        if case % 4 == 0 {
            // a repeated index: adjacent, or separated by another party (first/last, or in the middle of a longer list)
            let q = r.below(n as u64) as usize; let o = (q + 1 + r.below(n as u64 - 1) as usize) % n;
            let (rep, set) = match (case / 4) % 4 { 0 => (vec![q, q], vec![q]), 1 => (vec![q, o, q], vec![q, o]), 2 => (vec![o, q, o, q], vec![o, q]), _ => (vec![o, q, q], vec![o, q]) };
            let mk = |po: &Vec<usize>| (0..n).map(|p| PartyArgs { inputs: inputs[p].clone(), p_eval: 0, p_own: p, p_out: po.clone(), tmp_dir: None }).collect::<Vec<_>>();
            let (ra, rb) = (exec::run(&good, &mk(&rep), &cfg, None), exec::run(&good, &mk(&set), &cfg, None)); execs += 2;
            *dist.entry("class:p_out_repeat".into()).or_default() += 1;
            assert_eq!(m.ask(&circ::to_line(&good)), "ok");
            let model_rep = m.ask(&format!("vargs pown=0 len={} peval=0 pout={}", inputs[0].len(), rep.iter().map(|x| x.to_string()).collect::<Vec<_>>().join(","))); let real_rep = cls(&ra.outs[0], sends(&ra));
            if model_rep != real_rep { disagreements.push(json!({"what": "validate(args) on a repeated output index: model vs mpc", "model": model_rep, "real": real_rep, "case": {"n": n, "p_out": rep, "circuit": circ::to_line(&good)}})); }
            let rejected = ra.outs.iter().all(|o| matches!(o, Out::Err(_))) && sends(&ra) == 0;
            if !(rejected || ra.outs == rb.outs) { failures.push(json!({"witness": "C18-b:p_out-repeats", "failure": format!("p_out={rep:?}: {:?} but as a set: {:?}", ra.outs.iter().map(short).collect::<Vec<_>>(), rb.outs.iter().map(short).collect::<Vec<_>>()), "case": {"n": n, "circuit": circ::to_line(&good)}})); }
        }
        // ---- (3) validate-ok but not well-formed: must not panic
        if case % 2 == 0 {
            let mut c = good.clone(); let k = ["and_ops_plus", "and_ops_minus", "input_after_gate", "input_party_range", "input_idx_range", "input_after_gate_undeclared"][if case == 2 { 5 } else { r.below(6) as usize }];
            match k {
                "input_after_gate_undeclared" => { // party 0 declares two input bits but loads one; party 1's input is loaded after a gate, at an index below the declared total
                    let insts = vec![Inst { out: Reg(0), op: Op::Input(Input { party: 0, input: 0 }) }, Inst { out: Reg(1), op: Op::Not(Not(Reg(0))) }, Inst { out: Reg(2), op: Op::Input(Input { party: 1, input: 0 }) }, Inst { out: Reg(3), op: Op::Xor(Xor(Reg(1), Reg(2))) }];
                    let mut ir = vec![0usize; n]; ir[0] = 2; ir[1] = 1;
                    c = Circuit { input_regs: ir, insts, max_reg_count: 4, output_regs: vec![Reg(3)], and_ops: 0 }; } "and_ops_plus" => c.and_ops += r.range(1, 3) as usize, "and_ops_minus" => c.and_ops = c.and_ops.saturating_sub(1),
                "input_after_gate" => { // counters stay consistent: party 1's second input is loaded after k gates
                    let k = r.range(1, 4) as u32; let mut insts = vec![Inst { out: Reg(0), op: Op::Input(Input { party: 0, input: 0 }) }, Inst { out: Reg(1), op: Op::Input(Input { party: 1, input: 0 }) }];
                    for j in 0..k { insts.push(Inst { out: Reg(0), op: if j == 0 { Op::And(And(Reg(0), Reg(1))) } else { Op::Xor(Xor(Reg(0), Reg(1))) } }); }
                    let pos = insts.len() as u32; insts.push(Inst { out: Reg(pos), op: Op::Input(Input { party: 1, input: 1 }) }); insts.push(Inst { out: Reg(0), op: Op::Xor(Xor(Reg(0), Reg(pos))) });
                    let mut ir = vec![0usize; n]; ir[0] = 1; ir[1] = 2;
                    c = Circuit { input_regs: ir, insts, max_reg_count: pos as usize + 1, output_regs: vec![Reg(0)], and_ops: 1 }; }
                "input_party_range" => { if let Op::Input(i) = &mut c.insts[0].op { i.party = n as u32 + 3; } }
                _ => { if let Op::Input(i) = &mut c.insts[0].op { i.input = 77; } } }
            assert_eq!(m.ask(&circ::to_line(&c)), "ok"); let (v, wf) = (m.ask("validate"), m.ask("wf"));
            let args: Vec<PartyArgs> = (0..n).map(|p| PartyArgs { inputs: (0..c.input_regs[p]).map(|_| true).collect(), p_eval: 0, p_own: p, p_out: vec![0], tmp_dir: None }).collect();
            let run = exec::run(&c, &args, &cfg, None); execs += 1; *dist.entry(format!("class:{k}")).or_default() += 1;
            *dist.entry(format!("validate:{}|{}", &v[..v.len().min(7)], wf)).or_default() += 1;
            let model_nwf = m.ask(&format!("vargs pown=0 len={} peval=0 pout=0", c.input_regs[0])); let real_nwf = cls(&run.outs[0], if matches!(run.outs[0], Out::Err(_)) && sends(&run) == 0 { 0 } else { 1 });
            if (model_nwf == "ok") != (real_nwf == "ok") || (model_nwf != "ok" && model_nwf != real_nwf) { disagreements.push(json!({"what": "validate(args) on a not-well-formed circuit: model vs mpc", "model": model_nwf, "real": real_nwf, "kind": k, "circuit": circ::to_line(&c)})); }
            let real_valid = c.validate().is_ok();
            if real_valid != (v == "valid") { disagreements.push(json!({"what": "validate: model vs garble_lang", "model": v, "real": format!("{:?}", c.validate()), "circuit": circ::to_line(&c)})); }
            if run.outs.iter().any(|o| matches!(o, Out::Panic(_))) { failures.push(json!({"witness": if k.starts_with("input_after_gate") { "C18-c:input-after-gate" } else { "C18:other-panic" }, "failure": format!("{k}: {:?}", run.outs.iter().map(short).collect::<Vec<_>>()), "case": {"n": n, "circuit": circ::to_line(&c)}})); }
        }
    }
    json!({"executions": execs, "distinct_nontrivial": distinct.len(), "distribution": dist, "samples": samples, "model_disagreements": disagreements, "impl_vs_oracle_failures": failures, "model_requests": m.requests})
}
fn short(o: &Out) -> String { let s = format!("{o:?}"); s.chars().take(110).collect() }

/// C08: hostile or vanishing peer. Victim = honest party `v`; the other party's k-th outgoing message is replaced
/// (byte-level classes on every message index; structure-aware classes on the phases with nested vectors), or the peer
/// vanishes after its k-th message. Oracle (independent of the model): victim outcome is Ok or Err - never Panic, never
/// Blocked once the peer has terminated - and no single allocation exceeds 64x the bytes received + 1 MiB.
fn c08(seed: u64, cases: usize, _model_path: &str, thorough: bool) -> serde_json::Value {
    use polytune::garble_lang::register_circuit::*;
    use ptverif::exec::Ev;
    std::panic::set_hook(Box::new(|_| {}));
    let mut r = Rng::new(seed);
    let mut dist: BTreeMap<String, u64> = BTreeMap::new(); let mut distinct = std::collections::BTreeSet::new();
    let mut failures = vec![]; let mut samples = vec![]; let mut execs = 0u64;
    let c = Circuit { input_regs: vec![1, 1], insts: vec![Inst { out: Reg(0), op: Op::Input(Input { party: 0, input: 0 }) }, Inst { out: Reg(1), op: Op::Input(Input { party: 1, input: 0 }) },
        Inst { out: Reg(2), op: Op::And(And(Reg(0), Reg(1))) }, Inst { out: Reg(0), op: Op::Not(Not(Reg(2))) }], max_reg_count: 3, output_regs: vec![Reg(0), Reg(2)], and_ops: 1 };
    let cfg = RunCfg { cap: 1, sched: Sched::RoundRobin, keep_payloads: false };
    let mk = |pe: usize| (0..2).map(|p| PartyArgs { inputs: vec![true], p_eval: pe, p_own: p, p_out: vec![0, 1], tmp_dir: None }).collect::<Vec<_>>();
    // baseline: how many messages does the adversary (party 1) send, in which phases
    let base = exec::run(&c, &mk(0), &cfg, None);
    let adv_msgs: Vec<(String, usize)> = base.events.iter().filter_map(|e| if let Ev::Send { from: 1, phase, len, .. } = e { Some((phase.clone(), *len)) } else { None }).collect();
    let byte_classes = ["empty", "truncate_half", "truncate_1", "random_same_len", "huge_len_prefix", "flip_one_bit", "append_junk", "zero_len_prefix"];
    let total = adv_msgs.len();
    let mut plan: Vec<(usize, usize, &str)> = vec![];                 // (victim role: p_eval, message index, class)
    for pe in 0..2 { for k in 0..total { for cl in byte_classes { plan.push((pe, k, cl)); } } }
    if !thorough { let mut sel = vec![]; for _ in 0..cases.min(plan.len()) { let i = r.below(plan.len() as u64) as usize; sel.push(plan.swap_remove(i)); } plan = sel; }
    for (pe, k, cl) in plan {
        let mut rr = r.fork(); let mut seen = 0usize; let cls = cl.to_string(); let target = std::rc::Rc::new(std::cell::RefCell::new((String::new(), 0usize)));
        let t2 = target.clone();
        let m: exec::Mutator = Box::new(move |from, _to, ph, _kk, d| { if from != 1 { return Some(d); } seen += 1; if seen - 1 != k { return Some(d); }
            *t2.borrow_mut() = (ph.to_string(), d.len());
            Some(match cls.as_str() { "empty" => vec![], "truncate_half" => d[..d.len() / 2].to_vec(), "truncate_1" => d[..d.len().saturating_sub(1)].to_vec(),
                "random_same_len" => (0..d.len()).map(|_| rr.next() as u8).collect(), "huge_len_prefix" => { let mut v = d.clone(); for b in v.iter_mut().take(8) { *b = 0xff; } v }
                "flip_one_bit" => { let mut v = d.clone(); if !v.is_empty() { let i = rr.below(v.len() as u64) as usize; v[i] ^= 1 << rr.below(8); } v }
                "append_junk" => { let mut v = d.clone(); v.extend([7u8; 9]); v } _ => { let mut v = d.clone(); for b in v.iter_mut().take(8) { *b = 0; } v } }) });
        ptverif::alloc_count::reset();
        let run = exec::run(&c, &mk(pe), &cfg, Some(m)); execs += 1;
        let (phase, len) = target.borrow().clone(); let biggest = ptverif::alloc_count::biggest();
        *dist.entry(format!("class:{cl}")).or_default() += 1; *dist.entry(format!("victim:{}", if pe == 0 { "evaluator" } else { "garbler" })).or_default() += 1;
        let o = &run.outs[0]; *dist.entry(format!("outcome:{}", match o { Out::Ok(_) => "ok", Out::Err(_) => "err", Out::Panic(_) => "panic", Out::Blocked => "blocked" })).or_default() += 1;
        distinct.insert((pe, phase.clone(), cl, okind(o)));
        let desc = json!({"victim_is_evaluator": pe == 0, "msg_index": k, "phase": phase, "orig_len": len, "class": cl});
        if let Out::Panic(msg) = o { let w = if msg.contains("decryption failed") { "C08-a:row-decrypt-expect" } else if phase == "fashare ver" { "C08-b:ashare-dm-inner-index" } else if phase == "dvalue" { "C08-c:dvalue-inner-index" } else { "C08:other-panic" };
            failures.push(json!({"witness": w, "failure": format!("victim panicked: {msg}"), "case": desc})); }
        if matches!(o, Out::Blocked) && !matches!(run.outs[1], Out::Blocked) { failures.push(json!({"witness": "C08:hang", "failure": "victim blocked although its peer has terminated", "case": desc})); }
        if biggest > 64 * len.max(1) + (1 << 20) + 4 * base_peak_hint() { failures.push(json!({"witness": "C08:alloc", "failure": format!("single allocation of {biggest} bytes for a {len}-byte message"), "case": desc})); }
        if samples.len() < 3 { samples.push(json!({"case": desc, "victim": short(o)})); }
    }
    // an INNER length prefix inflated (the outer element count stays right): every 8-byte field after the first that reads as a plausible length
    // (non-zero, not larger than what follows) is set to 1 GiB, one at a time (the first four per phase), both victim roles. A decoder that
    // reserves what a prefix claims before it has seen the bytes allocates out of all proportion to the message.
    { let mut phases: Vec<String> = vec![]; for (ph, _) in &adv_msgs { if !phases.contains(ph) { phases.push(ph.clone()); } }
      for ph0 in phases { for pe in 0..2 { for j in 0..4usize {
        let ph1 = ph0.clone(); let hit = std::rc::Rc::new(std::cell::Cell::new((false, 0usize, 0usize))); let hit2 = hit.clone();
        let m: exec::Mutator = Box::new(move |from, _to, ph, kk, d| { if from != 1 || ph != ph1 || kk != 0 || d.len() < 24 { return Some(d); }
            let cands: Vec<usize> = (8..d.len() - 8).filter(|i| { let v = u64::from_le_bytes(d[*i..*i + 8].try_into().unwrap()); v > 0 && v as usize <= d.len() - i - 8 }).collect();
            match cands.get(j) { Some(&i) => { let mut v = d.clone(); v[i..i + 8].copy_from_slice(&(1u64 << 30).to_le_bytes()); hit2.set((true, i, d.len())); Some(v) } None => Some(d) } });
        ptverif::alloc_count::reset();
        let run = exec::run(&c, &mk(pe), &cfg, Some(m)); let (was_hit, off, len) = hit.get(); if !was_hit { continue; } execs += 1;
        let biggest = ptverif::alloc_count::biggest(); let o = &run.outs[0];
        *dist.entry("class:inner_len_huge".into()).or_default() += 1; distinct.insert((pe, ph0.clone(), "inner_len_huge", okind(o)));
        let desc = json!({"victim_is_evaluator": pe == 0, "phase": ph0, "orig_len": len, "class": "inner_len_huge", "offset": off});
        if let Out::Panic(msg) = o { failures.push(json!({"witness": "C08:other-panic", "failure": format!("victim panicked: {msg}"), "case": desc})); }
        if matches!(o, Out::Blocked) && !matches!(run.outs[1], Out::Blocked) { failures.push(json!({"witness": "C08:hang", "failure": "victim blocked although its peer has terminated", "case": desc})); }
        if biggest > 64 * len.max(1) + (1 << 20) + 4 * base_peak_hint() { failures.push(json!({"witness": "C08:alloc", "failure": format!("single allocation of {biggest} bytes for a {len}-byte message (inner length prefix at offset {off} set to 1 GiB)"), "case": desc})); }
      } } } }
    // an INNER element one byte LONGER or SHORTER than it should be, consistently encoded (its length prefix says so and the bytes are there; the outer
    // count and everything after it stay right): the first four plausible inner prefixes of every phase and the last one, both victim roles.
    // A decoder that copies an element into a fixed-size array without comparing the lengths panics exactly here.
    { let mut phases: Vec<String> = vec![]; for (ph, _) in &adv_msgs { if !phases.contains(ph) { phases.push(ph.clone()); } }
      for ph0 in phases { for pe in 0..2 { for j in 0..5usize { for longer in [true, false] {
        let ph1 = ph0.clone(); let hit = std::rc::Rc::new(std::cell::Cell::new((false, 0usize, 0usize))); let hit2 = hit.clone();
        let m: exec::Mutator = Box::new(move |from, _to, ph, kk, d| { if from != 1 || ph != ph1 || kk != 0 || d.len() < 24 { return Some(d); }
            let cands: Vec<usize> = (8..d.len() - 8).filter(|i| { let v = u64::from_le_bytes(d[*i..*i + 8].try_into().unwrap()); v > 0 && v as usize <= d.len() - i - 8 }).collect();
            let pick = if j == 4 { if cands.len() > 4 { cands.last().copied() } else { None } } else { cands.get(j).copied() };
            match pick { Some(i) => { let v = u64::from_le_bytes(d[i..i + 8].try_into().unwrap()) as usize; let mut out = d[..i].to_vec();
                    if longer { out.extend(((v + 1) as u64).to_le_bytes()); out.extend(&d[i + 8..i + 8 + v]); out.push(0xAA); } else { out.extend(((v - 1) as u64).to_le_bytes()); out.extend(&d[i + 8..i + 8 + v - 1]); }
                    out.extend(&d[i + 8 + v..]); hit2.set((true, i, d.len())); Some(out) } None => Some(d) } });
        let run = exec::run(&c, &mk(pe), &cfg, Some(m)); let (was_hit, off, len) = hit.get(); if !was_hit { continue; } execs += 1;
        let o = &run.outs[0]; let cl = if longer { "inner_one_byte_longer" } else { "inner_one_byte_shorter" };
        *dist.entry(format!("class:{cl}")).or_default() += 1; distinct.insert((pe, ph0.clone(), cl, okind(o)));
        let desc = json!({"victim_is_evaluator": pe == 0, "phase": ph0, "orig_len": len, "class": cl, "offset_of_inner_prefix": off});
        if let Out::Panic(msg) = o { failures.push(json!({"witness": "C08:other-panic", "failure": format!("victim panicked: {msg}"), "case": desc})); }
        if matches!(o, Out::Blocked) && !matches!(run.outs[1], Out::Blocked) { failures.push(json!({"witness": "C08:hang", "failure": "victim blocked although its peer has terminated", "case": desc})); }
      } } } } }
    // structure-aware classes on nested vectors
    let nested: Vec<(&str, &str)> = vec![("fashare ver", "inner_empty"), ("fashare ver", "inner_short"), ("dvalue", "bits_short"), ("dvalue", "macs_short"), ("preprocessed gates", "rows_empty"), ("preprocessed gates", "rows_corrupt"), ("labels", "label_flip"), ("CO_OT_r", "point_invalid"), ("ALSZ_OT_setup", "rows_short"),
        // optional fields present where they should be absent, and absent where they should be present, in every `Vec<Option<_>>` message
        ("masked inputs", "opt_extra_noninput"), ("masked inputs", "opt_all_some"), ("masked inputs", "opt_all_none"), ("wire shares", "opt_all_some"), ("wire shares", "opt_all_none"),
        ("labels", "opt_all_some"), ("labels", "opt_all_none"), ("output wire shares", "opt_all_some"), ("output wire shares", "opt_all_none"), ("lambda", "opt_all_some"), ("lambda", "opt_all_none")];
    for (ph0, cl) in nested { for pe in 0..2 {
        let ph1 = ph0.to_string(); let cls = cl.to_string();
        let m: exec::Mutator = Box::new(move |from, _to, ph, kk, d| { if from != 1 || ph != ph1 || kk != 0 { return Some(d); }
            Some(match cls.as_str() {
                "inner_empty" => { let v: Vec<Vec<u8>> = de(&d); ser(&v.iter().map(|_| Vec::<u8>::new()).collect::<Vec<_>>()) }
                "inner_short" => { let v: Vec<Vec<u8>> = de(&d); ser(&v.iter().map(|x| x[..x.len() / 2].to_vec()).collect::<Vec<_>>()) }
                "bits_short" => { let v: Vec<(Vec<bool>, Vec<u128>)> = de(&d); ser(&v.into_iter().map(|(_, m)| (Vec::<bool>::new(), m)).collect::<Vec<_>>()) }
                "macs_short" => { let v: Vec<(Vec<bool>, Vec<u128>)> = de(&d); ser(&v.into_iter().map(|(b, _)| (b, Vec::<u128>::new())).collect::<Vec<_>>()) }
                "rows_empty" => { let v: Vec<[Vec<u8>; 4]> = de(&d); ser(&v.iter().map(|_| [vec![], vec![], vec![], vec![]]).collect::<Vec<[Vec<u8>; 4]>>()) }
                "rows_corrupt" => { let mut v: Vec<[Vec<u8>; 4]> = de(&d); for g in v.iter_mut() { for row in g.iter_mut() { row[2] ^= 0x10; } } ser(&v) }
                "label_flip" => { let mut v: Vec<Option<u128>> = de(&d); for e in v.iter_mut().flatten() { *e ^= 1; } ser(&v) }
                "point_invalid" => { let mut v: Vec<Vec<u8>> = de(&d); for x in v.iter_mut() { for b in x.iter_mut() { *b = 0xff; } } ser(&v) }
                "opt_extra_noninput" => { let mut v: Vec<Option<bool>> = de(&d); let k = v.len() - 1; v[k] = Some(true); ser(&v) }       // register 2 is not an input wire
                "opt_all_some" => match ph { "masked inputs" => { let v: Vec<Option<bool>> = de(&d); ser(&v.into_iter().map(|e| e.or(Some(true))).collect::<Vec<_>>()) }
                    "labels" => { let v: Vec<Option<u128>> = de(&d); ser(&v.into_iter().map(|e| e.or(Some(5))).collect::<Vec<_>>()) }
                    _ => { let v: Vec<Option<(bool, u128)>> = de(&d); ser(&v.into_iter().map(|e| e.or(Some((true, 5)))).collect::<Vec<_>>()) } },
                "opt_all_none" => match ph { "masked inputs" => { let v: Vec<Option<bool>> = de(&d); ser(&v.into_iter().map(|_| None::<bool>).collect::<Vec<_>>()) }
                    "labels" => { let v: Vec<Option<u128>> = de(&d); ser(&v.into_iter().map(|_| None::<u128>).collect::<Vec<_>>()) }
                    _ => { let v: Vec<Option<(bool, u128)>> = de(&d); ser(&v.into_iter().map(|_| None::<(bool, u128)>).collect::<Vec<_>>()) } },
                _ => { let v: Vec<Vec<u8>> = de(&d); ser(&v.iter().map(|x| x[..1].to_vec()).collect::<Vec<_>>()) } }) });
        let run = exec::run(&c, &mk(pe), &cfg, Some(m)); execs += 1; let o = &run.outs[0];
        *dist.entry(format!("class:{cl}")).or_default() += 1; distinct.insert((pe, ph0.to_string(), cl, okind(o)));
        let desc = json!({"victim_is_evaluator": pe == 0, "phase": ph0, "class": cl});
        if let Out::Panic(msg) = o { let w = if msg.contains("decryption failed") { "C08-a:row-decrypt-expect" } else if ph0 == "fashare ver" { "C08-b:ashare-dm-inner-index" } else if ph0 == "dvalue" { "C08-c:dvalue-inner-index" } else { "C08:other-panic" };
            failures.push(json!({"witness": w, "failure": format!("victim panicked: {msg}"), "case": desc})); }
        if matches!(o, Out::Blocked) && !matches!(run.outs[1], Out::Blocked) { failures.push(json!({"witness": "C08:hang", "failure": "victim blocked although its peer has terminated", "case": desc})); }
    } }
    // the optional-field classes with THREE parties: one contributor's view of which slots are filled then differs from the other's (a vector assembled
    // from "whatever was sent" may come out shorter than the number of parties). Adversary = the highest / the middle index, victim = evaluator or garbler.
    { let c3 = Circuit { input_regs: vec![1, 1, 1], insts: vec![Inst { out: Reg(0), op: Op::Input(Input { party: 0, input: 0 }) }, Inst { out: Reg(1), op: Op::Input(Input { party: 1, input: 0 }) }, Inst { out: Reg(2), op: Op::Input(Input { party: 2, input: 0 }) },
        Inst { out: Reg(3), op: Op::And(And(Reg(0), Reg(1))) }, Inst { out: Reg(4), op: Op::Xor(Xor(Reg(3), Reg(2))) }, Inst { out: Reg(3), op: Op::And(And(Reg(4), Reg(2))) }], max_reg_count: 5, output_regs: vec![Reg(3), Reg(4)], and_ops: 2 };
      for (ph0, cl) in [("labels", "opt_all_none"), ("labels", "opt_all_some"), ("labels", "opt_first_none"), ("masked inputs", "opt_all_none"), ("masked inputs", "opt_all_some"), ("wire shares", "opt_all_none"), ("wire shares", "opt_all_some"),
                        ("output wire shares", "opt_all_none"), ("output wire shares", "opt_all_some"), ("lambda", "opt_all_none"), ("lambda", "opt_all_some")] { for adv in [2usize, 1] { for pe in [0usize, 3 - adv] {
        if (ph0 == "lambda") != (pe == adv) && ph0 == "lambda" { continue; }
        let pe = if ph0 == "lambda" { adv } else { pe };
        let args: Vec<PartyArgs> = (0..3).map(|p| PartyArgs { inputs: vec![true], p_eval: pe, p_own: p, p_out: vec![0, 1, 2], tmp_dir: None }).collect();
        let (ph1, cls) = (ph0.to_string(), cl.to_string());
        let m: exec::Mutator = Box::new(move |from, _to, ph, kk, d| { if from != adv || ph != ph1 || kk != 0 { return Some(d); }
            Some(match (ph, cls.as_str()) {
                ("masked inputs", "opt_all_some") => { let v: Vec<Option<bool>> = de(&d); ser(&v.into_iter().map(|e| e.or(Some(true))).collect::<Vec<_>>()) }
                ("masked inputs", _) => { let v: Vec<Option<bool>> = de(&d); ser(&v.into_iter().map(|_| None::<bool>).collect::<Vec<_>>()) }
                ("labels", "opt_all_some") => { let v: Vec<Option<u128>> = de(&d); ser(&v.into_iter().map(|e| e.or(Some(5))).collect::<Vec<_>>()) }
                ("labels", "opt_first_none") => { let mut v: Vec<Option<u128>> = de(&d); if let Some(e) = v.iter_mut().find(|e| e.is_some()) { *e = None; } ser(&v) }
                ("labels", _) => { let v: Vec<Option<u128>> = de(&d); ser(&v.into_iter().map(|_| None::<u128>).collect::<Vec<_>>()) }
                (_, "opt_all_some") => { let v: Vec<Option<(bool, u128)>> = de(&d); ser(&v.into_iter().map(|e| e.or(Some((true, 5)))).collect::<Vec<_>>()) }
                _ => { let v: Vec<Option<(bool, u128)>> = de(&d); ser(&v.into_iter().map(|_| None::<(bool, u128)>).collect::<Vec<_>>()) } }) });
        let run = exec::run(&c3, &args, &cfg, Some(m)); execs += 1;
        *dist.entry(format!("class3:{cl}")).or_default() += 1; distinct.insert((pe, format!("3p/{ph0}/{adv}"), cl, okind(&run.outs[0])));
        for v in (0..3).filter(|v| *v != adv) { let o = &run.outs[v];
            let desc = json!({"n": 3, "adversary": adv, "victim": v, "victim_is_evaluator": pe == v, "phase": ph0, "class": cl});
            if let Out::Panic(msg) = o { failures.push(json!({"witness": "C08:other-panic", "failure": format!("victim panicked: {msg}"), "case": desc})); }
            if matches!(o, Out::Blocked) && !matches!(run.outs[adv], Out::Blocked) && (0..3).filter(|q| *q != v).all(|q| !matches!(run.outs[q], Out::Blocked)) { failures.push(json!({"witness": "C08:hang", "failure": "victim blocked although every other party has terminated", "case": desc})); } }
      } } } }
    // crash points: the peer vanishes after its k-th message
    for k in (0..=total).step_by(if thorough { 1 } else { 5 }) { for pe in 0..2 {
        let run = exec::run_kill(&c, &mk(pe), &cfg, None, Some((1, k))); execs += 1; let o = &run.outs[0];
        *dist.entry("class:vanish".into()).or_default() += 1; distinct.insert((pe, format!("vanish@{k}"), "vanish", okind(o)));
        if !matches!(o, Out::Ok(_) | Out::Err(_)) { failures.push(json!({"witness": "C08:vanish", "failure": format!("peer vanished after {k} messages: victim {}", short(o)), "case": {"victim_is_evaluator": pe == 0}})); }
    } }
    // ---- a VALIDLY ENCRYPTED garbled row whose plaintext is malformed: only a garbler can produce it (it owns the keys). Three parties, the victim
    // evaluates and is not the party with the highest index; garbler 1 re-encrypts its rows with the MAC vector cut after the evaluator's entry / emptied /
    // padded. Keys from garbler 1's own taps (zero labels of the AND gate's input wires, its global key): key = x-label ‖ y-label (big endian),
    // x-label offset by delta in rows 2,3 and y-label in rows 1,3; nonce = instruction index (u64 BE) ‖ row.
    { use chacha20poly1305::{aead::{Aead, KeyInit}, ChaCha20Poly1305, Key, Nonce}; use std::{cell::RefCell, rc::Rc};
      for cl in ["row_macs_cut_after_evaluator", "row_macs_empty", "row_macs_padded"] { for p_eval in [0usize, 1] {
        let n = 3usize; let adv = if p_eval == 0 { 1 } else { 0 };
        let insts: Vec<Inst> = vec![Inst { out: Reg(0), op: Op::Input(Input { party: 0, input: 0 }) }, Inst { out: Reg(1), op: Op::Input(Input { party: 1, input: 0 }) }, Inst { out: Reg(2), op: Op::Input(Input { party: 2, input: 0 }) },
            Inst { out: Reg(3), op: Op::And(And(Reg(0), Reg(1))) }, Inst { out: Reg(3), op: Op::Xor(Xor(Reg(3), Reg(2))) }];
        let c3 = Circuit { input_regs: vec![1; 3], insts, max_reg_count: 4, output_regs: vec![Reg(3)], and_ops: 1 };
        let args: Vec<PartyArgs> = (0..n).map(|p| PartyArgs { inputs: vec![true], p_eval, p_own: p, p_out: vec![0, 1, 2], tmp_dir: None }).collect();
        let taps: Rc<RefCell<Vec<(String, usize, Vec<u128>)>>> = Default::default(); let (t2, t3) = (taps.clone(), taps.clone());
        let crafted = Rc::new(std::cell::Cell::new(0usize)); let cr2 = crafted.clone(); let cls = cl.to_string();
        polytune::verif::set_sink(Some(Box::new(move |k, p, v| if k == "delta" || k == "input_label" { t2.borrow_mut().push((k.to_string(), p, v.to_vec())) })));
        let m: exec::Mutator = Box::new(move |from, to, ph, _k, d| { if from != adv || to != p_eval || ph != "preprocessed gates" { return Some(d); }
            let t = t3.borrow(); let get = |k: &str| -> Vec<u128> { t.iter().filter(|x| x.0 == k && x.1 == adv).flat_map(|x| x.2.clone()).collect() };
            let (delta, inlab) = (get("delta"), get("input_label")); if delta.is_empty() || inlab.len() < 2 { return Some(d); }
            let mut gates: Vec<[Vec<u8>; 4]> = de(&d);
            for g in gates.iter_mut() { for i in 0..4usize {
                let lx = inlab[0] ^ if i / 2 == 1 { delta[0] } else { 0 }; let ly = inlab[1] ^ if i % 2 == 1 { delta[0] } else { 0 };
                let mut key = [0u8; 32]; key[..16].copy_from_slice(&lx.to_be_bytes()); key[16..].copy_from_slice(&ly.to_be_bytes());
                let mut nonce = [0u8; 12]; nonce[..8].copy_from_slice(&3u64.to_be_bytes()); nonce[8] = i as u8;
                let cipher = ChaCha20Poly1305::new(Key::from_slice(&key));
                if let Ok(pt) = cipher.decrypt(Nonce::from_slice(&nonce), g[i].as_ref()) { let (r, mut macs, label): (bool, Vec<u128>, u128) = de(&pt);
                    match cls.as_str() { "row_macs_cut_after_evaluator" => macs.truncate(p_eval + 1), "row_macs_empty" => macs.clear(), _ => macs.extend([7u128; 5]) }
                    if let Ok(ct) = cipher.encrypt(Nonce::from_slice(&nonce), ser(&(r, macs, label)).as_ref()) { g[i] = ct; cr2.set(cr2.get() + 1); } } } }
            Some(ser(&gates)) });
        let run = exec::run(&c3, &args, &cfg, Some(m)); execs += 1; polytune::verif::set_sink(None);
        let o = &run.outs[p_eval]; *dist.entry(format!("class:{cl}")).or_default() += 1; *dist.entry(format!("rows_reencrypted:{}", crafted.get())).or_default() += 1; distinct.insert((p_eval, "preprocessed gates".to_string(), cl, okind(o)));
        let desc = json!({"n": 3, "victim_is_evaluator": true, "p_eval": p_eval, "adversary_garbler": adv, "phase": "preprocessed gates", "class": cl, "rows_reencrypted": crafted.get()});
        if crafted.get() == 0 { failures.push(json!({"witness": "C08:harness-could-not-craft-row", "failure": "the harness could not decrypt the adversary's own rows with the tapped labels (key derivation changed?)", "case": desc})); }
        if let Out::Panic(msg) = o { failures.push(json!({"witness": "C08:other-panic", "failure": format!("victim panicked: {msg}"), "case": desc})); }
        if matches!(o, Out::Blocked) { failures.push(json!({"witness": "C08:hang", "failure": "victim blocked", "case": desc})); }
        if samples.len() < 4 { samples.push(json!({"case": desc, "victim": short(o)})); }
      } } }
    json!({"executions": execs, "adversary_messages": total, "distinct_nontrivial": distinct.len(), "distribution": dist, "samples": samples, "model_disagreements": [], "impl_vs_oracle_failures": failures})
}
fn okind(o: &Out) -> u8 { match o { Out::Ok(_) => 0, Out::Err(_) => 1, Out::Panic(_) => 2, Out::Blocked => 3 } }
fn base_peak_hint() -> usize { 1 << 20 }
fn ser<T: serde::Serialize>(v: &T) -> Vec<u8> { bincode::serde::encode_to_vec(v, bincode::config::legacy()).unwrap() }
fn de<T: for<'a> serde::Deserialize<'a>>(b: &[u8]) -> T { bincode::serde::decode_from_slice(b, bincode::config::legacy()).unwrap().0 }

/// C03 (+ C02 oracle): exactly one authenticated field of one online-phase message is forged per run.
/// Oracle C03: the honest consumer returns Err. Oracle C02: an honest Ok is a value of the circuit on the honest inputs
/// and SOME substitution of the adversary's inputs. Adversary = party 1 (as garbler with p_eval = 0, or as evaluator with p_eval = 1).
fn c03(seed: u64, _cases: usize, _model_path: &str) -> serde_json::Value {
    use polytune::garble_lang::register_circuit::*;
    std::panic::set_hook(Box::new(|_| {}));
    let mut r = Rng::new(seed);
    let mut dist: BTreeMap<String, u64> = BTreeMap::new(); let mut distinct = std::collections::BTreeSet::new();
    let mut failures = vec![]; let mut samples = vec![]; let mut execs = 0u64;
    let cfg = RunCfg { cap: 1, sched: Sched::RoundRobin, keep_payloads: false };
    // (phase, field class, which role the adversary must have: 0 = garbler, 1 = evaluator, 2 = either)
    let fields: Vec<(&str, &str, u8)> = vec![
        ("wire shares", "bit", 2), ("wire shares", "mac", 2), ("wire shares", "missing", 2), ("wire shares", "bit2", 2),
        ("masked inputs", "claim_victim_wire", 2), ("masked inputs", "equivocate", 2),
        // an equivocating EVALUATOR that also tells the victim the output value that fits the victim's view (two coordinated messages): the labels it
        // holds for the victim then belong to that value, so only the broadcast check can stop it
        ("masked inputs", "equivocate+lambda", 1),
        ("labels", "label", 0), ("preprocessed gates", "row_byte", 0),
        ("output wire shares", "bit", 2), ("output wire shares", "mac", 2), ("output wire shares", "missing", 2), ("output wire shares", "bit2", 2),
        ("lambda", "value", 1), ("lambda", "label", 1), ("lambda", "missing", 1), ("lambda", "value2", 1)];
    // `bit2` / `value2`: TWO authenticated bits of one message are flipped and the MACs / labels kept — a check on an aggregate would let them cancel.
    for n in [2usize, 3] { for &(phase, field, role) in &fields { for adv_is_eval in [false, true] {
        if (role == 0 && adv_is_eval) || (role == 1 && !adv_is_eval) { continue; }
        if field.starts_with("equivocate") && n == 2 { continue; }
        for rep in 0..3 {
            // roles rotate with `rep`: (adversary, victim) = (1,0), (0,n-1), (n-1, n-2 or 0): the victim's index is below, above and (n = 3) between
            let (adv, victim) = match (rep, n) { (0, _) => (1usize, 0usize), (1, _) => (0, n - 1), (_, 2) => (1, 0), _ => (2, 1) };
            // circuit: the victim has two inputs, every other party one (registers in party order);
            // out = ((v0 & a) ^ v1) ^ others ..., plus an output that is an input of the victim
            let mut ir = vec![1usize; n]; ir[victim] = 2;
            let base: Vec<u32> = (0..n).map(|p| ir[..p].iter().sum::<usize>() as u32).collect();
            let mut insts: Vec<Inst> = vec![];
            for p in 0..n { for k in 0..ir[p] { insts.push(Inst { out: Reg(base[p] + k as u32), op: Op::Input(Input { party: p as u32, input: k as u32 }) }); } }
            let om = n as u32 + 1; let (v0, v1, aw) = (base[victim], base[victim] + 1, base[adv]);
            if field == "equivocate+lambda" { // the equivocated wire feeds only XOR gates: out = (v0 & v1) ^ a ^ others — no row is decrypted with its label
                insts.push(Inst { out: Reg(om), op: Op::And(And(Reg(v0), Reg(v1))) }); insts.push(Inst { out: Reg(om), op: Op::Xor(Xor(Reg(om), Reg(aw))) }); }
            else { insts.push(Inst { out: Reg(om), op: Op::And(And(Reg(v0), Reg(aw))) }); insts.push(Inst { out: Reg(om), op: Op::Xor(Xor(Reg(om), Reg(v1))) }); }
            for q in 0..n { if q != adv && q != victim { insts.push(Inst { out: Reg(om), op: Op::Xor(Xor(Reg(om), Reg(base[q]))) }); } }
            let c = Circuit { input_regs: ir.clone(), insts, max_reg_count: n + 2, output_regs: vec![Reg(om), Reg(v0)], and_ops: 1 };
            let mut inputs: Vec<Vec<bool>> = (0..n).map(|p| (0..ir[p]).map(|_| r.bool()).collect()).collect();
            if field == "equivocate+lambda" { inputs[victim][0] = true; }       // the adversary's input then decides the first output
            let p_eval = if adv_is_eval { adv } else { victim }; let p_out: Vec<usize> = (0..n).collect();
            let args: Vec<PartyArgs> = (0..n).map(|p| PartyArgs { inputs: inputs[p].clone(), p_eval, p_own: p, p_out: p_out.clone(), tmp_dir: None }).collect();
            let (ph, fl) = (phase.to_string(), field.to_string()); let nn = om as usize; let (v0, v1, aw) = (v0 as usize, v1 as usize, aw as usize);
            let m: exec::Mutator = Box::new(move |from, to, p, k, d| {
                if fl == "equivocate+lambda" && from == adv && to == victim && p == "lambda" && k == 0 { let mut v: Vec<Option<(bool, u128)>> = de(&d); if let Some(e) = v[nn].as_mut() { e.0 = !e.0; } return Some(ser(&v)); }
                if from != adv || p != ph || k != 0 { return Some(d); }
                let to_victim = to == victim;
                Some(match (ph.as_str(), fl.as_str()) {
                    ("wire shares", f) | ("output wire shares", f) if to_victim => { let mut v: Vec<Option<(bool, u128)>> = de(&d); let idx = if ph == "wire shares" { v0 } else { nn };
                        let idx2 = if ph == "wire shares" { v1 } else { v0 };   // the victim's second input wire / the second output register
                        match f { "bit" => { if let Some(e) = v[idx].as_mut() { e.0 = !e.0; } } "bit2" => { for i in [idx, idx2] { if let Some(e) = v[i].as_mut() { e.0 = !e.0; } } } "mac" => { if let Some(e) = v[idx].as_mut() { e.1 ^= 1 << 77; } } _ => v[idx] = None } ser(&v) }
                    ("masked inputs", "claim_victim_wire") if to_victim => { let mut v: Vec<Option<bool>> = de(&d); v[v0] = Some(true); ser(&v) }
                    ("masked inputs", "equivocate") | ("masked inputs", "equivocate+lambda") if to_victim => { let mut v: Vec<Option<bool>> = de(&d); if let Some(b) = v[aw].as_mut() { *b = !*b; } ser(&v) }
                    // the label of a wire that feeds the AND gate: the evaluator consumes it as an AEAD key (a label that only reaches XOR gates is consumed by nobody but the garbler itself)
                    ("labels", _) if to_victim => { let mut v: Vec<Option<u128>> = de(&d); if let Some(l) = v[v0].as_mut() { *l ^= 1; } ser(&v) }
                    ("preprocessed gates", _) if to_victim => { let mut v: Vec<[Vec<u8>; 4]> = de(&d); for row in v[0].iter_mut() { row[5] ^= 0x80; } ser(&v) }
                    ("lambda", f) if to_victim => { let mut v: Vec<Option<(bool, u128)>> = de(&d);
                        match f { "value" => { if let Some(e) = v[nn].as_mut() { e.0 = !e.0; } } "value2" => { for i in [nn, v0] { if let Some(e) = v[i].as_mut() { e.0 = !e.0; } } } "label" => { if let Some(e) = v[nn].as_mut() { e.1 ^= 2; } } _ => v[nn] = None } ser(&v) }
                    _ => d }) });
            let run = exec::run(&c, &args, &cfg, Some(m)); execs += 1; let o = &run.outs[victim];
            *dist.entry(format!("field:{phase}/{field}")).or_default() += 1; *dist.entry(format!("n:{n}")).or_default() += 1; *dist.entry(format!("outcome:{}", ["ok", "err", "panic", "blocked"][okind(o) as usize])).or_default() += 1;
            distinct.insert((n, phase, field, adv_is_eval, adv, victim)); *dist.entry(format!("adv->victim:{adv}->{victim}")).or_default() += 1;
            if std::env::var("VERIF_DEBUG").is_ok() && field.starts_with("equivocate") { eprintln!("DEBUG {field} n={n} adv={adv} victim={victim} eval={adv_is_eval}: {:?}", run.outs.iter().map(short).collect::<Vec<_>>()); }
            let desc = json!({"n": n, "phase": phase, "field": field, "adversary": format!("{}({adv})", if adv_is_eval { "evaluator" } else { "garbler" }), "victim": victim, "inputs": inputs.iter().map(|v| circ::bits(v)).collect::<Vec<_>>(), "rep": rep});
            // C02 oracle: Ok must be f(x_H, x') for some x'
            if let Out::Ok(v) = o { let allowed: Vec<Vec<bool>> = [false, true].iter().map(|x1| { let mut i = inputs.clone(); i[adv] = vec![*x1]; c.eval(&i) }).collect();
                if !allowed.contains(v) { failures.push(json!({"property": "C02", "witness": if phase == "output wire shares" && field == "missing" { "C02-a:missing-output-share" } else { "C02:other" }, "failure": format!("honest party accepted {} not in {:?}", circ::bits(v), allowed.iter().map(|a| circ::bits(a)).collect::<Vec<_>>()), "case": desc.clone()})); } }
            // C02 oracle, agreement: every party is an output party here, so all honest parties that finish Ok must hold the SAME output (one substitution of the
            // corrupted input for everybody)
            { let oks: Vec<&Vec<bool>> = (0..n).filter(|p| *p != adv).filter_map(|p| if let Out::Ok(v) = &run.outs[p] { Some(v) } else { None }).collect();
              if oks.windows(2).any(|w| w[0] != w[1]) { failures.push(json!({"property": "C02", "witness": "C02:honest-parties-disagree", "failure": format!("honest parties finished Ok with different outputs: {:?}", run.outs.iter().map(short).collect::<Vec<_>>()), "case": desc.clone()})); } }
            // C03 oracle: a forged authenticated value must make its consumer abort (a flipped *unused* value may legitimately go unnoticed: only `equivocate` with n=3 can hit the echo of another party first)
            match o { Out::Err(_) => {}
                Out::Panic(msg) => failures.push(json!({"property": "C03", "witness": if msg.contains("decryption failed") { "C08-a:row-decrypt-expect" } else { "C03:panic" }, "failure": format!("victim panicked instead of returning Err: {msg}"), "case": desc})),
                other => failures.push(json!({"property": "C03", "witness": if phase == "output wire shares" && field == "missing" { "C02-a:missing-output-share" } else { "C03:accepted" }, "failure": format!("run completed on a value whose authentication does not verify: {}", short(other)), "case": desc})) }
            if samples.len() < 3 { samples.push(desc.clone()); }
        } } } }
    // ---- a lie in PREPROCESSING told consistently: the adversary flips its share of the opened Beaver value `d` of the first triple in every `faand`
    // message it sends (MAC kept) and flips one incoming share the same way, so that its own view agrees with the value the honest parties now hold.
    // If the opening is accepted, every party works with a consistent, correctly MACed, WRONG triple: nothing later can notice, and the AND gate
    // computes (x & y) ^ mask. The victim's input is false, so the only admissible output is false.
    for n in [2usize, 3] { for (adv, victim) in [(1usize, 0usize), (0, n - 1)] { for (lie_phase, which) in [("faand", 8usize), ("faand", 9), ("dvalue", 16), ("dvalue", 19) /* the LAST d-value of the first bucket (bucket size 5: bits at 16..19) */] { for rep in 0..4 {
        let insts: Vec<Inst> = (0..n).map(|p| Inst { out: Reg(p as u32), op: Op::Input(Input { party: p as u32, input: 0 }) }).chain(std::iter::once(Inst { out: Reg(n as u32), op: Op::And(And(Reg(victim as u32), Reg(adv as u32))) })).collect();
        let c = Circuit { input_regs: vec![1; n], insts, max_reg_count: n + 1, output_regs: vec![Reg(n as u32)], and_ops: 1 };
        let mut inputs: Vec<Vec<bool>> = (0..n).map(|_| vec![r.bool()]).collect(); inputs[victim][0] = false; inputs[adv][0] = true;
        let args: Vec<PartyArgs> = (0..n).map(|p| PartyArgs { inputs: inputs[p].clone(), p_eval: if rep % 2 == 0 { victim } else { adv }, p_own: p, p_out: (0..n).collect(), tmp_dir: None }).collect();
        let m: exec::Mutator = Box::new(move |from, _to, p, k, mut d| { if from == adv && p == lie_phase && k == 0 && d.len() > which && d[which] <= 1 { d[which] ^= 1; } Some(d) });
        let seen = std::rc::Rc::new(std::cell::Cell::new(false)); let seen2 = seen.clone();
        exec::set_recv_rewrite(Some(Box::new(move |at, _from, p, mut d| { if at == adv && p == lie_phase && !seen2.get() && d.len() > which && d[which] <= 1 { seen2.set(true); d[which] ^= 1; } d })));
        let run = exec::run(&c, &args, &cfg, Some(m)); execs += 1; exec::set_recv_rewrite(None);
        let o = &run.outs[victim]; *dist.entry("field:faand/consistent-lie".into()).or_default() += 1; distinct.insert((n, lie_phase, if which == 8 { "consistent-d" } else if which == 9 { "consistent-e" } else if which == 16 { "consistent-dvalue" } else { "consistent-dvalue-last" }, rep % 2 == 1, adv, victim));
        let desc = json!({"n": n, "phase": lie_phase, "field": if which == 8 { "d of the first triple, told consistently" } else if which == 9 { "e of the first triple, told consistently" } else if which == 16 { "first d-value of the first bucket, told consistently" } else { "last d-value of the first bucket, told consistently" }, "adversary": adv, "victim": victim, "victim_is_evaluator": rep % 2 == 0, "inputs": inputs.iter().map(|v| circ::bits(v)).collect::<Vec<_>>()});
        if let Out::Ok(v) = o { if v != &vec![false] { failures.push(json!({"property": "C02", "witness": "C02:consistent-preprocessing-lie", "failure": format!("honest party accepted {} although its own input false forces the output false", circ::bits(v)), "case": desc.clone()})); } }
        if let Out::Panic(msg) = o { failures.push(json!({"property": "C03", "witness": "C03:panic", "failure": format!("victim panicked: {msg}"), "case": desc})); }
    } } } }
    // ---- "the share it garbles into a row": a malicious GARBLER produces validly encrypted rows whose share bit is flipped (MACs and label share kept).
    // Two AND gates over the input wires, so one gate's rows or both gates' rows can lie (a check folded over gates would let two lies cancel).
    // Keys from the garbler's own taps as in the C08 class: key = x-label ‖ y-label, x offset by delta in rows 2,3, y in rows 1,3; nonce = instruction ‖ row.
    { use chacha20poly1305::{aead::{Aead, KeyInit}, ChaCha20Poly1305, Key, Nonce}; use std::{cell::RefCell, rc::Rc};
      for n in [2usize, 3] { for (cl, lie_gates) in [("row_share_bit_one_gate", vec![0usize]), ("row_share_bit_two_gates", vec![0usize, 1]), ("row_share_bit_no_macs", vec![0usize]), ("row_share_bit_macs_cut_before_evaluator", vec![0usize])] { for (adv, victim) in [(1usize, 0usize), (0, n - 1)] {
        let mut insts: Vec<Inst> = (0..n).map(|p| Inst { out: Reg(p as u32), op: Op::Input(Input { party: p as u32, input: 0 }) }).collect();
        let (g0, g1) = (n as u32, n as u32 + 1);
        insts.push(Inst { out: Reg(g0), op: Op::And(And(Reg(0), Reg(1))) }); insts.push(Inst { out: Reg(g1), op: Op::And(And(Reg(1), Reg(0))) });
        let c = Circuit { input_regs: vec![1; n], insts, max_reg_count: n + 2, output_regs: vec![Reg(g0), Reg(g1)], and_ops: 2 };
        let inputs: Vec<Vec<bool>> = (0..n).map(|_| vec![r.bool()]).collect();
        let args: Vec<PartyArgs> = (0..n).map(|p| PartyArgs { inputs: inputs[p].clone(), p_eval: victim, p_own: p, p_out: (0..n).collect(), tmp_dir: None }).collect();
        let taps: Rc<RefCell<Vec<(String, usize, Vec<u128>)>>> = Default::default(); let (t2, t3) = (taps.clone(), taps.clone());
        let crafted = Rc::new(std::cell::Cell::new(0usize)); let cr2 = crafted.clone(); let lg = lie_gates.clone(); let nn = n; let cl2 = cl;
        polytune::verif::set_sink(Some(Box::new(move |k, p, v| if k == "delta" || k == "input_label" { t2.borrow_mut().push((k.to_string(), p, v.to_vec())) })));
        let m: exec::Mutator = Box::new(move |from, to, ph, _k, d| { if from != adv || to != victim || ph != "preprocessed gates" { return Some(d); }
            let t = t3.borrow(); let get = |k: &str| -> Vec<u128> { t.iter().filter(|x| x.0 == k && x.1 == adv).flat_map(|x| x.2.clone()).collect() };
            let (delta, inlab) = (get("delta"), get("input_label")); if delta.is_empty() || inlab.len() < 2 { return Some(d); }
            let mut gates: Vec<[Vec<u8>; 4]> = de(&d);
            for (gi, g) in gates.iter_mut().enumerate() { if !lg.contains(&gi) { continue; } let (xw, yw) = if gi == 0 { (0usize, 1usize) } else { (1, 0) };
              for i in 0..4usize {
                let lx = inlab[xw] ^ if i / 2 == 1 { delta[0] } else { 0 }; let ly = inlab[yw] ^ if i % 2 == 1 { delta[0] } else { 0 };
                let mut key = [0u8; 32]; key[..16].copy_from_slice(&lx.to_be_bytes()); key[16..].copy_from_slice(&ly.to_be_bytes());
                let mut nonce = [0u8; 12]; nonce[..8].copy_from_slice(&((nn + gi) as u64).to_be_bytes()); nonce[8] = i as u8;
                let cipher = ChaCha20Poly1305::new(Key::from_slice(&key));
                if let Ok(pt) = cipher.decrypt(Nonce::from_slice(&nonce), g[i].as_ref()) { let (rb, macs, label): (bool, Vec<u128>, u128) = de(&pt);
                    // a flipped share whose MAC vector does not reach the evaluator's entry any more (emptied / cut just before it): "no MAC to check" must not mean "accepted"
                    let macs: Vec<u128> = match cl2 { "row_share_bit_no_macs" => vec![], "row_share_bit_macs_cut_before_evaluator" => macs[..victim.min(macs.len())].to_vec(), _ => macs };
                    if let Ok(ct) = cipher.encrypt(Nonce::from_slice(&nonce), ser(&(!rb, macs, label)).as_ref()) { g[i] = ct; cr2.set(cr2.get() + 1); } } } }
            Some(ser(&gates)) });
        let run = exec::run(&c, &args, &cfg, Some(m)); execs += 1; polytune::verif::set_sink(None); let o = &run.outs[victim];
        *dist.entry(format!("field:preprocessed gates/{cl}")).or_default() += 1; *dist.entry(format!("outcome:{}", ["ok", "err", "panic", "blocked"][okind(o) as usize])).or_default() += 1; distinct.insert((n, "preprocessed gates", cl, false, adv, victim));
        let desc = json!({"n": n, "phase": "preprocessed gates", "field": cl, "adversary": format!("garbler({adv})"), "victim": victim, "rows_reencrypted": crafted.get(), "inputs": inputs.iter().map(|v| circ::bits(v)).collect::<Vec<_>>()});
        if crafted.get() != 4 * lie_gates.len() { failures.push(json!({"property": "C03", "witness": "C03:harness-could-not-craft-row", "failure": "the harness could not re-encrypt the adversary's own rows with the tapped labels", "case": desc})); continue; }
        if let Out::Ok(v) = o { let allowed: Vec<Vec<bool>> = [false, true].iter().map(|x1| { let mut i = inputs.clone(); i[adv] = vec![*x1]; c.eval(&i) }).collect();
            if !allowed.contains(v) { failures.push(json!({"property": "C02", "witness": "C02:other", "failure": format!("honest evaluator accepted {} not in {:?}", circ::bits(v), allowed.iter().map(|a| circ::bits(a)).collect::<Vec<_>>()), "case": desc.clone()})); } }
        match o { Out::Err(_) => {}
            Out::Panic(msg) => failures.push(json!({"property": "C03", "witness": "C03:panic", "failure": format!("victim panicked instead of returning Err: {msg}"), "case": desc})),
            other => failures.push(json!({"property": "C03", "witness": "C03:accepted", "failure": format!("run completed although the share garbled into the rows was flipped: {}", short(other)), "case": desc})) }
      } } } }
    json!({"executions": execs, "distinct_nontrivial": distinct.len(), "distribution": dist, "samples": samples, "model_disagreements": [], "impl_vs_oracle_failures": failures})
}

/// C04: (a) one wrong value per preprocessing message: the honest receiver must not complete with Ok;
/// (b) commit-before-reveal: in every recorded schedule, a party starts sending a reveal only after it has received
/// the commitments of that round from all other parties.
fn c04(seed: u64, cases: usize, _model_path: &str) -> serde_json::Value {
    use polytune::garble_lang::register_circuit::*;
    use ptverif::exec::Ev;
    std::panic::set_hook(Box::new(|_| {}));
    let mut r = Rng::new(seed);
    let mut dist: BTreeMap<String, u64> = BTreeMap::new(); let mut distinct = std::collections::BTreeSet::new();
    let mut failures = vec![]; let mut samples = vec![]; let mut execs = 0u64;
    let mk_circ = |n: usize| { let mut insts: Vec<Inst> = (0..n).map(|p| Inst { out: Reg(p as u32), op: Op::Input(Input { party: p as u32, input: 0 }) }).collect();
        insts.push(Inst { out: Reg(n as u32), op: Op::And(And(Reg(0), Reg(1))) }); Circuit { input_regs: vec![1; n], insts, max_reg_count: n + 1, output_regs: vec![Reg(n as u32)], and_ops: 1 } };
    // ---- (a) detection
    let phases = ["RNG comm", "RNG ver", "CO_OT_s", "CO_OT_r", "CO_OT_c0c1", "ALSZ_OT_setup", "KOS_OT_x_t0_t1", "KOS_OT_corr", "fabitn", "fashare comm", "fashare ver", "fashare di_bi", "haand", "flaand", "flaand comm", "flaand hash", "dvalue", "faand"];
    // phases in which EVERY payload bit is covered by a check (MAC, commitment opening, hash comparison, echo broadcast): an accepted flip there is
    // unverified correlated randomness even when the output happens to be right. `fashare comm` is strict only in its third component (cm), because
    // exactly one of c0/c1 is legitimately never opened. The OT messages, `haand` (the receiver uses H0 or H1 of a pair, depending on its own bit) and `flaand` carry values the receiver may legitimately never use.
    let strict = |phase: &str, pos: usize| -> bool { match phase { "KOS_OT_x_t0_t1" /* the receiver's check values: every bit enters `check != (t0, t1)` */ | "RNG comm" | "RNG ver" | "fabitn" | "fashare ver" | "fashare di_bi" | "flaand comm" | "flaand hash" | "dvalue" | "faand" => true, "fashare comm" => (pos - 8) % 96 >= 64, _ => false } };
    // position of the flipped bit: usize::MAX = seeded random, usize::MAX - 1 = last byte of the message, otherwise the absolute byte offset
    // (8 = first payload byte; the two `fashare comm` offsets hit the third commitment of the first and of the last entry).
    const RANDOM: usize = usize::MAX; const LAST: usize = usize::MAX - 1;
    for (n, adv, victim) in [(2usize, 1usize, 0usize), (2, 0, 1), (3, 1, 0), (3, 0, 2), (3, 2, 1)] { let c = mk_circ(n); for phase in phases { for occurrence in [0usize, 1] { for all_recipients in [false, true] { for fixed in [RANDOM, 8, LAST, 8 + 64 + 3usize, 8 + 96 * 39 + 64 + 31] {
        if all_recipients && (n == 2 || fixed != RANDOM) { continue; }
        if fixed != RANDOM && fixed != 8 && fixed != LAST && phase != "fashare comm" { continue; }
        if (fixed == 8 || fixed == LAST) && occurrence != 0 { continue; }            // first / last element: first occurrence only
        if fixed == RANDOM && adv != 1 { continue; }                                 // seeded positions: adversary 1, victim 0 (as before)
        let inputs: Vec<Vec<bool>> = (0..n).map(|_| vec![r.bool()]).collect();
        let args: Vec<PartyArgs> = (0..n).map(|p| PartyArgs { inputs: inputs[p].clone(), p_eval: 0, p_own: p, p_out: (0..n).collect(), tmp_dir: None }).collect();
        let ph = phase.to_string(); let mut rr = r.fork(); let hit = std::rc::Rc::new(std::cell::Cell::new(false)); let hit2 = hit.clone();
        // flip one bit in the payload area (after the 8-byte length prefix) of the chosen message(s): a wrong value, well-formed structure
        let pos_seed = rr.next();
        let at = std::rc::Rc::new(std::cell::Cell::new(0usize)); let at2 = at.clone();
        let m: exec::Mutator = Box::new(move |from, to, p, k, mut d| { if from != adv || p != ph || k != occurrence || (!all_recipients && to != victim) || d.len() <= 9 { return Some(d); }
            let i = if fixed == LAST { d.len() - 1 } else if fixed != RANDOM && fixed < d.len() { fixed } else { 8 + (pos_seed as usize) % (d.len() - 8) };
            d[i] ^= if fixed == RANDOM { 1 << (pos_seed >> 40) % 8 } else { 1 }; hit2.set(true); at2.set(i); Some(d) });
        let run = exec::run(&c, &args, &RunCfg { cap: 1, sched: Sched::RoundRobin, keep_payloads: false }, Some(m)); execs += 1;
        if !hit.get() { continue; }
        let o = &run.outs[victim]; *dist.entry(format!("phase:{phase}")).or_default() += 1; *dist.entry(format!("outcome:{}", ["ok", "err", "panic", "blocked"][okind(o) as usize])).or_default() += 1;
        *dist.entry(format!("position:{}", if fixed == RANDOM { "random" } else if fixed == LAST { "last" } else if fixed == 8 { "first" } else { "cm" })).or_default() += 1; *dist.entry(format!("adv->victim:{adv}->{victim}/n{n}")).or_default() += 1;
        distinct.insert(format!("{n}/{adv}/{victim}/{phase}/{occurrence}/{all_recipients}/{fixed}"));
        let desc = json!({"n": n, "phase": phase, "occurrence": occurrence, "all_recipients": all_recipients, "adversary": adv, "victim": victim, "byte": at.get()});
        match o { Out::Err(_) => {}
            Out::Ok(v) => { // a flipped bit that is semantically irrelevant (e.g. padding, an unused row) may legitimately pass; a changed OUTPUT may not
                let want = c.eval(&inputs); if *v != want { failures.push(json!({"witness": "C04:wrong-ok", "failure": format!("victim completed with {} (clear text {}) after a wrong {phase} value", circ::bits(v), circ::bits(&want)), "case": desc})); }
                else if strict(phase, at.get()) { failures.push(json!({"witness": format!("C04:accepted-unverified:{phase}"), "failure": format!("a flipped bit at byte {} of `{phase}` was accepted (victim finished Ok): every bit of this message is supposed to be covered by a check", at.get()), "case": desc})); }
                else { *dist.entry(format!("ok_with_correct_result:{phase}")).or_default() += 1; } }
            Out::Panic(m) => failures.push(json!({"witness": if phase == "fashare ver" { "C08-b:ashare-dm-inner-index" } else if phase == "dvalue" { "C08-c:dvalue-inner-index" } else { "C04:panic" }, "failure": format!("victim panicked: {m}"), "case": desc})),
            Out::Blocked => failures.push(json!({"witness": "C04:blocked", "failure": "victim blocked", "case": desc})) }
        if samples.len() < 2 { samples.push(json!({"case": desc, "victim": short(o)})); }
    } } } } }
    // ---- (a2) several lies in ONE message (a cheater that flips an even number of authenticated bits and keeps the MACs): every such
    // message must still be rejected — a check that only looks at an aggregate (XOR / sum of the differences) lets them cancel.
    let mk_circ2 = |n: usize| { let mut insts: Vec<Inst> = (0..n).map(|p| Inst { out: Reg(p as u32), op: Op::Input(Input { party: p as u32, input: 0 }) }).collect();
        insts.push(Inst { out: Reg(n as u32), op: Op::And(And(Reg(0), Reg(1))) }); insts.push(Inst { out: Reg(n as u32 + 1), op: Op::And(And(Reg(n as u32), Reg(1))) });
        Circuit { input_regs: vec![1; n], insts, max_reg_count: n + 2, output_regs: vec![Reg(n as u32 + 1)], and_ops: 2 } };
    // (phase, byte offsets of Boolean fields to flip, all in one message). Layouts (bincode legacy): Vec<(bool,u128)> = 8 + 17k; Vec<(bool,bool,Mac,Mac)> = 8 + 34k;
    // Vec<(Vec<bool>,Vec<Mac>)> with 4 entries each = 8 + 84k (+8 to the first bit); Vec<(bool,bool)> = 8 + 2k; `fashare ver` (n = 2) = 8 + 25r (+8 to the bit).
    let multi: Vec<(&str, Vec<usize>)> = vec![("faand", vec![8, 9]), ("faand", vec![8, 8 + 34]), ("faand", vec![9, 9 + 34]), ("faand", vec![8, 9, 8 + 34, 9 + 34]),
        ("fabitn", vec![8, 8 + 17]), ("fabitn", vec![8 + 17 * 5, 8 + 17 * 119]), ("dvalue", vec![16, 17]), ("dvalue", vec![16, 16 + 84]), ("dvalue", vec![16, 17, 18, 19]), ("dvalue", vec![19]), ("dvalue", vec![19 + 84]),
        ("haand", vec![8, 9]) /* both bits of one pair: the one the receiver uses is wrong for sure */,
        // `flaand` = Vec<(e bit, u)>: the e bits are unauthenticated but every wrong one makes the LaAND check value non-zero; two wrong ones in ONE bucket
        // (the one-AND circuit has a single bucket) must not cancel
        ("flaand", vec![8]), ("flaand", vec![8, 8 + 17]), ("flaand", vec![8 + 17, 8 + 17 * 4]), ("flaand", vec![8, 8 + 17, 8 + 34, 8 + 51]), ("fashare ver", vec![16, 16 + 25]), ("fashare ver", vec![16, 16 + 25 * 39])];
    // roles rotate: the victim is the party with the lowest and with the highest index (a check that only some indices perform cannot hide)
    for (phase, offs) in multi { for occurrence in [0usize, 1] { for (mvictim, madv) in [(0usize, 1usize), (1, 0)] { let n = 2; let c = if phase == "flaand" { mk_circ(n) } else { mk_circ2(n) };
        let inputs: Vec<Vec<bool>> = (0..n).map(|_| vec![r.bool()]).collect();
        let args: Vec<PartyArgs> = (0..n).map(|p| PartyArgs { inputs: inputs[p].clone(), p_eval: 0, p_own: p, p_out: (0..n).collect(), tmp_dir: None }).collect();
        let ph = phase.to_string(); let hit = std::rc::Rc::new(std::cell::Cell::new(false)); let hit2 = hit.clone(); let offs2 = offs.clone();
        let m: exec::Mutator = Box::new(move |from, to, p, k, mut d| { if from != madv || to != mvictim || p != ph || k != occurrence || offs2.iter().any(|o| *o >= d.len() || d[*o] > 1) { return Some(d); }
            for o in &offs2 { d[*o] ^= 1; } hit2.set(true); Some(d) });
        let run = exec::run(&c, &args, &RunCfg { cap: 1, sched: Sched::RoundRobin, keep_payloads: false }, Some(m)); execs += 1;
        if !hit.get() { continue; }
        let o = &run.outs[mvictim]; *dist.entry(format!("multi:{phase}")).or_default() += 1; *dist.entry(format!("multi_outcome:{}", ["ok", "err", "panic", "blocked"][okind(o) as usize])).or_default() += 1;
        distinct.insert(format!("multi/{phase}/{offs:?}/{occurrence}/{mvictim}"));
        let desc = json!({"n": n, "phase": phase, "occurrence": occurrence, "flipped_bool_bytes": offs, "victim": mvictim});
        // the victim must leave PREPROCESSING with an error: it may not get past the check on the strength of a later, unrelated failure
        // the victim's OWN detection: an error it raised, not the closed channel its peer left behind when the peer's (honest) copy of the code noticed the lie itself
        let pre_err = match o { Out::Err(e) => !e.contains("ChannelErr") && (e.contains("Preprocessing") || e.contains("WrongMAC") || e.contains("XorNotZero") || e.contains("Commitment") || e.contains("Broadcast") || e.contains("KOS") || e.contains("InvalidBitValue")), _ => false };
        if !pre_err { failures.push(json!({"witness": format!("C04:accepted-unverified-multi:{phase}"), "failure": format!("{} authenticated Boolean fields of one `{phase}` message were flipped (MACs unchanged) and the victim did not reject it in preprocessing: {}", offs.len(), short(o)), "case": desc})); }
        if samples.len() < 3 { samples.push(json!({"case": desc, "victim": short(o)})); }
    } } }
    // ---- (a3) a WITHHELD element: the peer sends one authenticated value, or one MAC, fewer than the receiver needs (inner vectors; the
    // channel layer only checks the outer length). The values that are still there are all correct. The victim must reject in preprocessing:
    // a check that walks the shorter of two vectors (zip) verifies nothing about the rest.
    let withheld: Vec<(&str, &str)> = vec![("dvalue", "last_mac_of_first_bucket"), ("dvalue", "last_mac_of_last_bucket"), ("dvalue", "last_bit_of_first_bucket"), ("dvalue", "last_bit_and_mac_of_first_bucket"),
        ("dvalue", "first_mac_of_first_bucket"), ("fashare ver", "last_byte_of_first_row"), ("fashare ver", "last_byte_of_last_row")];
    for (phase, what) in withheld { for victim in [0usize, 1] { let n = 2; let c = mk_circ2(n); let adv = 1 - victim;
        let args: Vec<PartyArgs> = (0..n).map(|p| PartyArgs { inputs: vec![r.bool()], p_eval: 0, p_own: p, p_out: (0..n).collect(), tmp_dir: None }).collect();
        let (ph, wh) = (phase.to_string(), what.to_string()); let hit = std::rc::Rc::new(std::cell::Cell::new(false)); let hit2 = hit.clone();
        let m: exec::Mutator = Box::new(move |from, to, p, k, d| { if from != adv || to != victim || p != ph || k != 0 { return Some(d); }
            hit2.set(true);
            Some(if ph == "dvalue" { let mut v: Vec<(Vec<bool>, Vec<u128>)> = de(&d); let last = v.len() - 1;
                    match wh.as_str() { "last_mac_of_first_bucket" => { v[0].1.pop(); } "last_mac_of_last_bucket" => { v[last].1.pop(); } "last_bit_of_first_bucket" => { v[0].0.pop(); }
                        "first_mac_of_first_bucket" => { v[0].1.remove(0); } _ => { v[0].0.pop(); v[0].1.pop(); } } ser(&v) }
                else { let mut v: Vec<Vec<u8>> = de(&d); let last = v.len() - 1; if wh == "last_byte_of_first_row" { v[0].pop(); } else { v[last].pop(); } ser(&v) }) });
        let run = exec::run(&c, &args, &RunCfg { cap: 1, sched: Sched::RoundRobin, keep_payloads: false }, Some(m)); execs += 1;
        if !hit.get() { continue; }
        let o = &run.outs[victim]; *dist.entry(format!("withheld:{phase}")).or_default() += 1; distinct.insert(format!("withheld/{phase}/{what}/{victim}"));
        let desc = json!({"n": n, "phase": phase, "withheld": what, "victim": victim});
        let pre_err = match o { Out::Err(e) => e.contains("Preprocessing") || e.contains("WrongMAC") || e.contains("XorNotZero") || e.contains("Commitment") || e.contains("InvalidLength"), _ => false };
        if let Out::Panic(msg) = o { failures.push(json!({"witness": "C04:panic", "failure": format!("victim panicked: {msg}"), "case": desc})); }
        else if !pre_err { failures.push(json!({"witness": format!("C04:accepted-withheld:{phase}"), "failure": format!("the peer withheld the {what} of its `{phase}` message (everything it did send is correct) and the victim did not reject it in preprocessing: {}", short(o)), "case": desc})); }
    } }
    // ---- (a4) MIRRORED commitment: a rushing peer lies in the leaky-AND round (flips one of its `e` bits), then waits for the honest party's
    // `flaand comm` message and sends the very same commitments back, and later echoes the honest party's opening (`flaand hash`) as its own.
    // Every echoed commitment opens correctly and the XOR of the two identical openings is zero, so a check value that is not bound to its
    // sender verifies nothing. The victim must still reject the lie in preprocessing. (n - 1 colluding peers: one echoes, the others send zeros.)
    for (n, victim) in [(2usize, 0usize), (2, 1), (3, 0), (3, 2)] { let c = mk_circ(n); let adv = (victim + 1) % n;
        let args: Vec<PartyArgs> = (0..n).map(|p| PartyArgs { inputs: vec![r.bool()], p_eval: 0, p_own: p, p_out: (0..n).collect(), tmp_dir: None }).collect();
        let saved: std::rc::Rc<std::cell::RefCell<std::collections::HashMap<String, Vec<u8>>>> = Default::default(); let (sv, sv2) = (saved.clone(), saved.clone());
        let state = std::rc::Rc::new(std::cell::Cell::new(0u32)); let (st, st2) = (state.clone(), state.clone());
        // send side: remember what the victim has sent; tell the lie
        let m: exec::Mutator = Box::new(move |from, to, p, k, mut d| { if k != 0 { return Some(d); }
            if p == "flaand comm" || p == "flaand hash" { sv.borrow_mut().entry(format!("{p}/{from}")).or_insert(d.clone()); return Some(d); }
            if from == adv && to == victim && p == "flaand" && d.len() > 8 && d[8] <= 1 { d[8] ^= 1; st.set(st.get() | 1); }
            Some(d) });
        // delivery side (rushing): what the victim receives as the peers' first `flaand comm` / `flaand hash` is made from its own message
        let seen: std::rc::Rc<std::cell::RefCell<std::collections::HashSet<(usize, usize, String)>>> = Default::default();
        exec::set_recv_rewrite(Some(Box::new(move |at, from, p, d| { if !(p == "flaand comm" || p == "flaand hash") || !seen.borrow_mut().insert((at, from, p.to_string())) { return d; }
            // the adversary's own copy of the code would notice its own lie and stop; a real adversary just carries on: its checks are made to pass the same way
            let own = sv2.borrow().get(&format!("{p}/{at}")).cloned(); let Some(x) = own else { return d; };
            if at != victim { return if from == victim || n == 2 { x } else { d }; }
            if from == adv { st2.set(st2.get() | if p == "flaand comm" { 2 } else { 4 }); return x; }
            // the other colluding peers: commitments to zero / zero openings, same shape as the honest message
            if p == "flaand hash" { let v: Vec<u128> = de(&x); return ser(&vec![0u128; v.len()]); }
            let v: Vec<[u8; 32]> = de(&x); let z: [u8; 32] = *blake3::hash(&0u128.to_be_bytes()).as_bytes(); ser(&vec![z; v.len()]) })));
        let run = exec::run(&c, &args, &RunCfg { cap: 1024, sched: Sched::RoundRobin, keep_payloads: false }, Some(m)); execs += 1;
        exec::set_recv_rewrite(None);
        if state.get() != 7 { *dist.entry(format!("mirror:not-applied(state {})", state.get())).or_default() += 1; continue; }
        let o = &run.outs[victim]; *dist.entry("mirror:flaand".into()).or_default() += 1; distinct.insert(format!("mirror/{n}/{victim}"));
        let desc = json!({"n": n, "victim": victim, "adversary_echoes": adv, "lie": "one e bit of `flaand` flipped", "echoed": ["flaand comm", "flaand hash"]});
        let pre_err = match o { Out::Err(e) => e.contains("XorNotZero") || e.contains("CommitmentCouldNotBeOpened") || e.contains("WrongMAC"), _ => false };
        if !pre_err { failures.push(json!({"witness": "C04-e:flaand-commitment-mirrored", "failure": format!("the peer lied about an e bit and echoed the victim's own commitments and openings back: the leaky-AND check passed, the victim went on: {}", short(o)), "case": desc})); }
        if samples.len() < 4 { samples.push(json!({"case": desc, "victim": short(o)})); }
    }
    // ---- (a4') RE-COMMITTING rushing peer (two parties): it lies about an `e` bit and, whenever a message of the commit-open rounds of the leaky-AND check
    // is delivered, uses every check value of the other party that has been SENT by then: it presents that value as its own, under a fresh commitment
    // with its own id. In the protocol as written the values are sent only after all commitments have been delivered, so the peer's commitment is to
    // its own (different) value and its opening is refused; a round that reveals a value before the peer's commitment has arrived binds nobody.
    // Message formats are recognised by element size (32: commitments, 16: values, 48: both together).
    for victim in [0usize, 1] { let n = 2; let adv = 1 - victim; let c = mk_circ(n);
        let args: Vec<PartyArgs> = (0..n).map(|p| PartyArgs { inputs: vec![r.bool()], p_eval: 0, p_own: p, p_out: (0..n).collect(), tmp_dir: None }).collect();
        let hs: std::rc::Rc<std::cell::RefCell<std::collections::HashMap<usize, Vec<u128>>>> = Default::default(); let (hs1, hs2) = (hs.clone(), hs.clone());
        let lied = std::rc::Rc::new(std::cell::Cell::new(false)); let l2 = lied.clone(); let used = std::rc::Rc::new(std::cell::Cell::new(0u32)); let u2 = used.clone();
        fn values_of(d: &[u8]) -> Option<Vec<u128>> { if d.len() < 8 { return None; } let k = u64::from_le_bytes(d[..8].try_into().unwrap()) as usize; if k == 0 || (d.len() - 8) % k != 0 { return None; }
            match (d.len() - 8) / k { 16 => Some((0..k).map(|i| u128::from_le_bytes(d[8 + 16 * i..24 + 16 * i].try_into().unwrap())).collect()), 48 => Some((0..k).map(|i| u128::from_le_bytes(d[8 + 48 * i + 32..8 + 48 * i + 48].try_into().unwrap())).collect()), _ => None } }
        let m: exec::Mutator = Box::new(move |from, to, p, k, mut d| { if k != 0 { return Some(d); }
            if p.starts_with("flaand ") { if let Some(v) = values_of(&d) { hs1.borrow_mut().entry(from).or_insert(v); } return Some(d); }
            if from == adv && to == victim && p == "flaand" && d.len() > 8 && d[8] <= 1 { d[8] ^= 1; l2.set(true); }
            Some(d) });
        let seen: std::rc::Rc<std::cell::RefCell<std::collections::HashSet<(usize, String)>>> = Default::default();
        exec::set_recv_rewrite(Some(Box::new(move |at, from, p, d| { if !p.starts_with("flaand ") || d.len() < 8 || !seen.borrow_mut().insert((at, p.to_string())) { return d; }
            // both copies of the code are served the same way (the peer's own copy would otherwise notice its own lie and stop)
            let Some(h) = hs2.borrow().get(&at).cloned() else { return d; };
            let k = u64::from_le_bytes(d[..8].try_into().unwrap()) as usize; if k != h.len() { return d; }
            let commit = |x: u128| -> [u8; 32] { let mut b = x.to_be_bytes().to_vec(); b.extend((from as u16).to_be_bytes()); *blake3::hash(&b).as_bytes() };
            if at == victim { u2.set(u2.get() + 1); }
            match (d.len() - 8) / k { 32 => ser(&h.iter().map(|x| commit(*x)).collect::<Vec<_>>()), 16 => ser(&h), 48 => ser(&h.iter().map(|x| (commit(*x), *x)).collect::<Vec<_>>()), _ => d } })));
        let run = exec::run(&c, &args, &RunCfg { cap: 1024, sched: Sched::RoundRobin, keep_payloads: false }, Some(m)); execs += 1; exec::set_recv_rewrite(None);
        if !lied.get() || used.get() == 0 { *dist.entry("recommit:not-applied".into()).or_default() += 1; continue; }
        let o = &run.outs[victim]; *dist.entry("recommit:flaand".into()).or_default() += 1; distinct.insert(format!("recommit/{victim}"));
        let pre_err = match o { Out::Err(e) => e.contains("XorNotZero") || e.contains("CommitmentCouldNotBeOpened"), _ => false };
        if !pre_err { failures.push(json!({"witness": "C04:flaand-value-revealed-before-commitment", "failure": format!("the peer lied about an e bit and presented the victim's own check value, re-committed under its own id, as soon as that value had been sent: the leaky-AND check passed, the victim went on: {}", short(o)), "case": {"n": n, "victim": victim, "adversary": adv}})); }
    }
    // ---- (a5) the same echo against the aShare consistency check (`fashare comm` / `fashare ver` / `fashare di_bi`) and the coin tossing
    // (`RNG comm` / `RNG ver`): a peer that sends the victim's own messages of these rounds back must be rejected
    // (the coin-toss commitments contain the sender id; the aShare decommitment carries MACs under the victim's own key).
    for (group, phases) in [("ashare", vec!["fashare comm", "fashare ver", "fashare di_bi"]), ("cointoss", vec!["RNG comm", "RNG ver"])] { for victim in [0usize, 1] { let n = 2; let c = mk_circ(n); let adv = 1 - victim;
        let args: Vec<PartyArgs> = (0..n).map(|p| PartyArgs { inputs: vec![r.bool()], p_eval: 0, p_own: p, p_out: (0..n).collect(), tmp_dir: None }).collect();
        let saved: std::rc::Rc<std::cell::RefCell<std::collections::HashMap<String, Vec<u8>>>> = Default::default(); let (sv, sv2) = (saved.clone(), saved.clone());
        let applied = std::rc::Rc::new(std::cell::Cell::new(0u32)); let ap = applied.clone(); let (ph1, ph2) = (phases.clone(), phases.clone());
        let m: exec::Mutator = Box::new(move |from, _to, p, k, d| { if k == 0 && ph1.contains(&p) { sv.borrow_mut().entry(format!("{p}/{from}")).or_insert(d.clone()); } Some(d) });
        let seen: std::rc::Rc<std::cell::RefCell<std::collections::HashSet<(usize, String)>>> = Default::default();
        exec::set_recv_rewrite(Some(Box::new(move |at, _from, p, d| { if !ph2.contains(&p) || !seen.borrow_mut().insert((at, p.to_string())) { return d; }
            match sv2.borrow().get(&format!("{p}/{at}")) { Some(x) => { if at == victim { ap.set(ap.get() + 1); } x.clone() } None => d } })));
        let run = exec::run(&c, &args, &RunCfg { cap: 1024, sched: Sched::RoundRobin, keep_payloads: false }, Some(m)); execs += 1; exec::set_recv_rewrite(None);
        if applied.get() == 0 { *dist.entry(format!("mirror:{group}:not-applied")).or_default() += 1; continue; }    // (a rejection may come before the last echoed round)
        let o = &run.outs[victim]; *dist.entry(format!("mirror:{group}")).or_default() += 1; distinct.insert(format!("mirror/{group}/{victim}"));
        let rejected = match o { Out::Err(e) => e.contains("WrongMAC") || e.contains("CommitmentCouldNotBeOpened") || e.contains("XorNotZero") || e.contains("Broadcast") || e.contains("KOS"), _ => false };
        if !rejected { failures.push(json!({"witness": format!("C04:mirrored:{group}"), "failure": format!("the peer echoed the victim's own {phases:?} messages back and the victim did not reject them: {}", short(o)), "case": {"n": n, "victim": victim}})); }
    } }
    // ---- (a6) EQUIVOCATION with values that are each acceptable on their own: in a verified broadcast the peer sends one victim a different, but
    // individually valid, message (the two commitments c0 / c1 of every aShare check object swapped: receivers accept an opening that matches
    // either). Only the echo round of the broadcast can notice. Three parties, every cheater index, either victim: BOTH honest parties must fail.
    for adv in 0..3usize { for vsel in 0..2usize { let n = 3; let victim = (0..n).filter(|p| *p != adv).nth(vsel).unwrap(); let c = mk_circ(n);
        let args: Vec<PartyArgs> = (0..n).map(|p| PartyArgs { inputs: vec![r.bool()], p_eval: 0, p_own: p, p_out: (0..n).collect(), tmp_dir: None }).collect();
        let hit = std::rc::Rc::new(std::cell::Cell::new(false)); let hit2 = hit.clone();
        let m: exec::Mutator = Box::new(move |from, to, p, k, d| { if from != adv || to != victim || p != "fashare comm" || k != 0 { return Some(d); }
            let mut v: Vec<([u8; 32], [u8; 32], [u8; 32])> = de(&d); for e in v.iter_mut() { std::mem::swap(&mut e.0, &mut e.1); } hit2.set(true); Some(ser(&v)) });
        let run = exec::run(&c, &args, &RunCfg { cap: 1, sched: Sched::RoundRobin, keep_payloads: false }, Some(m)); execs += 1;
        if !hit.get() { continue; }
        *dist.entry("equivocation:fashare comm".into()).or_default() += 1; distinct.insert(format!("equivocate/{adv}/{victim}"));
        let honest: Vec<usize> = (0..n).filter(|p| *p != adv).collect();
        let undetected: Vec<usize> = honest.iter().cloned().filter(|p| !matches!(&run.outs[*p], Out::Err(e) if e.contains("InconsistentBroadcast") || e.contains("Preprocessing") && !e.contains("ChannelErr"))).collect();
        if undetected.len() == honest.len() { failures.push(json!({"witness": "C04:equivocation-undetected", "failure": format!("party {adv} sent party {victim} its aShare commitments with c0 and c1 swapped (the other party got them in order) and no honest party noticed: {:?}", run.outs.iter().map(short).collect::<Vec<_>>()), "case": {"n": n, "adversary": adv, "victim": victim}})); }
    } }
    // ---- (a7) the OTHER committed value: in the third aShare round the peer opens d0 ^ delta where it should open d0 (or vice versa). The value matches one
    // of its two commitments, so only the comparison with the MACs the others hold (`xor_xk_macs != di_bi`) can reject it. (Found by disabling
    // that comparison in the self-mutation run: no other class noticed.)
    for (n, victim) in [(2usize, 0usize), (2, 1), (3, 0)] { let adv = (victim + 1) % n; let c = mk_circ(n);
        let args: Vec<PartyArgs> = (0..n).map(|p| PartyArgs { inputs: vec![r.bool()], p_eval: 0, p_own: p, p_out: (0..n).collect(), tmp_dir: None }).collect();
        let dl: std::rc::Rc<std::cell::Cell<u128>> = Default::default(); let dl2 = dl.clone();
        polytune::verif::set_sink(Some(Box::new(move |k, p, v| if k == "delta" && p == adv { dl2.set(v[0]); })));
        let hit = std::rc::Rc::new(std::cell::Cell::new(false)); let (hit2, dl3) = (hit.clone(), dl.clone());
        let m: exec::Mutator = Box::new(move |from, _to, p, k, d| { if from != adv || p != "fashare di_bi" || k != 0 || dl3.get() == 0 { return Some(d); }
            let mut v: Vec<u128> = de(&d); v[0] ^= dl3.get(); let last = v.len() - 1; v[last] ^= dl3.get(); hit2.set(true); Some(ser(&v)) });
        let run = exec::run(&c, &args, &RunCfg { cap: 1, sched: Sched::RoundRobin, keep_payloads: false }, Some(m)); execs += 1; polytune::verif::set_sink(None);
        if !hit.get() { continue; }
        let o = &run.outs[victim]; *dist.entry("other-committed-value:fashare di_bi".into()).or_default() += 1; distinct.insert(format!("other-committed/{n}/{victim}"));
        let pre_err = match o { Out::Err(e) => e.contains("WrongMAC") || e.contains("Commitment") || e.contains("InconsistentBroadcast"), _ => false };
        if !pre_err { failures.push(json!({"witness": "C04:accepted-other-committed-value", "failure": format!("the peer opened the other one of its two committed aShare check values (first and last position) and the victim did not reject it: {}", short(o)), "case": {"n": n, "victim": victim, "adversary": adv}})); }
    }
    // ---- (b) ordering under many schedules
    let rounds = [("RNG comm", "RNG ver"), ("fashare comm", "fashare ver"), ("fashare comm", "fashare di_bi"), ("flaand comm", "flaand hash")];
    for case in 0..cases { let n = r.range(2, 4) as usize; let c = mk_circ(n);
        let args: Vec<PartyArgs> = (0..n).map(|p| PartyArgs { inputs: vec![r.bool()], p_eval: r.below(1) as usize, p_own: p, p_out: vec![0], tmp_dir: None }).collect();
        let cfg = RunCfg { cap: [1usize, 2, 1024][r.below(3) as usize], sched: match r.below(3) { 0 => Sched::RoundRobin, 1 => Sched::Random(r.next()), _ => Sched::Starve(r.below(n as u64) as usize) }, keep_payloads: false };
        let run = exec::run(&c, &args, &cfg, None); execs += 1; *dist.entry("ordering_runs".into()).or_default() += 1; distinct.insert(format!("sched/{case}/{:?}/{}", cfg.sched, cfg.cap));
        for p in 0..n { for (commit, reveal) in rounds {
            // k-th reveal send to q must come after the k-th commit receive from EVERY other party
            let mut commit_recv: Vec<Vec<usize>> = vec![vec![]; n]; let mut reveal_send: Vec<Vec<usize>> = vec![vec![]; n];
            for (idx, e) in run.events.iter().enumerate() { match e {
                Ev::Recv { at, from, phase, .. } if *at == p && phase == commit => commit_recv[*from].push(idx),
                Ev::Send { from, to, phase, .. } if *from == p && phase == reveal => reveal_send[*to].push(idx), _ => {} } }
            for q in 0..n { for (k, &s_idx) in reveal_send[q].iter().enumerate() { for o in 0..n { if o == p { continue; }
                match commit_recv[o].get(k) { Some(&c_idx) if c_idx < s_idx => {}
                    other => failures.push(json!({"witness": "C04:reveal-before-commit", "failure": format!("party {p} started sending `{reveal}` #{k} to {q} at event {s_idx} but received `{commit}` #{k} from {o} at {other:?}"), "case": {"n": n, "sched": format!("{:?}", cfg.sched), "cap": cfg.cap}})) } } } }
        } }
    }
    json!({"executions": execs, "distinct_nontrivial": distinct.len(), "distribution": dist, "samples": samples, "model_disagreements": [], "impl_vs_oracle_failures": failures})
}

/// C11: correlated OT through the existing `__bench` re-exports, result level: for every index the receiver's output is
/// the sender's zero message XOR (choice AND correlation); both outputs have the requested length; back-to-back sessions
/// in both orders over one channel with one shared generator stay in step.
fn c11(seed: u64, cases: usize, _model_path: &str, thorough: bool) -> serde_json::Value {
    use polytune::bench_reexports::{kos_ot_receiver, kos_ot_sender, Block};
    use rand_chacha::{rand_core::SeedableRng, ChaCha20Rng};
    std::panic::set_hook(Box::new(|_| {}));
    let mut r = Rng::new(seed); let mut dist: BTreeMap<String, u64> = BTreeMap::new(); let mut distinct = std::collections::BTreeSet::new(); let mut failures = vec![]; let mut samples = vec![]; let mut execs = 0u64;
    let mut lens: Vec<usize> = vec![1, 2, 7, 8, 9, 15, 16, 17, 127, 128, 129, 255, 256, 257, 1023, 1024, 1025];
    if thorough { lens = (1..=4096).collect(); } else { for _ in 0..cases { lens.push(r.range(1, 4096) as usize); } }
    for m in lens {
        let kind = r.below(3); let choices: Vec<bool> = (0..m).map(|_| match kind { 0 => false, 1 => true, _ => r.bool() }).collect();
        let deltas: Vec<u128> = (0..m).map(|_| ((r.next() as u128) << 64) | r.next() as u128).collect();
        let dblocks: Vec<Block> = deltas.iter().map(|d| Block::from(d.to_be_bytes())).collect();
        let shared: [u8; 32] = std::array::from_fn(|_| r.next() as u8); let sender_first = r.bool();
        let (net, chs) = exec::new_net(2, [1usize, 2, 1024][r.below(3) as usize]);
        // party 0: (sender then receiver) or (receiver then sender); party 1 mirrors; second session uses fresh data of the same length
        let choices2: Vec<bool> = (0..m).map(|_| r.bool()).collect();
        let (c0, c1) = (&chs[0], &chs[1]); let (db, ch1, ch2) = (&dblocks, &choices, &choices2);
        let f0 = Box::pin(async move { let mut rng = ChaCha20Rng::from_seed(shared);
            if sender_first { let a = kos_ot_sender(c0, db, 1, &mut rng).await; let b = kos_ot_receiver(c0, ch2, 1, &mut rng).await; (a.map_err(|e| format!("{e:?}")), b.map_err(|e| format!("{e:?}"))) }
            else { let b = kos_ot_receiver(c0, ch2, 1, &mut rng).await; let a = kos_ot_sender(c0, db, 1, &mut rng).await; (a.map_err(|e| format!("{e:?}")), b.map_err(|e| format!("{e:?}"))) } }) as std::pin::Pin<Box<dyn std::future::Future<Output = (Result<Vec<u128>, String>, Result<Vec<u128>, String>)>>>;
        let f1 = Box::pin(async move { let mut rng = ChaCha20Rng::from_seed(shared);
            if sender_first { let a = kos_ot_receiver(c1, ch1, 0, &mut rng).await; let b = kos_ot_sender(c1, db, 0, &mut rng).await; (b.map_err(|e| format!("{e:?}")), a.map_err(|e| format!("{e:?}"))) }
            else { let b = kos_ot_sender(c1, db, 0, &mut rng).await; let a = kos_ot_receiver(c1, ch1, 0, &mut rng).await; (b.map_err(|e| format!("{e:?}")), a.map_err(|e| format!("{e:?}"))) } }) as std::pin::Pin<Box<dyn std::future::Future<Output = (Result<Vec<u128>, String>, Result<Vec<u128>, String>)>>>;
        let outs = exec::poll_all(vec![f0, f1], &net); execs += 1;
        *dist.entry(format!("len_mod8:{}", m % 8)).or_default() += 1; *dist.entry(format!("choices:{}", ["all0", "all1", "random"][kind as usize])).or_default() += 1; *dist.entry(format!("order:{}", if sender_first { "0 sends first" } else { "0 receives first" })).or_default() += 1;
        distinct.insert((m, kind, sender_first));
        let kname = ["all0", "all1", "random"][kind as usize]; let desc = json!({"len": m, "choices": kname, "party0_sender_first": sender_first});
        match (&outs[0], &outs[1]) {
            (Some((Ok(s0), Ok(r0))), Some((Ok(s1), Ok(r1)))) => {
                // session A: sender 0 -> receiver 1 with choices ch1; session B: sender 1 -> receiver 0 with choices ch2
                for (name, s, rcv, ch) in [("A", s0, r1, &choices), ("B", s1, r0, &choices2)] {
                    if s.len() != m || rcv.len() != m { failures.push(json!({"witness": "C11:length", "failure": format!("session {name}: lengths {} / {} for {m} OTs", s.len(), rcv.len()), "case": desc.clone()})); continue; }
                    if let Some(i) = (0..m).find(|&i| rcv[i] != s[i] ^ if ch[i] { deltas[i] } else { 0 }) { failures.push(json!({"witness": "C11:correlation", "failure": format!("session {name}: index {i}: receiver {:x} sender {:x} choice {} delta {:x}", rcv[i], s[i], ch[i], deltas[i]), "case": desc.clone()})); } } }
            other => failures.push(json!({"witness": "C11:error", "failure": format!("{:?}", other).chars().take(300).collect::<String>(), "case": desc.clone()})) }
        if samples.len() < 3 { samples.push(desc); }
    }
    json!({"executions": execs, "distinct_nontrivial": distinct.len(), "distribution": dist, "samples": samples, "model_disagreements": [], "impl_vs_oracle_failures": failures})
}

fn hex(b: &[u8]) -> String { if b.is_empty() { "-".into() } else { b.iter().map(|x| format!("{x:02x}")).collect() } }
/// C20: primitives against their definitions (the Lean specifications): exact transpose, schoolbook clmul, AES-based hashes, AES-CTR.
fn c20(seed: u64, cases: usize, model_path: &str, thorough: bool) -> serde_json::Value {
    use polytune::verif as v;
    std::panic::set_hook(Box::new(|_| {}));
    let mut r = Rng::new(seed); let mut m = Model::spawn(model_path).expect("spawn ptmodel");
    let mut dist: BTreeMap<String, u64> = BTreeMap::new(); let mut distinct = std::collections::BTreeSet::new(); let mut failures = vec![]; let mut disagreements: Vec<serde_json::Value> = vec![]; let mut samples = vec![]; let mut evals = 0u64;
    // ---- transpose: 128 x c for c in {16,24,..}, random rows x cols, single-bit matrices, unaligned input buffers
    let mut shapes: Vec<(usize, usize)> = vec![]; let cmax = if thorough { 4096 } else { 600 };
    let mut c = 16; while c <= cmax { shapes.push((128, c)); c += if thorough { 8 } else { 8 * (1 + c / 64) }; }
    for _ in 0..cases { shapes.push((128 * r.range(1, 3) as usize, 8 * r.range(2, 40) as usize)); }
    let mut avx_seen = 0usize;
    for (rows, cols) in shapes {
        let nbytes = rows * cols / 8; let kind = r.below(4);
        let mut buf: Vec<u8> = vec![0u8; nbytes + 3]; let off = r.below(4) as usize;      // unaligned start
        match kind { 0 => { let bit = r.below((nbytes * 8) as u64) as usize; buf[off + bit / 8] = 1 << (bit % 8); } 1 => { for b in buf.iter_mut() { *b = 0xff; } } _ => { for b in buf.iter_mut() { *b = r.next() as u8; } } }
        let input = &buf[off..off + nbytes];
        let want = m.ask(&format!("prim transpose {rows} {}", hex(input))); evals += 1;
        *dist.entry(format!("transpose:{}", ["single-bit", "all-ones", "random", "random"][kind as usize])).or_default() += 1; *dist.entry(format!("transpose:cols%128={}", if cols % 128 == 0 { "0" } else { "nz" })).or_default() += 1;
        distinct.insert(format!("t/{rows}/{cols}/{kind}"));
        // the model of avx2.rs (subject of C20_transpose_avx; the grouping of squares is a free parameter there, here a seeded digit pattern) against the
        // real dispatching function, on the smaller shapes (the bit-level model costs a fraction of a second per 128x128 square)
        avx_seen += 1;
        if (!thorough && rows * cols <= 128 * 300 && avx_seen % 4 == 1) || (thorough && rows * cols <= 384 * 520) { let pat: String = (0..3).map(|_| char::from(b'0' + r.below(5) as u8)).collect();
            let want_avx = m.ask(&format!("prim transposeAvx {rows} {pat} {}", hex(input))); evals += 1; *dist.entry("transpose:avx-model".into()).or_default() += 1;
            if let Ok(g) = std::panic::catch_unwind(|| v::transpose_dispatch(input, rows)) { if format!("transpose {}", hex(&g)) != want_avx { disagreements.push(json!({"what": "AVX2 transpose: model vs real dispatching function", "rows": rows, "cols": cols, "grouping": pat, "input": hex(input)})); } } }
        // the algorithm model of portable.rs (subject of C20_transpose_portable) must agree with the real portable function byte for byte
        let want_alg = m.ask(&format!("prim transposeP {rows} {}", hex(input))); evals += 1;
        if let Ok(g) = std::panic::catch_unwind(|| v::transpose_portable(input, rows)) { if format!("transpose {}", hex(&g)) != want_alg { disagreements.push(json!({"what": "portable transpose: algorithm model vs real function", "rows": rows, "cols": cols, "input": hex(input)})); } }
        for (name, got) in [("dispatch", std::panic::catch_unwind(|| v::transpose_dispatch(input, rows))), ("portable", std::panic::catch_unwind(|| v::transpose_portable(input, rows)))] {
            match got { Ok(g) => if format!("transpose {}", hex(&g)) != want { let i = g.iter().zip(want[10..].as_bytes().chunks(2)).position(|(a, b)| format!("{a:02x}").as_bytes() != b).unwrap_or(0);
                    failures.push(json!({"witness": "C20:transpose", "failure": format!("{name} transpose differs from the exact transpose at output byte {i}"), "case": {"rows": rows, "cols": cols, "kind": kind, "input": hex(input)}})); }
                Err(_) => failures.push(json!({"witness": "C20:transpose-panic", "failure": format!("{name} transpose panicked on an accepted shape"), "case": {"rows": rows, "cols": cols}})) } }
        if samples.len() < 1 { samples.push(json!({"transpose": {"rows": rows, "cols": cols, "kind": kind}})); }
    }
    // ---- the portable function alone accepts every multiple of 16 rows: small and odd block counts, against algorithm model and exact transpose
    for case in 0..(if thorough { 60 } else { 14 }) {
        let rows = [16usize, 32, 48, 80, 144, 16, 64][case % 7]; let cols = 8 * r.range(2, if case < 7 { 4 } else { 30 }) as usize; let nbytes = rows * cols / 8;
        let input: Vec<u8> = (0..nbytes).map(|_| r.next() as u8).collect(); evals += 2; *dist.entry("transpose:portable-only-shape".into()).or_default() += 1; distinct.insert(format!("tp/{rows}/{cols}/{case}"));
        let (alg, spec) = (m.ask(&format!("prim transposeP {rows} {}", hex(&input))), m.ask(&format!("prim transpose {rows} {}", hex(&input))));
        match std::panic::catch_unwind(|| v::transpose_portable(&input, rows)) {
            Ok(g) => { let got = format!("transpose {}", hex(&g));
                if got != alg { disagreements.push(json!({"what": "portable transpose: algorithm model vs real function", "rows": rows, "cols": cols, "input": hex(&input)})); }
                if got != spec { failures.push(json!({"witness": "C20:transpose", "failure": "portable transpose differs from the exact transpose", "case": {"rows": rows, "cols": cols, "input": hex(&input)}})); } }
            Err(_) => failures.push(json!({"witness": "C20:transpose-panic", "failure": "portable transpose panicked on an accepted shape", "case": {"rows": rows, "cols": cols}})) }
    }
    // ---- clmul: all basis pairs (thorough) / sampled basis pairs, sparse, dense, all-ones, random
    let mut pairs: Vec<(u128, u128, &str)> = vec![(u128::MAX, u128::MAX, "all-ones"), (0, u128::MAX, "zero"), (1, u128::MAX, "one")];
    if thorough { for i in 0..128 { for j in 0..128 { pairs.push((1u128 << i, 1u128 << j, "basis")); } } } else { for _ in 0..200 { pairs.push((1u128 << r.below(128), 1u128 << r.below(128), "basis")); } }
    for _ in 0..cases.max(50) { let a = ((r.next() as u128) << 64) | r.next() as u128; let b = ((r.next() as u128) << 64) | r.next() as u128; pairs.push((a, b, "random")); pairs.push((a & (a >> 3) & (a << 5), b, "sparse")); pairs.push((a | (a >> 1), b | (b << 1), "dense")); }
    for (a, b, kind) in pairs { evals += 1; *dist.entry(format!("clmul:{kind}")).or_default() += 1; distinct.insert(format!("c/{a:x}/{b:x}"));
        let want = m.ask(&format!("prim clmul {a:x} {b:x}"));
        for (name, (lo, hi)) in [("dispatch", v::clmul_dispatch(a, b)), ("scalar", v::clmul_scalar(a, b))] {
            if format!("clmul {lo:x} {hi:x}") != want { failures.push(json!({"witness": "C20:clmul", "failure": format!("{name} clmul({a:x},{b:x}) = ({lo:x},{hi:x}), definition gives {want}"), "case": {"a": format!("{a:x}"), "b": format!("{b:x}"), "kind": kind}})); } } }
    // ---- AES-based hashes under the fixed key, and the generator
    let key = hex(&v::fixed_key());
    for _ in 0..cases.max(30) { let x: [u8; 16] = std::array::from_fn(|_| r.next() as u8); let t: [u8; 16] = std::array::from_fn(|_| r.next() as u8); evals += 2;
        *dist.entry("hash:cr".into()).or_default() += 1; *dist.entry("hash:tccr".into()).or_default() += 1; distinct.insert(format!("h/{}", hex(&x)));
        if m.ask(&format!("prim cr {key} {}", hex(&x))) != format!("cr {}", hex(&v::cr_hash(x))) { failures.push(json!({"witness": "C20:cr-hash", "failure": "cr_hash_block != pi(x) ^ x", "case": {"x": hex(&x)}})); }
        if m.ask(&format!("prim tccr {key} {} {}", hex(&t), hex(&x))) != format!("tccr {}", hex(&v::tccr_hash(t, x))) { failures.push(json!({"witness": "C20:tccr-hash", "failure": "tccr_hash_block != pi(pi(x)^t)^pi(x)", "case": {"x": hex(&x), "t": hex(&t)}})); } }
    let lens: Vec<usize> = if thorough { (0..=1100).collect() } else { let mut l: Vec<usize> = (0..40).collect(); l.extend([127, 128, 129, 143, 144, 145, 255, 256, 257, 1024, 1100]); for _ in 0..cases { l.push(r.below(1101) as usize); } l };
    for n in lens { let seed_b: [u8; 16] = std::array::from_fn(|_| r.next() as u8); evals += 1; *dist.entry(format!("ctr:len%16={}", if n % 16 == 0 { "0" } else { "nz" })).or_default() += 1; distinct.insert(format!("r/{n}"));
        // sequences of calls on one generator vs the stateful Lean model (fast path + buffered tail + word-granular buffer index)
        { let k = 1 + r.below(4) as usize; let lens: Vec<usize> = (0..k).map(|_| match r.below(5) { 0 => r.below(16) as usize, 1 => 16 * r.below(12) as usize, 2 => 100 + r.below(200) as usize, 3 => 1 + r.below(7) as usize, _ => r.below(700) as usize }).collect();
          let real = v::aes_rng_fill(seed_b, &lens); let want = format!("ctrseq {}", real.iter().map(|o| if o.is_empty() { "-".to_string() } else { hex(o) }).collect::<Vec<_>>().join("|"));
          let model = m.ask(&format!("prim ctrseq {} {}", hex(&seed_b), lens.iter().map(|x| x.to_string()).collect::<Vec<_>>().join(",")));
          *dist.entry("aesrng_sequences".into()).or_default() += 1;
          if model != want { failures.push(json!({"witness": "C20:aes-rng-sequence", "failure": "a sequence of fill_bytes calls differs from the model of AesRng/BlockRng", "case": {"seed": hex(&seed_b), "lens": lens}})); } }
        let got = v::aes_rng_fill(seed_b, &[n]); if m.ask(&format!("prim ctr {} {n}", hex(&seed_b))) != format!("ctr {}", hex(&got[0])) { failures.push(json!({"witness": "C20:aes-ctr", "failure": format!("fill_bytes({n}) on a fresh generator is not the AES-128-CTR keystream prefix"), "case": {"seed": hex(&seed_b), "n": n}})); } }
    // ---- the Lean BLAKE3 (used for commitments, hash128, hash_vec in the message-level ties) against the crate
    for n in [0usize, 1, 16, 34, 63, 64, 65, 127, 128, 1023, 1024, 1025, 2047, 2048, 2049, 3072, 3073, 4097, 7000].into_iter().chain({ let mut rr = r.fork(); (0..cases).map(move |_| rr.below(6000) as usize).collect::<Vec<_>>() }) {
        let data: Vec<u8> = (0..n).map(|_| r.next() as u8).collect(); evals += 1; *dist.entry(format!("blake3:chunks={}", (n + 1023) / 1024)).or_default() += 1; distinct.insert(format!("b/{n}"));
        if m.ask(&format!("prim blake3 {}", hex(&data))) != format!("blake3 {}", hex(blake3::hash(&data).as_bytes())) { disagreements.push(json!({"what": "Lean BLAKE3 differs from the blake3 crate", "len": n})); } }
    json!({"executions": evals, "distinct_nontrivial": distinct.len(), "distribution": dist, "samples": samples, "model_disagreements": disagreements, "impl_vs_oracle_failures": failures, "model_requests": m.requests})
}

/// C10: real preprocessing among n parties through the `__verif` wrappers; the exported shares must satisfy, for each ordered
/// pair (i,j): mac_i[j] == key_j[i] ^ (bit_i & delta_j); and the AND shares must XOR to the AND of the XORs, with valid MACs.
fn c10(seed: u64, cases: usize, _model_path: &str, thorough: bool) -> serde_json::Value {
    use polytune::verif as v;
    std::panic::set_hook(Box::new(|_| {}));
    let mut r = Rng::new(seed); let mut dist: BTreeMap<String, u64> = BTreeMap::new(); let mut distinct = std::collections::BTreeSet::new(); let mut failures = vec![]; let mut samples = vec![]; let mut execs = 0u64;
    let check_valid = |shares: &Vec<Vec<v::VShare>>, deltas: &Vec<u128>, what: &str, failures: &mut Vec<serde_json::Value>, desc: &serde_json::Value| {
        let n = shares.len(); for l in 0..shares[0].len() { for i in 0..n { for j in 0..n { if i == j { continue; }
            let (si, sj) = (&shares[i][l], &shares[j][l]);
            if si.macs[j] != sj.keys[i] ^ if si.bit { deltas[j] } else { 0 } { failures.push(json!({"witness": "C10:mac-relation", "failure": format!("{what}: share #{l}: MAC held by {i} != key held by {j} ^ bit*delta_{j}"), "case": desc})); return; } } } } };
    let mut plan: Vec<(usize, usize, usize)> = vec![(2, 1, 1), (2, 7, 2), (3, 5, 3)];           // (n, random shares, and triples)
    for _ in 0..cases { plan.push((r.range(2, if thorough { 5 } else { 4 }) as usize, r.range(1, if thorough { 5000 } else { 300 }) as usize, r.range(1, if thorough { 700 } else { 40 }) as usize)); }
    plan.push((2, 10, 3100));                                      // bucket size 4 (1 s)
    if thorough { plan.push((3, 10, 3300)); }
    for (n, l, ands) in plan {
        let deltas: Vec<u128> = (0..n).map(|_| ((r.next() as u128) << 64) | r.next() as u128).collect();
        let picks: Vec<(usize, usize)> = (0..ands).map(|_| (r.below(l as u64) as usize, r.below(l as u64) as usize)).collect();
        let (net, chs) = exec::new_net(n, [1usize, 2, 1024][r.below(3) as usize]);
        let futs: Vec<std::pin::Pin<Box<dyn std::future::Future<Output = Result<(Vec<u128>, Vec<v::VShare>, Vec<(v::VShare, v::VShare)>, Vec<v::VShare>), String>>>>> = (0..n).map(|i| { let ch = &chs[i]; let d = deltas[i]; let picks = &picks;
            Box::pin(async move { let mut pre = v::pre_init(ch, i, n).await?;
                let rnd = v::fashare(ch, d, i, n, l, &mut pre).await?;
                let ab: Vec<(v::VShare, v::VShare)> = picks.iter().map(|(a, b)| (rnd[*a].clone(), rnd[*b].clone())).collect();
                let b = v::bucket_size(ab.len()); let abc = v::fashare(ch, d, i, n, ab.len() * b * 3, &mut pre).await?;
                let z = v::beaver_aand(ch, d, &ab, i, n, &mut pre, &abc).await?;
                Ok((v::pre_fingerprint(&mut pre), rnd, ab, z)) }) as std::pin::Pin<Box<dyn std::future::Future<Output = _>>> }).collect();
        let outs = exec::poll_all(futs, &net); execs += 1;
        *dist.entry(format!("n:{n}")).or_default() += 1; *dist.entry(format!("bucket:{}", v::bucket_size(ands))).or_default() += 1; *dist.entry(format!("l:{}", if l < 10 { "<10" } else if l < 1000 { "10-999" } else { ">=1000" })).or_default() += 1; distinct.insert((n, l, ands));
        let desc = json!({"n": n, "random_shares": l, "and_triples": ands, "bucket_size": v::bucket_size(ands)});
        let mut ok: Vec<(Vec<u128>, Vec<v::VShare>, Vec<(v::VShare, v::VShare)>, Vec<v::VShare>)> = vec![];
        for (i, o) in outs.into_iter().enumerate() { match o { Some(Ok(x)) => ok.push(x), other => { failures.push(json!({"witness": "C10:error", "failure": format!("party {i}: {}", format!("{other:?}").chars().take(200).collect::<String>()), "case": desc.clone()})); } } }
        if ok.len() != n { continue; }
        // identical shared coins: the multi-party stream equal for all; pairwise streams equal for the two owners (both store it at [min][max])
        if ok.iter().any(|x| x.0[0] != ok[0].0[0]) { failures.push(json!({"witness": "C10:shared-coins", "failure": "parties derived different multi-party coins", "case": desc.clone()})); }
        let rnd: Vec<Vec<v::VShare>> = ok.iter().map(|x| x.1.clone()).collect(); let z: Vec<Vec<v::VShare>> = ok.iter().map(|x| x.3.clone()).collect();
        if rnd.iter().any(|x| x.len() != l) || z.iter().any(|x| x.len() != ands) { failures.push(json!({"witness": "C10:length", "failure": "wrong number of shares returned", "case": desc.clone()})); continue; }
        check_valid(&rnd, &deltas, "random shares", &mut failures, &desc); check_valid(&z, &deltas, "AND shares", &mut failures, &desc);
        for k in 0..ands { let a = (0..n).fold(false, |acc, i| acc ^ ok[i].2[k].0.bit); let b = (0..n).fold(false, |acc, i| acc ^ ok[i].2[k].1.bit); let zz = (0..n).fold(false, |acc, i| acc ^ z[i][k].bit);
            if zz != (a & b) { failures.push(json!({"witness": "C10:and-relation", "failure": format!("AND share #{k}: xor z = {zz} but (xor a)&(xor b) = {}", a & b), "case": desc.clone()})); break; } }
        if samples.len() < 3 { samples.push(desc); }
    }
    json!({"executions": execs, "distinct_nontrivial": distinct.len(), "distribution": dist, "samples": samples, "model_disagreements": [], "impl_vs_oracle_failures": failures})
}

/// C06 / C07 / C04(challenge): repeated honest executions with taps and full payload recording.
fn c06(seed: u64, cases: usize, model_path: &str, which: &str) -> serde_json::Value {
    let mut mdl = Model::spawn(model_path).expect("spawn ptmodel"); let mut disagreements: Vec<serde_json::Value> = vec![]; let mut abit_msgs = 0u64;
    use polytune::garble_lang::register_circuit::*;
    use rand::{seq::SliceRandom, RngCore, SeedableRng};
    use std::{cell::RefCell, rc::Rc};
    std::panic::set_hook(Box::new(|_| {}));
    let mut r = Rng::new(seed); let mut dist: BTreeMap<String, u64> = BTreeMap::new(); let mut distinct = std::collections::BTreeSet::new(); let mut failures = vec![]; let mut samples = vec![]; let mut execs = 0u64;
    let n = 2usize; let runs = cases.max(50);
    // party 0: one balance-test input bit + a 128-bit canary; party 1: one bit
    let mut insts: Vec<Inst> = (0..129).map(|k| Inst { out: Reg(k), op: Op::Input(Input { party: 0, input: k }) }).collect();
    insts.push(Inst { out: Reg(129), op: Op::Input(Input { party: 1, input: 0 }) }); insts.push(Inst { out: Reg(130), op: Op::And(And(Reg(0), Reg(129))) }); insts.push(Inst { out: Reg(130), op: Op::Xor(Xor(Reg(130), Reg(5))) });
    let c = Circuit { input_regs: vec![129, 1], insts, max_reg_count: 131, output_regs: vec![Reg(130)], and_ops: 1 };
    let mut share_ones = vec![0u64; 129]; let mut share_tot = vec![0u64; 129]; let mut xpos: BTreeMap<(usize, usize), (Vec<u64>, u64)> = BTreeMap::new(); let mut xlen: BTreeMap<(usize, usize), usize> = BTreeMap::new();
    let mut ones = [0u64; 2]; let mut tot = [0u64; 2]; let mut deltas_seen = std::collections::BTreeSet::new(); let mut masks_seen = std::collections::BTreeSet::new();
    for run_i in 0..runs {
        let x = run_i % 2 == 1; let canary: Vec<bool> = (0..128).map(|_| r.bool()).collect(); let mut in0 = vec![x]; in0.extend(&canary);
        let args = vec![PartyArgs { inputs: in0.clone(), p_eval: r.below(2) as usize, p_own: 0, p_out: vec![0, 1], tmp_dir: None }, PartyArgs { inputs: vec![r.bool()], p_eval: 0, p_own: 1, p_out: vec![0, 1], tmp_dir: None }];
        let args = { let pe = args[0].p_eval; let mut a = args; a[1].p_eval = pe; a };
        let taps: Rc<RefCell<Vec<(String, usize, Vec<u128>)>>> = Default::default(); let t2 = taps.clone();
        polytune::verif::set_sink(Some(Box::new(move |k, p, v| t2.borrow_mut().push((k.to_string(), p, v.to_vec())))));
        let run = exec::run(&c, &args, &RunCfg { cap: 1, sched: Sched::Random(r.next()), keep_payloads: true }, None); execs += 1;
        polytune::verif::set_sink(None);
        if !run.outs.iter().all(|o| matches!(o, Out::Ok(_))) { failures.push(json!({"witness": "C06:run-failed", "failure": format!("{:?}", run.outs.iter().map(short).collect::<Vec<_>>())})); continue; }
        let taps = taps.borrow();
        // ---- C06 balance: revealed masked bit of party 0's wire 0, XOR the share party 1 sent for that wire
        let masked: Vec<Option<bool>> = run.payloads.iter().find(|(f, t, ph, _)| *f == 0 && *t == 1 && ph == "masked inputs").map(|p| de(&p.3)).unwrap();
        let ws: Vec<Option<(bool, u128)>> = run.payloads.iter().find(|(f, t, ph, _)| *f == 1 && *t == 0 && ph == "wire shares").map(|p| de(&p.3)).unwrap();
        // ---- nothing but the masked value may ever leave about an input wire: a party's OWN share of an input wire's mask (bit and MAC) opened to
        // anybody unmasks the input for that recipient. The output phase opens shares: only at output registers (here: register 130).
        for (f, t, ph, d) in run.payloads.iter() { if ph == "output wire shares" { let v: Vec<Option<(bool, u128)>> = de(d);
            let extra: Vec<usize> = v.iter().enumerate().filter(|(w, e)| e.is_some() && *w != 130).map(|(w, _)| w).collect();
            if !extra.is_empty() && failures.len() < 3 { failures.push(json!({"witness": "C06:own-mask-share-opened", "failure": format!("party {f} opened to party {t} its shares of the masks of registers {:?} (input wires among them), which are not outputs: masked input ^ all shares = the input", &extra[..extra.len().min(6)]), "case": {"run": run_i}})); } } }
        let combined = masked[0].unwrap() ^ ws[0].unwrap().0;              // = x ^ own share: must be balanced for x = 0 and for x = 1
        tot[x as usize] += 1; ones[x as usize] += combined as u64;
        // ---- every input wire of party 0 (129 wires: indices on both sides of 64 and 128): its own mask share = revealed ^ peer's share ^ input
        for w in 0..129 { if let (Some(mb), Some(sh)) = (masked[w], ws[w]) { share_ones[w] += (mb ^ sh.0 ^ in0[w]) as u64; share_tot[w] += 1; } }
        // ---- message-level tie of the aBit consistency check: the Boolean fields of every `fabitn` message = the Lean model's combinations of the
        // tapped bit string (ALL l + 3·RHO bits, surplus included) under the coefficients it expands from the tapped seed with its own AES-128
        // ---- what the aShare check opens are the bits of the SACRIFICED shares (the RHO surplus ones, tapped as `ashare_check_shares`), never a share that
        // is handed to the caller: the bits in the first `fashare ver` message of a party are exactly the tapped sacrificed bits, in order
        if run_i < 12 { for p in 0..n { let w = 1 + 2 * n;
            if let (Some(chk), Some(ver)) = (taps.iter().find(|t| t.0 == "ashare_check_shares" && t.1 == p).map(|t| t.2.clone()), run.payloads.iter().find(|(f, t, ph, _)| *f == p && *t == 1 - p && ph == "fashare ver").map(|q| de::<Vec<Vec<u8>>>(&q.3))) {
                let opened: Vec<bool> = ver.iter().map(|dm| dm.first().copied().unwrap_or(0) != 0).collect(); let sacrificed: Vec<bool> = (0..opened.len()).map(|rr| chk.get(rr * w).copied().unwrap_or(2) == 1).collect();
                if opened != sacrificed && failures.len() < 3 { failures.push(json!({"witness": "C06:ashare-opens-a-kept-share", "failure": format!("party {p}: the bits opened in its first `fashare ver` message are not the bits of the shares it sacrifices (differing positions: {:?}): a share that is handed on to the protocol had its bit published", (0..opened.len()).filter(|i| opened[*i] != sacrificed[*i]).take(6).collect::<Vec<_>>()), "case": {"run": run_i}})); } } } }
        if which == "C06" && run_i < 12 { for p in 0..n {
            let xs: Vec<&Vec<u128>> = taps.iter().filter(|t| t.0 == "abit_x" && t.1 == p).map(|t| &t.2).collect(); let seeds: Vec<u128> = taps.iter().filter(|t| t.0 == "abit_rseed" && t.1 == p).map(|t| t.2[0]).collect();
            let msgs: Vec<Vec<(bool, u128)>> = run.payloads.iter().filter(|(f, t, ph, _)| *f == p && *t == 1 - p && ph == "fabitn").map(|q| de(&q.3)).collect();
            for k in 0..xs.len().min(seeds.len()).min(msgs.len()).min(2) {
                let want = format!("abitcheck {}", msgs[k].iter().map(|e| if e.0 { '1' } else { '0' }).collect::<String>());
                let got = mdl.ask(&format!("abitcheck {} {} {}", hex(&seeds[k].to_le_bytes()), msgs[k].len(), xs[k].iter().map(|b| if *b != 0 { '1' } else { '0' }).collect::<String>()));
                abit_msgs += 1;
                if got != want {
                    // search for a concrete failure: are the broadcast combinations functions of the mask shares ALONE (the 3·RHO surplus bits that blind them left out)?
                    let l = xs[k].len().saturating_sub(msgs[k].len());
                    let unbl = mdl.ask(&format!("abitcheck {} {} {}", hex(&seeds[k].to_le_bytes()), msgs[k].len(), xs[k].iter().enumerate().map(|(idx, b)| if idx < l && *b != 0 { '1' } else { '0' }).collect::<String>()));   // surplus bits zeroed, same coefficient layout
                    if unbl == want { failures.push(json!({"property": "C06", "witness": "C06:abit-check-unblinded", "failure": format!("party {p}'s `fabitn` message (run {run_i}, call {k}) consists of {} public linear combinations of its first {l} bits only — the bits that become its mask shares; the {} surplus bits that are meant to blind them are not included, so every peer learns {} parities of the party's private mask shares", msgs[k].len(), msgs[k].len(), msgs[k].len())})); }
                    disagreements.push(json!({"what": "Boolean fields of a `fabitn` message differ from the model's combinations of the tapped bit string", "run": run_i, "party": p, "call": k, "bits_in_string": xs[k].len(), "real": want.chars().take(140).collect::<String>(), "model": got.chars().take(140).collect::<String>()})); } } } }
        // ---- every position of every drawn aBit string (per party and call): must be balanced over the runs
        { let mut call: BTreeMap<usize, usize> = BTreeMap::new();
          for (k, p, v) in taps.iter() { if k == "abit_x" { let ci = { let e = call.entry(*p).or_insert(0); *e += 1; *e - 1 }; if ci < 2 { let e = xpos.entry((*p, ci)).or_insert_with(|| (vec![0u64; 256], 0u64)); for (j, b) in v.iter().take(256).enumerate() { e.0[j] += *b as u64; } e.1 += 1; xlen.insert((*p, ci), v.len().min(256)); } } } }
        // ---- freshness: delta per party per run, mask vector per run
        for (k, p, v) in taps.iter() { if k == "delta" { if !deltas_seen.insert(v[0]) { failures.push(json!({"property": "C06", "witness": "C06:delta-reused", "failure": format!("global key of party {p} in run {run_i} was seen before")})); } }
            if k == "abit_x" && v.len() >= 64 { let key: Vec<u128> = v.iter().take(128).cloned().collect(); if !masks_seen.insert(key) { failures.push(json!({"property": "C06", "witness": "C06:mask-vector-reused", "failure": format!("aBit mask vector of party {p} in run {run_i} was seen before")})); } } }
        // ---- canary: no 128-bit run of plain input bits in party 0's traffic (LSB-first and MSB-first packing)
        let pack = |msb: bool| -> Vec<u8> { (0..16).map(|i| (0..8).fold(0u8, |acc, j| acc | ((canary[i * 8 + j] as u8) << if msb { 7 - j } else { j }))).collect() };
        let (p1, p2) = (pack(false), pack(true));
        for (f, _t, ph, d) in run.payloads.iter().filter(|p| p.0 == 0) { let _ = f; if d.windows(16).any(|w| w == &p1[..] || w == &p2[..]) { failures.push(json!({"property": "C06", "witness": "C06:plain-input-in-traffic", "failure": format!("128 plain input bits of party 0 found in a `{ph}` message")})); } }
        // ---- C07: the global key, or a 2-element XOR of aligned 128-bit fields, in what the party sends
        if which == "C07" || run_i < 10 { for p in 0..n { let d = taps.iter().find(|(k, q, _)| k == "delta" && *q == p).map(|t| t.2[0]).unwrap(); let (be, le) = (d.to_be_bytes(), d.to_le_bytes());
            let mut fields: Vec<u128> = vec![];
            for (_f, _t, ph, bytes) in run.payloads.iter().filter(|x| x.0 == p) { if bytes.windows(16).any(|w| w == &be[..] || w == &le[..]) { failures.push(json!({"property": "C07", "witness": "C07:delta-in-traffic", "failure": format!("party {p}'s global key appears in its `{ph}` message")})); }
                if fields.len() < 3000 { for off in [8usize, 9, 10] { for ch in bytes.get(off..).unwrap_or(&[]).chunks_exact(16).take(60) { fields.push(u128::from_le_bytes(ch.try_into().unwrap())); } } } }
            let set: std::collections::HashSet<u128> = fields.iter().cloned().collect(); let d_sw = u128::from_le_bytes(be);
            if fields.iter().any(|f| set.contains(&(f ^ d)) || set.contains(&(f ^ d_sw))) { failures.push(json!({"property": "C07", "witness": "C07:two-fields-xor-to-delta", "failure": format!("two 128-bit fields sent by party {p} XOR to its global key")})); } } }
        // ---- C04 challenge-after-data: predict the first KOS coefficient and the bucket permutation from coin-toss openings alone
        if which == "C04p" || run_i < 10 {
            let open01: Vec<u8> = run.payloads.iter().find(|(f, t, ph, _)| *f == 0 && *t == 1 && ph == "RNG ver").map(|p| de(&p.3)).unwrap();     // first `RNG ver` = pairwise toss
            let open10: Vec<u8> = run.payloads.iter().find(|(f, t, ph, _)| *f == 1 && *t == 0 && ph == "RNG ver").map(|p| de(&p.3)).unwrap();
            let seed2: [u8; 32] = std::array::from_fn(|i| open01[i] ^ open10[i]); let mut g = rand_chacha::ChaCha20Rng::from_seed(seed2); let mut chi = [0u8; 16]; g.fill_bytes(&mut chi);
            let chis: Vec<u128> = taps.iter().filter(|(k, _, _)| k == "kos_chi0_sender").map(|t| t.2[0]).collect();
            if chis.first() == Some(&u128::from_ne_bytes(chi)) { failures.push(json!({"property": "C04", "witness": "C04-a:challenge-predetermined", "failure": "the first KOS check coefficient equals the value computed from the coin-toss openings seen on the wire before any OT data was sent"})); }
            if chis.len() >= 4 && chis[0] == chis[2] { failures.push(json!({"property": "C04", "witness": "C04-b:chi-reused", "failure": "consecutive aBit calls of one pair use the same first KOS coefficient"})); }
            // multi-party toss: second `RNG ver` message pair
            let m01: Vec<u8> = run.payloads.iter().filter(|(f, t, ph, _)| *f == 0 && *t == 1 && ph == "RNG ver").nth(1).map(|p| de(&p.3)).unwrap(); let m10: Vec<u8> = run.payloads.iter().filter(|(f, t, ph, _)| *f == 1 && *t == 0 && ph == "RNG ver").nth(1).map(|p| de(&p.3)).unwrap();
            let seedn: [u8; 32] = std::array::from_fn(|i| m01[i] ^ m10[i]); let mut gm = rand_chacha::ChaCha20Rng::from_seed(seedn);
            let fabitn_calls_before_shuffle = 2; for _ in 0..fabitn_calls_before_shuffle { let mut b = [0u8; 16]; gm.fill_bytes(&mut b); }
            if let Some(perm) = taps.iter().find(|(k, _, _)| k == "bucket_perm").map(|t| t.2.clone()) { let mut idx: Vec<usize> = (0..perm.len()).collect(); idx.shuffle(&mut gm);
                if idx.iter().map(|x| *x as u128).collect::<Vec<_>>() == perm { failures.push(json!({"property": "C04", "witness": "C04-a:challenge-predetermined", "failure": "the aAND bucket permutation equals the one computed from the coin-toss openings before any triple was sent"})); } } }
        distinct.insert(format!("{run_i}")); if samples.len() < 2 { samples.push(json!({"run": run_i, "x": x, "combined_bit": combined, "taps": taps.iter().map(|t| format!("{}@{}:{}", t.0, t.1, t.2.len())).collect::<Vec<_>>()})); }
    }
    for x in 0..2 { let (nn, k) = (tot[x] as f64, ones[x] as f64); *dist.entry(format!("input{x}:ones={}/{}", ones[x], tot[x])).or_default() += 1;
        if (k - nn / 2.0).abs() > 3.0 * nn.sqrt() { failures.push(json!({"property": "C06", "witness": "C06:unbalanced-mask", "failure": format!("input {x}: revealed^others is 1 in {k} of {nn} runs (6 sigma bound {:.1})", 3.0 * nn.sqrt())})); } }
    if which == "C06" {
        let bad_w: Vec<String> = (0..129).filter(|w| { let (k, nn) = (share_ones[*w] as f64, share_tot[*w] as f64); nn >= 50.0 && (k - nn / 2.0).abs() > 3.0 * nn.sqrt() }).map(|w| format!("{w}:{}/{}", share_ones[w], share_tot[w])).collect();
        if !bad_w.is_empty() { failures.push(json!({"property": "C06", "witness": "C06:unbalanced-mask-wire", "failure": format!("the own mask share of {} of party 0's 129 input wires is not balanced over the runs (wire:ones/runs, 6 sigma): {}", bad_w.len(), bad_w.iter().take(8).cloned().collect::<Vec<_>>().join(" "))})); }
        for ((p, ci), (cnt, nn)) in &xpos { let nnf = *nn as f64; if nnf < 50.0 { continue; } let len = xlen[&(*p, *ci)];
            let bad: Vec<String> = (0..len).filter(|j| (cnt[*j] as f64 - nnf / 2.0).abs() > 3.0 * nnf.sqrt()).map(|j| format!("{j}:{}/{}", cnt[j], nn)).collect();
            *dist.entry("abit_positions_checked".into()).or_default() += len as u64;
            if !bad.is_empty() { failures.push(json!({"property": "C06", "witness": "C06:unbalanced-abit-position", "failure": format!("party {p}, aBit call {ci}: {} of {len} positions of the drawn bit string are not balanced over the runs (position:ones/runs): {}", bad.len(), bad.iter().take(8).cloned().collect::<Vec<_>>().join(" "))})); } } }
    // dedupe failures by witness+failure text
    let mut seen = std::collections::BTreeSet::new(); failures.retain(|f| seen.insert(f.to_string()));
    json!({"executions": execs, "distinct_nontrivial": distinct.len(), "distribution": dist, "samples": samples, "model_disagreements": disagreements, "abit_check_messages_compared": abit_msgs, "impl_vs_oracle_failures": failures})
}

/// C01 deep tie: every online-phase message of every party, and the plaintext of every garbled row, recomputed by the Lean model
/// from the tapped coins (delta, random shares, AND shares, labels) and compared byte for byte with what the real parties sent.
fn c01m(seed: u64, cases: usize, model_path: &str) -> serde_json::Value {
    use chacha20poly1305::{aead::{Aead, KeyInit}, ChaCha20Poly1305, Key, Nonce};
    use std::{cell::RefCell, rc::Rc};
    std::panic::set_hook(Box::new(|_| {}));
    let mut r = Rng::new(seed); let mut m = Model::spawn(model_path).expect("spawn ptmodel");
    let mut dist: BTreeMap<String, u64> = BTreeMap::new(); let mut distinct = std::collections::BTreeSet::new(); let mut disagreements = vec![]; let mut failures = vec![]; let mut samples = vec![]; let mut execs = 0u64; let mut compared = 0u64;
    let hexl = |v: &[u128]| if v.is_empty() { "-".to_string() } else { v.iter().map(|x| format!("{x:x}")).collect::<Vec<_>>().join(",") };
    for case in 0..cases {
        let n = r.range(2, 4) as usize; let g = r.range(1, 14) as usize; let a = r.below(g as u64 + 1) as usize; let (c, feat) = circ::generate(&mut r, n, g, a);
        let p_eval = r.below(n as u64) as usize; let mut p_out: Vec<usize> = (0..n).filter(|_| r.bool()).collect(); if p_out.is_empty() { p_out.push(r.below(n as u64) as usize); }
        let inputs: Vec<Vec<bool>> = c.input_regs.iter().map(|k| (0..*k).map(|_| r.bool()).collect()).collect();
        let args: Vec<PartyArgs> = (0..n).map(|p| PartyArgs { inputs: inputs[p].clone(), p_eval, p_own: p, p_out: p_out.clone(), tmp_dir: None }).collect();
        let taps: Rc<RefCell<Vec<(String, usize, Vec<u128>)>>> = Default::default(); let t2 = taps.clone();
        polytune::verif::set_sink(Some(Box::new(move |k, p, v| t2.borrow_mut().push((k.to_string(), p, v.to_vec())))));
        let run = exec::run(&c, &args, &RunCfg { cap: [1usize, 2, 1024][r.below(3) as usize], sched: Sched::Random(r.next()), keep_payloads: true }, None); execs += 1;
        polytune::verif::set_sink(None); let taps = taps.borrow();
        let desc = json!({"case": case, "n": n, "p_eval": p_eval, "p_out": p_out, "circuit": circ::to_line(&c), "inputs": inputs.iter().map(|v| circ::bits(v)).collect::<Vec<_>>()});
        if !run.outs.iter().all(|o| matches!(o, Out::Ok(_))) { failures.push(json!({"failure": "honest run failed", "outs": format!("{:?}", run.outs.iter().map(short).collect::<Vec<_>>()), "case": desc})); continue; }
        assert_eq!(m.ask(&circ::to_line(&c)), "ok"); assert_eq!(m.ask(&format!("tap reset {n}")), "ok");
        for p in 0..n {
            let get = |k: &str| -> Vec<u128> { taps.iter().filter(|t| t.0 == k && t.1 == p).flat_map(|t| t.2.clone()).collect() };
            m.ask(&format!("tap delta {p} {}", hexl(&get("delta")))); m.ask(&format!("tap rnd {p} {}", hexl(&get("random_shares")))); m.ask(&format!("tap ab {p} {}", hexl(&get("auth_bits"))));
            m.ask(&format!("tap inlab {p} {}", hexl(&get("input_label")))); m.ask(&format!("tap gatelab {p} {}", hexl(&get("gate_label")))); }
        let resp = m.ask(&format!("online peval={p_eval} pout={} inputs={}", p_out.iter().map(|x| x.to_string()).collect::<Vec<_>>().join(","), inputs.iter().map(|v| circ::bits(v)).collect::<Vec<_>>().join("|")));
        let resp2 = m.ask(&format!("online2 peval={p_eval} pout={} inputs={}", p_out.iter().map(|x| x.to_string()).collect::<Vec<_>>().join(","), inputs.iter().map(|v| circ::bits(v)).collect::<Vec<_>>().join("|")));
        if resp2 != resp { let (a, b): (Vec<&str>, Vec<&str>) = (resp.split_whitespace().skip(1).collect(), resp2.split_whitespace().skip(1).collect()); let i = (0..a.len().max(b.len())).find(|&i| a.get(i) != b.get(i)).unwrap_or(0);
            disagreements.push(json!({"what": "the proof model (step of C01_honest_correct) and the Array model disagree", "first_diff_token": [a.get(i).map(|x| x.chars().take(60).collect::<String>()), b.get(i).map(|x| x.chars().take(60).collect::<String>())], "case": desc.clone()})); }
        let find = |from: usize, to: usize, ph: &str, k: usize| run.payloads.iter().filter(|x| x.0 == from && x.1 == to && x.2 == ph).nth(k).map(|x| hex(&x.3));
        // all garbled gates sent by garbler p, in order
        let gates = |p: usize| -> Vec<[Vec<u8>; 4]> { run.payloads.iter().filter(|x| x.0 == p && x.1 == p_eval && x.2 == "preprocessed gates").flat_map(|x| de::<Vec<[Vec<u8>; 4]>>(&x.3)).collect() };
        let mut gate_idx: BTreeMap<(usize, usize), usize> = BTreeMap::new(); let mut per_garbler_w: BTreeMap<usize, Vec<usize>> = BTreeMap::new();
        let mut bad: Vec<String> = vec![];
        for tok in resp.split_whitespace().skip(1) { let f: Vec<&str> = tok.split(':').collect(); compared += 1;
            match f[0] {
                "ws" => { let (p, q) = (f[1].parse::<usize>().unwrap(), f[2].parse::<usize>().unwrap()); if find(p, q, "wire shares", 0).as_deref() != Some(f[3]) { bad.push(format!("wire shares {p}->{q}")); } }
                "mi" => { let p: usize = f[1].parse().unwrap(); for q in (0..n).filter(|q| *q != p) { if find(p, q, "masked inputs", 0).as_deref() != Some(f[2]) { bad.push(format!("masked inputs {p}->{q}")); } } }
                "lb" => { let p: usize = f[1].parse().unwrap(); if find(p, p_eval, "labels", 0).as_deref() != Some(f[2]) { bad.push(format!("labels {p}->{p_eval}")); } }
                "ow" => { let (p, q) = (f[1].parse::<usize>().unwrap(), f[2].parse::<usize>().unwrap()); if find(p, q, "output wire shares", 0).as_deref() != Some(f[3]) { bad.push(format!("output wire shares {p}->{q}")); } }
                "lm" => { let q: usize = f[1].parse().unwrap(); if find(p_eval, q, "lambda", 0).as_deref() != Some(f[2]) { bad.push(format!("lambda {p_eval}->{q}")); } }
                "row" => { let (p, w, i) = (f[1].parse::<usize>().unwrap(), f[2].parse::<usize>().unwrap(), f[3].parse::<usize>().unwrap());
                    let ws = per_garbler_w.entry(p).or_default(); if !ws.contains(&w) { ws.push(w); } let gi = ws.iter().position(|x| *x == w).unwrap(); gate_idx.insert((p, w), gi);
                    let (kx, ky) = (u128::from_str_radix(f[4], 16).unwrap(), u128::from_str_radix(f[5], 16).unwrap());
                    let mut key = [0u8; 32]; key[..16].copy_from_slice(&kx.to_be_bytes()); key[16..].copy_from_slice(&ky.to_be_bytes()); let mut nonce = [0u8; 12]; nonce[..8].copy_from_slice(&(w as u64).to_be_bytes()); nonce[8] = i as u8;
                    let gs = gates(p); match gs.get(gi) { None => bad.push(format!("garbler {p} sent no gate #{gi}")), Some(gate) => {
                        match ChaCha20Poly1305::new(Key::from_slice(&key)).decrypt(Nonce::from_slice(&nonce), gate[i].as_ref()) { Ok(pt) => if hex(&pt) != f[6] { bad.push(format!("row plaintext garbler {p} inst {w} row {i}")); }, Err(_) => bad.push(format!("row of garbler {p} inst {w} row {i} does not decrypt under the model's key")) } } } }
                "res" => { let p: usize = f[1].parse().unwrap(); if let Out::Ok(v) = &run.outs[p] { if circ::bits(v) != f[2] { bad.push(format!("result of party {p}")); } } }
                _ => {} } }
        *dist.entry(format!("n:{n}")).or_default() += 1; *dist.entry(format!("ands:{}", feat.ands.min(5))).or_default() += 1; distinct.insert((circ::to_line(&c), p_eval, p_out.clone()));
        if !bad.is_empty() { disagreements.push(json!({"differences": bad.iter().take(6).collect::<Vec<_>>(), "count": bad.len(), "case": desc})); }
        else if samples.len() < 2 { samples.push(json!({"case": desc, "tokens_compared": resp.split_whitespace().count() - 1})); }
    }
    json!({"executions": execs, "messages_and_rows_compared": compared, "distinct_nontrivial": distinct.len(), "distribution": dist, "samples": samples, "model_disagreements": disagreements, "impl_vs_oracle_failures": failures, "model_requests": m.requests})
}

/// C02/C03 deep tie: the honest output party's verdict on FORGED `output wire shares` / `lambda` bytes, real code vs the Lean
/// handler built from `openReg` (the function of `openReg_detect_or_extract`) and the Lean bincode decoder.
fn c03m(seed: u64, cases: usize, model_path: &str) -> serde_json::Value {
    use std::{cell::RefCell, rc::Rc};
    std::panic::set_hook(Box::new(|_| {}));
    let mut r = Rng::new(seed); let mut m = Model::spawn(model_path).expect("spawn ptmodel");
    let mut dist: BTreeMap<String, u64> = BTreeMap::new(); let mut distinct = std::collections::BTreeSet::new(); let mut disagreements = vec![]; let failures: Vec<serde_json::Value> = vec![]; let mut samples = vec![]; let mut execs = 0u64;
    let hexl = |v: &[u128]| if v.is_empty() { "-".to_string() } else { v.iter().map(|x| format!("{x:x}")).collect::<Vec<_>>().join(",") };
    for case in 0..cases {
        let n = r.range(2, 3) as usize; let g = r.range(1, 8) as usize; let a = r.below(g as u64 + 1) as usize; let (c, _f) = circ::generate(&mut r, n, g, a);
        let h = 0usize; let adv = 1usize; let adv_is_eval = r.bool(); let p_eval = if adv_is_eval { adv } else { if r.bool() { h } else { (n - 1).max(1) } };
        let p_out: Vec<usize> = (0..n).collect();
        let inputs: Vec<Vec<bool>> = c.input_regs.iter().map(|k| (0..*k).map(|_| r.bool()).collect()).collect();
        let args: Vec<PartyArgs> = (0..n).map(|p| PartyArgs { inputs: inputs[p].clone(), p_eval, p_own: p, p_out: p_out.clone(), tmp_dir: None }).collect();
        let uniq: Vec<u32> = { let mut u: Vec<u32> = c.output_regs.iter().map(|r| r.0).collect(); u.sort(); u.dedup(); u };
        let target_reg = uniq[r.below(uniq.len() as u64) as usize] as usize;
        let kinds: &[&str] = if adv_is_eval { &["share_bit", "share_bits_all", "share_bits_two", "share_mac", "share_missing", "lambda_value", "lambda_values_all", "lambda_label", "lambda_missing", "share_truncate", "none"] } else { &["share_bit", "share_bits_all", "share_bits_two", "share_mac", "share_missing", "share_extra_some", "share_truncate", "none"] };
        let second_reg = uniq[(uniq.iter().position(|x| *x as usize == target_reg).unwrap() + 1) % uniq.len()] as usize;
        let kind = kinds[r.below(kinds.len() as u64) as usize].to_string(); let k2 = kind.clone(); let flipbit = r.below(128);
        let got: Rc<RefCell<BTreeMap<String, Vec<u8>>>> = Default::default(); let g2 = got.clone();
        let mutator: exec::Mutator = Box::new(move |from, to, ph, _k, d| { if to != h || (ph != "output wire shares" && ph != "lambda") { return Some(d); }
            let mut d = d;
            if from == adv { if ph == "output wire shares" { let mut v: Vec<Option<(bool, u128)>> = de(&d);
                    match k2.as_str() { "share_bit" => { if let Some(e) = v[target_reg].as_mut() { e.0 = !e.0; } } "share_bits_all" => { for e in v.iter_mut().flatten() { e.0 = !e.0; } } "share_bits_two" => { for i in [target_reg, second_reg] { if let Some(e) = v[i].as_mut() { e.0 = !e.0; } } } "share_mac" => { if let Some(e) = v[target_reg].as_mut() { e.1 ^= 1u128 << flipbit; } } "share_missing" => v[target_reg] = None,
                        "share_extra_some" => { for e in v.iter_mut() { if e.is_none() { *e = Some((true, 7)); } } } "share_truncate" => { v.pop(); } _ => {} } d = ser(&v); }
                else { let mut v: Vec<Option<(bool, u128)>> = de(&d);
                    match k2.as_str() { "lambda_value" => { if let Some(e) = v[target_reg].as_mut() { e.0 = !e.0; } } "lambda_values_all" => { for e in v.iter_mut().flatten() { e.0 = !e.0; } } "lambda_label" => { if let Some(e) = v[target_reg].as_mut() { e.1 ^= 1u128 << flipbit; } } "lambda_missing" => v[target_reg] = None, _ => {} } d = ser(&v); } }
            g2.borrow_mut().insert(format!("{ph}/{from}"), d.clone()); Some(d) });
        let taps: Rc<RefCell<Vec<(String, usize, Vec<u128>)>>> = Default::default(); let t2 = taps.clone();
        polytune::verif::set_sink(Some(Box::new(move |k, p, v| t2.borrow_mut().push((k.to_string(), p, v.to_vec())))));
        let run = exec::run(&c, &args, &RunCfg { cap: 1, sched: Sched::RoundRobin, keep_payloads: false }, Some(mutator)); execs += 1;
        polytune::verif::set_sink(None); let taps = taps.borrow(); let got = got.borrow();
        assert_eq!(m.ask(&circ::to_line(&c)), "ok"); assert_eq!(m.ask(&format!("tap reset {n}")), "ok");
        for p in 0..n { let get = |k: &str| -> Vec<u128> { taps.iter().filter(|t| t.0 == k && t.1 == p).flat_map(|t| t.2.clone()).collect() };
            m.ask(&format!("tap delta {p} {}", hexl(&get("delta")))); m.ask(&format!("tap rnd {p} {}", hexl(&get("random_shares")))); m.ask(&format!("tap ab {p} {}", hexl(&get("auth_bits")))); m.ask(&format!("tap inlab {p} {}", hexl(&get("input_label")))); m.ask(&format!("tap gatelab {p} {}", hexl(&get("gate_label")))); }
        let mut req = format!("openout h={h} peval={p_eval} skip=0 inputs={}", inputs.iter().map(|v| circ::bits(v)).collect::<Vec<_>>().join("|"));
        for p in (0..n).filter(|p| *p != h) { if let Some(b) = got.get(&format!("output wire shares/{p}")) { req += &format!(" from{p}={}", hex(b)); } }
        if let Some(b) = got.get(&format!("lambda/{p_eval}")) { req += &format!(" lam={}", hex(b)); }
        let model = m.ask(&req);
        let real = match &run.outs[h] { Out::Ok(v) => format!("ok {}", circ::bits(v)), Out::Err(e) => { let k = if e.contains("InvalidOutputMac") { "InvalidOutputMac" } else if e.contains("InvalidOutputLabel") { "InvalidOutputLabel" } else if e.contains("MissingOutputShare") { "MissingOutputShare" } else if e.contains("ChannelError") { "channel" } else { "other" };
                let reg = e.rsplit("Reg(").next().filter(|_| e.contains("Reg(")).and_then(|x| x.split(')').next()).unwrap_or("0"); format!("err {k} {reg}") } o => short(o) };
        *dist.entry(format!("forgery:{kind}")).or_default() += 1; *dist.entry(format!("verdict:{}", real.split(' ').take(2).collect::<Vec<_>>().join(" "))).or_default() += 1; distinct.insert((circ::to_line(&c), kind.clone(), p_eval, target_reg));
        let desc = json!({"case": case, "n": n, "p_eval": p_eval, "forgery": kind, "target_reg": target_reg, "circuit": circ::to_line(&c)});
        if model != real { disagreements.push(json!({"real": real, "model": model, "case": desc})); } else if samples.len() < 3 { samples.push(json!({"case": desc, "verdict": real})); }
    }
    json!({"executions": execs, "distinct_nontrivial": distinct.len(), "distribution": dist, "samples": samples, "model_disagreements": disagreements, "impl_vs_oracle_failures": failures, "model_requests": m.requests})
}

/// C10 unit tie: the real `combine_two_leaky_ands` on random shares vs the Lean `combineX` / `combineZ` (the functions of `C10_bucket`).
fn c10u(seed: u64, cases: usize, model_path: &str) -> serde_json::Value {
    use polytune::verif as v;
    let mut r = Rng::new(seed); let mut m = Model::spawn(model_path).expect("spawn ptmodel"); let mut disagreements = vec![]; let mut samples = vec![]; let mut distinct = std::collections::BTreeSet::new();
    let r128 = |r: &mut Rng| ((r.next() as u128) << 64) | r.next() as u128;
    for case in 0..cases.max(50) { let n = r.range(2, 5) as usize; let i = r.below(n as u64) as usize; let d = r.bool();
        let mk = |r: &mut Rng| v::VShare { bit: r.bool(), macs: (0..n).map(|j| if j == i { 0 } else { r128(r) }).collect(), keys: (0..n).map(|j| if j == i { 0 } else { r128(r) }).collect() };
        let sh: Vec<v::VShare> = (0..6).map(|_| mk(&mut r)).collect();
        let real = v::combine_two(i, n, (sh[0].clone(), sh[1].clone(), sh[2].clone()), (sh[3].clone(), sh[4].clone(), sh[5].clone()), d).unwrap();
        let flat: Vec<String> = sh.iter().flat_map(|s| std::iter::once(format!("{:x}", s.bit as u8)).chain((0..n).flat_map(|j| [format!("{:x}", s.macs[j]), format!("{:x}", s.keys[j])]))).collect();
        let show = |s: &v::VShare| std::iter::once(format!("{}", s.bit as u8)).chain((0..n).flat_map(|j| [format!("{:x}", s.macs[j]), format!("{:x}", s.keys[j])])).collect::<Vec<_>>().join(",");
        let model = m.ask(&format!("combine {n} {i} {} {}", flat.join(","), d as u8)); let want = format!("combine {} {} {}", show(&real.0), show(&real.1), show(&real.2));
        distinct.insert((n, i, d, case)); if model != want { disagreements.push(json!({"case": case, "n": n, "party": i, "d": d, "real": want.chars().take(200).collect::<String>(), "model": model.chars().take(200).collect::<String>()})); } else if samples.len() < 2 { samples.push(json!({"n": n, "party": i, "d": d})); } }
    // whole buckets of EVERY size 1..=8 (the engine uses 5, 4 and 3; 4 and 3 need 3 100 resp. 280 000 triples per batch to be reached through `mpc`)
    let mut buckets = 0u64; let mut dist: BTreeMap<String, u64> = BTreeMap::new();
    for b in 1..=8usize { for rep in 0..12 { let n = r.range(2, 5) as usize; let i = r.below(n as u64) as usize;
        let mk = |r: &mut Rng| v::VShare { bit: r.bool(), macs: (0..n).map(|j| if j == i { 0 } else { r128(r) }).collect(), keys: (0..n).map(|j| if j == i { 0 } else { r128(r) }).collect() };
        let bucket: Vec<(v::VShare, v::VShare, v::VShare)> = (0..b).map(|_| (mk(&mut r), mk(&mut r), mk(&mut r))).collect(); let ds: Vec<bool> = (0..b - 1).map(|_| r.bool()).collect();
        let show = |s: &v::VShare| std::iter::once(format!("{}", s.bit as u8)).chain((0..n).flat_map(|j| [format!("{:x}", s.macs[j]), format!("{:x}", s.keys[j])])).collect::<Vec<_>>().join(",");
        let flat: Vec<String> = bucket.iter().flat_map(|t| [&t.0, &t.1, &t.2]).flat_map(|s| std::iter::once(format!("{:x}", s.bit as u8)).chain((0..n).flat_map(|j| [format!("{:x}", s.macs[j]), format!("{:x}", s.keys[j])]))).collect();
        let want = match v::combine_bucket(i, n, &bucket, ds.clone()) { Ok(real) => format!("combinebucket {} {} {}", show(&real.0), show(&real.1), show(&real.2)), Err(e) => format!("err {e}") };
        let model = m.ask(&format!("combinebucket {n} {b} {} {}", flat.join(","), if ds.is_empty() { "-".to_string() } else { circ::bits(&ds) }));
        buckets += 1; *dist.entry(format!("bucket_size:{b}")).or_default() += 1; distinct.insert((n, i, false, 1000 + b * 100 + rep));
        if model != want { disagreements.push(json!({"what": "combine_bucket: real vs Lean combineBucket", "bucket_size": b, "n": n, "party": i, "d": circ::bits(&ds), "real": want.chars().take(160).collect::<String>(), "model": model.chars().take(160).collect::<String>()})); } } }
    json!({"executions": cases.max(50) as u64 + buckets, "distinct_nontrivial": distinct.len(), "distribution": dist, "samples": samples, "model_disagreements": disagreements, "impl_vs_oracle_failures": []})
}

/// C07 tie: what party 0 reveals in the third aShare round (`fashare di_bi`) vs the Lean `openedD` (the function of
/// `C07_ashare_opening_independent` / `C07_cex_ashare_offset`), honest and with a peer that misreports its check bit.
fn c07m(seed: u64, cases: usize, model_path: &str) -> serde_json::Value {
    use polytune::garble_lang::register_circuit::*;
    use std::{cell::RefCell, rc::Rc};
    std::panic::set_hook(Box::new(|_| {}));
    let mut r = Rng::new(seed); let mut m = Model::spawn(model_path).expect("spawn ptmodel"); let mut disagreements = vec![]; let mut failures = vec![]; let mut samples = vec![]; let mut distinct = std::collections::BTreeSet::new(); let mut execs = 0u64; let mut compared = 0u64;
    for case in 0..cases { let n = r.range(2, 3) as usize; let lie = case % 3 != 0; let noncanon = case % 3 == 2;   // noncanon: the claimed bit is sent as the byte 2 or 3 (a value no honest party sends)
        let lie_positions: Vec<usize> = if lie { vec![r.below(40) as usize, r.below(40) as usize] } else { vec![] };
        let insts: Vec<Inst> = (0..n).map(|p| Inst { out: Reg(p as u32), op: Op::Input(Input { party: p as u32, input: 0 }) }).chain(std::iter::once(Inst { out: Reg(n as u32), op: Op::And(And(Reg(0), Reg(1))) })).collect();
        let c = Circuit { input_regs: vec![1; n], insts, max_reg_count: n + 1, output_regs: vec![Reg(n as u32)], and_ops: 1 };
        let args: Vec<PartyArgs> = (0..n).map(|p| PartyArgs { inputs: vec![r.bool()], p_eval: 0, p_own: p, p_out: vec![0], tmp_dir: None }).collect();
        let seen: Rc<RefCell<(BTreeMap<usize, Vec<Vec<u8>>>, Vec<u128>)>> = Default::default(); let s2 = seen.clone(); let lp = lie_positions.clone();
        let mutator: exec::Mutator = Box::new(move |from, to, ph, k, d| { if k != 0 { return Some(d); }
            if to == 0 && ph == "fashare ver" { let mut v: Vec<Vec<u8>> = de(&d); if from == 1 { for &rr in &lp { if noncanon { v[rr][0] |= 2; } else { v[rr][0] ^= 1; } } } s2.borrow_mut().0.insert(from, v.clone()); return Some(ser(&v)); }
            if from == 0 && to == 1 && ph == "fashare di_bi" { s2.borrow_mut().1 = de(&d); } Some(d) });
        let taps: Rc<RefCell<Vec<(String, usize, Vec<u128>)>>> = Default::default(); let t2 = taps.clone();
        polytune::verif::set_sink(Some(Box::new(move |k, p, v| t2.borrow_mut().push((k.to_string(), p, v.to_vec())))));
        let _run = exec::run(&c, &args, &RunCfg { cap: 1, sched: Sched::RoundRobin, keep_payloads: false }, Some(mutator)); execs += 1; polytune::verif::set_sink(None);
        let taps = taps.borrow(); let seen = seen.borrow();
        let delta0 = taps.iter().find(|t| t.0 == "delta" && t.1 == 0).map(|t| t.2[0]).unwrap();
        let chk: Vec<u128> = taps.iter().find(|t| t.0 == "ashare_check_shares" && t.1 == 0).map(|t| t.2.clone()).unwrap();      // first fashare call
        let w = 1 + 2 * n; distinct.insert((n, lie, case));
        if seen.1.len() != 40 { continue; }   // the lie was caught before the opening (n >= 3: echo broadcast) - nothing to compare
        let mut leaked = vec![];
        for rr in 0..40 { let keys: Vec<String> = (0..n).map(|k| format!("{:x}", chk[rr * w + 2 + 2 * k])).collect(); let claimed: String = (0..n).map(|k| if k == 0 { '0' } else if seen.0[&k][rr][0] != 0 { '1' } else { '0' }).collect();
            let model = m.ask(&format!("opened {delta0:x} {} {claimed}", keys.join(","))); compared += 1;
            if model != format!("opened {:x}", seen.1[rr]) { disagreements.push(json!({"position": rr, "real": format!("{:x}", seen.1[rr]), "model": model, "lie": lie, "n": n})); break; }
            // what the peers can compute: XOR of the MACs they hold on their TRUE bits = truthful opening; opened ^ that = 0 or delta
            if lie && lie_positions.contains(&rr) && n == 2 { let mac_on_wire = u128::from_be_bytes(seen.0[&1][rr][1..17].try_into().unwrap()); leaked.push(seen.1[rr] ^ mac_on_wire == delta0); } }
        if lie && noncanon && n == 2 && leaked.iter().any(|x| *x) { failures.push(json!({"property": "C07", "witness": "C07:ashare-noncanonical-bit-leak", "failure": "a check bit sent as the byte 2/3 is read one way by the verification and another way by the choice of the opening: opened XOR the MAC the peer holds equals the honest party's global key (tap)", "positions": lie_positions})); }
        else if lie && n == 2 && !leaked.is_empty() && leaked.iter().all(|x| *x) { failures.push(json!({"property": "C07", "witness": "C07-a:ashare-check-bit-lie", "failure": "a misreported aShare check bit makes the honest party open d0^delta: opened XOR the MAC the peer holds equals the honest party's global key (tap)", "positions": lie_positions})); }
        if samples.len() < 2 { samples.push(json!({"n": n, "lie": lie, "positions_compared": 40})); }
    }
    // ---- the same lie by a RE-COMMITTING rushing peer (two parties; see the C04 driver): it lies about an `e` bit and, whenever a message of the commit-open rounds of the leaky-AND check
    // is delivered, uses every check value of the other party that has been SENT by then: it presents that value as its own, under a fresh commitment
    // with its own id. In the protocol as written the values are sent only after all commitments have been delivered, so the peer's commitment is to
    // its own (different) value and its opening is refused; a round that reveals a value before the peer's commitment has arrived binds nobody.
    // Message formats are recognised by element size (32: commitments, 16: values, 48: both together).
    // second variant (`void`): instead of re-committing, the peer VOIDS the commitments of the round (every digest shrunk to zero length, the element count kept)
    // in both directions and echoes the opened values: a commitment check that compares only as many bytes as it was given binds nobody.
    for void in [false, true] { for victim in [0usize, 1] { let n = 2usize; let adv = 1 - victim;
        let insts: Vec<Inst> = (0..n).map(|p| Inst { out: Reg(p as u32), op: Op::Input(Input { party: p as u32, input: 0 }) }).chain(std::iter::once(Inst { out: Reg(n as u32), op: Op::And(And(Reg(0), Reg(1))) })).collect();
        let c = Circuit { input_regs: vec![1; n], insts, max_reg_count: n + 1, output_regs: vec![Reg(n as u32)], and_ops: 1 };
        let args: Vec<PartyArgs> = (0..n).map(|p| PartyArgs { inputs: vec![r.bool()], p_eval: 0, p_own: p, p_out: (0..n).collect(), tmp_dir: None }).collect();
        let hs: std::rc::Rc<std::cell::RefCell<std::collections::HashMap<usize, Vec<u128>>>> = Default::default(); let (hs1, hs2) = (hs.clone(), hs.clone());
        let lied = std::rc::Rc::new(std::cell::Cell::new(false)); let l2 = lied.clone(); let used = std::rc::Rc::new(std::cell::Cell::new(0u32)); let u2 = used.clone();
        fn values_of(d: &[u8]) -> Option<Vec<u128>> { if d.len() < 8 { return None; } let k = u64::from_le_bytes(d[..8].try_into().unwrap()) as usize; if k == 0 || (d.len() - 8) % k != 0 { return None; }
            match (d.len() - 8) / k { 16 => Some((0..k).map(|i| u128::from_le_bytes(d[8 + 16 * i..24 + 16 * i].try_into().unwrap())).collect()), 48 => Some((0..k).map(|i| u128::from_le_bytes(d[8 + 48 * i + 32..8 + 48 * i + 48].try_into().unwrap())).collect()), _ => None } }
        let m: exec::Mutator = Box::new(move |from, to, p, k, mut d| { if k != 0 { return Some(d); }
            if p.starts_with("flaand ") { if let Some(v) = values_of(&d) { hs1.borrow_mut().entry(from).or_insert(v); } return Some(d); }
            if from == adv && to == victim && p == "flaand" && d.len() > 8 && d[8] <= 1 { d[8] ^= 1; l2.set(true); }
            Some(d) });
        let seen: std::rc::Rc<std::cell::RefCell<std::collections::HashSet<(usize, String)>>> = Default::default();
        exec::set_recv_rewrite(Some(Box::new(move |at, from, p, d| { if !p.starts_with("flaand ") || d.len() < 8 || !seen.borrow_mut().insert((at, p.to_string())) { return d; }
            // both copies of the code are served the same way (the peer's own copy would otherwise notice its own lie and stop)
            if void { let k = u64::from_le_bytes(d[..8].try_into().unwrap()) as usize; if k > 0 && (d.len() - 8) % k == 0 { match (d.len() - 8) / k { 32 => { return (k as u64).to_le_bytes().to_vec(); } 40 => { let mut v = (k as u64).to_le_bytes().to_vec(); v.extend(std::iter::repeat(0u8).take(8 * k)); return v; } _ => {} } } }
            let Some(h) = hs2.borrow().get(&at).cloned() else { return d; };
            let k = u64::from_le_bytes(d[..8].try_into().unwrap()) as usize; if k != h.len() { return d; }
            let commit = |x: u128| -> [u8; 32] { let mut b = x.to_be_bytes().to_vec(); b.extend((from as u16).to_be_bytes()); *blake3::hash(&b).as_bytes() };
            if at == victim { u2.set(u2.get() + 1); }
            match (d.len() - 8) / k { 32 if void => (k as u64).to_le_bytes().to_vec(), 40 if void => { let mut v = (k as u64).to_le_bytes().to_vec(); v.extend(std::iter::repeat(0u8).take(8 * k)); v }
                32 => ser(&h.iter().map(|x| commit(*x)).collect::<Vec<_>>()), 16 => ser(&h), 48 => ser(&h.iter().map(|x| (commit(*x), *x)).collect::<Vec<_>>()), _ => d } })));
        let run = exec::run(&c, &args, &RunCfg { cap: 1024, sched: Sched::RoundRobin, keep_payloads: false }, Some(m)); execs += 1; exec::set_recv_rewrite(None);
        if !lied.get() || (used.get() == 0 && !void) { continue; }
        let o = &run.outs[victim]; distinct.insert((n, void, 100 + victim));
        let pre_err = match o { Out::Err(e) => e.contains("XorNotZero") || e.contains("CommitmentCouldNotBeOpened") || (void && e.contains("flaand comm")), _ => false };
        if !pre_err { failures.push(json!({"property": "C07", "witness": "C07:laand-e-lie-leak-undetected", "failure": format!("a rushing peer lied about an e bit and presented the victim's own check value under a fresh commitment: the victim raised no error of its own although the value it opened, XORed with the peer's, is its global key: {}", short(o)), "victim": victim})); }
    } }
    // ---- leaky-AND: a peer lies about its (unauthenticated) `e` bits in `flaand`; the victim then opens its check value H in `flaand hash`.
    // Pooling what the victim sent with what the peer holds: does H_victim[j] ^ H_peer[j] equal the victim's global key?
    for (lie, positions) in [("one-e-bit", vec![0usize]), ("two-e-bits-one-bucket", vec![0usize, 1]), ("none", vec![])] { for rep in 0..2 {
        let n = 2usize; let (lvictim, ladv) = if rep == 0 { (0usize, 1usize) } else { (1, 0) };      // the victim has the lowest / the highest index
        let insts: Vec<Inst> = (0..n).map(|p| Inst { out: Reg(p as u32), op: Op::Input(Input { party: p as u32, input: 0 }) }).chain(std::iter::once(Inst { out: Reg(n as u32), op: Op::And(And(Reg(0), Reg(1))) })).collect();
        let c = Circuit { input_regs: vec![1; n], insts, max_reg_count: n + 1, output_regs: vec![Reg(n as u32)], and_ops: 1 };
        let args: Vec<PartyArgs> = (0..n).map(|p| PartyArgs { inputs: vec![r.bool()], p_eval: 0, p_own: p, p_out: vec![0, 1], tmp_dir: None }).collect();
        let pos2 = positions.clone();
        let mutator: exec::Mutator = Box::new(move |from, to, ph, k, d| { if from == ladv && to == lvictim && ph == "flaand" && k == 0 { let mut v: Vec<(bool, u128)> = de(&d); for &j in &pos2 { if j < v.len() { v[j].0 = !v[j].0; } } return Some(ser(&v)); } Some(d) });
        let taps: Rc<RefCell<Vec<(String, usize, Vec<u128>)>>> = Default::default(); let t2 = taps.clone();
        polytune::verif::set_sink(Some(Box::new(move |k, p, v| if k == "delta" { t2.borrow_mut().push((k.to_string(), p, v.to_vec())) })));
        let run = exec::run(&c, &args, &RunCfg { cap: 1, sched: Sched::RoundRobin, keep_payloads: true }, Some(mutator)); execs += 1;
        polytune::verif::set_sink(None);
        let delta0 = taps.borrow().iter().find(|t| t.1 == lvictim).map(|t| t.2[0]).unwrap_or(0);
        let h = |from: usize, to: usize| -> Vec<u128> { run.payloads.iter().find(|(f, t, ph, _)| *f == from && *t == to && ph == "flaand hash").map(|p| de(&p.3)).unwrap_or_default() };
        let (h0, h1) = (h(lvictim, ladv), h(ladv, lvictim)); distinct.insert((n, lie == "none", lie.len() + rep));
        let leaked: Vec<usize> = (0..h0.len().min(h1.len())).filter(|j| delta0 != 0 && h0[*j] ^ h1[*j] == delta0).collect();
        // "noticed" = the victim itself raised the error of the leaky-AND check (a closed channel, left behind by the peer's own copy of the code, is not its detection)
        let victim_ok = !matches!(&run.outs[lvictim], Out::Err(e) if e.contains("XorNotZero") || e.contains("CommitmentCouldNotBeOpened"));
        if !leaked.is_empty() { failures.push(json!({"property": "C07", "witness": if victim_ok { "C07:laand-e-lie-leak-undetected" } else { "C07-b:laand-e-lie-leaks-on-abort" },
            "failure": format!("a peer lies about its e bits in `flaand` ({lie}): the check value the honest party opens in `flaand hash`, XORed with the peer's own, is the honest party's global key at positions {leaked:?}; the honest party (index {lvictim}) {}", if victim_ok { "does not notice (it raises no error of its own)" } else { "aborts, but only after having sent it" }), "victim": short(&run.outs[lvictim])})); }
    } }
    let mut seenw = std::collections::BTreeSet::new(); failures.retain(|f| seenw.insert(f["witness"].to_string() + &f["failure"].to_string()));
    json!({"executions": execs, "openings_compared": compared, "distinct_nontrivial": distinct.len(), "distribution": {}, "samples": samples, "model_disagreements": disagreements, "impl_vs_oracle_failures": failures, "model_requests": m.requests})
}

/// C10 message-level tie: `dvalue` and `faand` (Beaver) messages and the final authenticated AND shares, recomputed by the Lean
/// `combineBucket` / `beaverOut` (the functions of C10_bucket / C10_beaver) from tapped leaky triples, permutation and wanted inputs.
fn c10m(seed: u64, cases: usize, model_path: &str) -> serde_json::Value {
    use std::{cell::RefCell, rc::Rc};
    std::panic::set_hook(Box::new(|_| {}));
    let mut r = Rng::new(seed); let mut m = Model::spawn(model_path).expect("spawn ptmodel"); let mut disagreements = vec![]; let mut failures = vec![]; let mut samples = vec![]; let mut distinct = std::collections::BTreeSet::new(); let mut execs = 0u64; let mut compared = 0u64;
    let hexl = |v: &[u128]| if v.is_empty() { "-".to_string() } else { v.iter().map(|x| format!("{x:x}")).collect::<Vec<_>>().join(",") };
    for case in 0..cases { let n = r.range(2, 3) as usize; let g = r.range(2, 10) as usize; let a = r.range(1, g as u64) as usize; let (c, feat) = circ::generate(&mut r, n, g, a); if feat.ands == 0 { continue; }
        let inputs: Vec<Vec<bool>> = c.input_regs.iter().map(|k| (0..*k).map(|_| r.bool()).collect()).collect();
        let args: Vec<PartyArgs> = (0..n).map(|p| PartyArgs { inputs: inputs[p].clone(), p_eval: 0, p_own: p, p_out: vec![0], tmp_dir: None }).collect();
        let taps: Rc<RefCell<Vec<(String, usize, Vec<u128>)>>> = Default::default(); let t2 = taps.clone();
        polytune::verif::set_sink(Some(Box::new(move |k, p, v| t2.borrow_mut().push((k.to_string(), p, v.to_vec())))));
        let run = exec::run(&c, &args, &RunCfg { cap: 1, sched: Sched::Random(r.next()), keep_payloads: true }, None); execs += 1; polytune::verif::set_sink(None); let taps = taps.borrow();
        if !run.outs.iter().all(|o| matches!(o, Out::Ok(_))) { failures.push(json!({"failure": "honest run failed"})); continue; }
        let l = feat.ands; let b = polytune::verif::bucket_size(l); let get = |k: &str, p: usize| -> Vec<u128> { taps.iter().find(|t| t.0 == k && t.1 == p).map(|t| t.2.clone()).unwrap_or_default() };
        let mut req = format!("triples n={n} l={l} b={b} perm={}", hexl(&get("bucket_perm", 0)));
        for p in 0..n { req += &format!(" xyz{p}={} z{p}={} ab{p}={}", hexl(&get("beaver_abc", p)), hexl(&get("laand_z", p)), hexl(&get("beaver_ab", p))); }
        let resp = m.ask(&req); let mut bad = vec![];
        for tok in resp.split_whitespace().skip(1) { let f: Vec<&str> = tok.split(':').collect(); compared += 1;
            match f[0] { "dv" | "bv" => { let (p, k) = (f[1].parse::<usize>().unwrap(), f[2].parse::<usize>().unwrap()); let ph = if f[0] == "dv" { "dvalue" } else { "faand" };
                    if run.payloads.iter().find(|x| x.0 == p && x.1 == k && x.2 == ph).map(|x| hex(&x.3)).as_deref() != Some(f[3]) { bad.push(format!("{ph} {p}->{k}")); } }
                "and" => { let p: usize = f[1].parse().unwrap(); let real = get("auth_bits", p); if hexl(&real) != f[2] { bad.push(format!("final AND shares of party {p}")); } }
                _ => {} } }
        distinct.insert((circ::to_line(&c), n)); 
        if !bad.is_empty() || !resp.starts_with("triples ") { disagreements.push(json!({"differences": bad, "n": n, "ands": l, "bucket": b, "resp_head": resp.chars().take(60).collect::<String>()})); } else if samples.len() < 2 { samples.push(json!({"n": n, "ands": l, "bucket": b, "tokens": resp.split_whitespace().count() - 1})); }
    }
    json!({"executions": execs, "messages_and_share_vectors_compared": compared, "distinct_nontrivial": distinct.len(), "distribution": {}, "samples": samples, "model_disagreements": disagreements, "impl_vs_oracle_failures": failures, "model_requests": m.requests})
}

/// C10 leaky-AND tie: the `haand`, `flaand`, `flaand comm`, `flaand hash` messages and the leaky z shares of every party, computed by the
/// Lean model (own BLAKE3) from the tapped x/y/r shares, global keys and HaAND pads, equal the bytes on the wire and the tapped z shares.
fn c10l(seed: u64, cases: usize, model_path: &str) -> serde_json::Value {
    use std::{cell::RefCell, rc::Rc};
    std::panic::set_hook(Box::new(|_| {}));
    let mut r = Rng::new(seed); let mut m = Model::spawn(model_path).expect("spawn ptmodel"); let mut disagreements = vec![]; let mut failures = vec![]; let mut samples = vec![]; let mut distinct = std::collections::BTreeSet::new(); let mut execs = 0u64; let mut compared = 0u64;
    let hexl = |v: &[u128]| if v.is_empty() { "-".to_string() } else { v.iter().map(|x| format!("{x:x}")).collect::<Vec<_>>().join(",") };
    let (mut pad_total, mut pad_equal) = (0u64, 0u64); let mut cross_total = 0u64;
    for _case in 0..cases { let n = r.range(2, 3) as usize; let g = r.range(2, 6) as usize; let a = r.range(1, 3.min(g as u64)) as usize; let (c, feat) = circ::generate(&mut r, n, g, a); if feat.ands == 0 { continue; }
        let inputs: Vec<Vec<bool>> = c.input_regs.iter().map(|k| (0..*k).map(|_| r.bool()).collect()).collect();
        let args: Vec<PartyArgs> = (0..n).map(|p| PartyArgs { inputs: inputs[p].clone(), p_eval: 0, p_own: p, p_out: vec![0], tmp_dir: None }).collect();
        let taps: Rc<RefCell<Vec<(String, usize, Vec<u128>)>>> = Default::default(); let t2 = taps.clone();
        polytune::verif::set_sink(Some(Box::new(move |k, p, v| t2.borrow_mut().push((k.to_string(), p, v.to_vec())))));
        let run = exec::run(&c, &args, &RunCfg { cap: 1, sched: Sched::Random(r.next()), keep_payloads: true }, None); execs += 1; polytune::verif::set_sink(None); let taps = taps.borrow();
        if !run.outs.iter().all(|o| matches!(o, Out::Ok(_))) { failures.push(json!({"failure": "honest run failed"})); continue; }
        let l = feat.ands; let b = polytune::verif::bucket_size(l); let lp = l * b; let get = |k: &str, p: usize| -> Vec<u128> { taps.iter().find(|t| t.0 == k && t.1 == p).map(|t| t.2.clone()).unwrap_or_default() };
        let deltas: Vec<u128> = (0..n).map(|p| get("delta", p)[0]).collect();
        // C06 (three parties and more): the blinding bits of the half-AND messages must be drawn per RECEIVER; if the pads a party uses for two
        // receivers coincide at every position, the two receivers can pool their messages and read the party's private y bits
        if n >= 3 { for p in 0..n { let pads: Vec<&Vec<u128>> = taps.iter().filter(|t| t.0 == "haand_s" && t.1 == p).map(|t| &t.2).collect();
            for a in 0..pads.len() { for b in a + 1..pads.len() { if pads[a][0] != pads[b][0] { let k = pads[a].len().min(pads[b].len());
                pad_total += (k - 1) as u64; pad_equal += (1..k).filter(|i| pads[a][*i] == pads[b][*i]).count() as u64; } } } } }
        // C06 (three parties and more): what a party holds towards two DIFFERENT peers must be independent. If its OT sessions with two peers share their
        // local randomness, its MACs under the two peers' keys coincide and the peers' keys for its bit coincide exactly when the bit is 0: pooling
        // their keys the two peers read the party's mask shares. (Honest collisions have probability 2^-128 per position.)
        if n >= 3 { let w = 1 + 2 * n; let fl: Vec<Vec<u128>> = (0..n).map(|p| get("beaver_abc", p)).collect(); let cnt = fl[0].len() / w;
            'outer: for i in 0..n { for a in 0..n { for b in a + 1..n { if a == i || b == i { continue; }
                let mac_eq = (0..cnt).filter(|k| fl[i][k * w + 1 + 2 * a] == fl[i][k * w + 1 + 2 * b]).count(); let key_eq = (0..cnt).filter(|k| fl[a].get(k * w + 2 + 2 * i) == fl[b].get(k * w + 2 + 2 * i)).count();
                cross_total += cnt as u64;
                if mac_eq + key_eq > 0 { failures.push(json!({"property": "C06", "witness": "C06:cross-peer-collision", "failure": format!("party {i}: of {cnt} authenticated shares, its MACs under the keys of peers {a} and {b} are equal at {mac_eq} positions and the two peers' keys for its bit are equal at {key_eq} positions (the peers can tell its bit from whether their keys agree)"), "case": json!({"n": n, "circuit": circ::to_line(&c)})})); break 'outer; } } } } }
        let mut req = format!("laand n={n} lp={lp} delta={}", hexl(&deltas));
        for p in 0..n { req += &format!(" xyz{p}={}", hexl(&get("beaver_abc", p)));
            for t in taps.iter().filter(|t| t.0 == "haand_s" && t.1 == p) { req += &format!(" s{p}_{}={}", t.2[0], t.2[1..].iter().map(|x| if *x != 0 { '1' } else { '0' }).collect::<String>()); } }
        let resp = m.ask(&req); let mut bad = vec![];
        for tok in resp.split_whitespace().skip(1) { let f: Vec<&str> = tok.split(':').collect(); compared += 1;
            match f[0] { "ha" | "fl" | "cm" | "hs" => { let (p, k) = (f[1].parse::<usize>().unwrap(), f[2].parse::<usize>().unwrap()); let ph = match f[0] { "ha" => "haand", "fl" => "flaand", "cm" => "flaand comm", _ => "flaand hash" };
                    if run.payloads.iter().find(|x| x.0 == p && x.1 == k && x.2 == ph).map(|x| hex(&x.3)).as_deref() != Some(f[3]) { bad.push(format!("{ph} {p}->{k}")); } }
                "z" => { let p: usize = f[1].parse().unwrap(); if hexl(&get("laand_z", p)) != f[2] { bad.push(format!("leaky z shares of party {p}")); } }
                "xorh" => { if f[1] != "0" { bad.push("xor of all H_i is not zero in the model".to_string()); } }
                _ => {} } }
        distinct.insert((circ::to_line(&c), n));
        if !bad.is_empty() || !resp.starts_with("laand ") { disagreements.push(json!({"differences": bad, "n": n, "leaky_triples": lp, "resp_head": resp.chars().take(60).collect::<String>()})); } else if samples.len() < 2 { samples.push(json!({"n": n, "leaky_triples": lp, "tokens": resp.split_whitespace().count() - 1})); }
    }
    if pad_total >= 64 && pad_equal == pad_total { failures.push(json!({"property": "C06", "witness": "C06:haand-pads-shared", "failure": format!("the half-AND blinding bits a party used for two different receivers were equal at all {pad_total} compared positions: two receivers together can unblind the party's private bits")})); }
    let mut dist: BTreeMap<String, u64> = BTreeMap::new(); dist.insert("haand_pad_positions_compared_across_receivers".into(), pad_total); dist.insert("haand_pad_positions_equal".into(), pad_equal); dist.insert("cross_peer_share_positions_compared".into(), cross_total);
    json!({"executions": execs, "messages_and_share_vectors_compared": compared, "distinct_nontrivial": distinct.len(), "distribution": dist, "samples": samples, "model_disagreements": disagreements, "impl_vs_oracle_failures": failures, "model_requests": m.requests})
}

/// C10d — the trusted-dealer provider: `n` parties run `mpc` with `Preprocessor::TrustedDealer(n)`, party `n` runs `fpre` (hooks `mpc_with_dealer`,
/// `fpre_dealer`). Everything the dealer hands out is decoded from the wire: every random share and every AND share must satisfy the
/// authenticated-share relation for every ordered pair, the AND shares must share (⊕a)∧(⊕b) of the requested pairs, the macs must be what the
/// Lean `dealerShare` computes from the decoded bits, keys and deltas, and the computation's outputs are the clear-text result.
struct SendCh<'a>(&'a exec::Ch);
unsafe impl Send for SendCh<'_> {}
unsafe impl Sync for SendCh<'_> {}
impl polytune::channel::Channel for SendCh<'_> {
    type SendError = exec::Closed; type RecvError = exec::Closed;
    async fn send_bytes_to(&self, p: usize, d: Vec<u8>, ph: &str) -> Result<(), exec::Closed> { self.0.send_bytes_to(p, d, ph).await }
    async fn recv_bytes_from(&self, p: usize, ph: &str) -> Result<Vec<u8>, exec::Closed> { self.0.recv_bytes_from(p, ph).await }
}
fn dec_share(d: &[u8], pos: &mut usize) -> Option<(bool, Vec<(u128, u128)>)> {
    let bit = *d.get(*pos)? != 0; *pos += 1; let m = u64::from_le_bytes(d.get(*pos..*pos + 8)?.try_into().ok()?) as usize; *pos += 8; let mut v = vec![];
    for _ in 0..m { let a = u128::from_le_bytes(d.get(*pos..*pos + 16)?.try_into().ok()?); let b = u128::from_le_bytes(d.get(*pos + 16..*pos + 32)?.try_into().ok()?); *pos += 32; v.push((a, b)); }
    Some((bit, v))
}
fn dec_shares(d: &[u8], pairs: bool) -> Option<Vec<Vec<(bool, Vec<(u128, u128)>)>>> {
    let k = u64::from_le_bytes(d.get(..8)?.try_into().ok()?) as usize; let mut pos = 8; let mut out = vec![];
    for _ in 0..k { let mut e = vec![dec_share(d, &mut pos)?]; if pairs { e.push(dec_share(d, &mut pos)?); } out.push(e); }
    if pos == d.len() { Some(out) } else { None }
}
fn c10d(seed: u64, cases: usize, model_path: &str) -> serde_json::Value {
    use polytune::verif as v;
    std::panic::set_hook(Box::new(|_| {}));
    let mut r = Rng::new(seed); let mut m = Model::spawn(model_path).expect("spawn ptmodel");
    let mut dist: BTreeMap<String, u64> = BTreeMap::new(); let mut distinct = std::collections::BTreeSet::new(); let mut failures = vec![]; let mut disagreements = vec![]; let mut samples = vec![]; let mut execs = 0u64; let mut shares_checked = 0u64;
    for case in 0..cases {
        let n = match case % 4 { 0 => 2, 1 => 3, 2 => 2, _ => r.range(3, 5) as usize };
        let (c, feat) = if case % 7 == 6 { let a = 40 + r.below(30) as usize; (circ::and_chain(n, a), circ::Features { ands: a, ..Default::default() }) } else { let g = r.range(1, 14) as usize; let a = r.below(g as u64 + 1) as usize; circ::generate(&mut r, n, g, a) };
        let p_eval = r.below(n as u64) as usize; let mut p_out: Vec<usize> = (0..n).filter(|_| r.bool()).collect(); if p_out.is_empty() { p_out.push(r.below(n as u64) as usize); }
        let inputs: Vec<Vec<bool>> = c.input_regs.iter().map(|k| (0..*k).map(|_| r.bool()).collect()).collect();
        let (net, chs) = exec::new_net(n + 1, [1usize, 2, 1024][r.below(3) as usize]); net.borrow_mut().payloads = Some(vec![]);
        let sc: Vec<SendCh> = chs.iter().map(SendCh).collect();
        let futs: Vec<std::pin::Pin<Box<dyn std::future::Future<Output = Result<Vec<bool>, String>>>>> = (0..=n).map(|i| { let (ch, c, inputs, p_out) = (&sc[i], &c, &inputs, &p_out);
            Box::pin(async move { if i == n { v::fpre_dealer(ch, n).await.map(|_| vec![]) } else { v::mpc_with_dealer(ch.0, c, &inputs[i], n, p_eval, i, p_out).await.map_err(|e| format!("{e:?}")) } }) as std::pin::Pin<Box<dyn std::future::Future<Output = _>>> }).collect();
        let outs = exec::poll_all(futs, &net); execs += 1; drop(sc);
        let payloads = net.borrow_mut().payloads.take().unwrap_or_default();
        let oracle = c.eval(&inputs);
        let desc = json!({"case": case, "n": n, "dealer": n, "p_eval": p_eval, "p_out": p_out, "circuit": circ::to_line(&c), "inputs": inputs.iter().map(|x| circ::bits(x)).collect::<Vec<_>>()});
        *dist.entry(format!("n:{n}")).or_default() += 1; *dist.entry(format!("ands:{}", match feat.ands { 0 => "0", 1..=9 => "1-9", _ => ">=10" })).or_default() += 1; distinct.insert((circ::to_line(&c), p_eval, p_out.clone()));
        let mut bad: Vec<String> = vec![];
        for p in 0..n { let want = if p_out.contains(&p) { oracle.clone() } else { vec![] }; match &outs[p] { Some(Ok(o)) if *o == want => {}, other => bad.push(format!("party {p}: got {}, want Ok({})", format!("{other:?}").chars().take(120).collect::<String>(), circ::bits(&want))) } }
        // a circuit without AND gates: the parties never ask for AND shares (`num_and_ops == 0` returns early), the dealer waits for the request until the parties
        // have gone - its error then says nothing about the shares it handed out (not claimed by C10)
        if !matches!(outs[n], Some(Ok(_))) && feat.ands > 0 { bad.push(format!("the dealer ended with {:?}", outs[n])); }
        // decode the dealer's traffic
        let from_dealer = |ph: &str, p: usize| payloads.iter().find(|(f, t, h, _)| *f == n && *t == p && h == ph).map(|x| x.3.clone());
        let deltas: Vec<Option<u128>> = (0..n).map(|p| from_dealer("delta (fpre)", p).and_then(|d| if d.len() == 24 { Some(u128::from_le_bytes(d[8..24].try_into().unwrap())) } else { None })).collect();
        if deltas.iter().any(|d| d.is_none()) { bad.push("a delta message of the dealer is missing or malformed".into()); }
        else { let deltas: Vec<u128> = deltas.into_iter().map(|d| d.unwrap()).collect();
            for (ph, is_and) in [("random shares (fpre)", false), ("AND shares (fpre)", true)] {
                let sh: Vec<Option<Vec<Vec<(bool, Vec<(u128, u128)>)>>>> = (0..n).map(|p| from_dealer(ph, p).and_then(|d| dec_shares(&d, false))).collect();
                if sh.iter().any(|x| x.is_none()) { if !(is_and && feat.ands == 0 && sh.iter().all(|x| x.is_none())) { bad.push(format!("`{ph}` from the dealer missing or malformed")); } continue; }
                let sh: Vec<Vec<(bool, Vec<(u128, u128)>)>> = sh.into_iter().map(|x| x.unwrap().into_iter().map(|mut e| e.remove(0)).collect()).collect();
                let l = sh[0].len(); if sh.iter().any(|x| x.len() != l) { bad.push(format!("`{ph}`: parties were sent different numbers of shares")); continue; }
                let reqs: Option<Vec<Vec<Vec<(bool, Vec<(u128, u128)>)>>>> = if is_and { (0..n).map(|p| payloads.iter().find(|(f, t, h, _)| *f == p && *t == n && h == ph).and_then(|x| dec_shares(&x.3, true))).collect() } else { None };
                for k in 0..l { shares_checked += 1;
                    for i in 0..n { if sh[i][k].1.len() != n { bad.push(format!("`{ph}` share #{k} of party {i} has {} slots", sh[i][k].1.len())); break; }
                        for j in 0..n { if i == j { if sh[i][k].1[i] != (0, 0) { bad.push(format!("`{ph}` share #{k}: own slot of party {i} is not zero")); } continue; }
                            if sh[i][k].1[j].0 != sh[j][k].1[i].1 ^ if sh[i][k].0 { deltas[j] } else { 0 } { if bad.len() < 4 { bad.push(format!("`{ph}` share #{k}: MAC held by {i} != key held by {j} ^ bit*delta_{j}")); } } } }
                    if let Some(rq) = &reqs { let a = (0..n).fold(false, |x, p| x ^ rq[p][k][0].0); let b = (0..n).fold(false, |x, p| x ^ rq[p][k][1].0); let z = (0..n).fold(false, |x, p| x ^ sh[p][k].0);
                        if z != (a & b) && bad.len() < 4 { bad.push(format!("AND share #{k}: the returned bits share {z}, the requested pair shares {a} AND {b}")); } }
                    // the Lean dealer on the decoded bits / keys / deltas must produce exactly these shares (first 3 and last of every batch)
                    if (k < 3 || k + 1 == l) && sh.iter().all(|x| x[k].1.len() == n) {
                        let hex = |x: u128| format!("{x:x}"); let bits: String = (0..n).map(|i| if sh[i][k].0 { '1' } else { '0' }).collect();
                        let keys: Vec<String> = (0..n).flat_map(|i| (0..n).map(|j| hex(sh[i][k].1[j].1)).collect::<Vec<_>>()).collect();
                        let ans = m.ask(&format!("fpre {n} {} {bits} {}", deltas.iter().map(|d| hex(*d)).collect::<Vec<_>>().join(","), keys.join(",")));
                        let want = format!("fpre {}", (0..n).map(|i| std::iter::once(if sh[i][k].0 { "1".to_string() } else { "0".to_string() }).chain((0..n).flat_map(|j| vec![hex(sh[i][k].1[j].0), hex(sh[i][k].1[j].1)])).collect::<Vec<_>>().join(",")).collect::<Vec<_>>().join(" "));
                        if ans != want && disagreements.len() < 4 { disagreements.push(json!({"what": format!("`{ph}` share #{k}: the dealer's macs differ from dealerShare on the same bits, keys and deltas"), "model": ans.chars().take(300).collect::<String>(), "wire": want.chars().take(300).collect::<String>(), "case": desc})); } }
                }
            }
        }
        if !bad.is_empty() { failures.push(json!({"witness": "C10:dealer", "failure": bad, "case": desc})); }
        if samples.len() < 2 { samples.push(json!({"case": desc, "dealer_messages": payloads.iter().filter(|x| x.0 == n).count()})); }
    }
    dist.insert("dealer_shares_checked".into(), shares_checked);
    json!({"executions": execs, "distinct_nontrivial": distinct.len(), "distribution": dist, "samples": samples, "model_disagreements": disagreements, "impl_vs_oracle_failures": failures, "model_requests": m.requests})
}

/// C08d — hostile bytes in the trusted-dealer protocol: every message to or from the dealer, one at a time, replaced by each class of forgery.
/// The receiver (a party, or the dealer itself) must return — an error or a result — and never panic; nobody may be left blocked once the others have returned.
static LAST_PANIC: std::sync::Mutex<Option<String>> = std::sync::Mutex::new(None);
fn c08d(seed: u64, cases: usize, _model_path: &str) -> serde_json::Value {
    use polytune::verif as v;
    std::panic::set_hook(Box::new(|info| { let msg = info.payload().downcast_ref::<String>().cloned().or(info.payload().downcast_ref::<&str>().map(|s| s.to_string())).unwrap_or_default();
        *LAST_PANIC.lock().unwrap() = Some(format!("{msg} at {}", info.location().map(|l| format!("{}:{}", l.file(), l.line())).unwrap_or_default())); }));
    let mut r = Rng::new(seed); let mut dist: BTreeMap<String, u64> = BTreeMap::new(); let mut distinct = std::collections::BTreeSet::new(); let mut failures = vec![]; let mut samples = vec![]; let mut execs = 0u64;
    let classes = ["empty", "truncate_half", "truncate_1", "random_same_len", "huge_len_prefix", "append_junk", "zero_prefix", "inner_one_longer", "inner_one_shorter", "inner_len_huge", "count_plus_one"];
    for case in 0..cases.clamp(4, 12) {
        let n = if case % 2 == 0 { 2 } else { 3 }; let c = circ::and_chain(n, 2 + case % 3); let p_eval = case % n; let p_out: Vec<usize> = vec![(case / 2) % n];
        let inputs: Vec<Vec<bool>> = c.input_regs.iter().map(|k| (0..*k).map(|_| r.bool()).collect()).collect();
        let run_once = |m: Option<exec::Mutator>| -> (Vec<Option<Result<Vec<bool>, String>>>, Vec<(usize, usize, String, Vec<u8>)>, Option<String>) {
            *LAST_PANIC.lock().unwrap() = None;
            let (net, chs) = exec::new_net(n + 1, 1024); { let mut nb = net.borrow_mut(); nb.payloads = Some(vec![]); nb.mutate = m; }
            let sc: Vec<SendCh> = chs.iter().map(SendCh).collect();
            let futs: Vec<std::pin::Pin<Box<dyn std::future::Future<Output = Result<Vec<bool>, String>>>>> = (0..=n).map(|i| { let (ch, c, inputs, p_out) = (&sc[i], &c, &inputs, &p_out);
                Box::pin(async move { if i == n { v::fpre_dealer(ch, n).await.map(|_| vec![]) } else { v::mpc_with_dealer(ch.0, c, &inputs[i], n, p_eval, i, p_out).await.map_err(|e| format!("{e:?}")) } }) as std::pin::Pin<Box<dyn std::future::Future<Output = _>>> }).collect();
            let outs = exec::poll_all(futs, &net); drop(sc); let pl = net.borrow_mut().payloads.take().unwrap_or_default(); (outs, pl, LAST_PANIC.lock().unwrap().take()) };
        let (_, honest, _) = run_once(None); execs += 1;
        let targets: Vec<(usize, usize, String)> = { let mut t = vec![]; for (f, to, ph, _) in &honest { if (*f == n || *to == n) && !t.contains(&(*f, *to, ph.clone())) { t.push((*f, *to, ph.clone())); } } t };
        for (tf, tt, tph) in targets { for cl in classes {
            let (tph2, cls) = (tph.clone(), cl.to_string()); let mut rr = r.fork(); let hit = std::rc::Rc::new(std::cell::Cell::new(false)); let hit2 = hit.clone();
            let m: exec::Mutator = Box::new(move |from, to, ph, k, d| { if from != tf || to != tt || ph != tph2 || k != 0 { return Some(d); } hit2.set(true);
                let inner: Vec<usize> = if d.len() >= 24 { (8..d.len() - 8).filter(|i| { let v = u64::from_le_bytes(d[*i..*i + 8].try_into().unwrap()); v > 0 && v as usize <= (d.len() - i - 8) / 32 }).collect() } else { vec![] };
                Some(match cls.as_str() { "empty" => vec![], "truncate_half" => d[..d.len() / 2].to_vec(), "truncate_1" => d[..d.len().saturating_sub(1)].to_vec(), "random_same_len" => (0..d.len()).map(|_| rr.next() as u8).collect(),
                    "huge_len_prefix" => { let mut v = d.clone(); for b in v.iter_mut().take(8) { *b = 0xff; } v } "append_junk" => { let mut v = d.clone(); v.extend([7u8; 9]); v } "zero_prefix" => { let mut v = d.clone(); for b in v.iter_mut().take(8) { *b = 0; } v }
                    "count_plus_one" => { let mut v = d.clone(); if v.len() >= 8 { let k = u64::from_le_bytes(v[..8].try_into().unwrap()) + 1; v[..8].copy_from_slice(&k.to_le_bytes()); } v }
                    // the slot vector of one share (count of (mac, key) pairs, 32 bytes each) one pair longer / shorter / claimed huge
                    "inner_one_longer" => match inner.first() { Some(&i) => { let k = u64::from_le_bytes(d[i..i + 8].try_into().unwrap()) as usize; let mut v = d[..i].to_vec(); v.extend(((k + 1) as u64).to_le_bytes()); v.extend(&d[i + 8..i + 8 + 32 * k]); v.extend([0x55u8; 32]); v.extend(&d[i + 8 + 32 * k..]); v } None => d },
                    "inner_one_shorter" => match inner.first() { Some(&i) => { let k = u64::from_le_bytes(d[i..i + 8].try_into().unwrap()) as usize; let mut v = d[..i].to_vec(); v.extend(((k - 1) as u64).to_le_bytes()); v.extend(&d[i + 8..i + 8 + 32 * (k - 1)]); v.extend(&d[i + 8 + 32 * k..]); v } None => d },
                    _ => match inner.first() { Some(&i) => { let mut v = d.clone(); v[i..i + 8].copy_from_slice(&(1u64 << 30).to_le_bytes()); v } None => d } }) });
            ptverif::alloc_count::reset();
            let (outs, _, panic) = run_once(Some(m)); if !hit.get() { continue; } execs += 1; let biggest = ptverif::alloc_count::biggest();
            let victim = if tf == n { format!("party {tt}") } else { "the dealer".to_string() };
            *dist.entry(format!("class:{cl}")).or_default() += 1; *dist.entry(format!("victim:{}", if tf == n { "party" } else { "dealer" })).or_default() += 1; distinct.insert((n, tf == n, tph.clone(), cl));
            let desc = json!({"n": n, "dealer": n, "message": format!("{tf}->{tt} `{tph}`"), "class": cl, "victim": victim});
            if let Some(p) = panic { failures.push(json!({"witness": "C08:dealer-panic", "failure": format!("{} panicked: {p}", if p.contains("fpre.rs") { "the dealer" } else { "a party" }), "case": desc})); }
            else if outs.iter().any(|o| o.is_none()) { failures.push(json!({"witness": "C08:dealer-hang", "failure": format!("blocked forever: {:?}", outs.iter().enumerate().filter(|(_, o)| o.is_none()).map(|(i, _)| i).collect::<Vec<_>>()), "case": desc})); }
            if biggest > (1 << 24) { failures.push(json!({"witness": "C08:alloc", "failure": format!("single allocation of {biggest} bytes"), "case": desc})); }
            if samples.len() < 2 { samples.push(json!({"case": desc, "outcomes": outs.iter().map(|o| format!("{o:?}").chars().take(70).collect::<String>()).collect::<Vec<_>>()})); }
        } }
    }
    json!({"executions": execs, "distinct_nontrivial": distinct.len(), "distribution": dist, "samples": samples, "model_disagreements": [], "impl_vs_oracle_failures": failures})
}

/// C12 program-order tie: per (party, peer) the order in which sends are issued / completed and receives are issued / completed never
/// contradicts the model's phase order: an event that the phase list puts LATER never completes before an EARLIER one with the same peer is issued.
fn c12o(seed: u64, cases: usize, model_path: &str) -> serde_json::Value {
    use ptverif::exec::Ev;
    std::panic::set_hook(Box::new(|_| {}));
    let mut r = Rng::new(seed); let mut m = Model::spawn(model_path).expect("spawn ptmodel"); let mut disagreements = vec![]; let mut failures = vec![]; let mut samples = vec![]; let mut distinct = std::collections::BTreeSet::new(); let mut execs = 0u64; let mut pairs_checked = 0u64; let mut events_checked = 0u64;
    for case in 0..cases { let n = r.range(2, 4) as usize; let g = r.range(1, 10) as usize; let a = r.below(g as u64 + 1) as usize; let (c, _feat) = circ::generate(&mut r, n, g, a);
        let inputs: Vec<Vec<bool>> = c.input_regs.iter().map(|k| (0..*k).map(|_| r.bool()).collect()).collect();
        let p_eval = r.below(n as u64) as usize; let p_out: Vec<usize> = (0..n).filter(|_| r.bool()).collect(); let p_out = if p_out.is_empty() { vec![0] } else { p_out };
        m.ask(&circ::to_line(&c));
        for (si, sched) in [Sched::RoundRobin, Sched::Random(r.next()), Sched::Starve(case % n)].into_iter().enumerate() {
            let args: Vec<PartyArgs> = (0..n).map(|p| PartyArgs { inputs: inputs[p].clone(), p_eval, p_own: p, p_out: p_out.clone(), tmp_dir: None }).collect();
            let run = exec::run(&c, &args, &RunCfg { cap: 1, sched, keep_payloads: false }, None); execs += 1;
            if run.outs.iter().any(|o| matches!(o, Out::Blocked)) { failures.push(json!({"failure": "deadlock with capacity 1", "case": case, "schedule": si})); continue; }
            for p in 0..n { for q in 0..n { if p == q { continue; } pairs_checked += 1;
                let ask = |m: &mut Model, i: usize, k: usize| -> Vec<usize> { let resp = m.ask(&format!("rounds n={n} peval={p_eval} pout={} from={i} to={k}", p_out.iter().map(|x| x.to_string()).collect::<Vec<_>>().join(","))); let body = resp.strip_prefix("rounds ").unwrap_or("-").to_string(); if body == "-" { vec![] } else { body.split(',').map(|x| x.parse().unwrap()).collect() } };
                let send_rounds = ask(&mut m, p, q); let recv_rounds = ask(&mut m, q, p);
                // timeline of p's events with peer q: (rank, issued_at, completed_at)
                let mut evs: Vec<(usize, usize, usize)> = vec![]; let (mut si_, mut sd, mut ri, mut rd) = (vec![], vec![], vec![], vec![]);
                for (t, e) in run.events.iter().enumerate() { match e { Ev::Send { from, to, .. } if *from == p && *to == q => si_.push(t), Ev::SendDone { from, to } if *from == p && *to == q => sd.push(t), Ev::RecvIssue { at, from } if *at == p && *from == q => ri.push(t), Ev::Recv { at, from, .. } if *at == p && *from == q => rd.push(t), _ => {} } }
                if si_.len() != send_rounds.len() || ri.len() != recv_rounds.len() || sd.len() != si_.len() || rd.len() != ri.len() { disagreements.push(json!({"difference": "number of events", "party": p, "peer": q, "sends": si_.len(), "model_sends": send_rounds.len(), "recvs": ri.len(), "model_recvs": recv_rounds.len()})); continue; }
                let w = 2 * n + 1; for (j, rr) in send_rounds.iter().enumerate() { evs.push((rr * w + q, si_[j], sd[j])); } for (j, rr) in recv_rounds.iter().enumerate() { evs.push((rr * w + n + q, ri[j], rd[j])); }
                events_checked += evs.len() as u64;
                let labels = |m: &mut Model, i: usize, k: usize| -> Vec<String> { let resp = m.ask(&format!("pat n={n} peval={p_eval} pout={} from={i} to={k}", p_out.iter().map(|x| x.to_string()).collect::<Vec<_>>().join(","))); resp.strip_prefix("pat ").unwrap_or("").split('|').map(|x| x.to_string()).collect() };
                for a in &evs { for b in &evs { if a.0 > b.0 && a.2 < b.1 { let (ls, lr) = (labels(&mut m, p, q), labels(&mut m, q, p));
                    let name = |rank: usize| -> String { let (rr, sub) = (rank / w, rank % w); if sub < n { format!("send {}", send_rounds.iter().position(|x| *x == rr).map(|j| ls[j].clone()).unwrap_or_default()) } else { format!("recv {}", recv_rounds.iter().position(|x| *x == rr).map(|j| lr[j].clone()).unwrap_or_default()) } };
                    disagreements.push(json!({"difference": "an event the phase list puts later completed before an earlier one was issued", "party": p, "peer": q, "later": name(a.0), "earlier": name(b.0), "n": n, "p_eval": p_eval, "case": case, "schedule": si})); } } }
            } }
        }
        distinct.insert((circ::to_line(&c), n, p_eval, p_out.clone()));
        if samples.len() < 2 { samples.push(json!({"n": n, "p_eval": p_eval, "p_out": p_out})); }
    }
    disagreements.truncate(5);
    json!({"executions": execs, "ordered_pairs_checked": pairs_checked, "events_checked": events_checked, "distinct_nontrivial": distinct.len(), "distribution": {}, "samples": samples, "model_disagreements": disagreements, "impl_vs_oracle_failures": failures, "model_requests": m.requests})
}

/// C04 commitment tie: every coin-toss commitment on the wire is BLAKE3(opening ‖ sender id) of the opening sent one round later,
/// and every aShare commitment triple is (commit(d0), commit(d0 ^ delta), commit(dm)) of the tapped check shares - with the Lean BLAKE3.
fn c04m(seed: u64, cases: usize, model_path: &str) -> serde_json::Value {
    use polytune::garble_lang::register_circuit::*;
    use std::{cell::RefCell, rc::Rc};
    std::panic::set_hook(Box::new(|_| {}));
    let mut r = Rng::new(seed); let mut m = Model::spawn(model_path).expect("spawn ptmodel"); let mut disagreements = vec![]; let mut samples = vec![]; let mut distinct = std::collections::BTreeSet::new(); let mut execs = 0u64; let mut compared = 0u64;
    for case in 0..cases { let n = r.range(2, 3) as usize;
        let insts: Vec<Inst> = (0..n).map(|p| Inst { out: Reg(p as u32), op: Op::Input(Input { party: p as u32, input: 0 }) }).chain(std::iter::once(Inst { out: Reg(n as u32), op: Op::And(And(Reg(0), Reg(1))) })).collect();
        let c = Circuit { input_regs: vec![1; n], insts, max_reg_count: n + 1, output_regs: vec![Reg(n as u32)], and_ops: 1 };
        let args: Vec<PartyArgs> = (0..n).map(|p| PartyArgs { inputs: vec![r.bool()], p_eval: 0, p_own: p, p_out: vec![0], tmp_dir: None }).collect();
        let taps: Rc<RefCell<Vec<(String, usize, Vec<u128>)>>> = Default::default(); let t2 = taps.clone();
        polytune::verif::set_sink(Some(Box::new(move |k, p, v| t2.borrow_mut().push((k.to_string(), p, v.to_vec())))));
        let run = exec::run(&c, &args, &RunCfg { cap: 1, sched: Sched::Random(r.next()), keep_payloads: true }, None); execs += 1; polytune::verif::set_sink(None); let taps = taps.borrow();
        let nth = |from: usize, to: usize, ph: &str, k: usize| run.payloads.iter().filter(|x| x.0 == from && x.1 == to && x.2 == ph).nth(k).map(|x| x.3.clone());
        let mut bad = vec![]; let mut b3 = |m: &mut Model, data: &[u8]| -> Vec<u8> { let resp = m.ask(&format!("prim blake3 {}", hex(data))); (0..32).map(|i| u8::from_str_radix(&resp[7 + 2 * i..9 + 2 * i], 16).unwrap()).collect() };
        // (a) coin tosses: occurrence 0 = pairwise, occurrence 1 = multi-party; commitment = BLAKE3(seed || sender as u16 BE)
        for i in 0..n { for k in 0..n { if i == k { continue; } for occ in 0..2 {
            let comm: Vec<[u8; 32]> = de(&nth(i, k, "RNG comm", occ).unwrap()); let open: Vec<u8> = de(&nth(i, k, "RNG ver", occ).unwrap());
            let mut buf = open.clone(); buf.extend((i as u16).to_be_bytes()); compared += 1;
            if b3(&mut m, &buf) != comm[0].to_vec() { bad.push(format!("coin toss {occ}: commitment of {i} to {k} is not BLAKE3(opening || id)")); } } } }
        // (b) aShare commitments of party 0 (first fashare call) from its tapped check shares and delta
        let delta0 = taps.iter().find(|t| t.0 == "delta" && t.1 == 0).map(|t| t.2[0]).unwrap(); let chk: Vec<u128> = taps.iter().find(|t| t.0 == "ashare_check_shares" && t.1 == 0).map(|t| t.2.clone()).unwrap(); let w = 1 + 2 * n;
        let triples: Vec<([u8; 32], [u8; 32], [u8; 32])> = de(&nth(0, 1, "fashare comm", 0).unwrap());
        for rr in 0..40 { let d0 = (1..n).fold(0u128, |acc, k| acc ^ chk[rr * w + 2 + 2 * k]); let mut dm = vec![chk[rr * w] as u8]; for k in 1..n { dm.extend(chk[rr * w + 1 + 2 * k].to_be_bytes()); } compared += 3;
            if b3(&mut m, &d0.to_be_bytes()) != triples[rr].0.to_vec() { bad.push(format!("aShare c0 at {rr}")); } if b3(&mut m, &(d0 ^ delta0).to_be_bytes()) != triples[rr].1.to_vec() { bad.push(format!("aShare c1 at {rr}")); } if b3(&mut m, &dm) != triples[rr].2.to_vec() { bad.push(format!("aShare cm at {rr}")); } }
        distinct.insert((n, case)); if !bad.is_empty() { disagreements.push(json!({"n": n, "differences": bad.iter().take(5).collect::<Vec<_>>()})); } else if samples.len() < 2 { samples.push(json!({"n": n, "commitments_checked": 2 * n * (n - 1) + 120})); }
    }
    json!({"executions": execs, "commitments_compared": compared, "distinct_nontrivial": distinct.len(), "distribution": {}, "samples": samples, "model_disagreements": disagreements, "impl_vs_oracle_failures": [], "model_requests": m.requests})
}

fn main() {
    let a: Vec<String> = std::env::args().collect();
    let prop = a.get(1).map(String::as_str).unwrap_or("");
    let seed: u64 = std::env::var("VERIF_SEED").ok().and_then(|s| s.parse().ok()).unwrap_or(1);
    let cases: usize = a.iter().position(|x| x == "--cases").and_then(|i| a.get(i + 1)).and_then(|s| s.parse().ok()).unwrap_or(300);
    let model = a.iter().position(|x| x == "--model").and_then(|i| a.get(i + 1)).cloned().unwrap_or("/verif/lean/.lake/build/bin/ptmodel".into());
    let out = match prop { "C19" => c19(seed, cases, &model), "C08" => c08(seed, cases, &model, a.iter().any(|x| x == "--thorough")), "C03" => c03(seed, cases, &model), "C04" => c04(seed, cases, &model), "C11" => c11(seed, cases, &model, a.iter().any(|x| x == "--thorough")), "C20" => c20(seed, cases, &model, a.iter().any(|x| x == "--thorough")), "C10" => c10(seed, cases, &model, a.iter().any(|x| x == "--thorough")), "C06" => c06(seed, cases, &model, "C06"), "C07" => c06(seed, cases, &model, "C07"), "C04p" => c06(seed, cases, &model, "C04p"), "C01m" => c01m(seed, cases, &model), "C03m" => c03m(seed, cases, &model), "C10u" => c10u(seed, cases, &model), "C07m" => c07m(seed, cases, &model), "C10m" => c10m(seed, cases, &model), "C10l" => c10l(seed, cases, &model), "C10d" => c10d(seed, cases, &model), "C08d" => c08d(seed, cases, &model), "C12o" => c12o(seed, cases, &model), "C04m" => c04m(seed, cases, &model), "C18" => c18(seed, cases, &model), "C09" => c09(seed, cases, &model), "C01" => c01(seed, cases, &model, a.iter().any(|x| x == "--thorough")), "C19m" => c19m(seed, cases, &model, a.iter().any(|x| x == "--thorough")), _ => { eprintln!("unknown property"); std::process::exit(2) } };
    println!("{}", serde_json::to_string_pretty(&out).unwrap());
}
