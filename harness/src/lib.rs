//! Verification harness for polytune: deterministic PRNG, model-driver pipe, generators.
pub mod rng;
pub mod model;
pub mod exec;
pub mod circ;

pub mod alloc_count {
    use std::alloc::{GlobalAlloc, Layout, System};
    use std::sync::atomic::{AtomicUsize, Ordering};
    pub struct Counting;
    pub static LIVE: AtomicUsize = AtomicUsize::new(0);
    pub static PEAK: AtomicUsize = AtomicUsize::new(0);
    pub static BIGGEST: AtomicUsize = AtomicUsize::new(0);
    unsafe impl GlobalAlloc for Counting {
        unsafe fn alloc(&self, l: Layout) -> *mut u8 { let p = unsafe { System.alloc(l) }; if !p.is_null() { let v = LIVE.fetch_add(l.size(), Ordering::Relaxed) + l.size(); PEAK.fetch_max(v, Ordering::Relaxed); BIGGEST.fetch_max(l.size(), Ordering::Relaxed); } p }
        unsafe fn dealloc(&self, p: *mut u8, l: Layout) { unsafe { System.dealloc(p, l) }; LIVE.fetch_sub(l.size(), Ordering::Relaxed); }
    }
    pub fn reset() { PEAK.store(LIVE.load(Ordering::Relaxed), Ordering::Relaxed); BIGGEST.store(0, Ordering::Relaxed); }
    pub fn biggest() -> usize { BIGGEST.load(Ordering::Relaxed) }
}
