//! Register-circuit generator (built directly on the repo's own types, not through the SSA converter)
//! and the compact text form understood by the Lean driver.
use crate::rng::Rng;
use polytune::garble_lang::register_circuit::*;

pub fn to_line(c: &Circuit) -> String {
    let ins = if c.input_regs.is_empty() { "-".to_string() } else { c.input_regs.iter().map(|x| x.to_string()).collect::<Vec<_>>().join(",") };
    let outs = if c.output_regs.is_empty() { "-".to_string() } else { c.output_regs.iter().map(|r| r.0.to_string()).collect::<Vec<_>>().join(",") };
    let insts = if c.insts.is_empty() { "-".to_string() } else {
        c.insts.iter().map(|i| match i.op {
            Op::Input(Input { party, input }) => format!("I{party}.{input}>{}", i.out.0),
            Op::Xor(Xor(a, b)) => format!("X{},{}>{}", a.0, b.0, i.out.0),
            Op::And(And(a, b)) => format!("A{},{}>{}", a.0, b.0, i.out.0),
            Op::Not(Not(a)) => format!("N{}>{}", a.0, i.out.0),
        }).collect::<Vec<_>>().join(";") };
    format!("circ in={ins} max={} out={outs} and={} insts={insts}", c.max_reg_count, c.and_ops)
}
pub fn bits(v: &[bool]) -> String { if v.is_empty() { "-".into() } else { v.iter().map(|b| if *b { '1' } else { '0' }).collect() } }

#[derive(Default, Debug, Clone)]
pub struct Features { pub reuse: bool, pub and_same: bool, pub xor_same: bool, pub not_chain: bool, pub out_is_input: bool, pub dup_out: bool, pub zero_input_party: bool, pub ands: usize }

/// A well-formed circuit for `n` parties with about `gates` gates of which about `ands` are AND gates.
pub fn generate(r: &mut Rng, n: usize, gates: usize, ands: usize) -> (Circuit, Features) {
    let mut f = Features::default();
    // inputs: at least one party with an input; sometimes a party with none
    let mut input_regs: Vec<usize> = (0..n).map(|_| r.range(1, 3) as usize).collect();
    if n > 1 && r.below(3) == 0 { let z = r.below(n as u64) as usize; input_regs[z] = 0; f.zero_input_party = true; }
    if input_regs.iter().all(|x| *x == 0) { input_regs[0] = 1; }
    let mut insts = vec![]; let mut reg = 0u32;
    for (p, k) in input_regs.iter().enumerate() { for i in 0..*k { insts.push(Inst { out: Reg(reg), op: Op::Input(Input { party: p as u32, input: i as u32 }) }); reg += 1; } }
    let num_inputs = reg; let mut written: Vec<u32> = (0..reg).collect(); let extra = r.range(1, 4) as u32; let max_reg = reg + extra;
    let mut and_ops = 0usize; let mut remaining_ands = ands;
    for g in 0..gates {
        let a = written[r.below(written.len() as u64) as usize]; let b = written[r.below(written.len() as u64) as usize];
        // output register: reuse an operand, any written register, or a fresh one
        let out = match r.below(4) { 0 => { f.reuse = true; a } 1 => { f.reuse = true; written[r.below(written.len() as u64) as usize] } _ => r.below(max_reg as u64) as u32 };
        let left = gates - g;
        let want_and = remaining_ands > 0 && (remaining_ands >= left || r.below(left as u64) < remaining_ands as u64);
        let op = if want_and { remaining_ands -= 1; and_ops += 1; if a == b { f.and_same = true; } Op::And(And(Reg(a), Reg(b))) }
                 else { match r.below(3) { 0 => { if matches!(insts.last().map(|i: &Inst| i.op), Some(Op::Not(_))) { f.not_chain = true; } Op::Not(Not(Reg(a))) } _ => { if a == b { f.xor_same = true; } Op::Xor(Xor(Reg(a), Reg(b))) } } };
        insts.push(Inst { out: Reg(out), op });
        if !written.contains(&out) { written.push(out); }
    }
    let n_out = r.range(1, 4) as usize; let mut output_regs = vec![];
    for _ in 0..n_out { let o = written[r.below(written.len() as u64) as usize]; if o < num_inputs && !insts[num_inputs as usize..].iter().any(|i| i.out.0 == o) { f.out_is_input = true; } output_regs.push(Reg(o)); }
    if r.below(3) == 0 { output_regs.push(output_regs[0]); f.dup_out = true; }
    f.ands = and_ops;
    (Circuit { input_regs, insts, max_reg_count: max_reg as usize, output_regs, and_ops }, f)
}

/// A chain circuit with exactly `ands` AND gates (for the batch-boundary cases): and-chain with NOTs interleaved and register reuse.
pub fn and_chain(n: usize, ands: usize) -> Circuit {
    let input_regs = vec![1; n]; let mut insts = vec![];
    for p in 0..n { insts.push(Inst { out: Reg(p as u32), op: Op::Input(Input { party: p as u32, input: 0 }) }); }
    let acc = n as u32; // accumulator register
    insts.push(Inst { out: Reg(acc), op: Op::Xor(Xor(Reg(0), Reg(1 % n as u32))) });
    for k in 0..ands { let other = (k % n) as u32; insts.push(Inst { out: Reg(acc), op: Op::And(And(Reg(acc), Reg(other))) }); if k % 3 == 0 { insts.push(Inst { out: Reg(acc), op: Op::Not(Not(Reg(acc))) }); } }
    Circuit { input_regs, insts, max_reg_count: n + 1, output_regs: vec![Reg(acc), Reg(0)], and_ops: ands }
}
