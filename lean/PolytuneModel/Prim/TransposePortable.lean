import PolytuneModel.Prim.Clmul
/-! The PORTABLE bit-matrix transpose of `src/transpose/portable.rs`, as the algorithm is written: the matrix is cut into 16×8 blocks;
    a block (16 bytes, one per row) is loaded into a 128-bit register; eight times the most significant bit of every byte lane is
    collected (`to_bitmask`) and stored as two output bytes, and the register is shifted left by one as two 64-bit lanes.

    A register is modelled at bit level, `Reg = Nat → Bool` (bit `p`, `p < 128`; byte lane `i` holds bits `8i … 8i+7`, 64-bit lane `l`
    holds bits `64l … 64l+63`: the little-endian layout `bytemuck::must_cast` sees on the supported targets). The two `while` loops
    run `rows/16` and `cols/8` times under the function's own assertions (`rows ≥ 16`, `16 ∣ rows`, `8 ∣ cols`).
    Out-of-range slice accesses panic in Rust; here they are ignored (`getD`, `setIfInBounds`) and `TransposeP.in_bounds` proves that
    under the assertions none occurs. -/
namespace PolytuneModel.TransposeP

def inp (x y cols : Nat) : Nat := x * cols / 8 + y / 8
def out (x y rows : Nat) : Nat := y * rows / 8 + x / 8

abbrev Reg := Nat → Bool

def byteBit (x : UInt8) (t : Nat) : Bool := (x.toNat >>> t) % 2 == 1

/-- `load_bytes`: byte lane `i` is `b[inp(row + i, col, cols)]` -/
def load (b : Array UInt8) (row col cols : Nat) : Reg := fun p => byteBit (b.getD (inp (row + p / 8) col cols) 0) (p % 8)

/-- `*v = *v << 1` on the register viewed as `i64x2` -/
def shl1 (v : Reg) : Reg := fun p => if p % 64 = 0 then false else v (p - 1)

/-- byte `h` of `v.to_bitmask().to_le_bytes()`: bit `j` is the most significant bit of byte lane `8h + j` -/
def maskByte (v : Reg) (h : Nat) : UInt8 :=
  (List.range 8).foldl (fun (acc : UInt8) j => if v (8 * (8 * h + j) + 7) then acc ||| ((1 : UInt8) <<< UInt8.ofNat j) else acc) 0

/-- one pass of the `for output_row_offset in (0..8).rev()` loop (`k`-th pass, offset `7 - k`) -/
def inner (rows row col : Nat) (st : Array UInt8 × Reg) (k : Nat) : Array UInt8 × Reg :=
  let idx := out row (col + (7 - k)) rows
  ((st.1.setIfInBounds idx (maskByte st.2 0)).setIfInBounds (idx + 1) (maskByte st.2 1), shl1 st.2)

def block (input : Array UInt8) (rows cols : Nat) (o : Array UInt8) (row col : Nat) : Array UInt8 :=
  ((List.range 8).foldl (inner rows row col) (o, load input row col cols)).1

/-- `transpose_bitmatrix(input, output, rows)`; `o0` is the caller's output buffer -/
def transposeInto (input : Array UInt8) (rows : Nat) (o0 : Array UInt8) : Array UInt8 :=
  let cols := input.size * 8 / rows
  (List.range (rows / 16)).foldl (fun o rb => (List.range (cols / 8)).foldl (fun o cb => block input rows cols o (16 * rb) (8 * cb)) o) o0

def transposePortable (input : Array UInt8) (rows : Nat) : Array UInt8 := transposeInto input rows (Array.replicate input.size 0)

end PolytuneModel.TransposeP
