/-! `crypto/aes_rng.rs`: `AesRng` = rand_core's `BlockRng` over an AES-128 counter-mode core, with polytune's own `fill_bytes`
    fast path. The block function `E : counter → 16 bytes` is a parameter (the driver instantiates it with the Lean AES-128 under
    the seed; the theorem needs nothing about it). Import-free, executable.

    State: the counter, the buffered output of the last `generate` (PAR blocks = PAR·4 words), and the word index into it
    (`index = PAR·4` means "empty", which is how `BlockRng::new` starts). -/
namespace PolytuneModel.AesRng

structure St where
  ctr : Nat
  buf : List UInt8          -- PAR · 16 bytes once generated
  idx : Nat                 -- in 32-bit words
deriving Repr

def blocks (E : Nat → List UInt8) (start count : Nat) : List UInt8 := (List.range count).flatMap fun i => E (start + i)

def fresh (par : Nat) : St := ⟨0, [], par * 4⟩

/-- `BlockRng::fill_bytes` for `r` more bytes (fuel = r + 1 rounds suffice: every round delivers at least one byte). -/
def tail (E : Nat → List UInt8) (par : Nat) : Nat → St → Nat → List UInt8 → St × List UInt8
  | 0, s, _, acc => (s, acc)
  | fuel+1, s, r, acc =>
    if r = 0 then (s, acc) else
    let s := if s.idx ≥ par * 4 then { ctr := s.ctr + par, buf := blocks E s.ctr par, idx := 0 } else s   -- generate_and_set(0)
    let avail := (par * 4 - s.idx) * 4
    let filled := min avail r
    let consumed := (filled + 3) / 4                                                                    -- words, rounded up
    tail E par fuel { s with idx := s.idx + consumed } (r - filled) (acc ++ (s.buf.drop (4 * s.idx)).take filled)

/-- `AesRng::fill_bytes(dest)` with `dest.len() = n`: whole blocks straight from fresh counters, the rest through the buffer. -/
def fill (E : Nat → List UInt8) (par : Nat) (s : St) (n : Nat) : St × List UInt8 :=
  let w := n / 16
  let fast := blocks E s.ctr w
  let (s', t) := tail E par (n % 16 + 1) { s with ctr := s.ctr + w } (n % 16) []
  (s', fast ++ t)

/-- a sequence of calls on one generator. -/
def fills (E : Nat → List UInt8) (par : Nat) : St → List Nat → List (List UInt8)
  | _, [] => []
  | s, n :: ns => let (s', out) := fill E par s n; out :: fills E par s' ns

/-- the specification: the first `n` bytes of the counter-mode keystream. -/
def keystream (E : Nat → List UInt8) (n : Nat) : List UInt8 := (blocks E 0 ((n + 15) / 16)).take n

end PolytuneModel.AesRng
