/-! The AVX2 128×128 bit-matrix transpose of `src/transpose/avx2.rs` (`avx_transpose128x128` and its three helpers), intrinsic by
    intrinsic. A 256-bit register is a function from bit positions (`q < 256`, little-endian: bit `q` of the register is bit `q % 8`
    of byte `q / 8`) to bits. The definitions are polymorphic in the type of a "bit" (anything with `zero` and `xor`): the concrete
    semantics is the instance `Bool`; the proof evaluates the same definitions on symbolic bits. Every intrinsic used by the code
    only moves bits, XORs them, or ANDs them with a constant. -/
namespace PolytuneModel.Avx

class BitAlg (α : Type) where
  zero : α
  xor : α → α → α

instance : BitAlg Bool := ⟨false, fun a b => a != b⟩

variable {α : Type} [BitAlg α]

abbrev R (α : Type) := Nat → α

/-- `_mm256_xor_si256` -/
def rxor (a b : R α) : R α := fun q => BitAlg.xor (a q) (b q)
/-- `_mm256_and_si256` with a constant register -/
def randc (m : Nat → Bool) (a : R α) : R α := fun q => if m q then a q else BitAlg.zero
/-- `_mm256_slli_epi16` (`w = 16`) / `_mm256_slli_epi64` (`w = 64`): every `w`-bit element shifted left by `s` -/
def slli (w s : Nat) (a : R α) : R α := fun q => if q % w < s then BitAlg.zero else a (q - s)
/-- `_mm256_srli_epi16` / `_mm256_srli_epi64` -/
def srli (w s : Nat) (a : R α) : R α := fun q => if w ≤ q % w + s then BitAlg.zero else a (q + s)
/-- `_mm256_permute2x128_si256(x, y, 0x20)`: low lane of `x`, low lane of `y` -/
def perm20 (x y : R α) : R α := fun q => if q < 128 then x q else y (q - 128)
/-- `_mm256_permute2x128_si256(x, y, 0x31)`: high lane of `x`, high lane of `y` -/
def perm31 (x y : R α) : R α := fun q => if q < 128 then x (q + 128) else y q
/-- `_mm256_unpacklo_epi64` / `_mm256_unpackhi_epi64` (per 128-bit lane) -/
def unpacklo64 (x y : R α) : R α := fun q => if q % 128 < 64 then x (q / 128 * 128 + q % 64) else y (q / 128 * 128 + q % 64)
def unpackhi64 (x y : R α) : R α := fun q => if q % 128 < 64 then x (q / 128 * 128 + 64 + q % 64) else y (q / 128 * 128 + 64 + q % 64)
/-- `_mm256_set1_epi16(m)` (`w = 16`) / `_mm256_set1_epi64x(m)` (`w = 64`) -/
def set1 (w m : Nat) : Nat → Bool := fun q => m.testBit (q % w)

/-- `const fn mask(pattern, pattern_len)`: the pattern repeated to 64 bits (the `while` loop doubles the block; `fuel` ≥ 6 suffices) -/
def maskLoop : Nat → Nat → Nat → Nat
  | 0, m, _ => m
  | fuel + 1, m, len => if len < 64 then maskLoop fuel (((m <<< len) ||| m) % 2 ^ 64) (len * 2) else m
def mask (pattern len : Nat) : Nat := maskLoop 7 pattern len

/-- `MASK_N` of the `seq!` block -/
def maskN : Nat → Nat
  | 1 => mask 0b1100 4
  | 2 => mask 0b11110000 8
  | 3 => mask 0b1111111100000000 16
  | 4 => mask 0b11111111111111110000000000000000 32
  | _ => 0xffffffff00000000

/-- `transpose_2x2_matrices(x, y)` -/
def t2x2 (x y : R α) : R α × R α :=
  let u := perm20 x y
  let v := perm31 x y
  let diff := randc (set1 16 0b1010101010101010) (rxor u (slli 16 1 v))
  let u := rxor u diff
  let v := rxor v (srli 16 1 diff)
  (perm20 u v, perm31 u v)

/-- `partial_swap_sub_matrices::<SHIFT, MASK>(x, y)` -/
def pswap (shift m : Nat) (x y : R α) : R α × R α :=
  let diff := randc (set1 64 m) (rxor x (slli 64 shift y))
  (rxor x diff, rxor y (srli 64 shift diff))

/-- `partial_swap_64x64_matrices(x, y)` -/
def pswap64 (x y : R α) : R α × R α := (unpacklo64 x y, unpackhi64 x y)

/-- the 64 registers `in_out` -/
abbrev Regs (α : Type) := Nat → R α

def upd2 (s : Regs α) (a b : Nat) (p : R α × R α) : Regs α := fun r => if r = a then p.1 else if r = b then p.2 else s r

/-- `for chunk in in_out.chunks_exact_mut(2 * off) { (x_chunk, y_chunk) = chunk.split_at_mut(off); for (x, y) in zip … }`:
    the register pairs in the order the loops visit them -/
def pairs (off : Nat) : List (Nat × Nat) :=
  (List.range (64 / (2 * off))).flatMap fun c => (List.range off).map fun t => (c * (2 * off) + t, c * (2 * off) + off + t)

def stage (f : R α → R α → R α × R α) (off : Nat) (s : Regs α) : Regs α :=
  (pairs off).foldl (fun s ab => upd2 s ab.1 ab.2 (f (s ab.1) (s ab.2))) s

/-- `avx_transpose128x128(in_out)` -/
def transpose128 (s : Regs α) : Regs α :=
  let s := stage t2x2 1 s                       -- part 1: chunks_exact_mut(2)
  let s := stage (pswap 2 (maskN 1)) 1 s        -- N = 1: SHIFT 2, OFFSET 1
  let s := stage (pswap 4 (maskN 2)) 2 s
  let s := stage (pswap 8 (maskN 3)) 4 s
  let s := stage (pswap 16 (maskN 4)) 8 s
  let s := stage (pswap 32 (maskN 5)) 16 s
  stage pswap64 32 s                            -- phase 6



/-! ### The outer function `transpose_bitmatrix` of `avx2.rs`

    The matrix is cut into 128×128 squares. Squares of one row block are loaded (up to four at a time — how many depends on the ADDRESS of
    the input slice relative to a 64-byte cache line, so the grouping is a parameter `choose` here), transposed by the kernel and stored at
    the transposed block position; a last, partial column block (`cols % 128 ≠ 0`) is zero-padded to a square (`handle_rest_cols`).
    Both store paths of the Rust code (`out_stride == 16`: one contiguous copy; otherwise row by row) write row `k` of block `b` of the
    group at `output_offset + (b·128 + k)·out_stride`; the model has the one formula. Slice accesses out of range would panic; the model
    ignores them (`getD`, `setIfInBounds`) and `Outer.writes_in_bounds` and `Outer.loads_in_bounds` show that none occurs. -/
namespace Outer

def byteBit (x : UInt8) (t : Nat) : Bool := (x.toNat >>> t) % 2 == 1

/-- the 64 registers after the loading loop: row `k` of the square is the 16 bytes `input[off + k·in_stride + 16·block ..]` (only the
    first `nbytes` of them for the partial block, the rest of the row stays zero) -/
def loadSquare (input : Array UInt8) (inStride off block nbytes : Nat) : Regs Bool := fun r q =>
  let k := 2 * r + q / 128
  let c := q % 128
  if c / 8 < nbytes then byteBit (input.getD (off + k * inStride + 16 * block + c / 8) 0) (c % 8) else false

/-- byte `b` of row `k` of the register file viewed as bytes (`must_cast_slice`) -/
def rowByte (s : Regs Bool) (k b : Nat) : UInt8 :=
  (List.range 8).foldl (fun (acc : UInt8) t => if s (k / 2) (k % 2 * 128 + 8 * b + t) then acc ||| ((1 : UInt8) <<< UInt8.ofNat t) else acc) 0

/-- store rows `0 .. nrows-1` of a transposed square, 16 bytes each, `outStride` apart -/
def storeSquare (o : Array UInt8) (s : Regs Bool) (outStride off nrows : Nat) : Array UInt8 :=
  (List.range nrows).foldl (fun o k => (List.range 16).foldl (fun o b => o.setIfInBounds (off + k * outStride + b) (rowByte s k b)) o) o

/-- one iteration of the `while j < c_main` loop: `g` squares starting at column block `j` -/
def group (input : Array UInt8) (inStride outStride i j g : Nat) (o : Array UInt8) : Array UInt8 :=
  (List.range g).foldl (fun o block =>
    storeSquare o (transpose128 (loadSquare input inStride (i * 128 * inStride + j * 16) block 16)) outStride
      (j * 128 * outStride + i * 16 + block * 128 * outStride) 128) o

/-- the `while` loop over the full column blocks of row block `i`; `choose i j` is `blocks_in_cache_line` (any value; `0` means 4) -/
def mainLoop (input : Array UInt8) (inStride outStride cMain i : Nat) (choose : Nat → Nat → Nat) : Nat → Nat → Array UInt8 → Array UInt8
  | 0, _, o => o
  | fuel + 1, j, o =>
    if j < cMain then
      let g := min (if choose i j = 0 then 4 else choose i j) (cMain - j)
      mainLoop input inStride outStride cMain i choose fuel (j + g) (group input inStride outStride i j g o)
    else o

/-- `handle_rest_cols` -/
def restCols (input : Array UInt8) (inStride outStride cRest i j : Nat) (o : Array UInt8) : Array UInt8 :=
  storeSquare o (transpose128 (loadSquare input inStride (i * 128 * inStride + j * 16) 0 (cRest / 8))) outStride (j * 128 * outStride + i * 16) cRest

/-- `avx2::transpose_bitmatrix(input, output, rows)` -/
def transposeInto (input : Array UInt8) (rows : Nat) (choose : Nat → Nat → Nat) (o0 : Array UInt8) : Array UInt8 :=
  let cols := input.size * 8 / rows
  let inStride := cols / 8
  let outStride := rows / 8
  let cMain := cols / 128
  let cRest := cols % 128
  (List.range (rows / 128)).foldl (fun o i =>
    let o := mainLoop input inStride outStride cMain i choose cMain 0 o
    if 0 < cRest then restCols input inStride outStride cRest i cMain o else o) o0

def transposeAvx (input : Array UInt8) (rows : Nat) (choose : Nat → Nat → Nat) : Array UInt8 :=
  transposeInto input rows choose (Array.replicate input.size 0)

end Outer
end PolytuneModel.Avx

/-! ### An executable form of the same model

    Evaluating `transpose128` on closures recomputes every earlier loop for every bit (and a definition that RETURNS a function is compiled
    with the function's arguments as its own, so nothing is shared between two bits). `transpose128A` tabulates the 64 × 256 bits of the
    register file in an array after every loop; read back through `ofArr` it is `transpose128` on all 64 registers (`transpose128A_eq`).
    The driver runs the `M` forms against the real function; the theorems are about the plain forms. -/
namespace PolytuneModel.Avx

def toArr (s : Regs Bool) : Array Bool := Array.ofFn (n := 16384) (fun i => s (i.val / 256) (i.val % 256))
def ofArr (a : Array Bool) : Regs Bool := fun r q => a.getD (256 * r + q) false

theorem ofArr_toArr (s : Regs Bool) (r q : Nat) (hr : r < 64) (hq : q < 256) : ofArr (toArr s) r q = s r q := by
  have hlt : 256 * r + q < 16384 := by omega
  have e1 : (256 * r + q) / 256 = r := by omega
  have e2 : (256 * r + q) % 256 = q := by omega
  simp [ofArr, toArr, Array.getD, hlt, e1, e2]

def transpose128A (s : Regs Bool) : Array Bool :=
  let a := toArr s
  let a := toArr (stage t2x2 1 (ofArr a))
  let a := toArr (stage (pswap 2 (maskN 1)) 1 (ofArr a))
  let a := toArr (stage (pswap 4 (maskN 2)) 2 (ofArr a))
  let a := toArr (stage (pswap 8 (maskN 3)) 4 (ofArr a))
  let a := toArr (stage (pswap 16 (maskN 4)) 8 (ofArr a))
  let a := toArr (stage (pswap 32 (maskN 5)) 16 (ofArr a))
  toArr (stage pswap64 32 (ofArr a))

namespace Outer

/-- byte `b` of row `k` read from the tabulated register file -/
def rowByteA (a : Array Bool) (k b : Nat) : UInt8 := rowByte (ofArr a) k b

def storeSquareA (o : Array UInt8) (a : Array Bool) (outStride off nrows : Nat) : Array UInt8 :=
  (List.range nrows).foldl (fun o k => (List.range 16).foldl (fun o b => o.setIfInBounds (off + k * outStride + b) (rowByteA a k b)) o) o

def groupM (input : Array UInt8) (inStride outStride i j g : Nat) (o : Array UInt8) : Array UInt8 :=
  (List.range g).foldl (fun o block =>
    storeSquareA o (transpose128A (loadSquare input inStride (i * 128 * inStride + j * 16) block 16)) outStride
      (j * 128 * outStride + i * 16 + block * 128 * outStride) 128) o

def mainLoopM (input : Array UInt8) (inStride outStride cMain i : Nat) (choose : Nat → Nat → Nat) : Nat → Nat → Array UInt8 → Array UInt8
  | 0, _, o => o
  | fuel + 1, j, o =>
    if j < cMain then
      let g := min (if choose i j = 0 then 4 else choose i j) (cMain - j)
      mainLoopM input inStride outStride cMain i choose fuel (j + g) (groupM input inStride outStride i j g o)
    else o

def restColsM (input : Array UInt8) (inStride outStride cRest i j : Nat) (o : Array UInt8) : Array UInt8 :=
  storeSquareA o (transpose128A (loadSquare input inStride (i * 128 * inStride + j * 16) 0 (cRest / 8))) outStride (j * 128 * outStride + i * 16) cRest

def transposeIntoM (input : Array UInt8) (rows : Nat) (choose : Nat → Nat → Nat) (o0 : Array UInt8) : Array UInt8 :=
  let cols := input.size * 8 / rows
  let inStride := cols / 8
  let outStride := rows / 8
  let cMain := cols / 128
  let cRest := cols % 128
  (List.range (rows / 128)).foldl (fun o i =>
    let o := mainLoopM input inStride outStride cMain i choose cMain 0 o
    if 0 < cRest then restColsM input inStride outStride cRest i cMain o else o) o0

def transposeAvxM (input : Array UInt8) (rows : Nat) (choose : Nat → Nat → Nat) : Array UInt8 :=
  transposeIntoM input rows choose (Array.replicate input.size 0)

end Outer
end PolytuneModel.Avx
