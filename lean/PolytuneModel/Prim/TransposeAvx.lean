/-! The AVX2 128×128 bit-matrix transpose of `src/transpose/avx2.rs` (`avx_transpose128x128` and its three helpers), intrinsic by
    intrinsic. A 256-bit register is a function from bit positions (`q < 256`, little-endian: bit `q` of the register is bit `q % 8`
    of byte `q / 8`) to bits. The definitions are polymorphic in the type of a "bit" (anything with `zero` and `xor`): the concrete
    semantics is the instance `Bool`; the proof evaluates the same definitions on symbolic bits. Every intrinsic used by the code
    only moves bits, XORs them, or ANDs them with a constant. -/
namespace PolytuneModel.Avx

class BitAlg (α : Type) where
  zero : α
  xor : α → α → α

instance : BitAlg Bool := ⟨false, fun a b => a != b⟩

variable {α : Type} [BitAlg α]

abbrev R (α : Type) := Nat → α

/-- `_mm256_xor_si256` -/
def rxor (a b : R α) : R α := fun q => BitAlg.xor (a q) (b q)
/-- `_mm256_and_si256` with a constant register -/
def randc (m : Nat → Bool) (a : R α) : R α := fun q => if m q then a q else BitAlg.zero
/-- `_mm256_slli_epi16` (`w = 16`) / `_mm256_slli_epi64` (`w = 64`): every `w`-bit element shifted left by `s` -/
def slli (w s : Nat) (a : R α) : R α := fun q => if q % w < s then BitAlg.zero else a (q - s)
/-- `_mm256_srli_epi16` / `_mm256_srli_epi64` -/
def srli (w s : Nat) (a : R α) : R α := fun q => if w ≤ q % w + s then BitAlg.zero else a (q + s)
/-- `_mm256_permute2x128_si256(x, y, 0x20)`: low lane of `x`, low lane of `y` -/
def perm20 (x y : R α) : R α := fun q => if q < 128 then x q else y (q - 128)
/-- `_mm256_permute2x128_si256(x, y, 0x31)`: high lane of `x`, high lane of `y` -/
def perm31 (x y : R α) : R α := fun q => if q < 128 then x (q + 128) else y q
/-- `_mm256_unpacklo_epi64` / `_mm256_unpackhi_epi64` (per 128-bit lane) -/
def unpacklo64 (x y : R α) : R α := fun q => if q % 128 < 64 then x (q / 128 * 128 + q % 64) else y (q / 128 * 128 + q % 64)
def unpackhi64 (x y : R α) : R α := fun q => if q % 128 < 64 then x (q / 128 * 128 + 64 + q % 64) else y (q / 128 * 128 + 64 + q % 64)
/-- `_mm256_set1_epi16(m)` (`w = 16`) / `_mm256_set1_epi64x(m)` (`w = 64`) -/
def set1 (w m : Nat) : Nat → Bool := fun q => m.testBit (q % w)

/-- `const fn mask(pattern, pattern_len)`: the pattern repeated to 64 bits (the `while` loop doubles the block; `fuel` ≥ 6 suffices) -/
def maskLoop : Nat → Nat → Nat → Nat
  | 0, m, _ => m
  | fuel + 1, m, len => if len < 64 then maskLoop fuel (((m <<< len) ||| m) % 2 ^ 64) (len * 2) else m
def mask (pattern len : Nat) : Nat := maskLoop 7 pattern len

/-- `MASK_N` of the `seq!` block -/
def maskN : Nat → Nat
  | 1 => mask 0b1100 4
  | 2 => mask 0b11110000 8
  | 3 => mask 0b1111111100000000 16
  | 4 => mask 0b11111111111111110000000000000000 32
  | _ => 0xffffffff00000000

/-- `transpose_2x2_matrices(x, y)` -/
def t2x2 (x y : R α) : R α × R α :=
  let u := perm20 x y
  let v := perm31 x y
  let diff := randc (set1 16 0b1010101010101010) (rxor u (slli 16 1 v))
  let u := rxor u diff
  let v := rxor v (srli 16 1 diff)
  (perm20 u v, perm31 u v)

/-- `partial_swap_sub_matrices::<SHIFT, MASK>(x, y)` -/
def pswap (shift m : Nat) (x y : R α) : R α × R α :=
  let diff := randc (set1 64 m) (rxor x (slli 64 shift y))
  (rxor x diff, rxor y (srli 64 shift diff))

/-- `partial_swap_64x64_matrices(x, y)` -/
def pswap64 (x y : R α) : R α × R α := (unpacklo64 x y, unpackhi64 x y)

/-- the 64 registers `in_out` -/
abbrev Regs (α : Type) := Nat → R α

def upd2 (s : Regs α) (a b : Nat) (p : R α × R α) : Regs α := fun r => if r = a then p.1 else if r = b then p.2 else s r

/-- `for chunk in in_out.chunks_exact_mut(2 * off) { (x_chunk, y_chunk) = chunk.split_at_mut(off); for (x, y) in zip … }`:
    the register pairs in the order the loops visit them -/
def pairs (off : Nat) : List (Nat × Nat) :=
  (List.range (64 / (2 * off))).flatMap fun c => (List.range off).map fun t => (c * (2 * off) + t, c * (2 * off) + off + t)

def stage (f : R α → R α → R α × R α) (off : Nat) (s : Regs α) : Regs α :=
  (pairs off).foldl (fun s ab => upd2 s ab.1 ab.2 (f (s ab.1) (s ab.2))) s

/-- `avx_transpose128x128(in_out)` -/
def transpose128 (s : Regs α) : Regs α :=
  let s := stage t2x2 1 s                       -- part 1: chunks_exact_mut(2)
  let s := stage (pswap 2 (maskN 1)) 1 s        -- N = 1: SHIFT 2, OFFSET 1
  let s := stage (pswap 4 (maskN 2)) 2 s
  let s := stage (pswap 8 (maskN 3)) 4 s
  let s := stage (pswap 16 (maskN 4)) 8 s
  let s := stage (pswap 32 (maskN 5)) 16 s
  stage pswap64 32 s                            -- phase 6

end PolytuneModel.Avx
