/-! Carry-less multiplication in GF(2)[X] (schoolbook specification) and bit-matrix transposition (specification).
    Import-free, executable. (C20, C11) -/
namespace PolytuneModel

/-- schoolbook carry-less product of two naturals read as polynomials over GF(2). -/
def clmulNat (a b : Nat) (bits : Nat) : Nat :=
  (List.range bits).foldl (fun acc i => if b.testBit i then acc ^^^ (a <<< i) else acc) 0

/-- 128×128 → (low 128, high 128). -/
def clmul128Spec (a b : Nat) : Nat × Nat :=
  let p := clmulNat (a % 2^128) (b % 2^128) 128
  (p % 2^128, p >>> 128)

/-- bit (r, c) of a row-major bit matrix with `cols` columns, bits LSB-first inside bytes. -/
def getBit (m : Array UInt8) (cols r c : Nat) : Bool := ((m.getD (r * cols / 8 + c / 8) 0).toNat >>> (c % 8)) % 2 == 1

/-- exact transpose of a `rows × cols` bit matrix (`cols` and `rows` multiples of 8). -/
def transposeSpec (m : Array UInt8) (rows : Nat) : Array UInt8 :=
  let cols := m.size * 8 / rows
  (Array.range (m.size)).map fun byteIdx =>
    -- output is a cols × rows matrix; byteIdx covers output row `c = byteIdx*8 / rows`, output columns `r0 .. r0+7`
    let c := byteIdx * 8 / rows; let r0 := byteIdx * 8 % rows
    (List.range 8).foldl (fun (acc : UInt8) j => if getBit m cols (r0 + j) c then acc ||| ((1 : UInt8) <<< UInt8.ofNat j) else acc) 0

end PolytuneModel
