/-! BLAKE3 (unkeyed hash, 32-byte output; first 16 bytes = what `finalize_xof().fill(&mut [u8;16])` yields). Reference
    implementation for the model side: commitments, `hash128`, `hash_vec`, the HaAND bit. Import-free, executable. -/
namespace PolytuneModel.Blake3

def IV : Array UInt32 := #[0x6A09E667, 0xBB67AE85, 0x3C6EF372, 0xA54FF53A, 0x510E527F, 0x9B05688C, 0x1F83D9AB, 0x5BE0CD19]
def PERM : Array Nat := #[2, 6, 3, 10, 7, 0, 4, 13, 1, 11, 12, 5, 9, 14, 15, 8]
def CHUNK_START : UInt32 := 1
def CHUNK_END : UInt32 := 2
def PARENT : UInt32 := 4
def ROOT : UInt32 := 8

def rotr (x : UInt32) (n : UInt32) : UInt32 := (x >>> n) ||| (x <<< (32 - n))

def g (s : Array UInt32) (a b c d : Nat) (mx my : UInt32) : Array UInt32 :=
  let sa := s.getD a 0 + s.getD b 0 + mx
  let sd := rotr (s.getD d 0 ^^^ sa) 16
  let sc := s.getD c 0 + sd
  let sb := rotr (s.getD b 0 ^^^ sc) 12
  let sa := sa + sb + my
  let sd := rotr (sd ^^^ sa) 8
  let sc := sc + sd
  let sb := rotr (sb ^^^ sc) 7
  (((s.setIfInBounds a sa).setIfInBounds b sb).setIfInBounds c sc).setIfInBounds d sd

def round (s m : Array UInt32) : Array UInt32 :=
  let s := g s 0 4 8 12 (m.getD 0 0) (m.getD 1 0)
  let s := g s 1 5 9 13 (m.getD 2 0) (m.getD 3 0)
  let s := g s 2 6 10 14 (m.getD 4 0) (m.getD 5 0)
  let s := g s 3 7 11 15 (m.getD 6 0) (m.getD 7 0)
  let s := g s 0 5 10 15 (m.getD 8 0) (m.getD 9 0)
  let s := g s 1 6 11 12 (m.getD 10 0) (m.getD 11 0)
  let s := g s 2 7 8 13 (m.getD 12 0) (m.getD 13 0)
  g s 3 4 9 14 (m.getD 14 0) (m.getD 15 0)

def permute (m : Array UInt32) : Array UInt32 := (Array.range 16).map fun i => m.getD (PERM.getD i 0) 0

/-- the compression function; returns the full 16-word state. -/
def compress (cv : Array UInt32) (block : Array UInt32) (counter : Nat) (blockLen flags : UInt32) : Array UInt32 := Id.run do
  let mut s : Array UInt32 := cv ++ #[IV.getD 0 0, IV.getD 1 0, IV.getD 2 0, IV.getD 3 0,
    UInt32.ofNat (counter % 2^32), UInt32.ofNat (counter / 2^32), blockLen, flags]
  let mut m := block
  for r in [0:7] do
    s := round s m
    if r < 6 then m := permute m
  let lo := (Array.range 8).map fun i => s.getD i 0 ^^^ s.getD (i + 8) 0
  let hi := (Array.range 8).map fun i => s.getD (i + 8) 0 ^^^ cv.getD i 0
  return lo ++ hi

def wordsOfBlock (bytes : Array UInt8) : Array UInt32 :=
  (Array.range 16).map fun w => (Array.range 4).foldl (fun acc k => acc ||| ((bytes.getD (4 * w + k) 0).toUInt32 <<< UInt32.ofNat (8 * k))) 0

/-- an "output" = the inputs of the last compression of a subtree, so that it can be finalised as root or as chaining value. -/
structure Output where
  cv : Array UInt32
  block : Array UInt32
  counter : Nat
  blockLen : UInt32
  flags : UInt32
deriving Inhabited

def Output.chaining (o : Output) : Array UInt32 := (compress o.cv o.block o.counter o.blockLen o.flags).extract 0 8
def Output.rootBytes (o : Output) : Array UInt8 :=
  let w := (compress o.cv o.block 0 o.blockLen (o.flags ||| ROOT)).extract 0 8
  w.flatMap fun x => (Array.range 4).map fun k => (x >>> UInt32.ofNat (8 * k)).toUInt8

/-- one chunk (≤ 1024 bytes) with chunk counter `idx`. -/
def chunkOutput (bytes : Array UInt8) (idx : Nat) : Output := Id.run do
  let nblocks := if bytes.size == 0 then 1 else (bytes.size + 63) / 64
  let mut cv := IV
  for b in [0:nblocks - 1] do
    let blk := bytes.extract (64 * b) (64 * b + 64)
    let fl := if b == 0 then CHUNK_START else 0
    cv := (compress cv (wordsOfBlock blk) idx 64 fl).extract 0 8
  let last := bytes.extract (64 * (nblocks - 1)) bytes.size
  let fl := (if nblocks == 1 then CHUNK_START else 0) ||| CHUNK_END
  return ⟨cv, wordsOfBlock last, idx, UInt32.ofNat last.size, fl⟩

def parentOutput (l r : Array UInt32) : Output := ⟨IV, l ++ r, 0, 64, PARENT⟩

/-- largest power of two strictly less than… i.e. the left subtree takes the largest power-of-two number of chunks < n. -/
def leftChunks (n : Nat) : Nat := Id.run do
  let mut p := 1
  while p * 2 < n do p := p * 2
  return p

def subtreeF : Nat → Array UInt8 → Nat → Nat → Output
  | 0, bytes, firstChunk, _ => chunkOutput bytes firstChunk
  | fuel+1, bytes, firstChunk, nChunks =>
    if nChunks ≤ 1 then chunkOutput bytes firstChunk
    else
      let l := leftChunks nChunks
      let left := subtreeF fuel (bytes.extract 0 (1024 * l)) firstChunk l
      let right := subtreeF fuel (bytes.extract (1024 * l) bytes.size) (firstChunk + l) (nChunks - l)
      parentOutput left.chaining right.chaining
def subtree (bytes : Array UInt8) (firstChunk nChunks : Nat) : Output := subtreeF nChunks bytes firstChunk nChunks

def hash (bytes : Array UInt8) : Array UInt8 :=
  let nChunks := if bytes.size == 0 then 1 else (bytes.size + 1023) / 1024
  (subtree bytes 0 nChunks).rootBytes

end PolytuneModel.Blake3
