/-! Chunk arithmetic shared by `FileOrMemBuf`, `chunk_size_iter` and the batch loops. Import-free. -/
namespace PolytuneModel

/-- `slice.chunks(s)` of Rust for `s > 0`: consecutive chunks of length `s`, the last one possibly shorter.
    Fuel = length of the list (each round removes at least one element). -/
def chunksOfAux {α} (s : Nat) : Nat → List α → List (List α)
  | 0, _ => []
  | _, [] => []
  | fuel+1, l => l.take s :: chunksOfAux s fuel (l.drop s)

def chunksOf {α} (s : Nat) (l : List α) : List (List α) := chunksOfAux s l.length l

/-- `protocol.rs::chunk_size_iter(total, chunk_size)`. -/
def chunkSizeIter (total chunk : Nat) : List Nat :=
  if chunk = 0 then [] else
    List.replicate (total / chunk) chunk ++ (if total % chunk ≠ 0 then [total % chunk] else [])

end PolytuneModel
