/-! bincode 2 "legacy" configuration (fixed-width little-endian integers, u64 length prefixes, 1-byte Option/bool tags)
    for the message types of the engine: typed encoders and total decoders. Import-free, executable. (C08, C09) -/
namespace PolytuneModel.Bincode

abbrev Bytes := List UInt8

def encU64 (n : Nat) : Bytes := (List.range 8).map fun i => UInt8.ofNat ((n >>> (8 * i)) % 256)
def encU128 (n : Nat) : Bytes := (List.range 16).map fun i => UInt8.ofNat ((n >>> (8 * i)) % 256)
def encBool (b : Bool) : Bytes := [if b then 1 else 0]
def encVec {α} (enc : α → Bytes) (l : List α) : Bytes := encU64 l.length ++ l.flatMap enc
def encOpt {α} (enc : α → Bytes) : Option α → Bytes
  | none => [0]
  | some a => 1 :: enc a
def encPair {α β} (ea : α → Bytes) (eb : β → Bytes) (p : α × β) : Bytes := ea p.1 ++ eb p.2

inductive DecErr | eof | badBool | badTag | tooLong
deriving Repr, DecidableEq

abbrev Dec (α : Type) := Bytes → Except DecErr (α × Bytes)

def decU8 : Dec Nat
  | [] => .error .eof
  | b :: r => .ok (b.toNat, r)
def decLE (k : Nat) : Dec Nat := fun bs =>
  if bs.length < k then .error .eof
  else .ok ((bs.take k).foldr (fun b acc => acc * 256 + b.toNat) 0, bs.drop k)
def decU64 : Dec Nat := decLE 8
def decU128 : Dec Nat := decLE 16
def decBool : Dec Bool
  | [] => .error .eof
  | 0 :: r => .ok (false, r)
  | 1 :: r => .ok (true, r)
  | _ :: _ => .error .badBool
def decOpt {α} (d : Dec α) : Dec (Option α)
  | [] => .error .eof
  | 0 :: r => .ok (none, r)
  | 1 :: r => match d r with | .ok (a, r') => .ok (some a, r') | .error e => .error e
  | _ :: _ => .error .badTag
def decPair {α β} (da : Dec α) (db : Dec β) : Dec (α × β) := fun bs =>
  match da bs with
  | .error e => .error e
  | .ok (a, r) => match db r with | .error e => .error e | .ok (b, r') => .ok ((a, b), r')
/-- decode `count` elements; structural recursion on the count. -/
def decN {α} (d : Dec α) : Nat → Dec (List α)
  | 0, bs => .ok ([], bs)
  | k+1, bs => match d bs with
    | .error e => .error e
    | .ok (a, r) => match decN d k r with | .error e => .error e | .ok (as, r') => .ok (a :: as, r')
/-- `Vec<T>`: u64 length, then the elements. A length prefix larger than the number of remaining bytes can never be
    honoured by an element type of non-zero size, so it is rejected before any work is done (serde's `cautious` size
    hint bounds the pre-allocation in the same way). -/
def decVec {α} (d : Dec α) : Dec (List α) := fun bs =>
  match decU64 bs with
  | .error e => .error e
  | .ok (n, r) => if n > r.length then .error .eof else decN d n r

/-! lengths depend on the SHAPE only -/
theorem encU64_length (n : Nat) : (encU64 n).length = 8 := by simp [encU64]
theorem encU128_length (n : Nat) : (encU128 n).length = 16 := by simp [encU128]

def countSome {α} (l : List (Option α)) : Nat := (l.filter Option.isSome).length

theorem flatMap_opt_length {α} (enc : α → Bytes) (k : Nat) (hk : ∀ a, (enc a).length = k) (l : List (Option α)) :
    (l.flatMap (encOpt enc)).length = l.length + k * countSome l := by
  induction l with
  | nil => simp [countSome]
  | cons o rest ih =>
    cases o with
    | none => simp [List.flatMap_cons, encOpt, ih, countSome]; omega
    | some a => simp [List.flatMap_cons, encOpt, ih, countSome, hk a, Nat.mul_add]; omega

/-- `Vec<Option<T>>` with fixed-size `T`: 8 + one tag byte per slot + |T| per present slot — whatever the values. -/
theorem encVecOpt_length {α} (enc : α → Bytes) (k : Nat) (hk : ∀ a, (enc a).length = k) (l : List (Option α)) :
    (encVec (encOpt enc) l).length = 8 + l.length + k * countSome l := by
  simp [encVec, encU64_length, flatMap_opt_length enc k hk l]; omega

/-- the three online-phase message shapes. -/
theorem len_shares (l : List (Option (Bool × Nat))) :
    (encVec (encOpt (encPair encBool encU128)) l).length = 8 + l.length + 17 * countSome l :=
  encVecOpt_length _ 17 (by intro a; simp [encPair, encBool, encU128_length]) l
theorem len_masked (l : List (Option Bool)) : (encVec (encOpt encBool) l).length = 8 + l.length + 1 * countSome l :=
  encVecOpt_length _ 1 (by intro a; simp [encBool]) l
theorem len_labels (l : List (Option Nat)) : (encVec (encOpt encU128) l).length = 8 + l.length + 16 * countSome l :=
  encVecOpt_length _ 16 (by intro a; simp [encU128_length]) l

end PolytuneModel.Bincode
