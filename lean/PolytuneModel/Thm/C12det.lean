import PolytuneModel.Thm.C12rounds
/-! C12, determinacy half — under ANY schedule every executed event carries the same value. Channels are FIFO: the k-th
    receive on a channel returns the payload of the k-th send (the property's own assumption). What a party sends is a
    function of what it has received before (`out`, local in program order). `canon` is a reference assignment of values
    (e.g. the one of the lock-step execution): a send carries `out` of the reference values, a receive the value of its
    matching send. Then every run, whatever the interleaving and the capacity, agrees with `canon` on everything it has
    executed — so any two runs agree with each other, and complete runs compute identical results. -/
namespace PolytuneModel.Sched
variable {C E M : Type} [DecidableEq E]

def upd (g : E → M) (e : E) (m : M) : E → M := fun x => if x = e then m else g x

structure Sem (S : Sys C E) (all : List E) (M : Type) where
  out : E → (E → M) → M
  out_local : ∀ e g g', (∀ a ∈ all, S.po a e → g a = g' a) → out e g = out e g'

inductive Run (S : Sys C E) (all : List E) (sem : Sem S all M) (g0 : E → M) : State E → (E → M) → Prop
  | init : Run S all sem g0 (initState all) g0
  | send {d g c k e} : Run S all sem g0 d g → EnabledSend S d c k e → Run S all sem g0 (exec d e) (upd g e (sem.out e g))
  | recv {d g c k e a} : Run S all sem g0 d g → EnabledRecv S d c k e → (S.sends c)[k]? = some a → Run S all sem g0 (exec d e) (upd g e (g a))

theorem run_reachable (S : Sys C E) (all : List E) (sem : Sem S all M) (g0 : E → M) (d : State E) (g : E → M)
    (h : Run S all sem g0 d g) : Reachable S all d := by
  induction h with
  | init => exact .init
  | send _ he ih => exact .step ih he.2.2.1
  | recv _ he _ ih => exact .step ih he.2.2.1

/-- in a prefix-closed state, an undone k-th element bounds the number of done elements by k. -/
theorem countDone_le (d : State E) (l : List E) (k : Nat) (e : E) (hk : l[k]? = some e) (he : d e = false)
    (hpre : PrefixClosed d l) : countDone d l ≤ k := by
  induction l generalizing k with
  | nil => simp at hk
  | cons x xs ih =>
    cases k with
    | zero =>
      simp at hk; subst hk
      have : ∀ b ∈ xs, d b = false := by
        intro b hb
        obtain ⟨j, hj⟩ := List.getElem?_of_mem hb
        cases hdb : d b with
        | false => rfl
        | true =>
          have := hpre 0 (j+1) x b (by simp) (by simpa using hj) (by omega) hdb
          simp [he] at this
      have h0 : xs.countP (fun e => d e) = 0 := by
        rw [List.countP_eq_zero]; intro b hb; simp [this b hb]
      simp [countDone, List.countP_cons, he, h0]
    | succ k =>
      have hk' : xs[k]? = some e := by simpa using hk
      have hp' : PrefixClosed d xs := fun i j a b ha hb hij hd => hpre (i+1) (j+1) a b (by simpa using ha) (by simpa using hb) (by omega) hd
      have := ih k hk' hp'
      simp only [countDone, List.countP_cons] at this ⊢
      split <;> omega

/-- **Determinacy.** Every run agrees with the reference values on every event it has executed. -/
theorem C12_run_canonical (S : Sys C E) (hs : PairSerial S) (all : List E)
    (hin : ∀ (c : C) (k : Nat) (e : E), ((S.sends c)[k]? = some e ∨ (S.recvs c)[k]? = some e) → e ∈ all)
    (sem : Sem S all M) (canon : E → M)
    (hsend : ∀ (c : C) (k : Nat) (e : E), (S.sends c)[k]? = some e → canon e = sem.out e canon)
    (hrecv : ∀ (c : C) (k : Nat) (e a : E), (S.recvs c)[k]? = some e → (S.sends c)[k]? = some a → canon e = canon a)
    (g0 : E → M) (d : State E) (g : E → M) (h : Run S all sem g0 d g) :
    ∀ e ∈ all, d e = true → g e = canon e := by
  induction h with
  | init => intro e he hd; simp [initState, he] at hd
  | @send d g c k e hrun hen ih =>
    intro x hx hdx
    unfold exec at hdx; unfold upd
    by_cases hxe : x = e
    · subst hxe
      simp only [if_true]
      rw [hsend c k x hen.1]
      exact sem.out_local x g canon (fun a ha hpo => ih a ha (hen.2.2.1 a hpo))
    · simp only [hxe, if_false] at hdx ⊢; exact ih x hx hdx
  | @recv d g c k e a hrun hen ha ih =>
    intro x hx hdx
    unfold exec at hdx; unfold upd
    by_cases hxe : x = e
    · subst hxe
      simp only [if_true]
      rw [hrecv c k x a hen.1 ha]
      -- the matching send has been executed: k receives are done, something is in flight, executed sends are a prefix
      have hreach := run_reachable S all sem g0 d g hrun
      obtain ⟨hps, hpr⟩ := reachable_prefix S hs all hin d hreach
      have hR : countDone d (S.recvs c) = k :=
        countDone_prefix d _ k x hen.1 hen.2.1 (fun i b hi hb => hen.2.2.1 b (hs.recvs c i k b x hb hen.1 hi)) (hpr c)
      have hfl := hen.2.2.2
      unfold inflight at hfl; rw [hR] at hfl
      have hda : d a = true := by
        cases hda : d a with
        | true => rfl
        | false => have := countDone_le d (S.sends c) k a ha hda (hps c); omega
      exact ih a (hin c k a (.inl ha)) hda
    · simp only [hxe, if_false] at hdx ⊢; exact ih x hx hdx

/-- any two runs — different schedules, even different capacities are covered by running the theorem per system — agree
    on every event both have executed; in particular two complete runs compute the same values everywhere. -/
theorem C12_schedule_independent (S : Sys C E) (hs : PairSerial S) (all : List E)
    (hin : ∀ (c : C) (k : Nat) (e : E), ((S.sends c)[k]? = some e ∨ (S.recvs c)[k]? = some e) → e ∈ all)
    (sem : Sem S all M) (canon : E → M)
    (hsend : ∀ (c : C) (k : Nat) (e : E), (S.sends c)[k]? = some e → canon e = sem.out e canon)
    (hrecv : ∀ (c : C) (k : Nat) (e a : E), (S.recvs c)[k]? = some e → (S.sends c)[k]? = some a → canon e = canon a)
    (g0 g0' : E → M) (d d' : State E) (g g' : E → M) (h : Run S all sem g0 d g) (h' : Run S all sem g0' d' g') :
    ∀ e ∈ all, d e = true → d' e = true → g e = g' e := by
  intro e he hd hd'
  rw [C12_run_canonical S hs all hin sem canon hsend hrecv g0 d g h e he hd,
      C12_run_canonical S hs all hin sem canon hsend hrecv g0' d' g' h' e he hd']

end PolytuneModel.Sched
