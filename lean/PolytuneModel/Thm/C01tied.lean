import PolytuneModel.Proto.OnlineMsgs
/-! C01 on the TIED model. `OnlineMsgs.online` is the message-level model whose every message and garbled row is compared byte for
    byte with the real traffic (`drive C01m`); its register state is the fold of the very `step` function `C01_honest_correct` is
    about. Hence, whenever the tapped preprocessing material is valid (`PreOK`) and the AND shares are correct (`AndsOK` — what
    C10 delivers), the results the tied model returns are exactly the property's statement: the clear-text value of the circuit
    at every output party, the empty vector elsewhere. -/
namespace PolytuneModel.OnlineMsgs

/-- the state component of `walk` is the joint run of the proof model. -/
theorem walk_state (n e : Nat) (c : Coins) (insts : List Inst) : (walk n e c insts).1 = runJoint n e c insts := by
  unfold walk runJoint
  -- generalise the accumulator and the index offset
  have h : ∀ (l : List Inst) (k : Nat) (acc : St × List Online.Row × List (Nat × Bool)),
      ((l.zipIdx k).foldl (fun (acc : St × List Online.Row × List (Nat × Bool)) (iw : Inst × Nat) =>
        let (s, rows, masked) := acc
        let s' := step n e c s iw.1
        match iw.1.op with
        | .and a b => (s', rows ++ rowsAt n e c s iw.2 a b, masked)
        | .input _ _ => (s', rows, masked ++ [(iw.1.out, s'.val iw.1.out)])
        | _ => (s', rows, masked)) acc).1 = l.foldl (step n e c) acc.1 := by
    intro l
    induction l with
    | nil => intro k acc; rfl
    | cons i rest ih =>
      intro k acc
      obtain ⟨s, rows, masked⟩ := acc
      simp only [List.zipIdx_cons, List.foldl_cons]
      rw [ih (k + 1)]
      cases hop : i.op <;> simp [hop]
  exact h insts 0 (init, [], [])

/-- **C01 for the tied message-level model.** -/
theorem C01_tied_model_results (t : Online.Taps) (circ : Circuit) (e : Nat) (pOut : List Nat) (inputs : List (List Bool))
    (he : e < t.n)
    (hc : PreOK t.n (coinsOfTaps t circ.numInputs (inputsOf inputs)))
    (ha : AndsOK t.n e (coinsOfTaps t circ.numInputs (inputsOf inputs)) init circ.insts) :
    (online t circ e pOut inputs).results
      = (List.range t.n).map (fun p => (p, if pOut.contains p then circ.eval inputs else [])) := by
  have hcorr := (C01_honest_correct t.n e he (coinsOfTaps t circ.numInputs (inputsOf inputs)) hc circ inputs rfl ha).1
  simp only [online]
  rw [← walk_state] at hcorr
  apply List.map_congr_left
  intro p _
  simp only [hcorr]

end PolytuneModel.OnlineMsgs
