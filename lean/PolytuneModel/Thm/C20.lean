import PolytuneModel.Gen.Gf128
/-! C20 — carry-less multiplication: the portable Karatsuba code (translated from `gf128.rs::scalar` on every run) and the
    PCLMULQDQ four-product code compute the same (low, high) pair, for all 2^256 operand pairs, given only that the 64-bit
    primitive they are built on is XOR-bilinear (which the schoolbook definition is). -/
namespace PolytuneModel

theorem bxcl (a b : BitVec 128) : a ^^^ (a ^^^ b) = b := by
  rw [← BitVec.xor_assoc, BitVec.xor_self, BitVec.zero_xor]
theorem bxlc (a b c : BitVec 128) : a ^^^ (b ^^^ c) = b ^^^ (a ^^^ c) := by
  rw [← BitVec.xor_assoc, BitVec.xor_comm a b, BitVec.xor_assoc]

/-- `_mm_clmulepi64_si128` composition of `gf128.rs::clmul::clmul128`, with the intrinsic as a parameter `I`
    (imm 0x00: low·low, 0x11: high·high, 0x01: a.high·b.low, 0x10: a.low·b.high; `_mm_slli_si128::<8>` / `_mm_srli_si128::<8>`
    are 64-bit shifts of the 128-bit lane). -/
def pclmul128 (I : BitVec 64 → BitVec 64 → BitVec 128) (a b : BitVec 128) : BitVec 128 × BitVec 128 :=
  let (aLo, aHi) := (a.setWidth 64, (a >>> 64).setWidth 64)
  let (bLo, bHi) := (b.setWidth 64, (b >>> 64).setWidth 64)
  let abLow := I aLo bLo
  let abHigh := I aHi bHi
  let abMid := I aHi bLo ^^^ I aLo bHi
  (abLow ^^^ (abMid <<< 64), abHigh ^^^ (abMid >>> 64))

/-- Karatsuba's identity over any XOR-bilinear product. -/
theorem karatsuba_mid (I : BitVec 64 → BitVec 64 → BitVec 128)
    (hl : ∀ x x' y, I (x ^^^ x') y = I x y ^^^ I x' y) (hr : ∀ x y y', I x (y ^^^ y') = I x y ^^^ I x y')
    (al ah bl bh : BitVec 64) :
    I (al ^^^ ah) (bl ^^^ bh) ^^^ I al bl ^^^ I ah bh = I ah bl ^^^ I al bh := by
  rw [hl, hr, hr]
  simp only [BitVec.xor_assoc, BitVec.xor_comm, bxlc, BitVec.xor_self, bxcl, BitVec.xor_zero, BitVec.zero_xor]

/-- **C20: scalar (Karatsuba over the "holes" multiply) = SIMD (four PCLMUL products), for every pair of operands.** -/
theorem C20_scalar_eq_simd (I : BitVec 64 → BitVec 64 → BitVec 128)
    (hI : ∀ x y, Gen.clmul64 x y = I x y)
    (hl : ∀ x x' y, I (x ^^^ x') y = I x y ^^^ I x' y) (hr : ∀ x y y', I x (y ^^^ y') = I x y ^^^ I x y')
    (a b : BitVec 128) : Gen.clmul128 a b = pclmul128 I a b := by
  simp only [Gen.clmul128, pclmul128, hI]
  rw [karatsuba_mid I hl hr]

/-- the translated code reproduces the repository's own test vector inside the kernel (a test, not the theorem). -/
example : Gen.clmul128 0x19831239123916248127031273012381#128 0xabcdef0123456789abcdef0123456789#128
    = (0xa5de9b50e6db7b5147e92b99ee261809#128, 0xf1d6d37d58114afed2addfedd7c77f7#128) := by decide

end PolytuneModel
