import PolytuneModel.Thm.C12phases
import PolytuneModel.Thm.C12det
/-! C12, determinacy for phase-structured protocols without any assumption about reference values: they are CONSTRUCTED by
    recursion on the rank `W·phase + position` (the lock-step execution), and every run under every schedule agrees with them. -/
namespace PolytuneModel.Sched
variable {M : Type} [Inhabited M]

/-- the send that a receive event matches (a send matches itself). -/
def Ev.theSend (e : Ev) : Ev := if e.send then e else ⟨e.r, e.q, e.p, true⟩

/-- reference values of all events of rank `< t` (default elsewhere), by recursion on the rank `W·phase + sub`:
    a send carries `out` of the values before it, a receive the value of its matching send. -/
def lockstep (rk : Ev → Nat) (out : Ev → (Ev → M) → M) : Nat → Ev → M
  | 0 => fun _ => default
  | t+1 => fun e =>
    if rk e < t then lockstep rk out t e
    else if rk e = t then (if e.send then out e (lockstep rk out t) else lockstep rk out t e.theSend)
    else default

def canonOf (rk : Ev → Nat) (out : Ev → (Ev → M) → M) (e : Ev) : M := lockstep rk out (rk e + 1) e

theorem lockstep_stable (rk : Ev → Nat) (out : Ev → (Ev → M) → M) (e : Ev) (t : Nat) (h : rk e < t) :
    lockstep rk out t e = canonOf rk out e := by
  induction t with
  | zero => omega
  | succ t ih =>
    by_cases hlt : rk e < t
    · rw [← ih hlt]; simp [lockstep, hlt]
    · have : rk e = t := by omega
      subst this; rfl

theorem canonOf_send (rk : Ev → Nat) (out : Ev → (Ev → M) → M) (e : Ev) (h : e.send = true) :
    canonOf rk out e = out e (lockstep rk out (rk e)) := by
  simp [canonOf, lockstep, h]

theorem canonOf_recv (rk : Ev → Nat) (out : Ev → (Ev → M) → M) (e : Ev) (h : e.send = false) :
    canonOf rk out e = lockstep rk out (rk e) e.theSend := by
  simp [canonOf, lockstep, h]

/-- **C12 (determinacy) for phase-structured protocols:** any two runs of the same protocol — any schedules — agree on every
    event both have executed. No hypothesis beyond `Phased.Ok` and locality of `out`. -/
theorem C12_phased_schedule_independent (P : Phased) (ok : P.Ok) (sem : Sem P.sys P.all M)
    (g0 g0' : Ev → M) (d d' : State Ev) (g g' : Ev → M)
    (h : Run P.sys P.all sem g0 d g) (h' : Run P.sys P.all sem g0' d' g') :
    ∀ e ∈ P.all, d e = true → d' e = true → g e = g' e := by
  let rk : Ev → Nat := (P.labelling ok).rank
  have hrk : ∀ a b, P.po a b → rk a < rk b := fun a b hpo => by
    have := ok.upper a b hpo
    show P.W * a.r + P.sub a < P.W * b.r + P.sub b
    rcases this with h | ⟨h1, h2⟩
    · exact rank_lt_of_round_lt _ _ _ _ _ h (ok.bound a)
    · rw [h1]; omega
  refine C12_schedule_independent P.sys (P.pairSerial ok) P.all P.mem_all sem (canonOf rk sem.out) ?_ ?_ g0 g0' d d' g g' h h'
  · -- a send carries `out` of the reference values
    intro c k e hk
    obtain ⟨r, _, rfl⟩ := map_idx _ _ _ _ hk
    rw [canonOf_send _ _ _ rfl]
    apply sem.out_local
    intro a _ hpo
    exact lockstep_stable rk sem.out a _ (hrk a _ hpo)
  · -- a receive carries the value of its matching send
    intro c k e a hke hka
    obtain ⟨r, hr, rfl⟩ := map_idx _ _ _ _ hke
    obtain ⟨r', hr', rfl⟩ := map_idx _ _ _ _ hka
    rw [hr] at hr'; cases hr'
    rw [canonOf_recv _ _ _ rfl]
    simp only [Ev.theSend, Bool.false_eq_true, if_false]
    apply lockstep_stable
    show P.W * r + P.sub ⟨r, c.1, c.2, true⟩ < P.W * r + P.sub ⟨r, c.2, c.1, false⟩
    have := ok.matchSub r c.1 c.2; omega

/-- non-vacuity: in the 3-party all-to-all demo a first send is enabled and yields a run. -/
def demoSem : Sem demo.sys demo.all Nat := ⟨fun e _ => e.r + 7, fun _ _ _ _ => rfl⟩

example : ∃ d g, Run demo.sys demo.all demoSem (fun _ => 0) d g ∧ d ⟨0, 0, 1, true⟩ = true ∧ g ⟨0, 0, 1, true⟩ = 7 := by
  have hen : EnabledSend demo.sys (initState demo.all) (0, 1) 0 ⟨0, 0, 1, true⟩ := by
    refine ⟨by decide, by decide, ?_, by decide⟩
    intro a ha
    rcases ha.2 with h | ⟨_, _, h⟩
    · simp at h
    · simp at h
  exact ⟨_, _, .send .init hen, by simp [exec], by simp [upd, demoSem]⟩

end PolytuneModel.Sched
