/-! C03 — broadcast with abort (`faand.rs::broadcast_verification`, the echo round of Goldwasser–Lindell).

    `recv i j` is what party `i` received from party `j` in the broadcast proper. In the echo round party `k` tells party `i`, for every
    `j ∉ {i, k}`, the hash of what `k` received from `j`; party `i` accepts iff every such echo equals the hash of what `i` itself received
    from `j` (the two nested loops of the function, `vec_k[j] != Some(hash_vecs[j]) ⇒ InconsistentBroadcast`).

    * `C03_broadcast_consistent`: if honest party `i` accepts, `k ≠ i` is honest and the hash is collision-free, then `i` and `k` hold the same
      value from EVERY other party `j` — whatever `j` (possibly corrupted) sent to whom, and whatever other parties echoed.
    * `C03_cex_half_echo`: if party `i` only verifies the parties `j > i` (a "halved" echo round), the lowest-index party can equivocate:
      an explicit 3-party instance in which both honest parties accept and hold different values. -/
namespace PolytuneModel.Bcast

variable {V H : Type} [DecidableEq H]

/-- the acceptance test of honest party `i`; `echo k j` is what party `k` echoed to `i` about `j` (honest `k`: `hash (recv k j)`) -/
def accepts (n : Nat) (hash : V → H) (recv : Nat → Nat → V) (echo : Nat → Nat → H) (i : Nat) : Bool :=
  (List.range n).all fun k => k == i || (List.range n).all fun j => j == i || j == k || decide (echo k j = hash (recv i j))

theorem C03_broadcast_consistent (n : Nat) (hash : V → H) (recv : Nat → Nat → V)
    (echoTo : Nat → Nat → Nat → H)                      -- echoTo i k j: what `k` echoed to `i` about `j`
    (i k : Nat) (hk : k < n) (hik : i ≠ k)
    (honest_k : ∀ j, echoTo i k j = hash (recv k j))     -- `k` is honest: it echoes to `i` the hash of what it received
    (hinj : ∀ a b, hash a = hash b → a = b)
    (acc_i : accepts n hash recv (echoTo i) i = true) (j : Nat) (hj : j < n) (hji : j ≠ i) (hjk : j ≠ k) :
    recv i j = recv k j := by
  unfold accepts at acc_i
  have h1 := List.all_eq_true.mp acc_i k (List.mem_range.mpr hk)
  have hk' : (k == i) = false := by simp [Ne.symm hik]
  simp only [hk', Bool.false_or] at h1
  have h2 := List.all_eq_true.mp h1 j (List.mem_range.mpr hj)
  have e1 : (j == i) = false := by simp [hji]
  have e2 : (j == k) = false := by simp [hjk]
  simp only [e1, e2, Bool.false_or, decide_eq_true_eq] at h2
  rw [honest_k] at h2
  exact (hinj _ _ h2).symm

/-- the halved test: party `i` only looks at echoes about parties `j > i` -/
def acceptsHalf (n : Nat) (hash : V → H) (recv : Nat → Nat → V) (echo : Nat → Nat → H) (i : Nat) : Bool :=
  (List.range n).all fun k => k == i || (List.range n).all fun j => decide (j ≤ i) || j == k || decide (echo k j = hash (recv i j))

/-- three parties, party 0 sends `10` to party 1 and `20` to party 2; parties 1 and 2 are honest, echo truthfully, and both accept -/
theorem C03_cex_half_echo :
    let recv : Nat → Nat → Nat := fun i j => if j = 0 then (if i = 1 then 10 else 20) else 7
    let echoTo : Nat → Nat → Nat → Nat := fun _ k j => recv k j
    acceptsHalf 3 id recv (echoTo 1) 1 = true ∧ acceptsHalf 3 id recv (echoTo 2) 2 = true ∧ recv 1 0 ≠ recv 2 0 := by decide

/-- the full test rejects that instance at both honest parties -/
theorem C03_full_echo_rejects :
    let recv : Nat → Nat → Nat := fun i j => if j = 0 then (if i = 1 then 10 else 20) else 7
    let echoTo : Nat → Nat → Nat → Nat := fun _ k j => recv k j
    accepts 3 id recv (echoTo 1) 1 = false ∧ accepts 3 id recv (echoTo 2) 2 = false := by decide

end PolytuneModel.Bcast
