import PolytuneModel.Gen.Sites
/-! The property theorems about CHECKS (C03, C04, C08, C14, C16, C18) are statements about model handlers that contain those checks.
    The correspondence harness ties each check to the code dynamically (a forged value must be rejected); this file ties them
    statically: `Gen.errSites` is regenerated from the sources on every run, and for each property the checks its theorems rely on
    must still be present — in the function that performs them, at least as many times as the model has them. A check that is
    deleted, or moved to another function, breaks the corresponding `decide` below even if no sampled execution notices. -/
namespace PolytuneModel

def siteCount (file fn variant : String) : Nat :=
  (Gen.errSites.filter fun s => s.1 == file && s.2.1 == fn && s.2.2.1 == variant).foldl (fun acc s => acc + s.2.2.2) 0

def present (req : List (String × String × String × Nat)) : Bool :=
  req.all fun r => decide (r.2.2.2 ≤ siteCount r.1 r.2.1 r.2.2.1)

/-- online-phase checks behind C02 / C03 (`macCheck_detect_or_extract`, `C03_output_label`, `openReg_detect_or_extract`). -/
def sitesC03 : List (String × String × String × Nat) := [
  ("protocol.rs", "input_processing", "InvalidInputMacForInst", 2),   -- missing share / wrong MAC on an input-wire share
  ("protocol.rs", "input_processing", "ConflictingInputMask", 1),
  ("protocol.rs", "evaluate", "InvalidInputMacForInst", 2),           -- MAC of the share garbled into a row
  ("protocol.rs", "output", "InvalidOutputMac", 2),
  ("protocol.rs", "output", "MissingOutputShareForOutReg", 2),
  ("protocol.rs", "output", "InvalidOutputLabel", 1),
  ("faand.rs", "broadcast_verification", "InconsistentBroadcast", 1)]
theorem C03_check_sites_present : present sitesC03 = true := by decide

/-- preprocessing checks behind C04 (and the length guards behind C08). -/
def sitesC04 : List (String × String × String × Nat) := [
  ("faand.rs", "shared_rng", "CommitmentCouldNotBeOpened", 1),
  ("faand.rs", "shared_rng_pairwise", "CommitmentCouldNotBeOpened", 1),
  ("faand.rs", "fabitn", "ABitWrongMAC", 1),
  ("faand.rs", "fashare", "AShareWrongMAC", 2),                       -- claimed bit before opening; XOR of MACs after
  ("faand.rs", "fashare", "CommitmentCouldNotBeOpened", 2),           -- d_b, and the decommitment dm
  ("faand.rs", "fashare", "InvalidBitValue", 1),
  ("faand.rs", "flaand", "CommitmentCouldNotBeOpened", 1),
  ("faand.rs", "flaand", "LaANDXorNotZero", 1),
  ("faand.rs", "check_dvalue", "AANDWrongMAC", 1),
  ("faand.rs", "beaver_aand", "BeaverWrongMAC", 1),
  ("faand.rs", "broadcast_verification", "InconsistentBroadcast", 1),
  ("kos.rs", "send_setup", "KOSConsistencyCheckFailed", 1)]
theorem C04_check_sites_present : present sitesC04 = true := by decide

def sitesC08 : List (String × String × String × Nat) := [
  ("faand.rs", "fashare", "InvalidLength", 1),
  ("faand.rs", "check_dvalue", "InvalidLength", 1),
  ("faand.rs", "fabitn", "InvalidLength", 1),
  ("faand.rs", "flaand", "InvalidLength", 1),
  ("faand.rs", "beaver_aand", "InvalidLength", 1)]
theorem C08_length_guards_present : present sitesC08 = true := by decide

/-- server core: the error replies of `Server.step` (C14, C16). -/
def sitesC14 : List (String × String × String × Nat) := [
  ("state.rs", "schedule", "InvalidStateLeader", 1),
  ("state.rs", "schedule", "InvalidStateFollower", 1),
  ("state.rs", "schedule", "InvalidProgram", 1),
  ("state.rs", "validate", "InvalidState", 1),
  ("state.rs", "run", "InvalidState", 1),
  ("state.rs", "consts", "InvalidState", 1),
  ("state.rs", "msg", "UnknownSender", 1)]
theorem C14_reply_sites_present : present sitesC14 = true := by decide

def sitesC16 : List (String × String × String × Nat) := [
  ("state.rs", "schedule", "LeaderMismatch", 2),
  ("state.rs", "schedule", "ProgramHashMismatch", 1),
  ("state.rs", "validate", "LeaderMismatch", 1),
  ("state.rs", "validate", "ProgramHashMismatch", 1),
  ("state.rs", "schedule", "InvalidProgram", 1)]
theorem C16_reply_sites_present : present sitesC16 = true := by decide

/-- `protocol.rs::validate` (C18): one site per guard of `Proto/Validate.validateArgs`. -/
def sitesC18 : List (String × String × String × Nat) := [
  ("protocol.rs", "validate", "PartyDoesNotExist", 2),
  ("protocol.rs", "validate", "WrongInputSize", 1),
  ("protocol.rs", "validate", "MissingOutputParties", 1),
  ("protocol.rs", "validate", "InvalidOutputParty", 1),
  ("protocol.rs", "validate", "InvalidInput", 1)]
theorem C18_guard_sites_present : present sitesC18 = true := by decide

end PolytuneModel
