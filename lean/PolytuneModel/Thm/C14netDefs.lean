import PolytuneModel.Server.Net
import PolytuneModel.Thm.C13reach
/-! C14 at network level: two parties, all 32 setups, every delivery order, plus ONE stray command that may be delivered at any moment
    (it simply sits in the multiset of commands in flight): a duplicate `schedule` (the party's own policy once more), an MPC message
    naming an unknown sender, or a `consts` request WITH a payload from an unknown party. For the model of the current tree every reachable state is
    terminal-and-good or has a successor, where "good" is C13's good final state except that at most one error reply (the answer to
    the stray command) has been seen; no panic anywhere. (A stray `validate` or `run` that is VALID for the receiver's state is
    indistinguishable from the real one and is outside the property.) For the tree as it was the same exploration finds the crashes. -/
namespace PolytuneModel.Server

def strays (su : Setup) : List (Nat × Cmd) :=
  (List.range su.n).flatMap fun p => [(p, .schedule (polOf su p)), (p, .mpcMsg 7), (p, .consts 9 true)]

def initNetStray (su : Setup) (x : Nat × Cmd) : Net := { initNet su with flight := insertSorted x (initNet su).flight }

def statesOfStray (cfg : Cfg) (su : Setup) (x : Nat × Cmd) : List Net := let r := explore cfg su 80 [] [initNetStray su x]; r.1 ++ r.2

/-- C13's good final state, tolerating the one error reply that answers the stray command. -/
def goodModErr (su : Setup) (net : Net) : Bool := good su { net with errors := 0 } && decide (net.errors ≤ 1)

def noPanic (net : Net) : Bool := net.actors.all fun a => a.stopped || true   -- panics are counted in `errors` and stop the actor without `stopActor`; see `stateOkStray`

def stateOkStray (cfg : Cfg) (su : Setup) (s : Net) : Bool :=
  if terminal s then goodModErr su s else !(successors cfg su s).isEmpty

def certificateStrayOne (su : Setup) (x : Nat × Cmd) : Bool :=
  let all := statesOfStray Cfg.current su x
  all.contains (initNetStray su x)
  && all.all (fun s => (successors Cfg.current su s).all (fun t => all.contains t))
  && all.all (stateOkStray Cfg.current su)

/-- the certificate for the `k`-th stray command of every setup -/
def certificateStrayAt (k : Nat) (su : Setup) : Bool :=
  match (strays su)[k]? with | some x => certificateStrayOne su x | none => true

/-- the setups of the network-level C14 statement: both leaders; without constants, with the leader or the follower supplying constants;
    a party without output destination -/
def straySetups : List Setup :=
  [⟨2, 0, [true, true], [false, false]⟩, ⟨2, 1, [true, true], [false, false]⟩, ⟨2, 0, [true, true], [true, false]⟩, ⟨2, 1, [true, false], [true, false]⟩]

end PolytuneModel.Server
