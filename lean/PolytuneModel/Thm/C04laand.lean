import PolytuneModel.Lemmas.AndGate
/-! C04 / C10 — the leaky-AND consistency check of `flaand` (steps 4–7), all n, any hash `Hh : V → V`:
    with valid x, y, z shares the XOR of all parties' `H_i` is EXACTLY `(⨁z ⊕ (⨁x)(⨁y)) · ⨁Δ`.
    So an honest triple passes (`LaANDXorNotZero` is not raised) and a triple with a wrong product is rejected
    unless the global keys XOR to zero. -/
namespace PolytuneModel

theorem xsum_swap (n m : Nat) (f : Nat → Nat → V) :
    xsum n (fun i => xsum m (fun j => f i j)) = xsum m (fun j => xsum n (fun i => f i j)) := by
  induction n with
  | zero => simp only [xsum]; exact (xsum_zero m).symm
  | succ n ih => simp only [xsum, ih, xsum_xor]

theorem xsum_sc_const (n : Nat) (b : Bool) (f : Nat → V) : xsum n (fun k => sc b (f k)) = sc b (xsum n f) := by
  cases b
  · simp only [sc_false]; exact xsum_zero n
  · simp

/-- sum over `k ≠ i`. -/
def od (n i : Nat) (f : Nat → V) : V := xsum n (fun k => if k = i then 0 else f k)

theorem od_xor (n i : Nat) (f g : Nat → V) : od n i (fun k => f k ^^^ g k) = od n i f ^^^ od n i g := by
  unfold od; rw [← xsum_xor]; apply xsum_congr; intro k _; by_cases h : k = i <;> simp [h]

theorem od_congr (n i : Nat) (f g : Nat → V) (h : ∀ k, k < n → k ≠ i → f k = g k) : od n i f = od n i g := by
  unfold od; apply xsum_congr; intro k hk; by_cases hki : k = i
  · simp [hki]
  · simp [hki, h k hk hki]

theorem od_full (n i : Nat) (f : Nat → V) (hi : i < n) : f i ^^^ od n i f = xsum n f := (xsum_split n i f hi).symm

/-- ordered pairs cancel: `⨁_i ⨁_{k≠i} (g i k ⊕ g k i) = 0`. -/
theorem pairs_cancel (n : Nat) (g : Nat → Nat → V) : xsum n (fun i => od n i (fun k => g i k ^^^ g k i)) = 0 := by
  have e : ∀ i, od n i (fun k => g i k ^^^ g k i)
      = xsum n (fun k => if k = i then 0 else g i k) ^^^ xsum n (fun k => if i = k then 0 else g k i) := by
    intro i; rw [← xsum_xor]; unfold od; apply xsum_congr; intro k _
    by_cases h : k = i
    · subst h; simp
    · have h' : ¬ i = k := fun e => h e.symm
      simp [h, h']
  simp only [e, xsum_xor]
  rw [xsum_swap n n (fun i k => if i = k then 0 else g k i)]
  exact BitVec.xor_self

/-- for valid shares, `⨁_i [⨁_{k≠i} (mac_i[k] ⊕ key_i[k]) ⊕ bit_i·Δ_i] = (⨁ bits)·(⨁ Δ)`. -/
theorem valid_total (n : Nat) (Δ : Nat → V) (s : Nat → Share) (hs : Valid n Δ s) :
    xsum n (fun i => od n i (fun k => (s i).mac k ^^^ (s i).key k) ^^^ sc (s i).bit (Δ i))
      = sc (bsum n (fun i => (s i).bit)) (xsum n Δ) := by
  have e : ∀ i, i < n → od n i (fun k => (s i).mac k ^^^ (s i).key k) ^^^ sc (s i).bit (Δ i)
      = od n i (fun k => (s k).key i ^^^ (s i).key k) ^^^ sc (s i).bit (xsum n Δ) := by
    intro i hi
    have h1 : od n i (fun k => (s i).mac k ^^^ (s i).key k)
        = od n i (fun k => ((s k).key i ^^^ (s i).key k) ^^^ sc (s i).bit (Δ k)) := by
      apply od_congr; intro k hk hki
      rw [hs.mac i k hi hk (Ne.symm hki)]; xor_nf
    rw [h1, od_xor, BitVec.xor_assoc]
    congr 1
    have : od n i (fun k => sc (s i).bit (Δ k)) ^^^ sc (s i).bit (Δ i) = xsum n (fun k => sc (s i).bit (Δ k)) := by
      rw [BitVec.xor_comm]; exact od_full n i (fun k => sc (s i).bit (Δ k)) hi
    rw [this, xsum_sc_const]
  rw [xsum_congr n _ _ e, xsum_xor]
  have hc : xsum n (fun i => od n i (fun k => (s k).key i ^^^ (s i).key k)) = 0 := by
    have := pairs_cancel n (fun i k => (s i).key k)
    rw [← this]; apply xsum_congr; intro i _; apply od_congr; intro k _ _; exact BitVec.xor_comm _ _
  rw [hc, xsum_sc]; xor_nf

section check
variable (n : Nat) (Δ : Nat → V) (Hh : V → V) (x y z : Nat → Share)

def phi (i : Nat) : V := od n i (fun k => (y i).key k ^^^ (y i).mac k) ^^^ sc (y i).bit (Δ i)
def uMsg (i j : Nat) : V := Hh ((x i).key j ^^^ Δ i) ^^^ Hh ((x i).key j) ^^^ phi n Δ y i
def kxphi (i j : Nat) : V := Hh ((x i).key j) ^^^ Hh ((x i).mac j) ^^^ sc (x i).bit (uMsg n Δ Hh x y j i)
def Hi (i : Nat) : V :=
  od n i (fun k => (z i).mac k ^^^ (z i).key k ^^^ kxphi n Δ Hh x y i k) ^^^ sc (x i).bit (phi n Δ y i) ^^^ sc (z i).bit (Δ i)
end check

/-- what party i derives from `u_{k→i}` is `H(K_i[k]) ⊕ H(K_k[i]) ⊕ x_i·φ_k`. -/
theorem kxphi_eq (n : Nat) (Δ : Nat → V) (Hh : V → V) (x y : Nat → Share) (hx : Valid n Δ x) (i k : Nat) (hi : i < n) (hk : k < n) (hik : i ≠ k) :
    kxphi n Δ Hh x y i k = (Hh ((x i).key k) ^^^ Hh ((x k).key i)) ^^^ sc (x i).bit (phi n Δ y k) := by
  unfold kxphi uMsg
  rw [hx.mac i k hi hk hik]
  cases (x i).bit
  · simp
  · simp only [sc_true]; xor_nf

/-- **the LaAND check value, exactly.** -/
theorem C04_laand_check_value (n : Nat) (Δ : Nat → V) (Hh : V → V) (x y z : Nat → Share)
    (hx : Valid n Δ x) (hy : Valid n Δ y) (hz : Valid n Δ z) :
    xsum n (Hi n Δ Hh x y z)
      = sc (bsum n (fun i => (z i).bit) != (bsum n (fun i => (x i).bit) && bsum n (fun i => (y i).bit))) (xsum n Δ) := by
  -- Φ = ⨁ φ_k = (⨁y)·(⨁Δ)
  have hΦ : xsum n (phi n Δ y) = sc (bsum n (fun i => (y i).bit)) (xsum n Δ) := by
    rw [← valid_total n Δ y hy]; apply xsum_congr; intro i _
    unfold phi; congr 1; apply od_congr; intro k _ _; exact BitVec.xor_comm _ _
  -- rewrite every H_i
  have e : ∀ i, i < n → Hi n Δ Hh x y z i
      = (od n i (fun k => (z i).mac k ^^^ (z i).key k) ^^^ sc (z i).bit (Δ i))
        ^^^ od n i (fun k => Hh ((x i).key k) ^^^ Hh ((x k).key i))
        ^^^ sc (x i).bit (xsum n (phi n Δ y)) := by
    intro i hi
    unfold Hi
    have h1 : od n i (fun k => (z i).mac k ^^^ (z i).key k ^^^ kxphi n Δ Hh x y i k)
        = od n i (fun k => (z i).mac k ^^^ (z i).key k) ^^^ od n i (fun k => Hh ((x i).key k) ^^^ Hh ((x k).key i))
          ^^^ od n i (fun k => sc (x i).bit (phi n Δ y k)) := by
      rw [← od_xor, ← od_xor]; apply od_congr; intro k hk hki
      rw [kxphi_eq n Δ Hh x y hx i k hi hk (Ne.symm hki)]; xor_nf
    have h2 : od n i (fun k => sc (x i).bit (phi n Δ y k)) ^^^ sc (x i).bit (phi n Δ y i) = sc (x i).bit (xsum n (phi n Δ y)) := by
      rw [BitVec.xor_comm, od_full n i (fun k => sc (x i).bit (phi n Δ y k)) hi, xsum_sc_const]
    rw [h1, ← h2]; xor_nf
  rw [xsum_congr n _ _ e, xsum_xor, xsum_xor, valid_total n Δ z hz, pairs_cancel n (fun i k => Hh ((x i).key k)), hΦ]
  rw [xsum_sc]
  -- (⨁z)·D ⊕ 0 ⊕ (⨁x)·((⨁y)·D)
  generalize bsum n (fun i => (z i).bit) = zb
  generalize bsum n (fun i => (x i).bit) = xb
  generalize bsum n (fun i => (y i).bit) = yb
  cases zb <;> cases xb <;> cases yb <;> simp

/-- honest triples pass step 7 … -/
theorem C04_laand_zero (n : Nat) (Δ : Nat → V) (Hh : V → V) (x y z : Nat → Share)
    (hx : Valid n Δ x) (hy : Valid n Δ y) (hz : Valid n Δ z)
    (hrel : bsum n (fun i => (z i).bit) = (bsum n (fun i => (x i).bit) && bsum n (fun i => (y i).bit))) :
    xsum n (Hi n Δ Hh x y z) = 0 := by
  rw [C04_laand_check_value n Δ Hh x y z hx hy hz, hrel]; simp

/-- … and a wrong product is rejected unless the global keys cancel: the check value is then `⨁Δ`. -/
theorem C04_laand_detect (n : Nat) (Δ : Nat → V) (Hh : V → V) (x y z : Nat → Share)
    (hx : Valid n Δ x) (hy : Valid n Δ y) (hz : Valid n Δ z)
    (hrel : bsum n (fun i => (z i).bit) ≠ (bsum n (fun i => (x i).bit) && bsum n (fun i => (y i).bit))) :
    xsum n (Hi n Δ Hh x y z) = xsum n Δ := by
  rw [C04_laand_check_value n Δ Hh x y z hx hy hz]
  have : (bsum n (fun i => (z i).bit) != (bsum n (fun i => (x i).bit) && bsum n (fun i => (y i).bit))) = true := by
    cases h1 : bsum n (fun i => (z i).bit) <;> cases h2 : (bsum n (fun i => (x i).bit) && bsum n (fun i => (y i).bit)) <;> simp_all
  rw [this]; rfl

end PolytuneModel
