import PolytuneModel.Server.Net
/-! C13, two parties, EVERY setup: both leader indices × output destination present/absent per party × constants supplied
    by none/one/both — 32 setups. For each: all interleavings explored (the exploration is complete: one more round finds
    nothing new), no terminal state is bad, no state is stuck, and a good terminal state is reached. -/
namespace PolytuneModel.Server

def bools2 : List (List Bool) := [[false, false], [false, true], [true, false], [true, true]]
def allSetups2 : List Setup :=
  [0, 1].flatMap fun leader => bools2.flatMap fun outs => bools2.map fun consts => ⟨2, leader, outs, consts⟩

def checkSetup (su : Setup) (fuel : Nat) : Bool :=
  let r := report Cfg.current su fuel
  r.2.2 == (0, 0) && decide (1 ≤ r.2.1) && (report Cfg.current su (fuel + 1)).1 == r.1

theorem C13_n2_all_setups : allSetups2.all (fun su => checkSetup su 60) = true := by decide +kernel

example : allSetups2.length = 32 := by decide

end PolytuneModel.Server
