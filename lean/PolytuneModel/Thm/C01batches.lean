import PolytuneModel.Prim.Chunk
import PolytuneModel.Lemmas.Chunk
/-! C01 — the two sides of the gate stream agree on the chunking, for every AND count and every positive chunk size:
    the garbler pushes one garbled gate per AND instruction, flushes when the buffer has reached the chunk size and once
    more at the end if anything is left (`protocol.rs`, garbling loop); the evaluator expects `chunk_size_iter(total, size)`.
    Nothing here depends on the constants 1000 or 3·3. -/
namespace PolytuneModel

/-- the garbler's loop over `k` further AND gates with `cur` gates buffered and `out` chunk lengths already sent. -/
def garblerLoop (max : Nat) : Nat → Nat → List Nat → Nat × List Nat
  | 0, cur, out => (cur, out)
  | k+1, cur, out => if cur + 1 ≥ max then garblerLoop max k 0 (out ++ [cur + 1]) else garblerLoop max k (cur + 1) out

def finish (r : Nat × List Nat) : List Nat := if r.1 ≠ 0 then r.2 ++ [r.1] else r.2

/-- the lengths of the `preprocessed gates` messages a garbler sends for `total` AND gates. -/
def garblerChunks (total max : Nat) : List Nat := finish (garblerLoop max total 0 [])

theorem chunkSizeIter_small (c max : Nat) (h : c < max) : chunkSizeIter c max = if c ≠ 0 then [c] else [] := by
  have hm : max ≠ 0 := by omega
  simp [chunkSizeIter, hm, Nat.div_eq_of_lt h, Nat.mod_eq_of_lt h]

theorem chunkSizeIter_add (k max : Nat) (h : 0 < max) : chunkSizeIter (max + k) max = max :: chunkSizeIter k max := by
  have hm : max ≠ 0 := by omega
  simp only [chunkSizeIter, hm, if_false]
  rw [Nat.add_comm max k, Nat.add_div_right k h, Nat.add_mod_right, List.replicate_succ]
  rfl

theorem garblerLoop_spec (max : Nat) (hmax : 0 < max) : ∀ (k cur : Nat) (out : List Nat), cur < max →
    finish (garblerLoop max k cur out) = out ++ chunkSizeIter (cur + k) max := by
  intro k
  induction k with
  | zero =>
    intro cur out hc
    simp only [garblerLoop, finish, Nat.add_zero, chunkSizeIter_small cur max hc]
    by_cases h0 : cur = 0 <;> simp [h0]
  | succ k ih =>
    intro cur out hc
    simp only [garblerLoop]
    split
    · -- flush: the buffer has exactly `max` gates
      have hcm : cur + 1 = max := by omega
      rw [ih 0 _ hmax, hcm, Nat.zero_add]
      have : cur + (k + 1) = max + k := by omega
      rw [this, chunkSizeIter_add k max hmax]; simp
    · rw [ih (cur + 1) out (by omega)]
      have : cur + 1 + k = cur + (k + 1) := by omega
      rw [this]

/-- **C01_batches_agree** — what the garbler sends is what the evaluator expects, chunk by chunk. -/
theorem C01_batches_agree (total max : Nat) (hmax : 0 < max) : garblerChunks total max = chunkSizeIter total max := by
  have := garblerLoop_spec max hmax total 0 [] hmax
  simpa [garblerChunks] using this

/-- and the chunks cover every gate exactly once. -/
theorem C01_batches_cover (total max : Nat) (hmax : 0 < max) : (garblerChunks total max).sum = total := by
  rw [C01_batches_agree total max hmax]; exact chunkSizeIter_sum total max hmax

/-- `and_share_batch_size` is positive whenever there is an AND gate (so the hypothesis above is met exactly when chunks are needed);
    with no AND gate neither side sends or expects a chunk. -/
def andBatch (numAnd : Nat) : Nat := min numAnd (max ((numAnd + 8) / 9) 1000)
theorem andBatch_pos (numAnd : Nat) (h : 0 < numAnd) : 0 < andBatch numAnd := by unfold andBatch; omega
theorem C01_batches_none : garblerChunks 0 (andBatch 0) = [] ∧ chunkSizeIter 0 (andBatch 0) = [] := by decide

example : garblerChunks 25 10 = [10, 10, 5] := by decide

end PolytuneModel
