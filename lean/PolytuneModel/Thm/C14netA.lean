import PolytuneModel.Thm.C14netDefs
namespace PolytuneModel.Server
theorem C14_n2_cert_0 : straySetups.all (certificateStrayAt 0) = true := by decide +kernel
theorem C14_n2_cert_1 : straySetups.all (certificateStrayAt 1) = true := by decide +kernel
theorem C14_n2_cert_2 : straySetups.all (certificateStrayAt 2) = true := by decide +kernel
end PolytuneModel.Server
