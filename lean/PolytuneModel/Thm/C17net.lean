import PolytuneModel.Server.Net
import PolytuneModel.Thm.C13reach
/-! C17, second sentence, at network level: two parties, all 32 setups, every delivery order, and ONE coordination RPC
    (any `validate`, `run` or `consts` call, at any moment it is in flight) made to fail by the environment.
    For the model of the current tree (`Cfg.current`) every reachable state is either terminal and `failOk` — the caller of the failed
    call has stopped, holds no permit and was notified if it has a destination; without a failure: the good final state of C13 — or
    has a next step. For the tree as it was (`Cfg.pinned`) the same exploration finds the lingering leaders (C17-a, C17-b). -/
namespace PolytuneModel.Server

def statesOfF (cfg : Cfg) (su : Setup) : List Net := let r := explore cfg su 80 [] [initNetF su 1]; r.1 ++ r.2

def stateOkF (cfg : Cfg) (su : Setup) (s : Net) : Bool :=
  if terminal s then failOk su s else !(successors cfg su s).isEmpty

def certificateF (su : Setup) : Bool :=
  let all := statesOfF Cfg.current su
  all.contains (initNetF su 1)
  && all.all (fun s => (successors Cfg.current su s).all (fun t => all.contains t))
  && all.all (stateOkF Cfg.current su)

theorem C17_n2_certificates : allSetups2'.all certificateF = true := by decide +kernel

/-- **C17 (no lingering caller, no leaked permit), two parties, every setup, every interleaving, any single RPC failure.** -/
theorem C17_n2_failure_ok (su : Setup) (hsu : su ∈ allSetups2') (s : Net)
    (h : Reach (successors Cfg.current su) (initNetF su 1) s) : stateOkF Cfg.current su s = true := by
  have hc : certificateF su = true := List.all_eq_true.mp C17_n2_certificates su hsu
  simp only [certificateF, Bool.and_eq_true, List.all_eq_true, List.contains_iff_mem] at hc
  obtain ⟨⟨hinit, hclosed⟩, hok⟩ := hc
  exact hok s (closed_covers _ _ _ hinit (fun a ha t ht => hclosed a ha t ht) s h)

/-- non-vacuity: failures really are explored — in every setup some reachable terminal state follows an injected failure,
    and some reachable terminal state is the failure-free good one. -/
theorem C17_n2_failures_explored :
    allSetups2'.all (fun su => (statesOfF Cfg.current su).any (fun s => terminal s && s.failed.isSome) && (statesOfF Cfg.current su).any (fun s => terminal s && s.failed.isNone && good su s)) = true := by
  decide +kernel

/-- **C17-a on the tree as it was**, at network level: leader 0 without destination; a `run` call fails; the leader carries on and ends
    up lingering (not stopped) in a terminal state. -/
theorem C17_cex_run_fail_net :
    (statesOfF Cfg.pinned ⟨2, 0, [false, false], [false, false]⟩).any (fun s => terminal s && s.failed == some (0, 1) && !failOk ⟨2, 0, [false, false], [false, false]⟩ s) = true := by
  decide +kernel

/-- **C17-b on the tree as it was**: the leader supplies constants; its `consts` call fails; the error is reported but the leader lingers. -/
theorem C17_cex_consts_fail_net :
    (statesOfF Cfg.pinned ⟨2, 0, [true, true], [true, false]⟩).any (fun s => terminal s && s.failed == some (0, 2) && !failOk ⟨2, 0, [true, true], [true, false]⟩ s) = true := by
  decide +kernel

end PolytuneModel.Server
