import PolytuneModel.Prim.TransposePortable
namespace PolytuneModel.TransposeP
open PolytuneModel

/-! ### 1. the algorithm as a list of writes -/

def iter (f : Reg → Reg) : Nat → Reg → Reg
  | 0, v => v
  | k+1, v => f (iter f k v)

def regAt (input : Array UInt8) (cols row col k : Nat) : Reg := iter shl1 k (load input row col cols)

def blockWrites (input : Array UInt8) (rows cols row col : Nat) : List (Nat × UInt8) :=
  (List.range 8).flatMap fun k =>
    [(out row (col + (7 - k)) rows, maskByte (regAt input cols row col k) 0), (out row (col + (7 - k)) rows + 1, maskByte (regAt input cols row col k) 1)]

def applyWrites (o : Array UInt8) (ws : List (Nat × UInt8)) : Array UInt8 := ws.foldl (fun o w => o.setIfInBounds w.1 w.2) o

def writesFrom (rows row col : Nat) : List Nat → Reg → List (Nat × UInt8)
  | [], _ => []
  | k :: ks, v => (out row (col + (7 - k)) rows, maskByte v 0) :: (out row (col + (7 - k)) rows + 1, maskByte v 1) :: writesFrom rows row col ks (shl1 v)

theorem fold_inner (rows row col : Nat) (ks : List Nat) (o : Array UInt8) (v : Reg) :
    (ks.foldl (inner rows row col) (o, v)).1 = applyWrites o (writesFrom rows row col ks v) := by
  induction ks generalizing o v with
  | nil => rfl
  | cons k ks ih => simp only [List.foldl_cons, inner, writesFrom, applyWrites] at *; rw [ih]

theorem iter_succ' (f : Reg → Reg) (k : Nat) (v : Reg) : iter f k (f v) = iter f (k + 1) v := by
  induction k with
  | zero => rfl
  | succ k ih => simp only [iter] at *; rw [ih]

theorem writesFrom_range' (rows row col s n : Nat) (v0 : Reg) :
    writesFrom rows row col (List.range' s n) (iter shl1 s v0)
      = (List.range' s n).flatMap fun k => [(out row (col + (7 - k)) rows, maskByte (iter shl1 k v0) 0), (out row (col + (7 - k)) rows + 1, maskByte (iter shl1 k v0) 1)] := by
  induction n generalizing s with
  | zero => rfl
  | succ n ih =>
    simp only [List.range'_succ, writesFrom, List.flatMap_cons, List.cons_append, List.nil_append]
    have := ih (s + 1)
    simp only [iter] at this
    rw [this]

theorem block_eq (input : Array UInt8) (rows cols : Nat) (o : Array UInt8) (row col : Nat) :
    block input rows cols o row col = applyWrites o (blockWrites input rows cols row col) := by
  unfold block blockWrites regAt
  rw [fold_inner, List.range_eq_range', ← writesFrom_range' rows row col 0 8 (load input row col cols)]
  rfl

def allWrites (input : Array UInt8) (rows : Nat) : List (Nat × UInt8) :=
  (List.range (rows / 16)).flatMap fun rb => (List.range (input.size * 8 / rows / 8)).flatMap fun cb =>
    blockWrites input rows (input.size * 8 / rows) (16 * rb) (8 * cb)

theorem transposeInto_eq (input : Array UInt8) (rows : Nat) (o0 : Array UInt8) :
    transposeInto input rows o0 = applyWrites o0 (allWrites input rows) := by
  unfold transposeInto allWrites applyWrites
  simp only [List.foldl_flatMap, block_eq]
  rfl

/-! ### 2. a fold of writes whose values all agree with a target function -/

theorem applyWrites_size (o : Array UInt8) (ws : List (Nat × UInt8)) : (applyWrites o ws).size = o.size := by
  induction ws generalizing o with
  | nil => rfl
  | cons w ws ih => simp only [applyWrites, List.foldl_cons] at *; rw [ih, Array.size_setIfInBounds]

theorem applyWrites_get (target : Nat → UInt8) (ws : List (Nat × UInt8)) (o : Array UInt8)
    (hval : ∀ w ∈ ws, w.2 = target w.1) (b : Nat) (hb : b < o.size) :
    (applyWrites o ws)[b]'(by rw [applyWrites_size]; exact hb) = if (∃ w ∈ ws, w.1 = b) then target b else o[b] := by
  induction ws generalizing o with
  | nil => simp [applyWrites]
  | cons w ws ih =>
    have hb' : b < (o.setIfInBounds w.1 w.2).size := by rw [Array.size_setIfInBounds]; exact hb
    have h1 := ih (o.setIfInBounds w.1 w.2) (fun x hx => hval x (List.mem_cons_of_mem _ hx)) hb'
    have hstep : applyWrites o (w :: ws) = applyWrites (o.setIfInBounds w.1 w.2) ws := rfl
    simp only [hstep, h1]
    by_cases hex : ∃ x ∈ ws, x.1 = b
    · have : ∃ x ∈ w :: ws, x.1 = b := by obtain ⟨x, hx, hxb⟩ := hex; exact ⟨x, List.mem_cons_of_mem _ hx, hxb⟩
      simp [hex, this]
    · by_cases hw : w.1 = b
      · have : ∃ x ∈ w :: ws, x.1 = b := ⟨w, List.mem_cons_self, hw⟩
        simp only [hex, this, if_true, if_false]
        rw [Array.getElem_setIfInBounds hb, if_pos hw, hval w List.mem_cons_self, hw]
      · have : ¬ ∃ x ∈ w :: ws, x.1 = b := by
          rintro ⟨x, hx, hxb⟩
          rcases List.mem_cons.mp hx with rfl | hx
          · exact hw hxb
          · exact hex ⟨x, hx, hxb⟩
        simp only [hex, this, if_false]
        rw [Array.getElem_setIfInBounds hb, if_neg hw]

/-! ### 3. what a register holds after `k` shifts; the value of every write -/

theorem iter_shl1 (k : Nat) (v : Reg) (p : Nat) : iter shl1 k v p = if p % 64 < k then false else v (p - k) := by
  induction k generalizing p with
  | zero => simp [iter]
  | succ k ih =>
    simp only [iter, shl1]
    by_cases h0 : p % 64 = 0
    · have : p % 64 < k + 1 := by omega
      simp [h0, this]
    · rw [if_neg h0, ih]
      by_cases hk : p % 64 < k + 1
      · have : (p - 1) % 64 < k := by omega
        simp [hk, this]
      · have : ¬ (p - 1) % 64 < k := by omega
        simp only [hk, this, if_false]
        congr 1
        omega

/-- the byte the exact transpose has at output position `b` -/
def specByte (input : Array UInt8) (rows b : Nat) : UInt8 :=
  (List.range 8).foldl (fun (acc : UInt8) j =>
    if getBit input (input.size * 8 / rows) (b * 8 % rows + j) (b * 8 / rows) then acc ||| ((1 : UInt8) <<< UInt8.ofNat j) else acc) 0

theorem transposeSpec_eq (input : Array UInt8) (rows : Nat) : transposeSpec input rows = (Array.range input.size).map (specByte input rows) := rfl

theorem foldl_if_congr (l : List Nat) (P Q : Nat → Bool) (g : UInt8 → Nat → UInt8) (a : UInt8) (h : ∀ j ∈ l, P j = Q j) :
    l.foldl (fun acc j => if P j then g acc j else acc) a = l.foldl (fun acc j => if Q j then g acc j else acc) a := by
  induction l generalizing a with
  | nil => rfl
  | cons x xs ih =>
    simp only [List.foldl_cons, h x List.mem_cons_self]
    exact ih _ (fun j hj => h j (List.mem_cons_of_mem _ hj))

/-- index arithmetic of one write: with `rows = 16·R`, block row `rb < R`, byte column `cb`, pass `k < 8` and half `h < 2`, the output
    byte `b = out(16·rb, 8·cb + (7-k), rows) + h` is byte `2·rb + h` of output row `8·cb + 7 - k` -/
theorem write_index (R rb cb k h : Nat) (hrb : rb < R) (hk : k < 8) (hh : h < 2) :
    let rows := 16 * R
    let b := out (16 * rb) (8 * cb + (7 - k)) rows + h
    b * 8 / rows = 8 * cb + (7 - k) ∧ b * 8 % rows = 16 * rb + 8 * h ∧ b = (8 * cb + (7 - k)) * (2 * R) + (2 * rb + h) := by
  intro rows b
  have hprod : (8 * cb + (7 - k)) * (16 * R) = 16 * ((8 * cb + (7 - k)) * R) := Nat.mul_left_comm _ _ _
  have hprod2 : (8 * cb + (7 - k)) * (2 * R) = 2 * ((8 * cb + (7 - k)) * R) := Nat.mul_left_comm _ _ _
  have hb : b = 2 * ((8 * cb + (7 - k)) * R) + (2 * rb + h) := by
    show out (16 * rb) (8 * cb + (7 - k)) (16 * R) + h = _
    unfold out; rw [hprod]; omega
  have hb8 : b * 8 = (16 * R) * (8 * cb + (7 - k)) + (16 * rb + 8 * h) := by
    rw [Nat.mul_comm (16 * R), hprod, hb]; omega
  have hR : 0 < 16 * R := by omega
  have hlt : 16 * rb + 8 * h < 16 * R := by omega
  refine ⟨?_, ?_, ?_⟩
  · show b * 8 / (16 * R) = _
    rw [hb8, Nat.mul_add_div hR, Nat.div_eq_of_lt hlt]; rfl
  · show b * 8 % (16 * R) = _
    rw [hb8, Nat.mul_add_mod, Nat.mod_eq_of_lt hlt]
  · rw [hprod2]; exact hb

theorem write_value (input : Array UInt8) (R rb cb k h : Nat) (hrb : rb < R) (hk : k < 8) (hh : h < 2) :
    maskByte (regAt input (input.size * 8 / (16 * R)) (16 * rb) (8 * cb) k) h
      = specByte input (16 * R) (out (16 * rb) (8 * cb + (7 - k)) (16 * R) + h) := by
  obtain ⟨hc, hr0, _⟩ := write_index R rb cb k h hrb hk hh
  unfold maskByte specByte
  apply foldl_if_congr
  intro j hj
  have hj8 : j < 8 := List.mem_range.mp hj
  rw [hc, hr0]
  unfold regAt
  rw [iter_shl1]
  have hp : ¬ (8 * (8 * h + j) + 7) % 64 < k := by omega
  rw [if_neg hp]
  unfold load getBit byteBit inp
  have e1 : (8 * (8 * h + j) + 7 - k) / 8 = 8 * h + j := by omega
  have e2 : (8 * (8 * h + j) + 7 - k) % 8 = 7 - k := by omega
  have e3 : (8 * cb + (7 - k)) / 8 = cb := by omega
  have e4 : (8 * cb + (7 - k)) % 8 = 7 - k := by omega
  have e5 : 8 * cb / 8 = cb := by omega
  have e6 : 16 * rb + (8 * h + j) = 16 * rb + 8 * h + j := by omega
  rw [e1, e2, e3, e4, e5, e6]

/-! ### 4. every write has the value of the exact transpose; every output byte is written; nothing is out of range -/

theorem mem_allWrites (input : Array UInt8) (rows : Nat) (w : Nat × UInt8) :
    w ∈ allWrites input rows ↔ ∃ rb < rows / 16, ∃ cb < input.size * 8 / rows / 8, ∃ k < 8, ∃ h < 2,
      w = (out (16 * rb) (8 * cb + (7 - k)) rows + h, maskByte (regAt input (input.size * 8 / rows) (16 * rb) (8 * cb) k) h) := by
  unfold allWrites blockWrites
  simp only [List.mem_flatMap, List.mem_range, List.mem_cons, List.not_mem_nil, or_false]
  constructor
  · rintro ⟨rb, hrb, cb, hcb, k, hk, hw | hw⟩
    · exact ⟨rb, hrb, cb, hcb, k, hk, 0, by omega, by simpa using hw⟩
    · exact ⟨rb, hrb, cb, hcb, k, hk, 1, by omega, hw⟩
  · rintro ⟨rb, hrb, cb, hcb, k, hk, h, hh, hw⟩
    refine ⟨rb, hrb, cb, hcb, k, hk, ?_⟩
    have : h = 0 ∨ h = 1 := by omega
    rcases this with rfl | rfl
    · left; simpa using hw
    · right; exact hw

/-- the shape facts that follow from the function's assertions -/
theorem shape (n rows : Nat) (h16 : 16 ≤ rows) (hr : rows % 16 = 0) (hdiv : n % rows = 0) :
    ∃ R q, 0 < R ∧ rows = 16 * R ∧ n = 16 * R * q ∧ n * 8 / rows = 8 * q := by
  refine ⟨rows / 16, n / rows, by omega, by omega, ?_, ?_⟩
  · have h1 : rows * (n / rows) = n := Nat.mul_div_cancel' (Nat.dvd_of_mod_eq_zero hdiv)
    have h2 : 16 * (rows / 16) = rows := by omega
    rw [h2, h1]
  · have h1 : rows * (n / rows) = n := Nat.mul_div_cancel' (Nat.dvd_of_mod_eq_zero hdiv)
    have : n * 8 = rows * (8 * (n / rows)) := by rw [Nat.mul_left_comm, h1, Nat.mul_comm]
    rw [this, Nat.mul_div_cancel_left _ (by omega : 0 < rows)]

theorem allWrites_values (input : Array UInt8) (rows : Nat) (h16 : 16 ≤ rows) (hr : rows % 16 = 0) (hdiv : input.size % rows = 0) :
    ∀ w ∈ allWrites input rows, w.2 = specByte input rows w.1 := by
  obtain ⟨R, q, hR, hrows, hn, hcols⟩ := shape input.size rows h16 hr hdiv
  intro w hw
  obtain ⟨rb, hrb, cb, hcb, k, hk, h, hh, rfl⟩ := (mem_allWrites input rows w).mp hw
  subst hrows
  have hrb' : rb < R := by omega
  exact write_value input R rb cb k h hrb' hk hh

theorem allWrites_cover (input : Array UInt8) (rows : Nat) (h16 : 16 ≤ rows) (hr : rows % 16 = 0) (hdiv : input.size % rows = 0)
    (b : Nat) (hb : b < input.size) : ∃ w ∈ allWrites input rows, w.1 = b := by
  obtain ⟨R, q, hR, hrows, hn, hcols⟩ := shape input.size rows h16 hr hdiv
  subst hrows
  -- output row c, byte t within the row
  have h2R : 0 < 2 * R := by omega
  have hdm : 2 * R * (b / (2 * R)) + b % (2 * R) = b := Nat.div_add_mod b (2 * R)
  have ht : b % (2 * R) < 2 * R := Nat.mod_lt _ h2R
  have hc : b / (2 * R) < 8 * q := by
    apply Nat.div_lt_of_lt_mul
    have : 2 * R * (8 * q) = 16 * R * q := by
      rw [← Nat.mul_assoc, Nat.mul_right_comm 2 R 8, Nat.mul_comm 2 8]
    omega
  let c := b / (2 * R); let t := b % (2 * R)
  have hrb : t / 2 < 16 * R / 16 := by show b % (2 * R) / 2 < 16 * R / 16; omega
  have hcb : c / 8 < input.size * 8 / (16 * R) / 8 := by show b / (2 * R) / 8 < _; rw [hcols]; omega
  have hk : 7 - c % 8 < 8 := by omega
  have hh : t % 2 < 2 := by omega
  refine ⟨_, (mem_allWrites input (16 * R) _).mpr ⟨t / 2, hrb, c / 8, hcb, 7 - c % 8, hk, t % 2, hh, rfl⟩, ?_⟩
  obtain ⟨_, _, hidx⟩ := write_index R (t / 2) (c / 8) (7 - c % 8) (t % 2) (by omega) hk hh
  show out (16 * (t / 2)) (8 * (c / 8) + (7 - (7 - c % 8))) (16 * R) + t % 2 = b
  rw [hidx]
  have e1 : 8 * (c / 8) + (7 - (7 - c % 8)) = c := by omega
  have e2 : 2 * (t / 2) + t % 2 = t := by omega
  rw [e1, e2, Nat.mul_comm c (2 * R)]
  exact hdm

/-- no slice access of the Rust function is out of range (it would panic): every store … -/
theorem writes_in_bounds (input : Array UInt8) (rows : Nat) (h16 : 16 ≤ rows) (hr : rows % 16 = 0) (hdiv : input.size % rows = 0) :
    ∀ w ∈ allWrites input rows, w.1 < input.size := by
  obtain ⟨R, q, hR, hrows, hn, hcols⟩ := shape input.size rows h16 hr hdiv
  intro w hw
  obtain ⟨rb, hrb, cb, hcb, k, hk, h, hh, rfl⟩ := (mem_allWrites input rows w).mp hw
  subst hrows
  obtain ⟨_, _, hidx⟩ := write_index R rb cb k h (by omega) hk hh
  show out (16 * rb) (8 * cb + (7 - k)) (16 * R) + h < input.size
  rw [hidx, hn]
  rw [hcols] at hcb
  have hc : 8 * cb + (7 - k) + 1 ≤ 8 * q := by omega
  have h1 : (8 * cb + (7 - k) + 1) * (2 * R) ≤ 8 * q * (2 * R) := Nat.mul_le_mul_right _ hc
  have h2 : (8 * cb + (7 - k) + 1) * (2 * R) = (8 * cb + (7 - k)) * (2 * R) + 2 * R := by rw [Nat.add_mul, Nat.one_mul]
  have h3 : 8 * q * (2 * R) = 16 * R * q := by
    rw [Nat.mul_comm (8 * q) (2 * R), ← Nat.mul_assoc, Nat.mul_right_comm 2 R 8, Nat.mul_comm 2 8]
  omega

/-- … and every load of `load_bytes` -/
theorem loads_in_bounds (input : Array UInt8) (rows : Nat) (h16 : 16 ≤ rows) (hr : rows % 16 = 0) (hdiv : input.size % rows = 0)
    (rb cb i : Nat) (hrb : rb < rows / 16) (hcb : cb < input.size * 8 / rows / 8) (hi : i < 16) :
    inp (16 * rb + i) (8 * cb) (input.size * 8 / rows) < input.size := by
  obtain ⟨R, q, hR, hrows, hn, hcols⟩ := shape input.size rows h16 hr hdiv
  subst hrows
  rw [hcols] at hcb ⊢
  unfold inp
  have e1 : (16 * rb + i) * (8 * q) = 8 * ((16 * rb + i) * q) := Nat.mul_left_comm _ _ _
  have hx : 16 * rb + i + 1 ≤ 16 * R := by omega
  have h1 : (16 * rb + i + 1) * q ≤ 16 * R * q := Nat.mul_le_mul_right _ hx
  have h2 : (16 * rb + i + 1) * q = (16 * rb + i) * q + q := by rw [Nat.add_mul, Nat.one_mul]
  rw [e1, hn]
  omega

/-- **C20, portable transpose.** For every shape the function accepts (`rows ≥ 16`, `16 ∣ rows`, `rows ∣ input.len()`) and every
    caller-provided output buffer of the right length, the algorithm of `portable.rs` returns the exact transpose. -/
theorem C20_transpose_portable_into (input : Array UInt8) (rows : Nat) (o0 : Array UInt8) (ho : o0.size = input.size)
    (h16 : 16 ≤ rows) (hr : rows % 16 = 0) (hdiv : input.size % rows = 0) :
    transposeInto input rows o0 = transposeSpec input rows := by
  rw [transposeInto_eq, transposeSpec_eq]
  apply Array.ext
  · rw [applyWrites_size, ho]; simp
  · intro i h1 h2
    have hi : i < o0.size := by rw [applyWrites_size] at h1; exact h1
    rw [applyWrites_get (specByte input rows) _ o0 (allWrites_values input rows h16 hr hdiv) i hi]
    rw [if_pos (allWrites_cover input rows h16 hr hdiv i (by omega))]
    simp

theorem C20_transpose_portable (input : Array UInt8) (rows : Nat) (h16 : 16 ≤ rows) (hr : rows % 16 = 0) (hdiv : input.size % rows = 0) :
    transposePortable input rows = transposeSpec input rows :=
  C20_transpose_portable_into input rows _ (by simp) h16 hr hdiv

end PolytuneModel.TransposeP
