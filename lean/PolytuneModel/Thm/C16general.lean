import PolytuneModel.Server.Net
import PolytuneModel.Thm.C13reach
/-! C16 at network level for ANY number of parties: a follower `b` has scheduled a policy that names a different program than
    the leader's.  `Inv` is an inductive invariant of the network model (`Server/Net.lean`, every delivery order); it implies
    that no MPC task is ever started, no result is ever delivered, and neither the leader's nor `b`'s schedule call is ever
    answered `Ok`.  No bound on the number of parties, on which party leads, on destinations or constants. -/
namespace PolytuneModel.Server

attribute [-simp] List.getD_eq_getElem?_getD

/-! ### lists -/
theorem mem_insertSorted (x y : Nat × Cmd) (l : List (Nat × Cmd)) : y ∈ insertSorted x l ↔ y = x ∨ y ∈ l := by
  induction l with
  | nil => simp [insertSorted]
  | cons z zs ih =>
    unfold insertSorted; split
    · simp
    · simp only [List.mem_cons, ih]
      constructor
      · rintro (h | h | h) <;> simp [h]
      · rintro (h | h | h) <;> simp [h]

theorem mem_foldl_insertSorted (f : Nat → Nat × Cmd) (qs : List Nat) (init : List (Nat × Cmd)) (y : Nat × Cmd) :
    y ∈ qs.foldl (fun acc q => insertSorted (f q) acc) init ↔ y ∈ init ∨ ∃ q ∈ qs, y = f q := by
  induction qs generalizing init with
  | nil => simp
  | cons q qs ih =>
    simp only [List.foldl_cons, ih, mem_insertSorted, List.mem_cons]
    constructor
    · rintro ((h | h) | ⟨q', hq', h⟩)
      · exact .inr ⟨q, .inl rfl, h⟩
      · exact .inl h
      · exact .inr ⟨q', .inr hq', h⟩
    · rintro (h | ⟨q', (rfl | hq'), h⟩)
      · exact .inl (.inr h)
      · exact .inl (.inl h)
      · exact .inr ⟨q', hq', h⟩

def isVal (a : St) : Bool := a.kind == .validated
def nVal (l : List St) : Nat := l.countP isVal

theorem nVal_set (l : List St) (p : Nat) (a : St) (hp : p < l.length) :
    nVal (l.set p a) + (if isVal (l.getD p {}) then 1 else 0) = nVal l + (if isVal a then 1 else 0) := by
  unfold nVal
  rw [List.countP_set hp]
  have hget : l.getD p {} = l[p] := by simp [List.getD_eq_getElem?_getD, hp]
  rw [hget]
  have : (if isVal l[p] = true then 1 else 0) ≤ List.countP isVal l := by
    split
    · exact List.countP_pos_iff.mpr ⟨l[p], List.getElem_mem hp, by assumption⟩
    · omega
  omega

/-- two distinct positions that are not validated: at most `length - 2` validated entries. -/
theorem nVal_le (l : List St) (i j : Nat) (hi : i < l.length) (hj : j < l.length) (hij : i ≠ j)
    (h1 : isVal (l.getD i {}) = false) (h2 : isVal (l.getD j {}) = false) : nVal l + 2 ≤ l.length := by
  let v : St := { kind := .validated }
  have hv : isVal v = true := rfl
  have e1 := nVal_set l i v hi
  have hj' : j < (l.set i v).length := by simpa using hj
  have e2 := nVal_set (l.set i v) j v hj'
  have hg : (l.set i v).getD j {} = l.getD j {} := by
    simp [List.getD_eq_getElem?_getD, List.getElem?_set_ne hij]
  rw [hg] at e2
  simp only [h1, h2, hv, if_true] at e1 e2
  have hle : nVal ((l.set i v).set j v) ≤ ((l.set i v).set j v).length := List.countP_le_length
  simp at hle e1 e2
  omega


/-! ### the invariant -/
def badPol (su : Setup) (bp : Pol) (b p : Nat) : Pol := if p = b then bp else polOf su p

def okCmd (su : Setup) (bp : Pol) (b : Nat) (x : Nat × Cmd) : Prop :=
  match x with
  | (p, .schedule pol) => p < su.n ∧ pol = badPol su bp b p
  | (p, .validate r) => p < su.n ∧ p ≠ su.leader ∧ r = ⟨42, su.leader⟩
  | (p, .leaderValidated false) => p = su.leader
  | _ => False

structure ActorOk (su : Setup) (bp : Pol) (b p : Nat) (a : St) : Prop where
  kind : a.kind = .init ∨ a.kind = .awaitingValidation ∨ a.kind = .validateRequested ∨ a.kind = .validated
  lead : p = su.leader → a.kind = .init
  bad : p = b → a.kind ≠ .validated
  pol : a.kind = .awaitingValidation → a.pol = some (badPol su bp b p)
  vreq : a.kind = .validateRequested → a.vreq = some ⟨42, su.leader⟩
  permit : a.permit = false

structure Inv (su : Setup) (bp : Pol) (b : Nat) (net : Net) : Prop where
  alen : net.actors.length = su.n
  blen : net.busy.length = su.n
  fl : ∀ x ∈ net.flight, okCmd su bp b x
  act : ∀ p, p < su.n → ActorOk su bp b p (net.actors.getD p {})
  exec : ∀ x ∈ net.executing, x = false
  outs : ∀ x ∈ net.outputs, x = 0
  nofail : net.fails = 0
  sched : net.schedOk.getD b 0 = 0 ∧ net.schedOk.getD su.leader 0 = 0
  phase0 : (net.actors.getD su.leader {}).pol = none →
    net.waitVal = 0 ∧ (∀ x ∈ net.flight, ∃ pol, x.2 = .schedule pol)
      ∧ (∀ p, p < su.n → (net.actors.getD p {}).kind = .init ∨ (net.actors.getD p {}).kind = .awaitingValidation)
  phase1 : (net.actors.getD su.leader {}).pol ≠ none →
    net.waitVal + nVal net.actors = su.n - 1 ∧ (net.busy.getD su.leader false = true ∨ (net.actors.getD su.leader {}).stopped = true)

structure WF (su : Setup) (bp : Pol) (b : Nat) : Prop where
  hl : su.leader < su.n
  hb : b < su.n
  hne : b ≠ su.leader
  bwt : bp.wellTyped = true
  bpar : bp.party = b
  bnl : bp.leader ≠ b
  bmis : bp.leader ≠ su.leader ∨ bp.hash ≠ 42

/-! ### the actor's step on the three commands that can be in flight -/
section steps
variable (a : St) (pol : Pol)

theorem step_stopped (c : Cmd) (h : a.stopped = true) : step Cfg.current a c = (a, [.replyDropped "any"]) := by simp [step, h]

theorem step_sched_leader (hns : a.stopped = false) (hk : a.kind = .init) (hw : pol.wellTyped = true) (hpl : pol.party = pol.leader) :
    step Cfg.current a (.schedule pol) = ({ initChannel a pol with pol := some pol }, [.rpcValidateAll]) := by
  simp [step, hns, hk, hw, hpl]

theorem step_sched_init (hns : a.stopped = false) (hk : a.kind = .init) (hw : pol.wellTyped = true) (hpl : pol.party ≠ pol.leader) :
    step Cfg.current a (.schedule pol) = ({ initChannel a pol with kind := .awaitingValidation, pol := some pol }, []) := by
  simp [step, hns, hk, hw, hpl]

theorem step_sched_vr_ok (hns : a.stopped = false) (hk : a.kind = .validateRequested) (hw : pol.wellTyped = true) (hpl : pol.party ≠ pol.leader)
    (r : VReq) (hr : a.vreq = some r) (h1 : r.leader = pol.leader) (h2 : r.hash = pol.hash) :
    step Cfg.current a (.schedule pol) = ({ initChannel a pol with kind := .validated, pol := some pol, vreq := none }, [.reply "validate" true "", .reply "schedule" true ""]) := by
  simp [step, hns, hk, hw, hpl, hr, h1, h2]

theorem step_sched_vr_hash (hns : a.stopped = false) (hk : a.kind = .validateRequested) (hw : pol.wellTyped = true) (hpl : pol.party ≠ pol.leader)
    (r : VReq) (hr : a.vreq = some r) (h1 : r.leader = pol.leader) (h2 : r.hash ≠ pol.hash) (hpm : a.permit = false) :
    step Cfg.current a (.schedule pol) = ({ a with stopped := true, permit := false }, [.reply "validate" false "ProgramHashMismatch", .replyDropped "schedule", .stopActor]) := by
  simp [step, hns, hk, hw, hpl, hr, h1, h2, stopWith, hpm, Cfg.current, Cfg.repaired]

theorem step_sched_vr_leader (hns : a.stopped = false) (hk : a.kind = .validateRequested) (hw : pol.wellTyped = true) (hpl : pol.party ≠ pol.leader)
    (r : VReq) (hr : a.vreq = some r) (h1 : r.leader ≠ pol.leader) (hpm : a.permit = false) :
    step Cfg.current a (.schedule pol) = ({ a with stopped := true, permit := false }, [.reply "validate" false "LeaderMismatch", .reply "schedule" false "LeaderMismatch", .stopActor]) := by
  simp [step, hns, hk, hw, hpl, hr, h1, stopWith, hpm, Cfg.current, Cfg.repaired]

theorem step_sched_refused (hns : a.stopped = false) (hk : a.kind = .awaitingValidation ∨ a.kind = .validated) (hw : pol.wellTyped = true) (hpl : pol.party ≠ pol.leader) :
    step Cfg.current a (.schedule pol) = (a, [.reply "schedule" false "InvalidStateFollower"]) := by
  rcases hk with hk | hk <;> simp [step, hns, hk, hw, hpl, Cfg.current, Cfg.repaired]

theorem step_val_init (hns : a.stopped = false) (hk : a.kind = .init) (r : VReq) :
    step Cfg.current a (.validate r) = ({ a with kind := .validateRequested, vreq := some r }, []) := by
  simp [step, hns, hk]

theorem step_val_aw_ok (hns : a.stopped = false) (hk : a.kind = .awaitingValidation) (r : VReq) (hp : a.pol = some pol)
    (h1 : r.leader = pol.leader) (h2 : r.hash = pol.hash) :
    step Cfg.current a (.validate r) = ({ a with kind := .validated }, [.reply "schedule" true "", .reply "validate" true ""]) := by
  simp [step, hns, hk, hp, h1, h2]

theorem step_val_aw_hash (hns : a.stopped = false) (hk : a.kind = .awaitingValidation) (r : VReq) (hp : a.pol = some pol)
    (h1 : r.leader = pol.leader) (h2 : r.hash ≠ pol.hash) (hpm : a.permit = false) :
    step Cfg.current a (.validate r) = ({ a with stopped := true, permit := false }, [.reply "validate" false "ProgramHashMismatch", .replyDropped "schedule", .stopActor]) := by
  simp [step, hns, hk, hp, h1, h2, stopWith, hpm]

theorem step_val_aw_leader (hns : a.stopped = false) (hk : a.kind = .awaitingValidation) (r : VReq) (hp : a.pol = some pol)
    (h1 : r.leader ≠ pol.leader) (hpm : a.permit = false) :
    step Cfg.current a (.validate r) = ({ a with stopped := true, permit := false }, [.reply "validate" false "LeaderMismatch", .replyDropped "schedule", .stopActor]) := by
  simp [step, hns, hk, hp, h1, stopWith, hpm]

theorem step_val_refused (hns : a.stopped = false) (hk : a.kind = .validateRequested ∨ a.kind = .validated) (r : VReq) :
    step Cfg.current a (.validate r) = (a, [.reply "validate" false "InvalidState"]) := by
  rcases hk with hk | hk <;> simp [step, hns, hk]

theorem step_lvfalse (hns : a.stopped = false) (hpm : a.permit = false) :
    step Cfg.current a (.leaderValidated false) = ({ a with stopped := true, permit := false }, [.reply "schedule" false "ValidateFailed", .stopActor]) := by
  simp [step, hns, stopWith, hpm]
end steps

/-! ### frame lemmas -/
theorem getD_set_self (l : List St) (p : Nat) (a : St) (hp : p < l.length) : (l.set p a).getD p {} = a := by
  simp [List.getD_eq_getElem?_getD, hp]
theorem getD_set_ne (l : List St) (p q : Nat) (a : St) (h : p ≠ q) : (l.set p a).getD q {} = l.getD q {} := by
  simp [List.getD_eq_getElem?_getD, List.getElem?_set_ne h]

theorem getD_eq_getElem (l : List St) (i : Nat) (h : i < l.length) : l.getD i {} = l[i] := by
  simp [List.getD_eq_getElem?_getD, List.getElem?_eq_getElem h]

theorem act_set {su : Setup} {bp : Pol} {b : Nat} {l : List St} (hl : l.length = su.n) (h : ∀ q, q < su.n → ActorOk su bp b q (l.getD q {}))
    (p : Nat) (hp : p < su.n) (s' : St) (hs : ActorOk su bp b p s') : ∀ q, q < su.n → ActorOk su bp b q ((l.set p s').getD q {}) := by
  intro q hq
  by_cases hqp : p = q
  · subst hqp; rw [getD_set_self _ _ _ (by omega)]; exact hs
  · rw [getD_set_ne _ _ _ _ hqp]; exact h q hq

/-- the actor's state changes without an `Ok` reply to validate, the leader keeps its phase. -/
theorem Inv_quiet {su : Setup} {bp : Pol} {b : Nat} {net : Net} (hI : Inv su bp b net) (p : Nat) (hp : p < su.n) (s' : St) (t : Net)
    (hA : t.actors = net.actors.set p s')
    (hs : ActorOk su bp b p s')
    (hv : isVal s' = isVal (net.actors.getD p {}))
    (hpol : p = su.leader → s'.pol = (net.actors.getD p {}).pol ∧ ((net.actors.getD p {}).stopped = true → s'.stopped = true))
    (hB : t.busy = net.busy ∨ (t.busy = net.busy.set su.leader false ∧ p = su.leader ∧ s'.stopped = true))
    (hF : ∀ x ∈ t.flight, x ∈ net.flight ∨ (x = (su.leader, .leaderValidated false) ∧ (net.actors.getD su.leader {}).pol ≠ none))
    (hK0 : (net.actors.getD su.leader {}).pol = none → s'.kind = .init ∨ s'.kind = .awaitingValidation)
    (hW : t.waitVal = net.waitVal) (hE : t.executing = net.executing) (hO : t.outputs = net.outputs) (hfa : t.fails = net.fails)
    (hS : t.schedOk = net.schedOk) : Inv su bp b t := by
  have hpl : p < net.actors.length := by rw [hI.alen]; exact hp
  have hlead : ((net.actors.set p s').getD su.leader {}).pol = (net.actors.getD su.leader {}).pol := by
    by_cases h : p = su.leader
    · subst h; rw [getD_set_self _ _ _ hpl]; exact (hpol rfl).1
    · rw [getD_set_ne _ _ _ _ h]
  have hnv : nVal (net.actors.set p s') = nVal net.actors := by
    have := nVal_set net.actors p s' hpl
    rw [hv] at this; omega
  constructor
  · rw [hA]; simpa using hI.alen
  · rcases hB with h | ⟨h, _, _⟩ <;> rw [h] <;> simp [hI.blen]
  · intro x hx
    rcases hF x hx with h | ⟨rfl, _⟩
    · exact hI.fl x h
    · simp [okCmd]
  · rw [hA]; exact act_set hI.alen hI.act p hp s' hs
  · rw [hE]; exact hI.exec
  · rw [hO]; exact hI.outs
  · rw [hfa]; exact hI.nofail
  · rw [hS]; exact hI.sched
  · rw [hA, hlead]; intro h0
    obtain ⟨w0, f0, k0⟩ := hI.phase0 h0
    refine ⟨by rw [hW]; exact w0, ?_, ?_⟩
    · intro x hx
      rcases hF x hx with h | ⟨_, h⟩
      · exact f0 x h
      · exact absurd h0 h
    · intro q hq
      by_cases hqp : p = q
      · subst hqp; rw [getD_set_self _ _ _ hpl]; exact hK0 h0
      · rw [getD_set_ne _ _ _ _ hqp]; exact k0 q hq
  · rw [hA, hlead]; intro h1
    obtain ⟨c1, d1⟩ := hI.phase1 h1
    refine ⟨by rw [hW, hnv]; exact c1, ?_⟩
    by_cases h : p = su.leader
    · subst h
      rw [getD_set_self _ _ _ hpl]
      rcases hB with hB | ⟨_, _, hst⟩
      · rcases d1 with d | d
        · left; rw [hB]; exact d
        · right; exact (hpol rfl).2 d
      · right; exact hst
    · rw [getD_set_ne _ _ _ _ h]
      rcases hB with hB | ⟨_, hh, _⟩
      · rw [hB]; exact d1
      · exact absurd hh h

/-- a follower other than `b` is about to answer `Ok` to validate: at least two replies are still outstanding (its own and `b`'s). -/
theorem waitVal_ge_two {su : Setup} {bp : Pol} {b : Nat} {net : Net} (hwf : WF su bp b) (hI : Inv su bp b net) (p : Nat) (hp : p < su.n)
    (hpl : p ≠ su.leader) (hpb : p ≠ b) (hold : (net.actors.getD p {}).kind ≠ .validated)
    (hph : (net.actors.getD su.leader {}).pol ≠ none) : 2 ≤ net.waitVal := by
  have hlen : p < net.actors.length := by rw [hI.alen]; exact hp
  let v : St := { kind := .validated }
  have e := nVal_set net.actors p v hlen
  have hov : isVal (net.actors.getD p {}) = false := by
    simp only [isVal]; cases hk : (net.actors.getD p {}).kind <;> simp_all
  have hvv : isVal v = true := rfl
  rw [hov, hvv] at e
  have hL : isVal ((net.actors.set p v).getD su.leader {}) = false := by
    rw [getD_set_ne _ _ _ _ hpl]; simp only [isVal, (hI.act _ hwf.hl).lead rfl]; rfl
  have hBd : isVal ((net.actors.set p v).getD b {}) = false := by
    rw [getD_set_ne _ _ _ _ hpb]
    have := (hI.act _ hwf.hb).bad rfl
    simp only [isVal]; cases hk : (net.actors.getD b {}).kind <;> simp_all
  have hbound := nVal_le (net.actors.set p v) su.leader b (by simp [hI.alen, hwf.hl]) (by simp [hI.alen, hwf.hb]) (Ne.symm hwf.hne) hL hBd
  have := (hI.phase1 hph).1
  simp [hI.alen] at hbound e
  omega

theorem Inv_okreply {su : Setup} {bp : Pol} {b : Nat} {net : Net} (hwf : WF su bp b) (hI : Inv su bp b net) (p : Nat) (hp : p < su.n)
    (hpl : p ≠ su.leader) (hpb : p ≠ b) (s' : St) (t : Net)
    (hA : t.actors = net.actors.set p s') (hs : ActorOk su bp b p s') (hv : s'.kind = .validated)
    (hold : (net.actors.getD p {}).kind ≠ .validated)
    (hph : (net.actors.getD su.leader {}).pol ≠ none)
    (hB : t.busy = net.busy) (hW : t.waitVal = net.waitVal - 1) (hF : ∀ x ∈ t.flight, x ∈ net.flight)
    (hE : t.executing = net.executing) (hO : t.outputs = net.outputs) (hfa : t.fails = net.fails)
    (hS : ∃ v, t.schedOk = net.schedOk.set p v) : Inv su bp b t := by
  have hlen : p < net.actors.length := by rw [hI.alen]; exact hp
  have hw2 := waitVal_ge_two hwf hI p hp hpl hpb hold hph
  have hlead : (net.actors.set p s').getD su.leader {} = net.actors.getD su.leader {} := getD_set_ne _ _ _ _ hpl
  have hnv : nVal (net.actors.set p s') = nVal net.actors + 1 := by
    have e := nVal_set net.actors p s' hlen
    have hov : isVal (net.actors.getD p {}) = false := by
      simp only [isVal]; cases hk : (net.actors.getD p {}).kind <;> simp_all
    have hvv : isVal s' = true := by simp [isVal, hv]
    rw [hov, hvv] at e; simpa using e
  constructor
  · rw [hA]; simpa using hI.alen
  · rw [hB]; exact hI.blen
  · intro x hx; exact hI.fl x (hF x hx)
  · rw [hA]; exact act_set hI.alen hI.act p hp s' hs
  · rw [hE]; exact hI.exec
  · rw [hO]; exact hI.outs
  · rw [hfa]; exact hI.nofail
  · obtain ⟨v, hS⟩ := hS
    rw [hS]
    have := hI.sched
    simp only [List.getD_eq_getElem?_getD] at this ⊢
    rw [List.getElem?_set_ne hpb, List.getElem?_set_ne hpl]; exact this
  · rw [hA, hlead]; intro h0; exact absurd h0 hph
  · rw [hA, hlead]; intro _
    obtain ⟨c1, d1⟩ := hI.phase1 hph
    refine ⟨by rw [hW, hnv]; omega, by rw [hB]; exact d1⟩

/-- the leader's own schedule call is delivered: validate requests go out to everybody else. -/
theorem Inv_leader {su : Setup} {bp : Pol} {b : Nat} {net : Net} (hwf : WF su bp b) (hI : Inv su bp b net) (s' : St) (t : Net)
    (h0 : (net.actors.getD su.leader {}).pol = none)
    (hA : t.actors = net.actors.set su.leader s') (hs : ActorOk su bp b su.leader s') (hpol : s'.pol ≠ none)
    (hB : t.busy = net.busy.set su.leader true) (hW : t.waitVal = su.n - 1)
    (hF : ∀ x ∈ t.flight, x ∈ net.flight ∨ ∃ q, q < su.n ∧ q ≠ su.leader ∧ x = (q, .validate ⟨42, su.leader⟩))
    (hE : t.executing = net.executing) (hO : t.outputs = net.outputs) (hfa : t.fails = net.fails)
    (hS : t.schedOk = net.schedOk) : Inv su bp b t := by
  have hlen : su.leader < net.actors.length := by rw [hI.alen]; exact hwf.hl
  obtain ⟨w0, f0, k0⟩ := hI.phase0 h0
  have hz : nVal (net.actors.set su.leader s') = 0 := by
    simp only [nVal, List.countP_eq_zero]
    intro a ha
    obtain ⟨i, hi, rfl⟩ := List.getElem_of_mem ha
    have hi' : i < su.n := by simpa [hI.alen] using hi
    have hk := act_set hI.alen hI.act su.leader hwf.hl s' hs i hi'
    rw [getD_eq_getElem _ _ hi] at hk
    have hkk : (net.actors.set su.leader s')[i].kind = .init ∨ (net.actors.set su.leader s')[i].kind = .awaitingValidation := by
      by_cases hil : su.leader = i
      · left; exact hk.lead hil.symm
      · have := k0 i hi'
        rw [← getD_set_ne _ _ _ s' hil, getD_eq_getElem _ _ hi] at this; exact this
    rcases hkk with h | h <;> simp [isVal, h]
  constructor
  · rw [hA]; simpa using hI.alen
  · rw [hB]; simp [hI.blen]
  · intro x hx
    rcases hF x hx with h | ⟨q, hq, hql, rfl⟩
    · exact hI.fl x h
    · simp [okCmd, hq, hql]
  · rw [hA]; exact act_set hI.alen hI.act su.leader hwf.hl s' hs
  · rw [hE]; exact hI.exec
  · rw [hO]; exact hI.outs
  · rw [hfa]; exact hI.nofail
  · rw [hS]; exact hI.sched
  · rw [hA, getD_set_self _ _ _ hlen]; intro h; exact absurd h hpol
  · rw [hA, getD_set_self _ _ _ hlen]; intro _
    refine ⟨by rw [hW, hz]; rfl, ?_⟩
    left; rw [hB]; simp [List.getD_eq_getElem?_getD, hI.blen, hwf.hl]

theorem badPol_good (su : Setup) (bp : Pol) (b p : Nat) (h : p ≠ b) : badPol su bp b p = polOf su p := if_neg h
theorem badPol_bad (su : Setup) (bp : Pol) (b : Nat) : badPol su bp b b = bp := if_pos rfl
theorem badPol_wt {su : Setup} {bp : Pol} {b : Nat} (hwf : WF su bp b) (p : Nat) : (badPol su bp b p).wellTyped = true := by
  unfold badPol; split
  · exact hwf.bwt
  · rfl
theorem badPol_follower {su : Setup} {bp : Pol} {b : Nat} (hwf : WF su bp b) (p : Nat) (hpl : p ≠ su.leader) :
    (badPol su bp b p).party ≠ (badPol su bp b p).leader := by
  unfold badPol; split
  · rename_i h; subst h; rw [hwf.bpar]; exact fun hh => hwf.bnl hh.symm
  · exact hpl
theorem badPol_leader_good (su : Setup) (bp : Pol) (b p : Nat) (h : p ≠ b) : (badPol su bp b p).leader = su.leader := by rw [badPol_good _ _ _ _ h]; rfl
theorem badPol_hash_good (su : Setup) (bp : Pol) (b p : Nat) (h : p ≠ b) : (badPol su bp b p).hash = 42 := by rw [badPol_good _ _ _ _ h]; rfl

theorem mem_eraseIdx_sub {l : List (Nat × Cmd)} {k : Nat} : ∀ x ∈ l.eraseIdx k, x ∈ l := fun _ hx => List.mem_of_mem_eraseIdx hx

theorem deliver_inv (su : Setup) (bp : Pol) (b : Nat) (hwf : WF su bp b) (net t : Net) (k : Nat) (hI : Inv su bp b net)
    (h : deliver Cfg.current su net k = some t) : Inv su bp b t := by
  unfold deliver at h
  split at h
  · cases h
  · rename_i p c hk
    have hx : (p, c) ∈ net.flight := List.mem_of_getElem? hk
    have hok := hI.fl _ hx
    split at h
    · cases h
    · rename_i hbusy
      cases c <;> simp only [okCmd] at hok
      case schedule pol =>
        obtain ⟨hp, rfl⟩ := hok
        have ha := hI.act p hp
        have hK0 : (net.actors.getD su.leader {}).pol = none →
            (net.actors.getD p {}).kind = .init ∨ (net.actors.getD p {}).kind = .awaitingValidation := fun h0 => (hI.phase0 h0).2.2 p hp
        by_cases hst : (net.actors.getD p {}).stopped = true
        · rw [step_stopped _ _ hst] at h
          simp [applyEff] at h
          subst h
          exact Inv_quiet hI p hp (net.actors.getD p {}) _ rfl ha rfl (fun _ => ⟨rfl, id⟩) (.inl rfl)
            (fun x hx => .inl (mem_eraseIdx_sub x hx)) hK0 rfl rfl rfl rfl rfl
        · have hns : (net.actors.getD p {}).stopped = false := by simpa using hst
          by_cases hpl : p = su.leader
          · subst hpl
            have hki := ha.lead rfl
            by_cases h0 : (net.actors.getD su.leader {}).pol = none
            · rw [step_sched_leader _ _ hns hki (badPol_wt hwf _) (by rw [badPol_good _ _ _ _ (Ne.symm hwf.hne)]; rfl)] at h
              simp [applyEff] at h
              subst h
              refine Inv_leader hwf hI _ _ h0 rfl ?_ (by simp) rfl rfl ?_ rfl rfl rfl rfl
              · exact ⟨.inl hki, fun _ => hki, fun _ => by simp [initChannel, hki], fun hh => by simp [initChannel, hki] at hh,
                  fun hh => by simp [initChannel, hki] at hh, by simp [initChannel, ha.permit]⟩
              · intro x hx
                simp only [mem_foldl_insertSorted] at hx
                rcases hx with hx | ⟨q, hq, rfl⟩
                · exact .inl (mem_eraseIdx_sub x hx)
                · simp at hq
                  exact .inr ⟨q, hq.1, hq.2, rfl⟩
            · exfalso
              rcases (hI.phase1 h0).2 with hb | hs
              · exact hbusy ⟨hb, rfl⟩
              · rw [hs] at hns; cases hns
          · have hpp := badPol_follower hwf p hpl
            rcases ha.kind with hki | hki | hki | hki
            · -- Init: the policy is stored, the reply is kept
              rw [step_sched_init _ _ hns hki (badPol_wt hwf _) hpp] at h
              simp at h
              subst h
              refine Inv_quiet hI p hp _ _ rfl ?_ (by simp only [isVal, hki]; decide) (fun hh => absurd hh hpl) (.inl rfl)
                (fun x hx => .inl (mem_eraseIdx_sub x hx)) (fun _ => .inr rfl) rfl rfl rfl rfl rfl
              exact ⟨.inr (.inl rfl), fun hh => absurd hh hpl, fun _ => by simp, fun _ => rfl, fun hh => by simp at hh,
                by simp [initChannel, ha.permit]⟩
            · rw [step_sched_refused _ _ hns (.inl hki) (badPol_wt hwf _) hpp] at h
              simp [applyEff] at h
              subst h
              exact Inv_quiet hI p hp (net.actors.getD p {}) _ rfl ha rfl (fun _ => ⟨rfl, id⟩) (.inl rfl)
                (fun x hx => .inl (mem_eraseIdx_sub x hx)) hK0 rfl rfl rfl rfl rfl
            · -- ValidateRequested: the leader's request is already here
              have hvr := ha.vreq hki
              have hph : (net.actors.getD su.leader {}).pol ≠ none := by
                intro h0; rcases hK0 h0 with hh | hh <;> rw [hki] at hh <;> cases hh
              by_cases hpb : p = b
              · subst hpb
                have hq : ∀ t' : Net, (∀ x ∈ t'.flight, x ∈ insertSorted (su.leader, Cmd.leaderValidated false) (net.flight.eraseIdx k)) →
                    t'.actors = net.actors.set p { net.actors.getD p {} with stopped := true, permit := false } → t'.busy = net.busy →
                    t'.waitVal = net.waitVal → t'.executing = net.executing → t'.outputs = net.outputs → t'.fails = net.fails →
                    t'.schedOk = net.schedOk → Inv su bp p t' := by
                  intro t' hF hA hB hW hE hO hfa hS
                  refine Inv_quiet hI p hp _ _ hA ?_ rfl (fun hh => absurd hh hpl) (.inl hB) ?_ (fun h0 => absurd h0 hph) hW hE hO hfa hS
                  · exact ⟨.inr (.inr (.inl hki)), fun hh => absurd hh hpl, fun _ => by simp [hki], fun hh => by simp [hki] at hh,
                      fun _ => hvr, rfl⟩
                  · intro x hx
                    have hx := hF x hx
                    rw [mem_insertSorted] at hx
                    rcases hx with rfl | hx
                    · exact .inr ⟨rfl, hph⟩
                    · exact .inl (mem_eraseIdx_sub x hx)
                rw [badPol_bad] at h hpp
                by_cases hL : su.leader = bp.leader
                · have hh : (42 : Nat) ≠ bp.hash := by
                    rcases hwf.bmis with hm | hm
                    · exact absurd hL.symm hm
                    · exact fun e => hm e.symm
                  rw [step_sched_vr_hash _ _ hns hki hwf.bwt hpp _ hvr hL hh ha.permit] at h
                  simp [applyEff] at h
                  subst h
                  exact hq _ (fun _ hx => hx) rfl rfl rfl rfl rfl rfl rfl
                · rw [step_sched_vr_leader _ _ hns hki hwf.bwt hpp _ hvr hL ha.permit] at h
                  simp [applyEff] at h
                  subst h
                  exact hq _ (fun _ hx => hx) rfl rfl rfl rfl rfl rfl rfl
              · rw [step_sched_vr_ok _ _ hns hki (badPol_wt hwf _) hpp _ hvr (by rw [badPol_leader_good _ _ _ _ hpb]) (by rw [badPol_hash_good _ _ _ _ hpb])] at h
                have hw2 := waitVal_ge_two hwf hI p hp hpl hpb (by rw [hki]; simp) hph
                have hne1 : net.waitVal ≠ 1 := by omega
                simp [applyEff, hne1] at h
                subst h
                refine Inv_okreply hwf hI p hp hpl hpb _ _ rfl ?_ rfl (by rw [hki]; simp) hph rfl rfl
                  (fun x hx => mem_eraseIdx_sub x hx) rfl rfl rfl ⟨_, rfl⟩
                exact ⟨.inr (.inr (.inr rfl)), fun hh => absurd hh hpl, fun hh => absurd hh hpb, fun hh => by simp at hh,
                  fun hh => by simp at hh, by simp [initChannel, ha.permit]⟩
            · rw [step_sched_refused _ _ hns (.inr hki) (badPol_wt hwf _) hpp] at h
              simp [applyEff] at h
              subst h
              exact Inv_quiet hI p hp (net.actors.getD p {}) _ rfl ha rfl (fun _ => ⟨rfl, id⟩) (.inl rfl)
                (fun x hx => .inl (mem_eraseIdx_sub x hx)) hK0 rfl rfl rfl rfl rfl
      case validate r =>
        obtain ⟨hp, hpl, rfl⟩ := hok
        have ha := hI.act p hp
        have hph : (net.actors.getD su.leader {}).pol ≠ none := by
          intro h0; obtain ⟨pol, hpol⟩ := (hI.phase0 h0).2.1 _ hx; cases hpol
        have hF1 : ∀ x ∈ insertSorted (su.leader, Cmd.leaderValidated false) (net.flight.eraseIdx k),
            x ∈ net.flight ∨ (x = (su.leader, .leaderValidated false) ∧ (net.actors.getD su.leader {}).pol ≠ none) := by
          intro x hx
          rw [mem_insertSorted] at hx
          rcases hx with rfl | hx
          · exact .inr ⟨rfl, hph⟩
          · exact .inl (mem_eraseIdx_sub x hx)
        by_cases hst : (net.actors.getD p {}).stopped = true
        · rw [step_stopped _ _ hst] at h
          simp [applyEff] at h
          subst h
          exact Inv_quiet hI p hp (net.actors.getD p {}) _ rfl ha rfl (fun _ => ⟨rfl, id⟩) (.inl rfl)
            (fun x hx => .inl (mem_eraseIdx_sub x hx)) (fun h0 => absurd h0 hph) rfl rfl rfl rfl rfl
        · have hns : (net.actors.getD p {}).stopped = false := by simpa using hst
          rcases ha.kind with hki | hki | hki | hki
          · rw [step_val_init _ hns hki] at h
            simp at h
            subst h
            refine Inv_quiet hI p hp _ _ rfl ?_ (by simp only [isVal, hki]; decide) (fun hh => absurd hh hpl) (.inl rfl)
              (fun x hx => .inl (mem_eraseIdx_sub x hx)) (fun h0 => absurd h0 hph) rfl rfl rfl rfl rfl
            exact ⟨.inr (.inr (.inl rfl)), fun hh => absurd hh hpl, fun _ => by simp, fun hh => by simp at hh, fun _ => rfl, ha.permit⟩
          · have hpo := ha.pol hki
            by_cases hpb : p = b
            · subst hpb
              rw [badPol_bad] at hpo
              have hs' : ActorOk su bp p p ({ net.actors.getD p {} with stopped := true, permit := false } : St) :=
                ⟨.inr (.inl hki), fun hh => absurd hh hpl, fun _ => by simp [hki], fun _ => by rw [badPol_bad]; exact hpo, fun hh => by simp [hki] at hh, rfl⟩
              by_cases hL : su.leader = bp.leader
              · have hh : (42 : Nat) ≠ bp.hash := by
                  rcases hwf.bmis with hm | hm
                  · exact absurd hL.symm hm
                  · exact fun e => hm e.symm
                rw [step_val_aw_hash _ _ hns hki _ hpo hL hh ha.permit] at h
                simp [applyEff] at h
                subst h
                exact Inv_quiet hI p hp _ _ rfl hs' rfl (fun hh => absurd hh hpl) (.inl rfl) hF1 (fun h0 => absurd h0 hph) rfl rfl rfl rfl rfl
              · rw [step_val_aw_leader _ _ hns hki _ hpo hL ha.permit] at h
                simp [applyEff] at h
                subst h
                exact Inv_quiet hI p hp _ _ rfl hs' rfl (fun hh => absurd hh hpl) (.inl rfl) hF1 (fun h0 => absurd h0 hph) rfl rfl rfl rfl rfl
            · rw [step_val_aw_ok _ _ hns hki _ hpo (by rw [badPol_leader_good _ _ _ _ hpb]) (by rw [badPol_hash_good _ _ _ _ hpb])] at h
              have hw2 := waitVal_ge_two hwf hI p hp hpl hpb (by rw [hki]; simp) hph
              have hne1 : net.waitVal ≠ 1 := by omega
              simp [applyEff, hne1] at h
              subst h
              refine Inv_okreply hwf hI p hp hpl hpb _ _ rfl ?_ rfl (by rw [hki]; simp) hph rfl rfl
                (fun x hx => mem_eraseIdx_sub x hx) rfl rfl rfl ⟨_, rfl⟩
              exact ⟨.inr (.inr (.inr rfl)), fun hh => absurd hh hpl, fun hh => absurd hh hpb, fun hh => by simp at hh,
                fun hh => by simp at hh, ha.permit⟩
          · rw [step_val_refused _ hns (.inl hki)] at h
            simp [applyEff] at h
            subst h
            exact Inv_quiet hI p hp (net.actors.getD p {}) _ rfl ha rfl (fun _ => ⟨rfl, id⟩) (.inl rfl) hF1 (fun h0 => absurd h0 hph) rfl rfl rfl rfl rfl
          · rw [step_val_refused _ hns (.inr hki)] at h
            simp [applyEff] at h
            subst h
            exact Inv_quiet hI p hp (net.actors.getD p {}) _ rfl ha rfl (fun _ => ⟨rfl, id⟩) (.inl rfl) hF1 (fun h0 => absurd h0 hph) rfl rfl rfl rfl rfl
      case leaderValidated ok =>
        cases ok <;> simp only at hok
        subst hok
        have ha := hI.act su.leader hwf.hl
        have hK0 : (net.actors.getD su.leader {}).pol = none →
            (net.actors.getD su.leader {}).kind = .init ∨ (net.actors.getD su.leader {}).kind = .awaitingValidation := fun _ => .inl (ha.lead rfl)
        by_cases hst : (net.actors.getD su.leader {}).stopped = true
        · rw [step_stopped _ _ hst] at h
          simp [applyEff] at h
          subst h
          exact Inv_quiet hI su.leader hwf.hl (net.actors.getD su.leader {}) _ rfl ha rfl (fun _ => ⟨rfl, id⟩) (.inr ⟨rfl, rfl, hst⟩)
            (fun x hx => .inl (mem_eraseIdx_sub x hx)) hK0 rfl rfl rfl rfl rfl
        · have hns : (net.actors.getD su.leader {}).stopped = false := by simpa using hst
          rw [step_lvfalse _ hns ha.permit] at h
          simp [applyEff] at h
          subst h
          refine Inv_quiet hI su.leader hwf.hl _ _ rfl ?_ rfl (fun _ => ⟨rfl, fun _ => rfl⟩) (.inr ⟨rfl, rfl, rfl⟩)
            (fun x hx => .inl (mem_eraseIdx_sub x hx)) hK0 rfl rfl rfl rfl rfl
          exact ⟨.inl (ha.lead rfl), fun _ => ha.lead rfl, fun hh => absurd hh.symm hwf.hne, fun hh => by simp [ha.lead rfl] at hh,
            fun hh => by simp [ha.lead rfl] at hh, rfl⟩

theorem failAt_none (su : Setup) (net : Net) (k : Nat) (h : net.fails = 0) : failAt Cfg.current su net k = none := by
  simp [failAt, h]

theorem successors_inv (su : Setup) (bp : Pol) (b : Nat) (hwf : WF su bp b) (net t : Net) (hI : Inv su bp b net)
    (h : t ∈ successors Cfg.current su net) : Inv su bp b t := by
  unfold successors at h
  rw [List.mem_eraseDups, List.mem_append, List.mem_filterMap, List.mem_filterMap] at h
  rcases h with ⟨k, _, hk⟩ | ⟨k, _, hk⟩
  · exact deliver_inv su bp b hwf net t k hI hk
  · rw [failAt_none su net k hI.nofail] at hk; cases hk

/-- party `b` (a follower) schedules the policy `bp`; everybody else as in `initNet`. -/
def initNetBadPol (su : Setup) (bp : Pol) (b : Nat) : Net :=
  { initNetF su 0 with flight := (List.range su.n).foldl (fun acc p => insertSorted (p, .schedule (if p = b then bp else polOf su p)) acc) [] }

theorem initNetBad_eq (su : Setup) (b : Nat) : initNetBad su b = initNetBadPol su { polOf su b with hash := 43 } b := by
  have hf : (fun (acc : List (Nat × Cmd)) p => insertSorted (p, Cmd.schedule (if p = b then { polOf su p with hash := 43 } else polOf su p)) acc)
      = (fun acc p => insertSorted (p, Cmd.schedule (if p = b then { polOf su b with hash := 43 } else polOf su p)) acc) := by
    funext acc p
    by_cases h : p = b
    · subst h; rfl
    · simp [h]
  unfold initNetBad initNetBadPol
  rw [hf]

theorem initNetBad_inv (su : Setup) (bp : Pol) (b : Nat) : Inv su bp b (initNetBadPol su bp b) := by
  have hfl : (initNetBadPol su bp b).flight = (List.range su.n).foldl (fun acc q => insertSorted ((fun q => (q, Cmd.schedule (badPol su bp b q))) q) acc) [] := rfl
  have hact : ∀ p, (initNetBadPol su bp b).actors.getD p {} = {} := by
    intro p
    show (List.replicate su.n ({} : St)).getD p {} = {}
    rw [List.getD_eq_getElem?_getD, List.getElem?_replicate]; split <;> rfl
  have hflm : ∀ x ∈ (initNetBadPol su bp b).flight, ∃ q, q < su.n ∧ x = (q, Cmd.schedule (badPol su bp b q)) := by
    intro x hx
    rw [hfl, mem_foldl_insertSorted] at hx
    rcases hx with hx | ⟨q, hq, rfl⟩
    · cases hx
    · exact ⟨q, by simpa using hq, rfl⟩
  constructor
  · show (List.replicate su.n ({} : St)).length = su.n; simp
  · show (List.replicate su.n false).length = su.n; simp
  · intro x hx
    obtain ⟨q, hq, rfl⟩ := hflm x hx
    exact ⟨hq, rfl⟩
  · intro p _; rw [hact]
    exact ⟨.inl rfl, fun _ => rfl, fun _ => by simp, fun hh => by simp at hh, fun hh => by simp at hh, rfl⟩
  · intro x hx
    have : x ∈ List.replicate su.n false := hx
    exact (List.mem_replicate.mp this).2
  · intro x hx
    have : x ∈ List.replicate su.n 0 := hx
    exact (List.mem_replicate.mp this).2
  · rfl
  · have h : ∀ p, (List.replicate su.n 0).getD p 0 = 0 := by
      intro p; rw [List.getD_eq_getElem?_getD, List.getElem?_replicate]; split <;> rfl
    exact ⟨h b, h su.leader⟩
  · intro _
    refine ⟨rfl, ?_, ?_⟩
    · intro x hx
      obtain ⟨q, _, rfl⟩ := hflm x hx
      exact ⟨_, rfl⟩
    · intro p _; rw [hact]; exact .inl rfl
  · intro h; rw [hact] at h; exact absurd rfl h

/-- **C16, any number of parties, any leader, any destinations and constants, every interleaving.**  Follower `b` has scheduled a policy `bp`
    that names a different program or a different leader (a third party, not itself) than the leader's policy.  In every reachable state
    of the network: no MPC task has been started at any party, no result or error notification has been delivered to any destination (the
    refusals are error REPLIES to the schedule calls), no state machine is past `Validated`, no `run` command is in flight, and neither the
    leader's nor `b`'s schedule call has been answered `Ok`. -/
theorem C16_general_mismatch_net (su : Setup) (bp : Pol) (b : Nat) (hl : su.leader < su.n) (hb : b < su.n) (hne : b ≠ su.leader)
    (hwt : bp.wellTyped = true) (hpar : bp.party = b) (hnl : bp.leader ≠ b) (hmis : bp.leader ≠ su.leader ∨ bp.hash ≠ 42) (s : Net)
    (h : Reach (successors Cfg.current su) (initNetBadPol su bp b) s) :
    (∀ x ∈ s.executing, x = false) ∧ (∀ x ∈ s.outputs, x = 0)
    ∧ (∀ p, p < su.n → (s.actors.getD p {}).kind ≠ .running ∧ (s.actors.getD p {}).kind ≠ .executing
        ∧ (s.actors.getD p {}).kind ≠ .sendingConsts ∧ (s.actors.getD p {}).kind ≠ .sendingConstsCompleted)
    ∧ (s.actors.getD b {}).kind ≠ .validated
    ∧ s.schedOk.getD b 0 = 0 ∧ s.schedOk.getD su.leader 0 = 0
    ∧ (∀ x ∈ s.flight, ∀ e, x.2 ≠ .run e) := by
  have hI : Inv su bp b s := by
    induction h with
    | init => exact initNetBad_inv su bp b
    | step _ ht ih => exact successors_inv su bp b ⟨hl, hb, hne, hwt, hpar, hnl, hmis⟩ _ _ ih ht
  refine ⟨hI.exec, hI.outs, ?_, (hI.act b hb).bad rfl, hI.sched.1, hI.sched.2, ?_⟩
  · intro p hp
    rcases (hI.act p hp).kind with h | h | h | h <;> simp [h]
  · intro x hx e he
    have := hI.fl x hx
    obtain ⟨q, c⟩ := x
    simp only at he
    subst he
    simp [okCmd] at this

/-- the instance explored exhaustively for two parties in `C16net.lean` (`initNetBad`: another program, hash 43). -/
theorem C16_general_mismatch_program (su : Setup) (b : Nat) (hl : su.leader < su.n) (hb : b < su.n) (hne : b ≠ su.leader) (s : Net)
    (h : Reach (successors Cfg.current su) (initNetBad su b) s) :
    (∀ x ∈ s.executing, x = false) ∧ (∀ x ∈ s.outputs, x = 0) ∧ s.schedOk.getD b 0 = 0 ∧ s.schedOk.getD su.leader 0 = 0 := by
  rw [initNetBad_eq] at h
  have := C16_general_mismatch_net su _ b hl hb hne rfl rfl (fun e => hne e.symm) (.inr (by simp)) s h
  exact ⟨this.1, this.2.1, this.2.2.2.2.1, this.2.2.2.2.2.1⟩

/-- non-vacuity: the hypotheses are met by a five-party setup with a follower that names ANOTHER LEADER (party 0 instead of 4), and the
    network does move (the initial state has five successors). -/
example : (4 : Nat) < 5 ∧ (2 : Nat) < 5 ∧ (2 : Nat) ≠ 4 ∧ (0 : Nat) ≠ 2 ∧
    (successors Cfg.current ⟨5, 4, [true, false, true, false, true], [false, true, false, false, true]⟩
      (initNetBadPol ⟨5, 4, [true, false, true, false, true], [false, true, false, false, true]⟩ ⟨2, 0, 5, 42, true, true, false, 2⟩ 2)).length = 5 := by decide +kernel

end PolytuneModel.Server
