import PolytuneModel.Proto.OnlineMsgs
/-! C05 at message level, about `OnlineMsgs.online` — the proof model of the online phase whose every message is compared byte for
    byte with the real traffic (`drive C01m`): output-phase messages go to members of the output set only, and carry a value exactly
    at the output registers. -/
namespace PolytuneModel.OnlineMsgs

/-- every `output wire shares` message is addressed to a member of the output set (and not to its own sender). -/
theorem C05_out_shares_recipients (t : Online.Taps) (circ : Circuit) (e : Nat) (pOut : List Nat) (inputs : List (List Bool)) :
    ∀ x ∈ (online t circ e pOut inputs).outShares, x.2.1 ∈ pOut ∧ x.2.1 ≠ x.1 := by
  intro x hx
  simp only [online, List.mem_flatMap, List.mem_map, List.mem_filter, List.mem_range] at hx
  obtain ⟨p, _, q, ⟨hq, hne⟩, rfl⟩ := hx
  exact ⟨hq, by simpa using hne⟩

/-- every `lambda` message goes to a member of the output set other than the evaluator. -/
theorem C05_lambda_recipients (t : Online.Taps) (circ : Circuit) (e : Nat) (pOut : List Nat) (inputs : List (List Bool)) :
    ∀ x ∈ (online t circ e pOut inputs).lambda, x.1 ∈ pOut ∧ x.1 ≠ e := by
  intro x hx
  simp only [online, List.mem_map, List.mem_filter] at hx
  obtain ⟨q, ⟨hq, hne⟩, rfl⟩ := hx
  exact ⟨hq, by simpa using hne⟩

/-- the slot selector of both output-phase messages: a value is present exactly at the output registers. -/
theorem C05_slots_are_output_regs (circ : Circuit) (r : Nat) {α} (v : α) :
    (if circ.outputRegs.eraseDups.contains r then some v else none).isSome = circ.outputRegs.contains r := by
  have : circ.outputRegs.eraseDups.contains r = circ.outputRegs.contains r := by
    rw [Bool.eq_iff_iff]; simp [List.mem_eraseDups]
  rw [this]; cases circ.outputRegs.contains r <;> rfl

end PolytuneModel.OnlineMsgs
