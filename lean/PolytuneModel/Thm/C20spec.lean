import PolytuneModel.Thm.C20
import PolytuneModel.Thm.C11kos
import PolytuneModel.Prim.Clmul
/-! C20 — the 128×128 carry-less product is EXACT, with correctly split halves: if the 64×64-bit primitive returns the schoolbook
    product (`Kos.M`, carry-less multiplication in GF(2)[X], the function `clmulNat` of the executable specification equals), then
    the four-product composition (PCLMULQDQ path) and — by `C20_scalar_eq_simd` — the Karatsuba composition (portable path, text
    regenerated from `gf128.rs`) return `(p mod 2^128, p div 2^128)` for `p = a ⊗ b`, for all 2^256 operand pairs. -/
namespace PolytuneModel
open Kos

theorem M_shiftN_left (a b : Nat) : ∀ k, M (a <<< k) b = (M a b) <<< k
  | 0 => by simp
  | k+1 => by
    have : a <<< (k + 1) = (a <<< k) <<< 1 := by rw [Nat.shiftLeft_add]
    rw [this, M_shift_left, M_shiftN_left a b k, ← Nat.shiftLeft_add]

theorem M_shiftN_right (a b k : Nat) : M a (b <<< k) = (M a b) <<< k := by
  rw [M_comm, M_shiftN_left, M_comm]

theorem split64 (a : Nat) : a = (a % 2 ^ 64) ^^^ ((a >>> 64) <<< 64) := by
  apply Nat.eq_of_testBit_eq; intro i
  simp only [Nat.testBit_xor, Nat.testBit_mod_two_pow, Nat.testBit_shiftLeft, Nat.testBit_shiftRight]
  by_cases h : i < 64
  · have : ¬ (i ≥ 64) := by omega
    simp [h, this]
  · have h2 : i ≥ 64 := by omega
    have : 64 + (i - 64) = i := by omega
    simp [h, h2, this]

/-- schoolbook product of two 128-bit operands from the four 64×64 products. -/
theorem M_four (al ah bl bh : Nat) :
    M (al ^^^ (ah <<< 64)) (bl ^^^ (bh <<< 64)) = M al bl ^^^ ((M ah bl ^^^ M al bh) <<< 64) ^^^ ((M ah bh) <<< 128) := by
  rw [M_xor_left, M_xor_right, M_xor_right, M_shiftN_left, M_shiftN_left, M_shiftN_right, M_shiftN_right, ← Nat.shiftLeft_add]
  apply Nat.eq_of_testBit_eq; intro i
  simp only [Nat.testBit_xor, Nat.testBit_shiftLeft]
  by_cases h : i ≥ 64 <;> simp [h] <;> (generalize (M al bl).testBit i = w; try generalize (M al bh).testBit (i - 64) = x; try generalize (M ah bl).testBit (i - 64) = y; cases w <;> (try cases x) <;> (try cases y) <;> simp)

theorem low_part (ll mid hh : Nat) (h : ll < 2 ^ 128) : (ll ^^^ (mid <<< 64) ^^^ (hh <<< 128)) % 2 ^ 128 = ll ^^^ ((mid <<< 64) % 2 ^ 128) := by
  apply Nat.eq_of_testBit_eq; intro i
  simp only [Nat.testBit_xor, Nat.testBit_mod_two_pow, Nat.testBit_shiftLeft]
  by_cases hi : i < 128
  · have : ¬ (i ≥ 128) := by omega
    simp [hi, this]
  · have : ll.testBit i = false := Nat.testBit_lt_two_pow (Nat.lt_of_lt_of_le h (Nat.pow_le_pow_right (by decide) (by omega)))
    simp [hi, this]

theorem high_part (ll mid hh : Nat) (h : ll < 2 ^ 128) : (ll ^^^ (mid <<< 64) ^^^ (hh <<< 128)) >>> 128 = hh ^^^ (mid >>> 64) := by
  apply Nat.eq_of_testBit_eq; intro i
  simp only [Nat.testBit_xor, Nat.testBit_shiftRight, Nat.testBit_shiftLeft]
  have : ll.testBit (128 + i) = false := Nat.testBit_lt_two_pow (Nat.lt_of_lt_of_le h (Nat.pow_le_pow_right (by decide) (by omega)))
  have e1 : 128 + i - 64 = 64 + i := by omega
  have e2 : 128 + i - 128 = i := by omega
  have g1 : 128 + i ≥ 64 := by omega
  have g2 : 128 + i ≥ 128 := by omega
  simp [this, e1, e2, g1, g2, Bool.xor_comm]

/-- **C20: the SIMD composition returns the exact product, correctly split**, given the 64-bit primitive is the schoolbook product. -/
theorem C20_pclmul128_exact (I : BitVec 64 → BitVec 64 → BitVec 128)
    (hI : ∀ x y : BitVec 64, (I x y).toNat = M x.toNat y.toNat) (a b : BitVec 128) :
    ((pclmul128 I a b).1.toNat, (pclmul128 I a b).2.toNat) = ((M a.toNat b.toNat) % 2 ^ 128, (M a.toNat b.toNat) >>> 128) := by
  have ha := split64 a.toNat; have hb := split64 b.toNat
  have hah : (a.toNat >>> 64) % 2 ^ 64 = a.toNat >>> 64 := Nat.mod_eq_of_lt (by have := a.isLt; rw [Nat.shiftRight_eq_div_pow]; omega)
  have hbh : (b.toNat >>> 64) % 2 ^ 64 = b.toNat >>> 64 := Nat.mod_eq_of_lt (by have := b.isLt; rw [Nat.shiftRight_eq_div_pow]; omega)
  have hll : M (a.toNat % 2 ^ 64) (b.toNat % 2 ^ 64) < 2 ^ 128 := by
    have := hI (a.setWidth 64) (b.setWidth 64); simp only [BitVec.toNat_setWidth] at this; rw [← this]; exact (I _ _).isLt
  have hp : M a.toNat b.toNat = M (a.toNat % 2 ^ 64) (b.toNat % 2 ^ 64) ^^^ ((M (a.toNat >>> 64) (b.toNat % 2 ^ 64) ^^^ M (a.toNat % 2 ^ 64) (b.toNat >>> 64)) <<< 64) ^^^ ((M (a.toNat >>> 64) (b.toNat >>> 64)) <<< 128) := by
    conv => lhs; rw [ha, hb]
    exact M_four _ _ _ _
  simp only [pclmul128, BitVec.toNat_xor, BitVec.toNat_shiftLeft, BitVec.toNat_ushiftRight, hI, BitVec.toNat_setWidth, hah, hbh]
  rw [hp, low_part _ _ _ hll, high_part _ _ _ hll]

/-- … and so does the portable Karatsuba code regenerated from the source. -/
theorem C20_clmul128_exact (hI : ∀ x y : BitVec 64, (Gen.clmul64 x y).toNat = M x.toNat y.toNat) (a b : BitVec 128) :
    ((Gen.clmul128 a b).1.toNat, (Gen.clmul128 a b).2.toNat) = ((M a.toNat b.toNat) % 2 ^ 128, (M a.toNat b.toNat) >>> 128) := by
  have hl : ∀ x x' y, Gen.clmul64 (x ^^^ x') y = Gen.clmul64 x y ^^^ Gen.clmul64 x' y := by
    intro x x' y; apply BitVec.eq_of_toNat_eq; simp only [hI, BitVec.toNat_xor, M_xor_left]
  have hr : ∀ x y y', Gen.clmul64 x (y ^^^ y') = Gen.clmul64 x y ^^^ Gen.clmul64 x y' := by
    intro x y y'; apply BitVec.eq_of_toNat_eq; simp only [hI, BitVec.toNat_xor, M_xor_right]
  rw [C20_scalar_eq_simd Gen.clmul64 (fun _ _ => rfl) hl hr]
  exact C20_pclmul128_exact Gen.clmul64 hI a b

/-- the right-hand side is the executable specification the real `Block::clmul` (both paths) is compared with on every run. -/
theorem clmul128Spec_eq_M (a b : Nat) (ha : a < 2 ^ 128) (hb : b < 2 ^ 128) : clmul128Spec a b = ((M a b) % 2 ^ 128, (M a b) >>> 128) := by
  simp only [clmul128Spec, clmulNat_eq_M, Nat.mod_eq_of_lt ha, Nat.mod_eq_of_lt hb, Nat.mod_mod]

end PolytuneModel
