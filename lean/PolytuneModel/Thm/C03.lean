import PolytuneModel.Proto.OutputH
/-! C03 / C02 — output opening: a forged mask share is either rejected or hands the forger's victim's Δ to an
    explicit extractor; and the pinned-tree handler (missing slot skipped) accepts a wrong value. -/
namespace PolytuneModel

def parity : List Bool → Bool
  | [] => false
  | b :: bs => (b != parity bs)

/-- **Detect-or-extract for the output opening (repaired handler).** `tb p` is party p's true share bit; by
    IT-MAC validity p holds exactly `own.key p ⊕ tb p · Δh`. If the honest party accepts, then either every
    claimed bit is the true one — and the opened value is `acc ⊕ ⨁ tb p` — or some sender produced a valid MAC on
    the flipped bit, and then that MAC XOR the MAC it holds **is** the honest party's global key. -/
theorem openReg_detect_or_extract (Δh : V) (r : Nat) (own : OwnOut) (tb : Nat → Bool)
    (recvd : List (Nat × Option (Bool × V))) (acc v : Bool)
    (h : openReg false Δh r own recvd acc = .ok v) :
    (∃ p b mac, (p, some (b, mac)) ∈ recvd ∧ b ≠ tb p ∧ mac ^^^ (own.key p ^^^ sc (tb p) Δh) = Δh)
    ∨ v = (acc != parity (recvd.map fun e => tb e.1)) := by
  induction recvd generalizing acc with
  | nil =>
    right; simp only [openReg] at h; cases h; simp [parity]
  | cons e rest ih =>
    obtain ⟨p, o⟩ := e
    cases o with
    | none => simp [openReg] at h
    | some bm =>
      obtain ⟨b, mac⟩ := bm
      simp only [openReg] at h
      by_cases hm : mac = own.key p ^^^ sc b Δh
      · simp only [hm, ne_eq, not_true_eq_false, if_false] at h
        by_cases hb : b = tb p
        · rcases ih (acc != b) h with ⟨p', b', mac', hmem, hne, hx⟩ | hv
          · left; exact ⟨p', b', mac', List.mem_cons_of_mem _ hmem, hne, hx⟩
          · right; rw [hv, hb]; simp only [List.map_cons, parity]
            cases acc <;> cases tb p <;> cases parity (rest.map fun e => tb e.1) <;> rfl
        · left
          refine ⟨p, b, mac, List.mem_cons_self, hb, ?_⟩
          rw [hm]
          have : sc b Δh ^^^ sc (tb p) Δh = Δh := by
            cases b <;> cases htb : tb p <;> simp_all
          calc own.key p ^^^ sc b Δh ^^^ (own.key p ^^^ sc (tb p) Δh)
              = sc b Δh ^^^ sc (tb p) Δh := by xor_nf
            _ = Δh := this
      · simp [hm] at h

/-- corollary: if nobody extracts Δh, an accepted opening is the true value `masked ⊕ ⨁ all mask shares`. -/
theorem openOutput_sound (Δh : V) (r : Nat) (own : OwnOut) (tb : Nat → Bool) (recvd) (v : Bool)
    (h : openOutput false Δh r own recvd = .ok v)
    (hno : ¬ ∃ p b mac, (p, some (b, mac)) ∈ recvd ∧ b ≠ tb p ∧ mac ^^^ (own.key p ^^^ sc (tb p) Δh) = Δh) :
    v = ((own.masked != own.bit) != parity (recvd.map fun e => tb e.1)) := by
  rcases openReg_detect_or_extract Δh r own tb recvd _ v h with hx | hv
  · exact absurd hx hno
  · exact hv

/-- **C02-a, counterexample on the pinned-tree handler:** party 1's true share bit is 1, it simply omits its slot;
    the honest party accepts and opens the complement of the true value — no MAC was ever checked. -/
theorem C02_cex_missing_output_share :
    let own : OwnOut := { bit := false, key := fun _ => 0x1234#128, masked := true }
    let truth := ((own.masked != own.bit) != true)           -- true value with party 1's share bit = 1
    openOutput true 0xdeadbeef#128 7 own [(1, none)] = .ok (!truth) := by decide

/-- …and the repaired handler rejects the same message. -/
theorem C02_fixed_rejects_missing :
    let own : OwnOut := { bit := false, key := fun _ => 0x1234#128, masked := true }
    openOutput false 0xdeadbeef#128 7 own [(1, none)] = .error (.missingOutputShare 7) := by decide

/-- non-vacuity of the extraction branch: a concrete accepted forgery and the extracted key. -/
example : let Δh : V := 0xdeadbeef#128; let k : V := 0x1234#128
    let own : OwnOut := { bit := false, key := fun _ => k, masked := true }
    openOutput false Δh 7 own [(1, some (false, k))] = .ok true            -- sender's true bit is 1 and it holds k ⊕ Δh
    ∧ k ^^^ (k ^^^ sc true Δh) = Δh := by decide

end PolytuneModel

namespace PolytuneModel
/-! ### the same lemma for every other IT-MAC check of the online phase -/

/-- the check `mac == key ^ (bit & delta)` that guards an opened share in `input_processing` (`InvalidInputMacForInst`),
    in `evaluate` (the decrypted row share, against the evaluator's key) and in `output` (`InvalidOutputMac`). -/
def macCheck (key Δ : V) (claimed : Bool × V) : Bool := claimed.2 == key ^^^ sc claimed.1 Δ

/-- **Detect-or-extract, one share.** The sender's true bit is `tb` and by validity it holds `key ⊕ tb·Δ`. If the check
    passes then the claimed bit is the true bit, or the claimed MAC XOR the held MAC is the checker's global key. -/
theorem macCheck_detect_or_extract (key Δ : V) (tb : Bool) (claimed : Bool × V) (h : macCheck key Δ claimed = true) :
    claimed.1 = tb ∨ claimed.2 ^^^ (key ^^^ sc tb Δ) = Δ := by
  obtain ⟨b, mac⟩ := claimed
  simp only [macCheck, beq_iff_eq] at h
  by_cases hb : b = tb
  · exact Or.inl hb
  · right; subst h
    cases b <;> cases tb <;> simp_all <;> xor_nf

/-- `C03_input_share`, `C03_row_share`, `C03_output_share` are this lemma at the three call sites; a check that is deleted
    or weakened in the code makes the implementation accept where `macCheck` is false — a correspondence break. -/
theorem C03_input_share (key Δ : V) (tb : Bool) (claimed : Bool × V) (h : macCheck key Δ claimed = true) :
    claimed.1 = tb ∨ claimed.2 ^^^ (key ^^^ sc tb Δ) = Δ := macCheck_detect_or_extract key Δ tb claimed h
theorem C03_row_share (key Δ : V) (tb : Bool) (claimed : Bool × V) (h : macCheck key Δ claimed = true) :
    claimed.1 = tb ∨ claimed.2 ^^^ (key ^^^ sc tb Δ) = Δ := macCheck_detect_or_extract key Δ tb claimed h
theorem C03_output_share (key Δ : V) (tb : Bool) (claimed : Bool × V) (h : macCheck key Δ claimed = true) :
    claimed.1 = tb ∨ claimed.2 ^^^ (key ^^^ sc tb Δ) = Δ := macCheck_detect_or_extract key Δ tb claimed h

/-- the garbler's check on the evaluator's `lambda` entry: `(true, label0 ⊕ Δ)` or `(false, label0)`. -/
def labelCheck (label0 Δ : V) (claimed : Bool × V) : Bool := claimed.2 == label0 ^^^ sc claimed.1 Δ

/-- `C03_output_label`: the evaluator holds `label0 ⊕ v·Δ` for the true masked value `v`; reporting the other value with a
    label that passes means it holds both labels, whose XOR is the garbler's global key. -/
theorem C03_output_label (label0 Δ : V) (v : Bool) (claimed : Bool × V) (h : labelCheck label0 Δ claimed = true) :
    claimed.1 = v ∨ claimed.2 ^^^ (label0 ^^^ sc v Δ) = Δ := macCheck_detect_or_extract label0 Δ v claimed h

end PolytuneModel
