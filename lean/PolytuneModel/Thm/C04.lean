import PolytuneModel.Lemmas.Xor
/-! C04 — preprocessing checks: the aShare consistency round (commit / decommit / open), and where the public challenges
    come from. `commit` is an arbitrary function; binding is a hypothesis where it is needed. -/
namespace PolytuneModel.C04

variable {Digest : Type} [DecidableEq Digest]

/-- what one peer sends in the three aShare rounds for one of the RHO check positions. -/
structure PeerMsgs (Digest : Type) where
  c0 : Digest          -- commitment to d0 = XOR of its keys
  c1 : Digest          -- commitment to d1 = d0 ^ Δ
  cm : Digest          -- commitment to dm = (its check bit, its MACs)
  dm : List UInt8      -- the decommitment, sent in the second round
  opened : V           -- d_b, sent in the third round

inductive Verdict | accept | commitmentCouldNotBeOpened | wrongMac deriving DecidableEq, Repr

/-- step 3d of `fashare` as on the pinned tree (`checkCm = false`) and with the missing check added (`checkCm = true`).
    `macsXor` is the XOR of the MACs all parties claimed for this peer. -/
def check (commitV : V → Digest) (commitB : List UInt8 → Digest) (checkCm : Bool) (m : PeerMsgs Digest) (macsXor : V) : Verdict :=
  if commitV m.opened ≠ m.c0 ∧ commitV m.opened ≠ m.c1 then .commitmentCouldNotBeOpened
  else if checkCm ∧ commitB m.dm ≠ m.cm then .commitmentCouldNotBeOpened
  else if macsXor ≠ m.opened then .wrongMac else .accept

/-- **C04-d (pinned tree):** the verdict does not depend on `cm` at all — the decommitment `dm` is not bound by any
    commitment; a peer may commit to one `dm` and reveal another. -/
theorem C04_cex_cm_unchecked (commitV : V → Digest) (commitB : List UInt8 → Digest) (m : PeerMsgs Digest) (x : V) (cm' : Digest) :
    check commitV commitB false { m with cm := cm' } x = check commitV commitB false m x := by
  simp [check]

/-- with the check added and a binding commitment, an accepted decommitment is the committed one. -/
theorem C04_dm_bound (commitV : V → Digest) (commitB : List UInt8 → Digest) (hbind : Function.Injective commitB)
    (m : PeerMsgs Digest) (x : V) (committed : List UInt8) (hc : m.cm = commitB committed)
    (h : check commitV commitB true m x = .accept) : m.dm = committed := by
  unfold check at h
  by_cases h1 : commitV m.opened ≠ m.c0 ∧ commitV m.opened ≠ m.c1
  · simp [h1] at h
  · by_cases h2 : commitB m.dm ≠ m.cm
    · simp [h1, h2] at h
    · have : commitB m.dm = commitB committed := by rw [← hc]; exact Classical.not_not.mp h2
      exact hbind this

/-- an accepted opening is one of the two committed values (binding commitment). -/
theorem C04_open_is_committed (commitV : V → Digest) (commitB : List UInt8 → Digest) (hbind : Function.Injective commitV) (cc : Bool)
    (m : PeerMsgs Digest) (x d0 d1 : V) (h0 : m.c0 = commitV d0) (h1 : m.c1 = commitV d1)
    (h : check commitV commitB cc m x = .accept) : m.opened = d0 ∨ m.opened = d1 := by
  unfold check at h
  by_cases hh : commitV m.opened ≠ m.c0 ∧ commitV m.opened ≠ m.c1
  · simp [hh] at h
  · have : commitV m.opened = m.c0 ∨ commitV m.opened = m.c1 := by
      by_cases a : commitV m.opened = m.c0
      · exact Or.inl a
      · right; exact Classical.not_not.mp (fun b => hh ⟨a, b⟩)
    rcases this with a | a
    · left; exact hbind (a.trans h0)
    · right; exact hbind (a.trans h1)

/-! ### where the challenges come from (C04-a, C04-b) -/

/-- the engine derives every public challenge from generators seeded by the two coin tosses of `fn_independent_pre`:
    `prg` is ChaCha20, `seedPair i k` the XOR of the two openings exchanged by parties i and k, `draws` the number of
    16-byte words consumed before the value in question. -/
def chi0 (prg : V → Nat → V) (openingIK openingKI : V) : V := prg (openingIK ^^^ openingKI) 0

/-- **C04-a:** the first KOS check coefficient of a pair is a function of the coin-toss openings alone — it exists, and is
    known to anyone who saw the openings, before a single bit of OT data has been sent. (The harness evaluates exactly this
    function on the wire transcript and compares it with the coefficient the real code uses: they coincide.) -/
theorem C04_cex_challenge_predetermined (prg : V → Nat → V) :
    ∃ predict : V → V → V, ∀ oIK oKI, chi0 prg oIK oKI = predict oIK oKI := ⟨fun a b => prg (a ^^^ b) 0, fun _ _ => rfl⟩

/-- **C04-b:** `fabitn` works on a *clone* of the pairwise generator, so the k-th aBit call starts from the same state as
    the first: identical coefficients in every call. -/
theorem C04_cex_chi_reuse (prg : V → Nat → V) (oIK oKI : V) (call : Nat) :
    (fun (_ : Nat) => chi0 prg oIK oKI) call = chi0 prg oIK oKI := rfl

end PolytuneModel.C04
