import PolytuneModel.Lemmas.Xor
/-! C06 — why the aBit consistency check (`fabitn`, step 3) does not disclose a party's mask shares: every broadcast value is a public
    linear combination of the party's WHOLE bit string — the `l` bits that become its shares followed by the surplus bits — and the
    surplus bits are used for nothing else. If the surplus columns of the coefficient matrix can produce every pattern (they are
    3·RHO random columns for 3·RHO rows), then for EVERY alternative share vector there is a surplus vector giving exactly the same
    broadcast: the broadcast is compatible with all 2^l share vectors alike. Without surplus bits (the seeded change C06-b cut the
    string before the check) the broadcast is a function of the shares alone. The executable counterpart `Proto/ABitCheck.combos`
    is compared with the Boolean fields of the real `fabitn` messages on every run. -/
namespace PolytuneModel

/-- combination `j` of the bit string `x` of length `len` under coefficients `R`. -/
def combo (R : Nat → Nat → Bool) (x : Nat → Bool) (len j : Nat) : Bool := bsum len (fun k => R j k && x k)

theorem bsum_append (l m : Nat) (f : Nat → Bool) : bsum (l + m) f = (bsum l f != bsum m (fun k => f (l + k))) := by
  induction m with
  | zero => simp [bsum]
  | succ k ih =>
    have : l + (k + 1) = (l + k) + 1 := by omega
    rw [this]; simp only [bsum, ih]
    cases bsum l f <;> cases bsum k (fun k => f (l + k)) <;> cases f (l + k) <;> rfl

/-- the string: shares `a` (first `l` bits) followed by surplus `s`. -/
def glue (l : Nat) (a s : Nat → Bool) : Nat → Bool := fun k => if k < l then a k else s (k - l)

theorem combo_glue (R : Nat → Nat → Bool) (l m : Nat) (a s : Nat → Bool) (j : Nat) :
    combo R (glue l a s) (l + m) j = (bsum l (fun k => R j k && a k) != bsum m (fun k => R j (l + k) && s k)) := by
  unfold combo; rw [bsum_append]
  congr 1
  · apply bsum_congr'; intro k hk; simp [glue, hk]
  · apply bsum_congr'; intro k _
    have h1 : ¬ (l + k < l) := by omega
    have h2 : l + k - l = k := by omega
    simp [glue, h1, h2]
where
  bsum_congr' : ∀ (n : Nat) (f g : Nat → Bool), (∀ p, p < n → f p = g p) → bsum n f = bsum n g := by
    intro n f g h
    induction n with
    | zero => rfl
    | succ k ih => simp only [bsum]; rw [ih (fun p hp => h p (Nat.lt_succ_of_lt hp)), h k (Nat.lt_succ_self k)]

/-- **C06_check_blinded** — if the surplus columns are onto, the broadcast says nothing about the shares: any other share vector is
    consistent with it. -/
theorem C06_check_blinded (R : Nat → Nat → Bool) (l m rows : Nat)
    (honto : ∀ t : Nat → Bool, ∃ s : Nat → Bool, ∀ j, j < rows → bsum m (fun k => R j (l + k) && s k) = t j)
    (a a' s : Nat → Bool) :
    ∃ s' : Nat → Bool, ∀ j, j < rows → combo R (glue l a' s') (l + m) j = combo R (glue l a s) (l + m) j := by
  obtain ⟨s', hs'⟩ := honto (fun j => (bsum l (fun k => R j k && a k) != bsum m (fun k => R j (l + k) && s k)) != bsum l (fun k => R j k && a' k))
  refine ⟨s', fun j hj => ?_⟩
  rw [combo_glue, combo_glue, hs' j hj]
  cases bsum l (fun k => R j k && a k) <;> cases bsum m (fun k => R j (l + k) && s k) <;> cases bsum l (fun k => R j k && a' k) <;> rfl

/-- **without surplus bits the broadcast discloses the shares** (what the seeded change C06-b did): one row with coefficient 1 on
    the first bit tells two share vectors apart. -/
theorem C06_cex_unblinded : ∃ (R : Nat → Nat → Bool) (a a' : Nat → Bool),
    combo R (glue 1 a (fun _ => false)) (1 + 0) 0 ≠ combo R (glue 1 a' (fun _ => false)) (1 + 0) 0 :=
  ⟨fun _ _ => true, fun _ => true, fun _ => false, by decide⟩

/-- non-vacuity of the onto hypothesis: the identity matrix on the surplus columns. -/
example : ∀ t : Nat → Bool, ∃ s : Nat → Bool, ∀ j, j < 2 → bsum 2 (fun k => (decide (j = k)) && s k) = t j :=
  fun t => ⟨t, fun j hj => by
    have : j = 0 ∨ j = 1 := by omega
    rcases this with rfl | rfl <;> simp [bsum] <;> cases t 0 <;> cases t 1 <;> rfl⟩

end PolytuneModel
