import PolytuneModel.Thm.C08
/-! C08-d — the `masked inputs` receive handler of `input_processing`. A contributing party merges every peer's announced masked
    inputs into its own vector and then computes, for EVERY register with a value, the label `input_labels[w] ⊕ b·Δ` — and
    `input_labels` has one entry per input wire only. The tree as it was accepted an announcement at any register whose own slot
    was empty, so a peer could make an honest garbler index out of bounds (replayed on the real code: C08-d). The current tree
    accepts an announcement only at an input wire of the announcing peer. -/
namespace PolytuneModel

def Outcome.map {α β} (f : α → β) : Outcome α → Outcome β
  | .ok a => .ok (f a) | .err e => .err e | .panic s => .panic s

namespace Masked

/-- merge peer `p`'s announcement into the own vector, position by position from register `w` on.
    `owner w = some q` iff register `w` is an input wire of party `q`; `guard` = the check added by the fix. -/
def merge (guard : Bool) (owner : Nat → Option Nat) (p : Nat) : Nat → List (Option Bool) → List (Option Bool) → Outcome (List (Option Bool))
  | _, [], _ => .ok []
  | _, own, [] => .ok own                                        -- `zip`: the shorter vector ends the loop
  | w, o :: own, none :: msg => (merge guard owner p (w + 1) own msg).map (o :: ·)
  | w, o :: own, some b :: msg =>
    if o.isSome ∨ (guard ∧ owner w ≠ some p) then .err "ConflictingInputMask"
    else (merge guard owner p (w + 1) own msg).map (some b :: ·)

/-- `labels_of_other_inputs`: indexes `input_labels[w]` for every register that has a value. -/
def labelsOf (numLabels : Nat) : Nat → List (Option Bool) → Outcome Unit
  | _, [] => .ok ()
  | w, none :: rest => labelsOf numLabels (w + 1) rest
  | w, some _ :: rest => if w < numLabels then labelsOf numLabels (w + 1) rest else .panic "input_labels[w]"

/-- the handler: merge, then (as a contributing party) compute the labels. -/
def handle (guard : Bool) (owner : Nat → Option Nat) (numLabels p : Nat) (own msg : List (Option Bool)) : Outcome Unit :=
  match merge guard owner p 0 own msg with
  | .ok merged => labelsOf numLabels 0 merged
  | .err e => .err e
  | .panic s => .panic s

/-- every value in the vector (from register `w` on) sits at an input wire: register < numLabels. -/
def InRange (numLabels : Nat) : Nat → List (Option Bool) → Prop
  | _, [] => True
  | w, none :: rest => InRange numLabels (w + 1) rest
  | w, some _ :: rest => w < numLabels ∧ InRange numLabels (w + 1) rest

theorem labelsOf_no_panic (numLabels : Nat) : ∀ (l : List (Option Bool)) (w : Nat), InRange numLabels w l → labelsOf numLabels w l = .ok ()
  | [], _, _ => rfl
  | none :: rest, w, h => by simp only [labelsOf]; exact labelsOf_no_panic numLabels rest (w + 1) h
  | some _ :: rest, w, h => by simp only [labelsOf, h.1, if_true]; exact labelsOf_no_panic numLabels rest (w + 1) h.2

/-- with the guard, whatever the peer sends, a successful merge keeps every value at an input wire. -/
theorem merge_inRange (owner : Nat → Option Nat) (numLabels p : Nat) (hown : ∀ w q, owner w = some q → w < numLabels) :
    ∀ (own msg : List (Option Bool)) (w : Nat) (merged : List (Option Bool)), InRange numLabels w own →
      merge true owner p w own msg = .ok merged → InRange numLabels w merged
  | [], msg, w, merged, _, h => by cases msg <;> simp [merge] at h <;> subst h <;> trivial
  | o :: own, [], w, merged, hin, h => by simp [merge] at h; subst h; exact hin
  | o :: own, none :: msg, w, merged, hin, h => by
    simp only [merge] at h
    cases hm : merge true owner p (w + 1) own msg with
    | ok m' =>
      rw [hm] at h; simp only [Outcome.map, Outcome.ok.injEq] at h; subst h
      have hrest : InRange numLabels (w + 1) own := by cases o <;> simp [InRange] at hin <;> first | exact hin | exact hin.2
      have ih := merge_inRange owner numLabels p hown own msg (w + 1) m' hrest hm
      cases o with
      | none => exact ih
      | some b => exact ⟨by simp [InRange] at hin; exact hin.1, ih⟩
    | err e => rw [hm] at h; simp [Outcome.map] at h
    | panic s => rw [hm] at h; simp [Outcome.map] at h
  | o :: own, some b :: msg, w, merged, hin, h => by
    simp only [merge] at h
    by_cases hc : o.isSome = true ∨ True ∧ owner w ≠ some p
    · rw [if_pos hc] at h; cases h
    · rw [if_neg hc] at h
      have ho : o = none := by cases o <;> simp_all
      have hw : owner w = some p := by
        by_cases hne : owner w = some p
        · exact hne
        · exact absurd (Or.inr ⟨trivial, hne⟩) hc
      cases hm : merge true owner p (w + 1) own msg with
      | ok m' =>
        rw [hm] at h; simp only [Outcome.map, Outcome.ok.injEq] at h; subst h
        subst ho
        exact ⟨hown w p hw, merge_inRange owner numLabels p hown own msg (w + 1) m' hin hm⟩
      | err e => rw [hm] at h; simp [Outcome.map] at h
      | panic s => rw [hm] at h; simp [Outcome.map] at h

theorem merge_never_panics (guard : Bool) (owner : Nat → Option Nat) (p : Nat) : ∀ (own msg : List (Option Bool)) (w : Nat),
    (merge guard owner p w own msg).isPanic = false
  | [], msg, w => by cases msg <;> simp [merge, Outcome.isPanic]
  | o :: own, [], w => by simp [merge, Outcome.isPanic]
  | o :: own, none :: msg, w => by
    have ih := merge_never_panics guard owner p own msg (w + 1)
    simp only [merge]; cases hm : merge guard owner p (w + 1) own msg <;> simp_all [Outcome.map, Outcome.isPanic]
  | o :: own, some b :: msg, w => by
    have ih := merge_never_panics guard owner p own msg (w + 1)
    simp only [merge]; split
    · simp [Outcome.isPanic]
    · cases hm : merge guard owner p (w + 1) own msg <;> simp_all [Outcome.map, Outcome.isPanic]

/-- **C08-d, current tree:** for EVERY message a peer may send, the handler does not panic — provided the party's own vector has
    values only at input wires (which is how `input_processing` fills it) and `owner` points at input wires only. -/
theorem C08_masked_no_panic (owner : Nat → Option Nat) (numLabels p : Nat) (hown : ∀ w q, owner w = some q → w < numLabels)
    (own : List (Option Bool)) (hin : InRange numLabels 0 own) (msg : List (Option Bool)) :
    (handle true owner numLabels p own msg).isPanic = false := by
  unfold handle
  cases hm : merge true owner p 0 own msg with
  | ok merged => simp only; rw [labelsOf_no_panic numLabels merged 0 (merge_inRange owner numLabels p hown own msg 0 merged hin hm)]; rfl
  | err e => rfl
  | panic s => have := merge_never_panics true owner p own msg 0; rw [hm] at this; simp [Outcome.isPanic] at this

/-- **the tree as it was:** two input wires (registers 0 and 1), a third register that is no input wire; the peer announces a value
    there; the honest contributing party panics. -/
theorem C08_cex_masked_extra_some :
    (handle false (fun w => if w = 0 then some 0 else if w = 1 then some 1 else none) 2 1 [some true, none, none] [none, some false, some true]).isPanic = true := by decide
/-- the same message on the current tree is answered with an error. -/
example : (match handle true (fun w => if w = 0 then some 0 else if w = 1 then some 1 else none) 2 1 [some true, none, none] [none, some false, some true] with
    | .err e => e == "ConflictingInputMask" | _ => false) = true := by decide

end Masked
end PolytuneModel
