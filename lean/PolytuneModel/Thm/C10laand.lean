import PolytuneModel.Thm.C10
/-! C10 — leaky AND: from the half-authenticated AND of every ordered pair to `⨁ z = (⨁ x) ∧ (⨁ y)`, and validity of the
    z shares after the `e`-conditional key flip. All n. -/
namespace PolytuneModel

theorem bsum_congr (n) (f g : Nat → Bool) (h : ∀ j, j < n → f j = g j) : bsum n f = bsum n g := by
  induction n with
  | zero => rfl
  | succ n ih => simp only [bsum]; rw [h n (Nat.lt_succ_self n), ih (fun j hj => h j (Nat.lt_succ_of_lt hj))]

theorem bsum_false (n) : bsum n (fun _ => false) = false := by
  induction n with
  | zero => rfl
  | succ n ih => simp [bsum, ih]

/-- Fubini for XOR sums. -/
theorem bsum_swap (n m : Nat) (f : Nat → Nat → Bool) :
    bsum n (fun i => bsum m (fun j => f i j)) = bsum m (fun j => bsum n (fun i => f i j)) := by
  induction n with
  | zero => simp [bsum, bsum_false]
  | succ n ih => simp only [bsum, ih, bsum_xor]

/-- the full double sum factorises. -/
theorem bsum_and_and (n) (x y : Nat → Bool) : bsum n (fun i => bsum n (fun j => (x j && y i))) = (bsum n x && bsum n y) := by
  have h1 : ∀ i, bsum n (fun j => (x j && y i)) = (bsum n x && y i) := by
    intro i
    calc bsum n (fun j => (x j && y i)) = bsum n (fun j => (y i && x j)) := by
          apply bsum_congr; intro j _; cases x j <;> cases y i <;> rfl
      _ = (y i && bsum n x) := bsum_and n x (y i)
      _ = (bsum n x && y i) := by cases y i <;> cases bsum n x <;> rfl
  simp only [h1]
  exact bsum_and n y (bsum n x)

/-- party i's HaAND output: over all peers j ≠ i, its own pads `s i j` and what it derives from j's message, `t j i`. -/
def haandV (n : Nat) (s t : Nat → Nat → Bool) (i : Nat) : Bool := bsum n (fun j => if j = i then false else (s i j != t j i))

/-- **leaky AND relation.** If every ordered pair (i → j) behaves as `C10_haand_pair` says (pad ⊕ derived bit = x_j ∧ y_i),
    then with `z_i = v_i ⊕ x_i y_i` the z shares XOR to the AND of the XORs. -/
theorem C10_laand_rel (n : Nat) (x y : Nat → Bool) (s t : Nat → Nat → Bool)
    (hp : ∀ i j, i < n → j < n → i ≠ j → (s i j != t i j) = (x j && y i)) :
    bsum n (fun i => (haandV n s t i != (x i && y i))) = (bsum n x && bsum n y) := by
  -- split v into the s-part and the t-part, swap the t-part, recombine pairwise
  have hv : bsum n (haandV n s t)
      = bsum n (fun i => bsum n (fun j => if j = i then false else (x j && y i))) := by
    unfold haandV
    have e1 : bsum n (fun i => bsum n (fun j => if j = i then false else (s i j != t j i)))
        = (bsum n (fun i => bsum n (fun j => if j = i then false else s i j)) != bsum n (fun i => bsum n (fun j => if j = i then false else t j i))) := by
      rw [← bsum_xor]; apply bsum_congr; intro i _; rw [← bsum_xor]; apply bsum_congr; intro j _; by_cases h : j = i <;> simp [h]
    have e2 : bsum n (fun i => bsum n (fun j => if j = i then false else t j i)) = bsum n (fun i => bsum n (fun j => if j = i then false else t i j)) := by
      rw [bsum_swap]; apply bsum_congr; intro a _; apply bsum_congr; intro b _
      by_cases h : b = a
      · subst h; simp
      · have h' : ¬ a = b := fun e => h e.symm
        simp only [h, h', if_false]
    rw [e1, e2, ← bsum_xor]
    apply bsum_congr; intro i hi; rw [← bsum_xor]; apply bsum_congr; intro j hj
    by_cases h : j = i
    · simp [h]
    · simp only [h, if_false]; exact hp i j hi hj (Ne.symm h)
  have hd : bsum n (fun i => bsum n (fun j => (x j && y i)))
      = (bsum n (fun i => bsum n (fun j => if j = i then false else (x j && y i))) != bsum n (fun i => (x i && y i))) := by
    rw [← bsum_xor]; apply bsum_congr; intro i hi
    -- the diagonal term of row i
    have : bsum n (fun j => (x j && y i)) = (bsum n (fun j => if j = i then false else (x j && y i)) != (x i && y i)) := by
      have hsplit : ∀ m, i < m → bsum m (fun j => (x j && y i)) = (bsum m (fun j => if j = i then false else (x j && y i)) != (x i && y i)) := by
        intro m
        induction m with
        | zero => intro h; omega
        | succ m ih =>
          intro him
          simp only [bsum]
          by_cases hmi : m = i
          · subst hmi
            have : bsum m (fun j => if j = m then false else (x j && y m)) = bsum m (fun j => (x j && y m)) := by
              apply bsum_congr; intro j hj; simp [Nat.ne_of_lt hj]
            rw [if_pos rfl, this]
            cases (x m && y m) <;> cases bsum m (fun j => (x j && y m)) <;> rfl
          · have : i < m := by omega
            rw [ih this]; simp only [hmi, if_false]
            cases (x m && y i) <;> cases bsum m (fun j => if j = i then false else (x j && y i)) <;> cases (x i && y i) <;> rfl
      exact hsplit n hi
    exact this
  rw [bsum_xor, hv, ← bsum_and_and, hd]

/-- validity of the z shares: party j flips its key for party i by Δ_j exactly when the broadcast `e_i = z_i ⊕ r_i` is set. -/
theorem C10_laand_valid (Kj Δj : V) (ri zi : Bool) :
    let ei := (zi != ri)
    let M := Kj ^^^ sc ri Δj                    -- the MAC party i holds on r_i under j's key
    M = (Kj ^^^ sc ei Δj) ^^^ sc zi Δj := by
  cases ri <;> cases zi <;> simp <;> xor_nf

end PolytuneModel
