import PolytuneModel.Gen.Arith
import PolytuneModel.Prim.Chunk
import PolytuneModel.Thm.C01batches
/-! Facts about the size functions REGENERATED from `/repo` by `translator/rs2lean_nat.py` (`Gen/Arith.lean`). The property theorems
    need only these facts, never the concrete constants: a retuned threshold or batch size re-proves (or fails here, loudly). -/
namespace PolytuneModel

/-- the code's `chunk_size_iter` is the chunk function all chunk theorems (C01 batches, C19 boundaries) are stated about. -/
theorem Gen_chunkSizeIter_eq (total chunk : Nat) : Gen.chunkSizeIter total chunk = chunkSizeIter total chunk := by
  unfold Gen.chunkSizeIter chunkSizeIter
  by_cases h : chunk = 0 <;> simp [h]
  by_cases h2 : total % chunk = 0 <;> simp [h2]

/-- C10: every bucket has at least one triple (`chunks_exact(0)` would panic; a bucket of size ≥ 1 is all `C10_bucket` needs). -/
theorem Gen_bucketSize_pos (l : Nat) : 1 ≤ Gen.bucketSize l := by
  unfold Gen.bucketSize; split <;> (try split) <;> omega

/-- the AND batch size is positive exactly when there is an AND gate, and never exceeds the number of gates. -/
theorem Gen_andShareBatchSize_pos (a : Nat) (h : 0 < a) : 0 < Gen.andShareBatchSize a := by
  unfold Gen.andShareBatchSize; omega
theorem Gen_andShareBatchSize_le (a : Nat) : Gen.andShareBatchSize a ≤ a := by
  unfold Gen.andShareBatchSize; omega
theorem Gen_randomSharesBatchSize_pos (i a : Nat) (h : 0 < i + a) : 0 < Gen.randomSharesBatchSize i a := by
  unfold Gen.randomSharesBatchSize; simp only; omega
theorem Gen_randomSharesBatchSize_le (i a : Nat) : Gen.randomSharesBatchSize i a ≤ i + a := by
  unfold Gen.randomSharesBatchSize; simp only; omega

/-- **C01, batches, about the code's own functions:** for every number of AND gates, what the garbler's flush loop sends with the
    code's batch size is, chunk by chunk, what the code's `chunk_size_iter` makes the evaluator expect, and it covers every gate. -/
theorem C01_batches_agree_gen (total : Nat) (h : 0 < total) :
    garblerChunks total (Gen.andShareBatchSize total) = Gen.chunkSizeIter total (Gen.andShareBatchSize total)
    ∧ (Gen.chunkSizeIter total (Gen.andShareBatchSize total)).sum = total := by
  have hp := Gen_andShareBatchSize_pos total h
  rw [Gen_chunkSizeIter_eq]
  exact ⟨C01_batches_agree total _ hp, by rw [← C01_batches_agree total _ hp]; exact C01_batches_cover total _ hp⟩

/-- without AND gates neither side sends or expects a chunk. -/
theorem C01_batches_none_gen : garblerChunks 0 (Gen.andShareBatchSize 0) = [] ∧ Gen.chunkSizeIter 0 (Gen.andShareBatchSize 0) = [] := by decide

example : Gen.chunkSizeIter 2500 (Gen.andShareBatchSize 2500) = [1000, 1000, 500] := by decide

end PolytuneModel
