import PolytuneModel.Thm.C08roundtrip
/-! C08/C02 — the converse of `C08roundtrip`: the model's decoders accept ONLY canonical encodings. `Canon e d` says that
    whatever `d` accepts is `e` of the decoded value followed by the unconsumed rest. With `RT` this makes encode/decode a
    bijection between values and accepted byte strings: no non-canonical wire form (a `bool` byte 2, an `Option` tag 2, a
    length prefix that over- or under-counts) is ever read as a value. The drivers `C03m`/`C08` compare these decoders'
    verdicts with the engine's on forged bytes (incl. the non-canonical classes), which is what ties the statement to bincode. -/
namespace PolytuneModel.Bincode

/-- canonicity: everything the decoder accepts is the encoder's output for the decoded value. -/
def Canon {α} (e : α → Bytes) (d : Dec α) : Prop := ∀ bs a r, d bs = .ok (a, r) → bs = e a ++ r

theorem canon_bool : Canon encBool decBool := by
  intro bs a r h
  match bs, h with
  | [], h => simp [decBool] at h
  | b :: t, h =>
    unfold decBool at h
    split at h <;> simp_all [encBool]

theorem canon_opt {α} {e : α → Bytes} {d : Dec α} (hc : Canon e d) : Canon (encOpt e) (decOpt d) := by
  intro bs a r h
  unfold decOpt at h
  split at h
  · simp at h
  · simp at h; obtain ⟨rfl, rfl⟩ := h; simp [encOpt]
  · rename_i t
    cases hd : d t with
    | error e => simp [hd] at h
    | ok p =>
      obtain ⟨x, r'⟩ := p
      simp [hd] at h; obtain ⟨rfl, rfl⟩ := h
      simp [encOpt, hc _ _ _ hd]
  · simp at h

theorem canon_pair {α β} {ea : α → Bytes} {eb : β → Bytes} {da : Dec α} {db : Dec β} (ha : Canon ea da) (hb : Canon eb db) :
    Canon (encPair ea eb) (decPair da db) := by
  intro bs p r h
  unfold decPair at h
  cases h1 : da bs with
  | error e => simp [h1] at h
  | ok q =>
    obtain ⟨a, r1⟩ := q
    simp only [h1] at h
    cases h2 : db r1 with
    | error e => simp [h2] at h
    | ok q2 =>
      obtain ⟨b, r2⟩ := q2
      simp [h2] at h; obtain ⟨rfl, rfl⟩ := h
      simp [encPair, ha _ _ _ h1, hb _ _ _ h2]

theorem canon_decN {α} {e : α → Bytes} {d : Dec α} (hc : Canon e d) (k : Nat) (bs : Bytes) (l : List α) (r : Bytes)
    (h : decN d k bs = .ok (l, r)) : bs = l.flatMap e ++ r ∧ l.length = k := by
  induction k generalizing bs l with
  | zero => simp [decN] at h; obtain ⟨rfl, rfl⟩ := h; simp
  | succ k ih =>
    unfold decN at h
    cases h1 : d bs with
    | error e => simp [h1] at h
    | ok q =>
      obtain ⟨a, r1⟩ := q
      simp only [h1] at h
      cases h2 : decN d k r1 with
      | error e => simp [h2] at h
      | ok q2 =>
        obtain ⟨as, r2⟩ := q2
        simp [h2] at h; obtain ⟨rfl, rfl⟩ := h
        have := ih _ _ h2
        have h3 := hc _ _ _ h1
        simp [List.flatMap_cons, List.append_assoc, this.2]
        rw [h3, ← this.1]
def leVal (l : Bytes) : Nat := l.foldr (fun b acc => acc * 256 + b.toNat) 0

theorem enc_leVal (l : Bytes) :
    ((List.range l.length).map fun i => UInt8.ofNat ((leVal l >>> (8 * i)) % 256)) = l := by
  induction l with
  | nil => simp
  | cons b t ih =>
    rw [List.length_cons, List.range_succ_eq_map, List.map_cons, List.map_map]
    have hb : b.toNat < 256 := b.toNat_lt
    have hv : leVal (b :: t) = leVal t * 256 + b.toNat := rfl
    congr 1
    · rw [hv, Nat.mul_zero, Nat.shiftRight_zero]
      have : (leVal t * 256 + b.toNat) % 256 = b.toNat := by omega
      rw [this, UInt8.ofNat_toNat]
    · conv => rhs; rw [← ih]
      apply List.map_congr_left
      intro i _
      simp only [Function.comp]
      have : 8 * (i + 1) = 8 + 8 * i := by omega
      rw [this, Nat.shiftRight_add, hv]
      have : (leVal t * 256 + b.toNat) >>> 8 = leVal t := by
        rw [Nat.shiftRight_eq_div_pow]; omega
      rw [this]
theorem canon_decLE (k : Nat) (bs : Bytes) (n : Nat) (r : Bytes) (h : decLE k bs = .ok (n, r)) :
    bs = ((List.range k).map fun i => UInt8.ofNat ((n >>> (8 * i)) % 256)) ++ r := by
  unfold decLE at h
  split at h
  · simp at h
  · rename_i hk
    simp at h; obtain ⟨rfl, rfl⟩ := h
    have hlen : (bs.take k).length = k := by rw [List.length_take]; omega
    have := enc_leVal (bs.take k)
    rw [hlen] at this
    show bs = (List.map (fun i => UInt8.ofNat ((leVal (bs.take k) >>> (8 * i)) % 256)) (List.range k)) ++ bs.drop k
    rw [this, List.take_append_drop]

theorem canon_u64 : Canon encU64 decU64 := fun bs n r h => canon_decLE 8 bs n r h
theorem canon_u128 : Canon encU128 decU128 := fun bs n r h => canon_decLE 16 bs n r h

theorem canon_vec {α} {e : α → Bytes} {d : Dec α} (hc : Canon e d) : Canon (encVec e) (decVec d) := by
  intro bs l r h
  unfold decVec at h
  cases h1 : decU64 bs with
  | error e => simp [h1] at h
  | ok q =>
    obtain ⟨n, r1⟩ := q
    simp only [h1] at h
    split at h
    · simp at h
    · have h2 := canon_decN hc n r1 l r h
      have h3 := canon_u64 _ _ _ h1
      unfold encVec
      rw [h3, h2.1, h2.2, List.append_assoc]

/-- no second wire form: the output-phase share message type accepts exactly the encoder's bytes. A peer cannot present
    two different byte strings that the honest party reads as the same message, nor one string read in two ways. -/
theorem canon_share_msg : Canon (encVec (encOpt (encPair encBool encU128))) (decVec (decOpt (decPair decBool decU128))) :=
  canon_vec (canon_opt (canon_pair canon_bool canon_u128))

theorem canon_vecvec_u128 : Canon (encVec (encVec encU128)) (decVec (decVec decU128)) := canon_vec (canon_vec canon_u128)

/-- the two directions together: acceptance is exactly "is the canonical encoding followed by the rest". -/
theorem accept_iff {α} {e : α → Bytes} {d : Dec α} (hr : RT e d) (hc : Canon e d) (bs : Bytes) (a : α) (r : Bytes) :
    d bs = .ok (a, r) ↔ bs = e a ++ r :=
  ⟨hc bs a r, fun h => h ▸ hr a r⟩

theorem masked_accept_iff (bs : Bytes) (l : List (Option Bool)) (hl : l.length < 2 ^ 64) (r : Bytes) :
    decVec (decOpt decBool) bs = .ok (l, r) ↔ bs = encVec (encOpt encBool) l ++ r :=
  ⟨canon_vec (canon_opt canon_bool) bs l r, fun h => h ▸ rt_masked_msg l hl r⟩

/-- non-vacuity and the rejected cases: a bool byte 2 and an Option tag 2 have no reading (bincode's own behaviour). -/
example : decBool ([2] : Bytes) = .error .badBool := rfl
example : decOpt decBool ([2, 1] : Bytes) = .error .badTag := rfl
example : decOpt decBool ([1, 1, 9] : Bytes) = .ok (some true, [9]) := rfl

end PolytuneModel.Bincode
