import PolytuneModel.Thm.C12generic
/-! C12 — from a *round labelling* to deadlock freedom. If every event can be given a round number such that
    program order never goes back in rounds (inside one round a party may send before it receives, never the
    program order follows a position `sub < W`), a message is received in the round it is sent in and at a later
    position, and every channel carries at most one message per round, then `W·round + sub` is a rank for the causal graph — for every
    capacity ≥ 1 — and with the generic progress theorem no reachable state with unfinished events is stuck. -/
namespace PolytuneModel.Sched
variable {C E : Type}

structure Rounds (S : Sys C E) where
  round  : E → Nat
  sub    : E → Nat                     -- position inside the round
  W      : Nat
  sub_lt : ∀ e, sub e < W
  po_ok  : ∀ a b, S.po a b → round a < round b ∨ (round a = round b ∧ sub a < sub b)
  sends_incr : ∀ (c : C) (i j : Nat) (a b : E), (S.sends c)[i]? = some a → (S.sends c)[j]? = some b → i < j → round a < round b
  recvs_incr : ∀ (c : C) (i j : Nat) (a b : E), (S.recvs c)[i]? = some a → (S.recvs c)[j]? = some b → i < j → round a < round b
  match_round : ∀ (c : C) (k : Nat) (a b : E), (S.sends c)[k]? = some a → (S.recvs c)[k]? = some b → round a = round b ∧ sub a < sub b

def Rounds.rank {S : Sys C E} (R : Rounds S) (e : E) : Nat := R.W * R.round e + R.sub e

theorem rank_lt_of_round_lt (W ra rb sa sb : Nat) (h : ra < rb) (hs : sa < W) : W * ra + sa < W * rb + sb := by
  have : W * (ra + 1) ≤ W * rb := Nat.mul_le_mul_left W h
  rw [Nat.mul_succ] at this; omega

theorem rank_increases (S : Sys C E) (R : Rounds S) (hcap : 0 < S.cap) :
    ∀ a b, Edge S a b → R.rank a < R.rank b := by
  intro a b h
  unfold Rounds.rank
  cases h with
  | po h =>
    rcases R.po_ok a b h with h | ⟨h1, h2⟩
    · exact rank_lt_of_round_lt _ _ _ _ _ h (R.sub_lt a)
    · rw [h1]; omega
  | sendOrder ha hb hij => exact rank_lt_of_round_lt _ _ _ _ _ (R.sends_incr _ _ _ _ _ ha hb hij) (R.sub_lt a)
  | recvOrder ha hb hij => exact rank_lt_of_round_lt _ _ _ _ _ (R.recvs_incr _ _ _ _ _ ha hb hij) (R.sub_lt a)
  | matching ha hb =>
    obtain ⟨h1, h2⟩ := R.match_round _ _ _ _ ha hb
    rw [h1]; omega
  | @capacity c k a b ha hb =>
    -- the k-th send exists (k < k + cap < length), shares its round with the k-th receive, and precedes the (k+cap)-th send
    have hlen : k + S.cap < (S.sends c).length := by
      rcases Nat.lt_or_ge (k + S.cap) (S.sends c).length with h | h
      · exact h
      · rw [List.getElem?_eq_none_iff.mpr h] at hb; cases hb
    have hk : k < (S.sends c).length := by omega
    have hs : (S.sends c)[k]? = some ((S.sends c)[k]) := List.getElem?_eq_getElem hk
    have h1 := (R.match_round _ _ _ _ hs ha).1
    have h2 := R.sends_incr _ _ _ _ _ hs hb (by omega)
    exact rank_lt_of_round_lt _ _ _ _ _ (by omega) (R.sub_lt a)

theorem exists_min (l : List E) (f : E → Nat) (P : E → Bool) (h : ∃ e ∈ l, P e = true) :
    ∃ e ∈ l, P e = true ∧ ∀ a ∈ l, P a = true → f e ≤ f a := by
  induction l with
  | nil => obtain ⟨e, he, _⟩ := h; cases he
  | cons x xs ih =>
    by_cases hxs : ∃ e ∈ xs, P e = true
    · obtain ⟨m, hm, hpm, hmin⟩ := ih hxs
      by_cases hx : P x = true ∧ f x < f m
      · refine ⟨x, by simp, hx.1, ?_⟩
        intro a ha hpa
        rcases List.mem_cons.mp ha with rfl | ha
        · exact Nat.le_refl _
        · have := hmin a ha hpa; omega
      · refine ⟨m, by simp [hm], hpm, ?_⟩
        intro a ha hpa
        rcases List.mem_cons.mp ha with rfl | ha
        · have : ¬ f a < f m := fun hlt => hx ⟨hpa, hlt⟩
          omega
        · exact hmin a ha hpa
    · obtain ⟨e, he, hpe⟩ := h
      rcases List.mem_cons.mp he with rfl | he
      · refine ⟨e, by simp, hpe, ?_⟩
        intro a ha hpa
        rcases List.mem_cons.mp ha with rfl | ha
        · exact Nat.le_refl _
        · exact absurd ⟨a, ha, hpa⟩ hxs
      · exact absurd ⟨e, he, hpe⟩ hxs

/-- **Progress.** In a round-labelled system with capacity ≥ 1, every prefix-closed state that still has an unexecuted
    event has an enabled event under the queue semantics. -/
theorem C12_progress (S : Sys C E) (R : Rounds S) (hcap : 0 < S.cap)
    (hdual : ∀ c, (S.sends c).length = (S.recvs c).length)
    (all : List E) (d : State E)
    (hps : ∀ c, PrefixClosed d (S.sends c)) (hpr : ∀ c, PrefixClosed d (S.recvs c))
    (hall : ∀ e, d e = false → e ∈ all)
    (hev : ∀ e ∈ all, (∃ (c : C) (k : Nat), (S.sends c)[k]? = some e) ∨ (∃ (c : C) (k : Nat), (S.recvs c)[k]? = some e))
    (hund : ∃ e, d e = false) :
    ∃ (c : C) (k : Nat) (e : E), EnabledSend S d c k e ∨ EnabledRecv S d c k e := by
  obtain ⟨e0, he0⟩ := hund
  obtain ⟨e, hel, hpe, hmin⟩ := exists_min all R.rank (fun e => !d e) ⟨e0, hall e0 he0, by simp [he0]⟩
  have hde : d e = false := by simpa using hpe
  have hmin' : ∀ a, d a = false → R.rank e ≤ R.rank a := fun a ha => hmin a (hall a ha) (by simp [ha])
  rcases hev e hel with ⟨c, k, hk⟩ | ⟨c, k, hk⟩
  · exact ⟨c, k, e, .inl (min_undone_send_enabled S hcap R.rank (rank_increases S R hcap) d hps hpr c k e hk hde hmin' hdual)⟩
  · exact ⟨c, k, e, .inr (min_undone_recv_enabled S R.rank (rank_increases S R hcap) d hps hpr c k e hk hde hmin' hdual)⟩

/-! Reachable states are prefix closed: the sends (receives) of one channel are issued by one party one after the
    other (`PairSerial`), and an event runs only when its program-order predecessors are done. -/
section reach
variable [DecidableEq E]

def exec (d : State E) (e : E) : State E := fun x => if x = e then true else d x

/-- nothing executed yet; what is not an event of the system counts as done. -/
def initState (all : List E) : State E := fun e => !(all.contains e)

inductive Reachable (S : Sys C E) (all : List E) : State E → Prop
  | init : Reachable S all (initState all)
  | step {d : State E} {e : E} : Reachable S all d → (∀ a, S.po a e → d a = true) → Reachable S all (exec d e)

theorem reachable_undone_mem (S : Sys C E) (all : List E) (d : State E) (h : Reachable S all d) : ∀ e, d e = false → e ∈ all := by
  induction h with
  | init => intro e he; simpa [initState] using he
  | @step d e _ _ ih =>
    intro x hx; unfold exec at hx
    by_cases hxe : x = e
    · simp [hxe] at hx
    · simp only [hxe, if_false] at hx; exact ih x hx

structure PairSerial (S : Sys C E) : Prop where
  sends : ∀ (c : C) (i j : Nat) (a b : E), (S.sends c)[i]? = some a → (S.sends c)[j]? = some b → i < j → S.po a b
  recvs : ∀ (c : C) (i j : Nat) (a b : E), (S.recvs c)[i]? = some a → (S.recvs c)[j]? = some b → i < j → S.po a b

theorem prefix_step (S : Sys C E) (d : State E) (e : E) (l : List E)
    (hser : ∀ (i j : Nat) (a b : E), l[i]? = some a → l[j]? = some b → i < j → S.po a b)
    (hpo : ∀ a, S.po a e → d a = true) (h : PrefixClosed d l) : PrefixClosed (exec d e) l := by
  intro i j a b ha hb hij hdb
  unfold exec at hdb ⊢
  by_cases hae : a = e
  · simp [hae]
  · simp only [hae, if_false]
    by_cases hbe : b = e
    · subst hbe; exact hpo a (hser i j a b ha hb hij)
    · simp only [hbe, if_false] at hdb; exact h i j a b ha hb hij hdb

theorem reachable_prefix (S : Sys C E) (hs : PairSerial S) (all : List E)
    (hin : ∀ (c : C) (k : Nat) (e : E), ((S.sends c)[k]? = some e ∨ (S.recvs c)[k]? = some e) → e ∈ all)
    (d : State E) (h : Reachable S all d) :
    (∀ c, PrefixClosed d (S.sends c)) ∧ (∀ c, PrefixClosed d (S.recvs c)) := by
  induction h with
  | init =>
    -- initially no event of any channel is done
    constructor
    · intro c i j a b _ hb _ h
      have := hin c j b (.inl hb); simp [initState, this] at h
    · intro c i j a b _ hb _ h
      have := hin c j b (.inr hb); simp [initState, this] at h
  | step _ hpo ih =>
    exact ⟨fun c => prefix_step S _ _ _ (hs.sends c) hpo (ih.1 c), fun c => prefix_step S _ _ _ (hs.recvs c) hpo (ih.2 c)⟩

/-- **C12, abstractly.** A round-labelled, pair-serial system over FIFO channels of capacity ≥ 1 never gets stuck: in every
    reachable state in which some event is still to be executed, a send with a free slot or a receive with a buffered
    message is enabled. -/
theorem C12_no_deadlock (S : Sys C E) (R : Rounds S) (hs : PairSerial S) (hcap : 0 < S.cap)
    (hdual : ∀ c, (S.sends c).length = (S.recvs c).length) (all : List E)
    (hev : ∀ e ∈ all, (∃ (c : C) (k : Nat), (S.sends c)[k]? = some e) ∨ (∃ (c : C) (k : Nat), (S.recvs c)[k]? = some e))
    (hin : ∀ (c : C) (k : Nat) (e : E), ((S.sends c)[k]? = some e ∨ (S.recvs c)[k]? = some e) → e ∈ all)
    (d : State E) (hreach : Reachable S all d) (hund : ∃ e, d e = false) :
    ∃ (c : C) (k : Nat) (e : E), EnabledSend S d c k e ∨ EnabledRecv S d c k e :=
  let ⟨hps, hpr⟩ := reachable_prefix S hs all hin d hreach
  C12_progress S R hcap hdual all d hps hpr (reachable_undone_mem S all d hreach) hev hund
end reach

end PolytuneModel.Sched
