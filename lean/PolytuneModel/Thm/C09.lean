import PolytuneModel.Prim.Bincode
import PolytuneModel.Proto.Skeleton
/-! C09 — message sizes do not depend on private inputs or coins: every online-phase message is a `Vec<Option<T>>` over the
    register file whose `Some` slots are selected by the circuit alone, with a fixed-size `T`; every garbled row has a
    fixed plaintext length. So the encoded length is a function of public data only, whatever the values inside. -/
namespace PolytuneModel
open Bincode

/-- a register-indexed optional message: slot `r` is `Some (val r)` iff the public selector says so. -/
def optAt {α} (maxReg : Nat) (sel : Nat → Bool) (val : Nat → α) : List (Option α) :=
  (List.range maxReg).map fun r => if sel r then some (val r) else none

theorem optAt_length {α} (m : Nat) (sel : Nat → Bool) (val : Nat → α) : (optAt m sel val).length = m := by simp [optAt]

theorem countSome_optAt {α} (m : Nat) (sel : Nat → Bool) (val : Nat → α) :
    countSome (optAt m sel val) = ((List.range m).filter sel).length := by
  unfold countSome optAt
  induction (List.range m) with
  | nil => rfl
  | cons r rest ih =>
    by_cases h : sel r <;> simp [List.filter_cons, h, ih]

/-- **the value-independence lemma:** same selector, any two value assignments ⇒ same number of bytes on the wire. -/
theorem C09_len_value_independent {α} (enc : α → Bytes) (k : Nat) (hk : ∀ a, (enc a).length = k)
    (m : Nat) (sel : Nat → Bool) (v w : Nat → α) :
    (encVec (encOpt enc) (optAt m sel v)).length = (encVec (encOpt enc) (optAt m sel w)).length := by
  rw [encVecOpt_length enc k hk, encVecOpt_length enc k hk, countSome_optAt, countSome_optAt, optAt_length, optAt_length]

/-- and the length is the one the communication skeleton predicts from the selector. -/
theorem C09_len_formula {α} (enc : α → Bytes) (k : Nat) (hk : ∀ a, (enc a).length = k) (m : Nat) (sel : Nat → Bool) (v : Nat → α) :
    (encVec (encOpt enc) (optAt m sel v)).length = 8 + m + k * ((List.range m).filter sel).length := by
  rw [encVecOpt_length enc k hk, countSome_optAt, optAt_length]

/-- the five online-phase messages (`wire shares`, `output wire shares`, `lambda` carry (bool, 128 bits); `masked inputs`
    a bool; `labels` 128 bits): for each of them two executions with different secrets put the same number of bytes on the wire. -/
theorem C09_shares_msg (m : Nat) (sel : Nat → Bool) (v w : Nat → Bool × Nat) :
    (encVec (encOpt (encPair encBool encU128)) (optAt m sel v)).length = (encVec (encOpt (encPair encBool encU128)) (optAt m sel w)).length :=
  C09_len_value_independent _ 17 (by intro a; simp [encPair, encBool, encU128_length]) m sel v w
theorem C09_masked_msg (m : Nat) (sel : Nat → Bool) (v w : Nat → Bool) :
    (encVec (encOpt encBool) (optAt m sel v)).length = (encVec (encOpt encBool) (optAt m sel w)).length :=
  C09_len_value_independent _ 1 (by intro a; simp [encBool]) m sel v w
theorem C09_labels_msg (m : Nat) (sel : Nat → Bool) (v w : Nat → Nat) :
    (encVec (encOpt encU128) (optAt m sel v)).length = (encVec (encOpt encU128) (optAt m sel w)).length :=
  C09_len_value_independent _ 16 (by intro a; simp [encU128_length]) m sel v w

/-- plaintext of one garbled row: `(bool, Vec<Mac>, Label)` for n parties — always 1 + 8 + 16n + 16 bytes. -/
def encRow (bit : Bool) (macs : List Nat) (label : Nat) : Bytes := encBool bit ++ encVec encU128 macs ++ encU128 label
theorem C09_row_len (bit : Bool) (macs : List Nat) (label : Nat) : (encRow bit macs label).length = 1 + 8 + 16 * macs.length + 16 := by
  have : (macs.flatMap encU128).length = 16 * macs.length := by
    induction macs with
    | nil => rfl
    | cons a t ih => simp [List.flatMap_cons, encU128_length, ih]; omega
  simp [encRow, encBool, encVec, encU64_length, encU128_length, this]; omega

end PolytuneModel
