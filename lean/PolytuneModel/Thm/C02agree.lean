import PolytuneModel.Thm.C03
/-! C02 — agreement: two honest output parties that both accept (repaired handler) open the SAME value, namely
    `masked ⊕ ⨁_{all parties} mask share`, unless somebody has produced a MAC that yields one of their global keys. -/
namespace PolytuneModel

/-- the senders party `h` hears from: everybody else, in index order. -/
def othersOf (n h : Nat) : List Nat := (List.range n).filter (· != h)

theorem parity_others (n h : Nat) (tb : Nat → Bool) (hh : h < n) :
    (tb h != parity ((othersOf n h).map tb)) = bsum n tb := by
  unfold othersOf
  induction n with
  | zero => omega
  | succ n ih =>
    rw [List.range_succ, List.filter_append, List.map_append]
    have happ : ∀ (l m : List Bool), parity (l ++ m) = (parity l != parity m) := by
      intro l m; induction l with
      | nil => simp [parity]
      | cons b bs ihb => simp only [List.cons_append, parity, ihb]; cases b <;> cases parity bs <;> cases parity m <;> rfl
    rw [happ]
    by_cases hn : h = n
    · subst hn
      -- nobody in `range h` equals h
      have hf : (List.range h).filter (· != h) = List.range h := by
        apply List.filter_eq_self.mpr; intro a ha; simp at ha; simp; omega
      have hb : ∀ m, parity ((List.range m).map tb) = bsum m tb := by
        intro m; induction m with
        | zero => rfl
        | succ m ihm =>
          rw [List.range_succ, List.map_append, happ, ihm]; simp [parity, bsum]
          cases tb m <;> cases bsum m tb <;> rfl
      simp only [hf, hb, bsum, List.filter_cons, List.filter_nil, bne_self_eq_false]
      simp [parity]
    · have hlt : h < n := by omega
      have hne : (n != h) = true := by simp; omega
      simp only [List.filter_cons, List.filter_nil, hne, if_true, List.map_cons, List.map_nil, parity, bsum]
      rw [← ih hlt]
      cases tb h <;> cases parity (List.map tb (List.filter (fun x => x != h) (List.range n))) <;> cases tb n <;> rfl

/-- **C02 agreement.** Parties `h1`, `h2 < n` each hold their true share bit and hear from everybody else. If both accept
    and neither global key can be extracted from what they were sent, they open the same bit. -/
theorem C02_agreement (n h1 h2 : Nat) (hh1 : h1 < n) (hh2 : h2 < n) (Δ1 Δ2 : V) (r : Nat) (own1 own2 : OwnOut) (tb : Nat → Bool)
    (recvd1 recvd2 : List (Nat × Option (Bool × V))) (v1 v2 : Bool)
    (hm : own1.masked = own2.masked)                        -- both use the evaluator's masked value (C03_output_label)
    (hb1 : own1.bit = tb h1) (hb2 : own2.bit = tb h2)
    (hs1 : recvd1.map (·.1) = othersOf n h1) (hs2 : recvd2.map (·.1) = othersOf n h2)
    (ok1 : openOutput false Δ1 r own1 recvd1 = .ok v1) (ok2 : openOutput false Δ2 r own2 recvd2 = .ok v2)
    (hno1 : ¬ ∃ p b mac, (p, some (b, mac)) ∈ recvd1 ∧ b ≠ tb p ∧ mac ^^^ (own1.key p ^^^ sc (tb p) Δ1) = Δ1)
    (hno2 : ¬ ∃ p b mac, (p, some (b, mac)) ∈ recvd2 ∧ b ≠ tb p ∧ mac ^^^ (own2.key p ^^^ sc (tb p) Δ2) = Δ2) :
    v1 = v2 ∧ v1 = (own1.masked != bsum n tb) := by
  have e1 := openOutput_sound Δ1 r own1 tb recvd1 v1 ok1 hno1
  have e2 := openOutput_sound Δ2 r own2 tb recvd2 v2 ok2 hno2
  have m1 : (recvd1.map fun e => tb e.1) = (othersOf n h1).map tb := by rw [← hs1, List.map_map]; rfl
  have m2 : (recvd2.map fun e => tb e.1) = (othersOf n h2).map tb := by rw [← hs2, List.map_map]; rfl
  have p1 := parity_others n h1 tb hh1
  have p2 := parity_others n h2 tb hh2
  rw [m1, hb1] at e1; rw [m2, hb2] at e2
  have f1 : v1 = (own1.masked != bsum n tb) := by
    rw [e1, ← p1]; cases own1.masked <;> cases tb h1 <;> cases parity ((othersOf n h1).map tb) <;> rfl
  have f2 : v2 = (own2.masked != bsum n tb) := by
    rw [e2, ← p2]; cases own2.masked <;> cases tb h2 <;> cases parity ((othersOf n h2).map tb) <;> rfl
  exact ⟨by rw [f1, f2, hm], f1⟩

end PolytuneModel
