import PolytuneModel.Proto.Circuit
/-! C18 — documented-invalid arguments. `validateArgs` is a hand copy of `protocol.rs::validate` (to be replaced by the
    translator's `Gen.validate`); note that the evaluator index is not even a parameter of it. -/
namespace PolytuneModel

inductive ArgErr
  | circuit (e : CircuitError) | partyDoesNotExist | wrongInputSize (expected actual : Nat) | missingOutputParties | invalidOutputParty (p : Nat)
deriving Repr, DecidableEq

def validateArgs (c : Circuit) (pOwn inputLen : Nat) (pOut : List Nat) : Except ArgErr Unit := do
  match c.validate with
  | .error e => throw (.circuit e)
  | .ok _ => pure ()
  let pMax := c.inputRegs.length
  match c.inputRegs[pOwn]? with
  | none => throw .partyDoesNotExist
  | some expected => if expected ≠ inputLen then throw (.wrongInputSize expected inputLen)
  if pOut.isEmpty then throw .missingOutputParties
  for o in pOut do
    if o ≥ pMax then throw (.invalidOutputParty o)
  return ()

def accepted (r : Except ArgErr Unit) : Bool := match r with | .ok _ => true | .error _ => false

/-- sentence 1 of the property, for the arguments that ARE checked: each of these is refused (before any channel use:
    `validate` is the first statement of `_mpc` and has no channel parameter). -/
theorem C18_reject_own_index (c : Circuit) (pOwn len : Nat) (pOut : List Nat) (h : c.inputRegs.length ≤ pOwn) :
    accepted (validateArgs c pOwn len pOut) = false := by
  unfold validateArgs accepted
  have hn : c.inputRegs[pOwn]? = none := List.getElem?_eq_none_iff.mpr h
  cases hv : c.validate <;> simp [hv, hn, bind, Except.bind, throw, throwThe, MonadExceptOf.throw, pure, Except.pure]

theorem C18_reject_invalid_circuit (c : Circuit) (pOwn len : Nat) (pOut : List Nat) (e : CircuitError) (h : c.validate = .error e) :
    validateArgs c pOwn len pOut = .error (.circuit e) := by
  simp [validateArgs, h, bind, Except.bind, throw, throwThe, MonadExceptOf.throw]

theorem C18_reject_empty_pout (c : Circuit) (pOwn len : Nat) : accepted (validateArgs c pOwn len []) = false := by
  unfold validateArgs accepted
  cases hv : c.validate <;> cases ho : c.inputRegs[pOwn]? <;>
    simp [hv, ho, bind, Except.bind, throw, throwThe, MonadExceptOf.throw, pure, Except.pure] <;> split <;> (try split at *) <;> simp_all

/-! counterexamples on the pinned tree -/
def andCirc : Circuit := ⟨[1, 1], [⟨0, .input 0 0⟩, ⟨1, .input 1 0⟩, ⟨2, .and 0 1⟩], 3, [2], 1⟩

/-- C18-a: the evaluator index is not validated at all — the check does not even receive it; any value is "accepted". -/
theorem C18_cex_peval : ∀ _pEval : Nat, accepted (validateArgs andCirc 0 1 [0, 1]) = true := by intro _; decide
/-- C18-b: a repeated output index passes. -/
theorem C18_cex_pout_dup : accepted (validateArgs andCirc 0 1 [1, 1]) = true := by decide
/-- C18-c: an `Input` instruction after a gate passes `validate` although the circuit is not well-formed for `mpc`. -/
def inputAfterGate : Circuit := ⟨[1, 2], [⟨0, .input 0 0⟩, ⟨1, .input 1 0⟩, ⟨2, .and 0 1⟩, ⟨3, .input 1 1⟩, ⟨2, .xor 2 3⟩], 4, [2], 1⟩
theorem C18_cex_input_after_gate : accepted (validateArgs inputAfterGate 0 1 [0]) = true ∧ inputAfterGate.wf = false := by decide

end PolytuneModel
