import PolytuneModel.Proto.Validate
/-! C18 — documented-invalid arguments. `validateArgs` (Proto/Validate.lean) models `protocol.rs::validate` of the current tree and is
    compared with the real `mpc` on every generated tuple. `validate` is the first statement of `_mpc` and has no channel parameter, so
    "rejected by `validateArgs`" is "rejected before any message". -/
namespace PolytuneModel

/-- exactly when `validate` lets a call through. -/
theorem validateArgs_ok_iff (c : Circuit) (pOwn len pEval : Nat) (pOut : List Nat) :
    accepted (validateArgs c pOwn len pEval pOut) = true ↔
      (∃ u, c.validate = .ok u) ∧ inputAfterGateIdx c = none ∧ c.inputRegs[pOwn]? = some len ∧ pEval < c.inputRegs.length
      ∧ pOut ≠ [] ∧ badOutputParty c.inputRegs.length [] pOut = none := by
  unfold validateArgs accepted
  cases hv : c.validate with
  | error e => simp
  | ok u =>
    cases hi : inputAfterGateIdx c with
    | some w => simp
    | none =>
      cases hg : c.inputRegs[pOwn]? with
      | none => simp
      | some expected =>
        by_cases h1 : pEval ≥ c.inputRegs.length
        · simp [h1]; omega
        · by_cases h2 : expected ≠ len
          · simp [h1, h2]
          · by_cases h3 : pOut.isEmpty = true
            · simp [h1, h2, h3]; intro _ _ h; simp [List.isEmpty_iff.mp h3] at h
            · cases hb : badOutputParty c.inputRegs.length [] pOut with
              | some o => simp [h1, h2, h3, hb]
              | none =>
                have hne : pOut ≠ [] := fun h => h3 (by simp [h])
                have h2' : expected = len := by simpa using h2
                simp [h1, h2, h3, hne, hb, h2']; omega

theorem rejected_of_not (c : Circuit) (pOwn len pEval : Nat) (pOut : List Nat)
    (h : ¬ ((∃ u, c.validate = .ok u) ∧ inputAfterGateIdx c = none ∧ c.inputRegs[pOwn]? = some len ∧ pEval < c.inputRegs.length
      ∧ pOut ≠ [] ∧ badOutputParty c.inputRegs.length [] pOut = none)) : accepted (validateArgs c pOwn len pEval pOut) = false := by
  cases ha : accepted (validateArgs c pOwn len pEval pOut) with
  | false => rfl
  | true => exact absurd ((validateArgs_ok_iff c pOwn len pEval pOut).mp ha) h

/-! ### sentence 1: each documented-invalid argument is rejected -/

theorem C18_reject_invalid_circuit (c : Circuit) (pOwn len pEval : Nat) (pOut : List Nat) (e : CircuitError) (h : c.validate = .error e) :
    validateArgs c pOwn len pEval pOut = .error (.circuit e) := by
  simp [validateArgs, h]

theorem C18_reject_own_index (c : Circuit) (pOwn len pEval : Nat) (pOut : List Nat) (h : c.inputRegs.length ≤ pOwn) :
    accepted (validateArgs c pOwn len pEval pOut) = false := by
  apply rejected_of_not; intro ⟨_, _, hg, _⟩
  rw [List.getElem?_eq_none_iff.mpr h] at hg; simp at hg

theorem C18_reject_peval (c : Circuit) (pOwn len pEval : Nat) (pOut : List Nat) (h : c.inputRegs.length ≤ pEval) :
    accepted (validateArgs c pOwn len pEval pOut) = false := by
  apply rejected_of_not; intro ⟨_, _, _, he, _⟩; omega

theorem C18_reject_input_len (c : Circuit) (pOwn len pEval : Nat) (pOut : List Nat) (expected : Nat)
    (hg : c.inputRegs[pOwn]? = some expected) (h : expected ≠ len) : accepted (validateArgs c pOwn len pEval pOut) = false := by
  apply rejected_of_not; intro ⟨_, _, hg', _⟩; rw [hg] at hg'; simp at hg'; exact h hg'

theorem C18_reject_empty_pout (c : Circuit) (pOwn len pEval : Nat) : accepted (validateArgs c pOwn len pEval []) = false := by
  apply rejected_of_not; intro ⟨_, _, _, _, hne, _⟩; exact hne rfl

theorem badOutputParty_of_mem (pMax : Nat) : ∀ (pOut seen : List Nat) (o : Nat), o ∈ pOut → pMax ≤ o → (badOutputParty pMax seen pOut).isSome = true
  | [], _, _, h, _ => by simp at h
  | x :: rest, seen, o, h, ho => by
    unfold badOutputParty
    by_cases hx : x ≥ pMax ∨ x ∈ seen
    · simp [hx]
    · simp only [hx, if_false]
      rcases List.mem_cons.mp h with rfl | hm
      · exact absurd (Or.inl ho) hx
      · exact badOutputParty_of_mem pMax rest _ o hm ho

theorem C18_reject_pout_index (c : Circuit) (pOwn len pEval : Nat) (pOut : List Nat) (o : Nat) (ho : o ∈ pOut) (h : c.inputRegs.length ≤ o) :
    accepted (validateArgs c pOwn len pEval pOut) = false := by
  apply rejected_of_not; intro ⟨_, _, _, _, _, hb⟩
  have := badOutputParty_of_mem c.inputRegs.length pOut [] o ho h
  rw [hb] at this; simp at this

/-! ### sentence 2: an output list that repeats an index is rejected -/

theorem badOutputParty_of_dup (pMax : Nat) : ∀ (pOut seen : List Nat), ¬ (seen ++ pOut).Nodup → seen.Nodup → (badOutputParty pMax seen pOut).isSome = true
  | [], seen, h, hs => by simp at h; exact absurd hs h
  | x :: rest, seen, h, hs => by
    unfold badOutputParty
    by_cases hx : x ≥ pMax ∨ x ∈ seen
    · simp [hx]
    · simp only [hx, if_false]
      have hxs : x ∉ seen := fun hm => hx (Or.inr hm)
      apply badOutputParty_of_dup pMax rest (seen ++ [x])
      · simpa [List.append_assoc] using h
      · rw [List.nodup_append]; refine ⟨hs, by simp, ?_⟩; intro a ha b hb; simp at hb; subst hb; intro hab; exact hxs (hab ▸ ha)

theorem C18_reject_pout_repeats (c : Circuit) (pOwn len pEval : Nat) (pOut : List Nat) (h : ¬ pOut.Nodup) :
    accepted (validateArgs c pOwn len pEval pOut) = false := by
  apply rejected_of_not; intro ⟨_, _, _, _, _, hb⟩
  have := badOutputParty_of_dup c.inputRegs.length pOut [] (by simpa using h) (by simp)
  rw [hb] at this; simp at this

/-- conversely, what is accepted has a duplicate-free, in-range output list — the hypothesis of C01/C05/C12. -/
theorem badOutputParty_none (pMax : Nat) : ∀ (pOut seen : List Nat), badOutputParty pMax seen pOut = none → (∀ o ∈ pOut, o < pMax ∧ o ∉ seen) ∧ pOut.Nodup
  | [], _, _ => by simp
  | x :: rest, seen, h => by
    unfold badOutputParty at h
    by_cases hx : x ≥ pMax ∨ x ∈ seen
    · simp [hx] at h
    · simp only [hx, if_false] at h
      have ih := badOutputParty_none pMax rest (seen ++ [x]) h
      have hx' : x < pMax ∧ x ∉ seen := ⟨by omega, fun hm => hx (Or.inr hm)⟩
      refine ⟨?_, ?_⟩
      · intro o ho
        rcases List.mem_cons.mp ho with rfl | hm
        · exact hx'
        · have := ih.1 o hm; exact ⟨this.1, fun hs => this.2 (List.mem_append_left _ hs)⟩
      · rw [List.nodup_cons]; exact ⟨fun hm => (ih.1 x hm).2 (by simp), ih.2⟩

theorem C18_accepted_pout_ok (c : Circuit) (pOwn len pEval : Nat) (pOut : List Nat) (h : accepted (validateArgs c pOwn len pEval pOut) = true) :
    pOut.Nodup ∧ pOut ≠ [] ∧ (∀ o ∈ pOut, o < c.inputRegs.length) ∧ pEval < c.inputRegs.length ∧ pOwn < c.inputRegs.length := by
  obtain ⟨_, _, hg, he, hne, hb⟩ := (validateArgs_ok_iff c pOwn len pEval pOut).mp h
  have := badOutputParty_none _ _ _ hb
  refine ⟨this.2, hne, fun o ho => (this.1 o ho).1, he, ?_⟩
  exact Nat.lt_of_not_le fun hc => by rw [List.getElem?_eq_none_iff.mpr hc] at hg; simp at hg

/-! ### sentence 3 (the gap between `Circuit.validate` and what `mpc` indexes): an `Input` after a gate is rejected -/
def andCirc : Circuit := ⟨[1, 1], [⟨0, .input 0 0⟩, ⟨1, .input 1 0⟩, ⟨2, .and 0 1⟩], 3, [2], 1⟩
def inputAfterGate : Circuit := ⟨[1, 2], [⟨0, .input 0 0⟩, ⟨1, .input 1 0⟩, ⟨2, .and 0 1⟩, ⟨3, .input 1 1⟩, ⟨2, .xor 2 3⟩], 4, [2], 1⟩

/-- the circuit that used to panic every party (C18-c) passes `Circuit.validate`, is not well-formed, and is now refused. -/
theorem C18_input_after_gate_rejected :
    (match inputAfterGate.validate with | .ok _ => true | .error _ => false) = true ∧ inputAfterGate.wf = false
    ∧ accepted (validateArgs inputAfterGate 0 1 0 [0]) = false ∧ inputAfterGateIdx inputAfterGate = some 3 := by decide

/-- non-vacuity: a valid tuple is accepted. -/
example : accepted (validateArgs andCirc 0 1 1 [0, 1]) = true := by decide
/-- the former counterexamples C18-a (evaluator index 5 of 2) and C18-b (`[1,1]`) are rejected by the current `validate`. -/
example : accepted (validateArgs andCirc 0 1 5 [0, 1]) = false ∧ accepted (validateArgs andCirc 0 1 0 [1, 1]) = false := by decide

end PolytuneModel
