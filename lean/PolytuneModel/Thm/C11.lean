import PolytuneModel.Lemmas.Xor
/-! C11 — OT extension delivers exactly the correlated message, for every index and every length.

ALSZ/KOS as algebra: `G` is an arbitrary PRG (row `j` of the matrices is `G (seed) ·`), `H` an arbitrary tweakable hash,
the base OTs are ideal (the sender holds `k (s j) j`, the receiver both seeds). Columns are the transposed rows
(`Transpose.spec`), represented as functions from the row index to a bit. Nothing depends on the number of OTs `m`:
the statement holds at every column index `i`, so in particular for lengths that are not multiples of 8 or 128. -/
namespace PolytuneModel.OT

variable {Seed : Type}

/-- receiver's matrix row j: `t_j = G(k0_j)`; the matrix it sends: `u_j = G(k0_j) ⊕ G(k1_j) ⊕ r`. -/
def tRow (G : Seed → Nat → Bool) (k0 : Nat → Seed) (j i : Nat) : Bool := G (k0 j) i
def uRow (G : Seed → Nat → Bool) (k0 k1 : Nat → Seed) (r : Nat → Bool) (j i : Nat) : Bool := (G (k0 j) i != G (k1 j) i) != r i
/-- sender's matrix row j: `q_j = G(k_{s_j}) ⊕ s_j · u_j`. -/
def qRow (G : Seed → Nat → Bool) (k0 k1 : Nat → Seed) (r s : Nat → Bool) (j i : Nat) : Bool :=
  (G (if s j then k1 j else k0 j) i != (s j && uRow G k0 k1 r j i))

/-- the ALSZ row relation `q_j = t_j ⊕ s_j · r`, hence after transposition the column relation `q^i = t^i ⊕ r_i · s`. -/
theorem column_relation (G : Seed → Nat → Bool) (k0 k1 : Nat → Seed) (r s : Nat → Bool) (i : Nat) :
    (fun j => qRow G k0 k1 r s j i) = (fun j => (tRow G k0 j i != (r i && s j))) := by
  funext j
  simp only [qRow, uRow, tRow]
  cases hs : s j
  · simp
  · simp only [if_true, Bool.true_and, Bool.and_true]
    generalize G (k0 j) i = a; generalize G (k1 j) i = b; generalize r i = c
    cases a <;> cases b <;> cases c <;> rfl

/-- **C11, correlated OT.** `x0 i` is the sender's zero message, `y i` the correction it sends, the receiver outputs
    `(r_i ? y_i : 0) ⊕ H(i, t^i)`; the result is the zero message XOR (choice AND correlation), at every index. -/
theorem C11_cot (G : Seed → Nat → Bool) (H : Nat → (Nat → Bool) → V) (k0 k1 : Nat → Seed) (r s : Nat → Bool) (δ : Nat → V) (i : Nat) :
    let q := fun j => qRow G k0 k1 r s j i
    let t := fun j => tRow G k0 j i
    let x0 := H i q
    let y := H i (fun j => (q j != s j)) ^^^ (x0 ^^^ δ i)
    (sc (r i) y ^^^ H i t) = x0 ^^^ sc (r i) (δ i) := by
  intro q t x0 y
  have hq : q = fun j => (t j != (r i && s j)) := column_relation G k0 k1 r s i
  cases hr : r i
  · -- choice 0: the receiver's column IS the sender's column
    have : q = t := by rw [hq]; funext j; simp [hr]
    simp only [x0, this, sc_false]; xor_nf
  · -- choice 1: the receiver's column is the sender's column XOR s
    have : (fun j => (q j != s j)) = t := by
      rw [hq]; funext j; simp only [hr, Bool.true_and]
      generalize t j = a; generalize s j = b; cases a <;> cases b <;> rfl
    simp only [y, x0, this, sc_true]; xor_nf

/-- both sides return exactly the requested number of messages (the padding to a multiple of 8 plus 128 + SSP extra
    columns is cut off again). -/
theorem C11_lengths (m : Nat) (out : Nat → V) : ((List.range m).map out).length = m := by simp

/-- number of check coefficients the KOS **sender** draws from the shared stream: one per column, `ncols = next_multiple_of(8)(m) + 128 + SSP`. -/
def senderDraws (m : Nat) : Nat := (m + 7) / 8 * 8 + 128 + 40
/-- number the **receiver** draws: one per bit of `r`, which is `ceil(m/8)` packed choice bytes plus `(m_ - m8)/8` random bytes. -/
def receiverDraws (m : Nat) : Nat :=
  let m8 := (m + 7) / 8 * 8; let m_ := m8 + 128 + 40
  8 * ((if m % 8 = 0 then m / 8 else m / 8 + 1) + (m_ - m8) / 8)

/-- both sides advance their copy of the shared generator by the same amount in every session … -/
theorem C11_draws_agree (m : Nat) : senderDraws m = receiverDraws m := by
  unfold senderDraws receiverDraws
  by_cases h : m % 8 = 0 <;> simp only [h, if_true, if_false] <;> omega

/-- … hence after any sequence of back-to-back sessions (in either role order) the two copies are at the same position. -/
theorem C11_in_step (ms : List Nat) : (ms.map senderDraws).sum = (ms.map receiverDraws).sum := by
  induction ms with
  | nil => rfl
  | cons m ms ih => simp only [List.map_cons, List.sum_cons, ih, C11_draws_agree]

end PolytuneModel.OT
