import PolytuneModel.Prim.Clmul
/-! C11 — the KOS correlation check passes for honest parties, from the algebra of carry-less multiplication:
    `M` (LSB-first recursion on the second factor) is bilinear over XOR and commutative; the schoolbook fold
    `clmulNat` of `Prim/Clmul.lean` (the specification the real `clmul` is compared with) equals `M`. -/
namespace PolytuneModel.Kos

def scN (b : Bool) (x : Nat) : Nat := if b then x else 0

/-- carry-less product, recursion on the bits of the second factor. -/
def M (a b : Nat) : Nat :=
  if h : b = 0 then 0 else scN (b.testBit 0) a ^^^ (M a (b >>> 1)) <<< 1
termination_by b
decreasing_by rw [Nat.shiftRight_eq_div_pow]; exact Nat.div_lt_self (Nat.pos_of_ne_zero h) (by decide)

theorem M_zero_right (a : Nat) : M a 0 = 0 := by rw [M]; simp

theorem M_step (a b : Nat) : M a b = scN (b.testBit 0) a ^^^ (M a (b >>> 1)) <<< 1 := by
  by_cases h : b = 0
  · subst h; rw [M_zero_right]; simp [scN, M_zero_right]
  · rw [M]; simp [h]

theorem scN_xor (c : Bool) (x y : Nat) : scN c (x ^^^ y) = scN c x ^^^ scN c y := by cases c <;> simp [scN]
theorem scN_bxor (c d : Bool) (x : Nat) : scN (c ^^ d) x = scN c x ^^^ scN d x := by cases c <;> cases d <;> simp [scN]
theorem scN_shift (c : Bool) (x i : Nat) : scN c (x <<< i) = (scN c x) <<< i := by cases c <;> simp [scN]
theorem scN_zero (c : Bool) : scN c 0 = 0 := by cases c <;> rfl

/-- strong induction along `b ↦ b >>> 1`. -/
theorem shr_induction (P : Nat → Prop) (h0 : P 0) (hs : ∀ b, b ≠ 0 → P (b >>> 1) → P b) : ∀ b, P b := by
  intro b
  induction b using Nat.strongRecOn with
  | _ b ih =>
    by_cases h : b = 0
    · subst h; exact h0
    · exact hs b h (ih _ (by rw [Nat.shiftRight_eq_div_pow]; exact Nat.div_lt_self (Nat.pos_of_ne_zero h) (by decide)))

theorem M_xor_left (a a' b : Nat) : M (a ^^^ a') b = M a b ^^^ M a' b := by
  induction b using shr_induction with
  | h0 => simp [M_zero_right]
  | hs b _ ih =>
    rw [M_step (a ^^^ a') b, M_step a b, M_step a' b, ih, scN_xor, Nat.shiftLeft_xor_distrib]
    ac_rfl

theorem M_zero_left (b : Nat) : M 0 b = 0 := by
  induction b using shr_induction with
  | h0 => exact M_zero_right 0
  | hs b _ ih => rw [M_step, ih]; simp [scN_zero]

theorem M_shift_left (a b : Nat) : M (a <<< 1) b = (M a b) <<< 1 := by
  induction b using shr_induction with
  | h0 => simp [M_zero_right]
  | hs b _ ih => rw [M_step (a <<< 1) b, M_step a b, ih, scN_shift, Nat.shiftLeft_xor_distrib]

/-- a number is its lowest bit XOR the rest shifted back. -/
theorem split_lsb (b : Nat) : b = scN (b.testBit 0) 1 ^^^ (b >>> 1) <<< 1 := by
  apply Nat.eq_of_testBit_eq; intro i
  rw [Nat.testBit_xor, Nat.testBit_shiftLeft, Nat.testBit_shiftRight]
  cases i with
  | zero => cases h : b.testBit 0 <;> simp [scN, h]
  | succ i =>
    have : (scN (b.testBit 0) 1).testBit (i + 1) = false := by
      cases b.testBit 0 <;> simp [scN, Nat.testBit_succ]
    rw [this]; simp [Nat.add_comm]

theorem M_one_left (b : Nat) : M 1 b = b := by
  induction b using shr_induction with
  | h0 => exact M_zero_right 1
  | hs b _ ih => rw [M_step, ih]; exact (split_lsb b).symm

theorem M_sc_left (c : Bool) (b : Nat) : M (scN c 1) b = scN c b := by
  cases c
  · simp [scN, M_zero_left]
  · simp [scN, M_one_left]

/-- **commutativity of carry-less multiplication.** -/
theorem M_comm (a b : Nat) : M a b = M b a := by
  induction b using shr_induction generalizing a with
  | h0 => rw [M_zero_right, M_zero_left]
  | hs b _ ih =>
    rw [M_step a b]
    conv => rhs; rw [split_lsb b, M_xor_left, M_shift_left, M_sc_left]
    rw [ih a]

theorem M_xor_right (a b b' : Nat) : M a (b ^^^ b') = M a b ^^^ M a b' := by
  rw [M_comm a (b ^^^ b'), M_xor_left, M_comm b a, M_comm b' a]

theorem M_sc_arg (c : Bool) (a b : Nat) : M (scN c a) b = scN c (M a b) := by
  cases c <;> simp [scN, M_zero_left]

/-! the schoolbook fold is `M` -/

theorem fold_shift (a b : Nat) (n : Nat) (acc : Nat) :
    (List.range n).foldl (fun acc i => if b.testBit i then acc ^^^ (a <<< i) else acc) acc
      = acc ^^^ (List.range n).foldl (fun acc i => if b.testBit i then acc ^^^ (a <<< i) else acc) 0 := by
  induction n with
  | zero => simp
  | succ n ih =>
    rw [List.range_succ, List.foldl_append, List.foldl_append, ih]
    simp only [List.foldl_cons, List.foldl_nil]
    split
    · ac_rfl
    · rfl

theorem clmulNat_succ (a b n : Nat) : clmulNat a b (n + 1) = clmulNat a b n ^^^ scN (b.testBit n) (a <<< n) := by
  unfold clmulNat
  rw [List.range_succ, List.foldl_append]
  simp only [List.foldl_cons, List.foldl_nil]
  cases b.testBit n <;> simp [scN]

theorem M_mod_succ (a b n : Nat) : M a (b % 2 ^ (n + 1)) = M a (b % 2 ^ n) ^^^ scN (b.testBit n) (a <<< n) := by
  have hb : b % 2 ^ (n + 1) = b % 2 ^ n ^^^ scN (b.testBit n) (1 <<< n) := by
    apply Nat.eq_of_testBit_eq; intro i
    rw [Nat.testBit_xor, Nat.testBit_mod_two_pow, Nat.testBit_mod_two_pow]
    by_cases hi : i < n
    · have : (scN (b.testBit n) (1 <<< n)).testBit i = false := by
        cases b.testBit n <;> simp [scN, Nat.testBit_shiftLeft]; omega
      simp [hi, Nat.lt_succ_of_lt hi, this]
    · by_cases hin : i = n
      · subst hin
        cases hbn : b.testBit i <;> simp [scN, Nat.testBit_shiftLeft, hbn]
      · have h1 : ¬ i < n + 1 := by omega
        have : (scN (b.testBit n) (1 <<< n)).testBit i = false := by
          cases b.testBit n <;> simp [scN, Nat.testBit_shiftLeft]
          intro _; have : i - n ≠ 0 := by omega
          cases hk : i - n with
          | zero => omega
          | succ k => simp [Nat.testBit_succ]
        simp [hi, h1, this]
  rw [hb, M_xor_right]
  congr 1
  -- M a (c · 2^n) = c · (a <<< n)
  cases b.testBit n
  · simp [scN, M_zero_right]
  · simp only [scN, if_true]
    clear hb
    induction n with
    | zero => simp; rw [M_comm, M_one_left]
    | succ n ih =>
      have h1 : (1 : Nat) <<< (n + 1) = (1 <<< n) <<< 1 := by rw [← Nat.shiftLeft_add]
      rw [h1, M_comm, M_shift_left, M_comm, ih, ← Nat.shiftLeft_add]

/-- the specification fold over `n` bits is `M` on the low `n` bits of the second factor. -/
theorem clmulNat_eq_M (a b n : Nat) : clmulNat a b n = M a (b % 2 ^ n) := by
  induction n with
  | zero => simp [clmulNat, Nat.mod_one, M_zero_right]
  | succ n ih => rw [clmulNat_succ, M_mod_succ, ih]

/-! the check -/

def xsumN : Nat → (Nat → Nat) → Nat
  | 0, _ => 0
  | n+1, f => xsumN n f ^^^ f n

theorem M_xsum_left (n : Nat) (f : Nat → Nat) (b : Nat) : M (xsumN n f) b = xsumN n (fun j => M (f j) b) := by
  induction n with
  | zero => simp [xsumN, M_zero_left]
  | succ n ih => simp only [xsumN, M_xor_left, ih]

theorem xsumN_xor (n : Nat) (f g : Nat → Nat) : xsumN n (fun j => f j ^^^ g j) = xsumN n f ^^^ xsumN n g := by
  induction n with
  | zero => simp [xsumN]
  | succ n ih => simp only [xsumN, ih]; ac_rfl

/-- **KOS correlation check, honest parties.** Sender rows `q_j = t_j ⊕ r_j·s` (the column relation of ALSZ,
    `column_relation`), shared coins `χ_j`, receiver's `x = ⨁ r_j χ_j` and `t = ⨁ t_j·χ_j` (carry-less products):
    the sender's `⨁ q_j·χ_j ⊕ x·s` equals `t` — for every number of columns and all values. -/
theorem C11_kos_check_honest (m : Nat) (t χ : Nat → Nat) (r : Nat → Bool) (s : Nat) :
    xsumN m (fun j => M (t j ^^^ scN (r j) s) (χ j)) ^^^ M (xsumN m (fun j => scN (r j) (χ j))) s
      = xsumN m (fun j => M (t j) (χ j)) := by
  have h1 : xsumN m (fun j => M (t j ^^^ scN (r j) s) (χ j))
      = xsumN m (fun j => M (t j) (χ j)) ^^^ xsumN m (fun j => scN (r j) (M s (χ j))) := by
    rw [← xsumN_xor]; congr 1; funext j; rw [M_xor_left, M_sc_arg]
  have h2 : M (xsumN m (fun j => scN (r j) (χ j))) s = xsumN m (fun j => scN (r j) (M s (χ j))) := by
    rw [M_xsum_left]; congr 1; funext j; rw [M_sc_arg, M_comm]
  rw [h1, h2, Nat.xor_assoc, Nat.xor_self, Nat.xor_zero]

/-- … and in terms of the 128-bit schoolbook specification that the real `Block::clmul` is tied to. -/
theorem C11_kos_check_honest_spec (m : Nat) (t χ : Nat → Nat) (r : Nat → Bool) (s : Nat)
    (hχ : ∀ j, χ j < 2 ^ 128) (hs : s < 2 ^ 128) :
    xsumN m (fun j => clmulNat (t j ^^^ scN (r j) s) (χ j) 128) ^^^ clmulNat (xsumN m (fun j => scN (r j) (χ j))) s 128
      = xsumN m (fun j => clmulNat (t j) (χ j) 128) := by
  simp only [clmulNat_eq_M, Nat.mod_eq_of_lt (hχ _), Nat.mod_eq_of_lt hs]
  exact C11_kos_check_honest m t χ r s

end PolytuneModel.Kos
