import PolytuneModel.Thm.C04laand
/-! C07-b (known finding) — the leaky-AND round leaks a party's global key to a peer that lies about its `e` bit, before the party
    aborts. In `flaand` party `i` adjusts its key for peer `j`'s share of `z` by `e_j · Δ_i`, where `e_j` is the unauthenticated
    bit announced by `j`; the check value `H_i` it then commits to and opens contains that key. If `j` announces the flipped
    bit, `i` opens `H_i ⊕ Δ_i`: together with the value it would have opened — which the peers can compute from what they
    hold, since the honest check values XOR to zero (`C04_laand_zero`) — that is `Δ_i`. The party notices (`LaANDXorNotZero`),
    but only after the opening has been sent. Replayed on the real code by `drive C07m`. -/
namespace PolytuneModel

/-- party `i`'s share of `z` with its key for peer `j` offset by `Δ_i` (what a flipped `e_j` causes). -/
def offsetKey (Δ : Nat → V) (z : Nat → Share) (i j : Nat) : Nat → Share :=
  fun p => if p = i then { (z i) with key := fun k => if k = j then (z i).key k ^^^ Δ i else (z i).key k } else z p

/-- **the opened check value moves by exactly the party's global key.** -/
theorem C07_cex_laand_e_lie (n : Nat) (Δ : Nat → V) (Hh : V → V) (x y z : Nat → Share) (i j : Nat) (hj : j < n) (hij : j ≠ i) :
    Hi n Δ Hh x y (offsetKey Δ z i j) i = Hi n Δ Hh x y z i ^^^ Δ i := by
  unfold Hi offsetKey
  simp only [if_true]
  -- split the off-diagonal sum at k = j on both sides
  have hsplit : ∀ f : Nat → V, od n i f = f j ^^^ od n i (fun k => if k = j then 0 else f k) := by
    intro f; unfold od
    rw [xsum_split n j _ hj]
    simp only [hij, if_false]
    congr 1; apply xsum_congr; intro k _; by_cases hk : k = j <;> by_cases hki : k = i <;> simp [hk, hki, hij]
  rw [hsplit (fun k => (z i).mac k ^^^ (if k = j then (z i).key k ^^^ Δ i else (z i).key k) ^^^ kxphi n Δ Hh x y i k),
      hsplit (fun k => (z i).mac k ^^^ (z i).key k ^^^ kxphi n Δ Hh x y i k)]
  simp only [if_true]
  have hrest : od n i (fun k => if k = j then 0 else (z i).mac k ^^^ (if k = j then (z i).key k ^^^ Δ i else (z i).key k) ^^^ kxphi n Δ Hh x y i k)
      = od n i (fun k => if k = j then 0 else (z i).mac k ^^^ (z i).key k ^^^ kxphi n Δ Hh x y i k) := by
    apply od_congr; intro k _ _; by_cases hk : k = j <;> simp [hk]
  rw [hrest]; xor_nf

end PolytuneModel
