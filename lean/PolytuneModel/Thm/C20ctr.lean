import PolytuneModel.Prim.AesRng
/-! C20 — `AesRng`: for every request length `n`, ONE `fill_bytes(n)` on a fresh generator returns exactly the first `n` bytes of
    the AES-128 counter-mode keystream (whole-block fast path followed by the buffered tail), for any block function whose outputs
    are 16 bytes long and any parallelism `par ≥ 1` (8 on x86, 21 on aarch64, 4 elsewhere — the result does not depend on it). -/
namespace PolytuneModel.AesRng

theorem blocks_length (E : Nat → List UInt8) (hE : ∀ c, (E c).length = 16) (start : Nat) : ∀ count, (blocks E start count).length = 16 * count := by
  intro count
  induction count with
  | zero => simp [blocks]
  | succ k ih =>
    simp only [blocks, List.range_succ, List.flatMap_append, List.length_append, List.flatMap_cons, List.flatMap_nil, List.append_nil] at ih ⊢
    rw [ih, hE]; omega

theorem blocks_append (E : Nat → List UInt8) (start a b : Nat) : blocks E start (a + b) = blocks E start a ++ blocks E (start + a) b := by
  induction b with
  | zero => simp [blocks]
  | succ k ih =>
    have : a + (k + 1) = (a + k) + 1 := by omega
    rw [this]
    simp only [blocks, List.range_succ, List.flatMap_append, List.flatMap_cons, List.flatMap_nil, List.append_nil] at ih ⊢
    rw [ih, List.append_assoc, Nat.add_assoc]

/-- **C20_ctr_single_call.** -/
theorem C20_ctr_single_call (E : Nat → List UInt8) (hE : ∀ c, (E c).length = 16) (par : Nat) (hpar : 1 ≤ par) (n : Nat) :
    (fill E par (fresh par) n).2 = keystream E n := by
  simp only [fill, fresh, keystream]
  by_cases hr : n % 16 = 0
  · -- no tail
    have hn : (n + 15) / 16 = n / 16 := by omega
    have hlen := blocks_length E hE 0 (n / 16)
    simp only [hr, tail, Nat.zero_add, if_true, List.append_nil, hn]
    rw [List.take_of_length_le (by rw [hlen]; omega)]
  · -- tail of r < 16 bytes: one `generate`, one copy
    have hn : (n + 15) / 16 = n / 16 + 1 := by omega
    have hr16 : n % 16 < 16 := Nat.mod_lt _ (by decide)
    have hav : min ((par * 4 - 0) * 4) (n % 16) = n % 16 := by
      apply Nat.min_eq_right; have : 16 ≤ par * 4 * 4 := by omega
      omega
    have hgen : (0 + n / 16 : Nat) = n / 16 := by omega
    rw [hn, blocks_append E 0 (n / 16) 1]
    have hlen := blocks_length E hE 0 (n / 16)
    have hsplit : n = 16 * (n / 16) + n % 16 := (Nat.div_add_mod n 16).symm
    rw [List.take_append, List.take_of_length_le (by rw [hlen]; omega), hlen]
    congr 1
    -- the tail loop: first round generates at counter n/16 and copies n % 16 bytes from the start of the buffer; second round stops
    have hsub : n - 16 * (n / 16) = n % 16 := by omega
    rw [hsub]
    unfold tail
    simp only [hr, if_false, Nat.zero_add, Nat.le_refl, ge_iff_le, if_true, hav, Nat.sub_self, Nat.mul_zero, List.drop_zero, List.nil_append]
    have hone : blocks E (n / 16) 1 = E (n / 16) := by simp [blocks]
    have hpre : (blocks E (n / 16) par).take (n % 16) = (E (n / 16)).take (n % 16) := by
      have : par = 1 + (par - 1) := by omega
      rw [this, blocks_append E (n / 16) 1 (par - 1), hone, List.take_append_of_le_length (by rw [hE]; omega)]
    rw [hone]
    cases hk : n % 16 with
    | zero => exact absurd hk hr
    | succ k =>
      simp only [tail, if_true]
      rw [← hk]; exact hpre

end PolytuneModel.AesRng
