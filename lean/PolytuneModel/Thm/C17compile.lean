import PolytuneModel.Server.Net
import PolytuneModel.Thm.C13reach
/-! C17 — the policy ends with a COMPILE error (after validation and the constants exchange, `compile_with_options` fails; the same program
    and constants at every party, so it fails everywhere). Two parties, all 32 setups, every delivery order: every reachable state is
    terminal with every state machine stopped, every permit returned, every schedule call answered Ok once and exactly one (error)
    notification at every party that has a destination — or it has a successor. -/
namespace PolytuneModel.Server

def initNetCF (su : Setup) : Net := { initNet su with compileOk := false }

def statesOfCF (cfg : Cfg) (su : Setup) : List Net := let r := explore cfg su 80 [] [initNetCF su]; r.1 ++ r.2

/-- the end state C17 asks for after an error end: nobody lingers, nobody holds a permit, everybody with a destination has been told once -/
def endedClean (su : Setup) (net : Net) : Bool :=
  net.actors.all (·.stopped) && net.actors.all (fun s => !s.permit)
  && (List.range su.n).all (fun p => net.outputs.getD p 0 == (if su.outs.getD p false then 1 else 0))
  && (List.range su.n).all (fun p => net.schedOk.getD p 0 == 1)
  && net.executing.all (fun b => !b)

def stateOkCF (cfg : Cfg) (su : Setup) (s : Net) : Bool := if terminal s then endedClean su s else !(successors cfg su s).isEmpty

def certificateCF (su : Setup) : Bool :=
  let all := statesOfCF Cfg.current su
  all.contains (initNetCF su)
  && all.all (fun s => (successors Cfg.current su s).all (fun t => all.contains t))
  && all.all (stateOkCF Cfg.current su)

theorem C17_n2_compile_certificates : allSetups2'.all certificateCF = true := by decide +kernel

/-- **C17, compile-error end, two parties, every setup and interleaving.** -/
theorem C17_n2_compile_error_ok (su : Setup) (hsu : su ∈ allSetups2') (s : Net)
    (h : Reach (successors Cfg.current su) (initNetCF su) s) : stateOkCF Cfg.current su s = true := by
  have hc : certificateCF su = true := List.all_eq_true.mp C17_n2_compile_certificates su hsu
  simp only [certificateCF, Bool.and_eq_true, List.all_eq_true, List.contains_iff_mem] at hc
  obtain ⟨⟨hinit, hclosed⟩, hok⟩ := hc
  exact hok s (closed_covers _ _ _ hinit (fun a ha t ht => hclosed a ha t ht) s h)

/-- non-vacuity: in every setup a terminal state is reached, and no party ever executes -/
theorem C17_n2_compile_error_explored :
    allSetups2'.all (fun su => (statesOfCF Cfg.current su).any terminal && (statesOfCF Cfg.current su).all (fun s => s.executing.all (fun b => !b))) = true := by
  decide +kernel

end PolytuneModel.Server
