import PolytuneModel.Server.Net
/-! C13 for three parties (slow: minutes of kernel evaluation; thorough tier). -/
namespace PolytuneModel.Server
theorem C13_n3_leader1 : (report Cfg.current ⟨3, 1, [true, true, false], [false, false, false]⟩ 80).2.2 = (0, 0) := by decide +kernel
theorem C13_n3_leader0_consts : (report Cfg.current ⟨3, 0, [true, true, true], [true, false, true]⟩ 80).2.2 = (0, 0) := by decide +kernel
end PolytuneModel.Server
