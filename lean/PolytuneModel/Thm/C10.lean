import PolytuneModel.Lemmas.AndGate
/-! C10 — preprocessing outputs satisfy the authenticated-share and AND-triple relations (algebraic core, every n,
    every bucket size). Shares are one `Share` per party (`Nat → Share`); `bsum n` is the XOR over parties. -/
namespace PolytuneModel

def xorBit (n : Nat) (s : Nat → Share) : Bool := bsum n (fun p => (s p).bit)

theorem xorBit_xor (n) (s t : Nat → Share) : xorBit n (fun p => (s p).xor (t p)) = (xorBit n s != xorBit n t) := by
  simp only [xorBit, Share.xor, bsum_xor]
theorem xorBit_cond (n) (c : Bool) (s : Nat → Share) : xorBit n (fun p => (s p).cond c) = (c && xorBit n s) := by
  cases c <;> simp [xorBit, Share.cond, Share.zero, bsum_and]
  induction n with
  | zero => rfl
  | succ n ih => simp [bsum, ih]

/-- an authenticated AND triple: valid shares of x, y, z with z = x ∧ y. -/
structure IsAnd (n : Nat) (Δ : Nat → V) (x y z : Nat → Share) : Prop where
  vx : Valid n Δ x
  vy : Valid n Δ y
  vz : Valid n Δ z
  rel : xorBit n z = (xorBit n x && xorBit n y)

/-- `combine_two_leaky_ands` with the *opened* d = y₁ ⊕ y₂ (what `check_dvalue` computes and authenticates). -/
def combineX (x1 x2 : Nat → Share) : Nat → Share := fun p => (x1 p).xor (x2 p)
def combineZ (z1 z2 x2 : Nat → Share) (d : Bool) : Nat → Share := fun p => ((z1 p).xor (z2 p)).xor ((x2 p).cond d)

theorem combine_two (n : Nat) (Δ : Nat → V) (x1 y1 z1 x2 y2 z2 : Nat → Share)
    (h1 : IsAnd n Δ x1 y1 z1) (h2 : IsAnd n Δ x2 y2 z2) (d : Bool) (hd : d = (xorBit n y1 != xorBit n y2)) :
    IsAnd n Δ (combineX x1 x2) y1 (combineZ z1 z2 x2 d) where
  vx := h1.vx.xor h2.vx
  vy := h1.vy
  vz := (h1.vz.xor h2.vz).xor (h2.vx.cond d)
  rel := by
    have e1 : xorBit n (combineZ z1 z2 x2 d) = ((xorBit n z1 != xorBit n z2) != (d && xorBit n x2)) := by
      unfold combineZ
      rw [xorBit_xor n (fun p => (z1 p).xor (z2 p)) (fun p => (x2 p).cond d), xorBit_xor, xorBit_cond]
    have e2 : xorBit n (combineX x1 x2) = (xorBit n x1 != xorBit n x2) := xorBit_xor n x1 x2
    rw [e1, e2, h1.rel, h2.rel, hd]
    cases xorBit n x1 <;> cases xorBit n x2 <;> cases xorBit n y1 <;> cases xorBit n y2 <;> rfl

/-- a whole bucket: fold `combine_two` over any number of further leaky triples, with the opened d-values.
    **Every bucket size** (the list may have any length, including 0: bucket size 1). -/
def combineBucket : (Nat → Share) × (Nat → Share) × (Nat → Share) → List (((Nat → Share) × (Nat → Share) × (Nat → Share)) × Bool)
    → (Nat → Share) × (Nat → Share) × (Nat → Share)
  | acc, [] => acc
  | (x, y, z), ((x2, _, z2), d) :: rest => combineBucket (combineX x x2, y, combineZ z z2 x2 d) rest

theorem C10_bucket (n : Nat) (Δ : Nat → V) (x y z : Nat → Share) (h : IsAnd n Δ x y z)
    (rest : List (((Nat → Share) × (Nat → Share) × (Nat → Share)) × Bool))
    (hr : ∀ t ∈ rest, IsAnd n Δ t.1.1 t.1.2.1 t.1.2.2 ∧ t.2 = (xorBit n y != xorBit n t.1.2.1)) :
    let r := combineBucket (x, y, z) rest
    IsAnd n Δ r.1 r.2.1 r.2.2 := by
  induction rest generalizing x z with
  | nil => exact h
  | cons t rest ih =>
    obtain ⟨⟨x2, y2, z2⟩, d⟩ := t
    have ht := hr ((x2, y2, z2), d) List.mem_cons_self
    have hstep := combine_two n Δ x y z x2 y2 z2 h ht.1 d ht.2
    exact ih (combineX x x2) (combineZ z z2 x2 d) hstep (fun t' ht' => hr t' (List.mem_cons_of_mem _ ht'))

/-- Beaver derandomisation (`beaver_aand`): from a random triple (a,b,c) and the wanted inputs (α,β), with the
    *opened* d = a⊕α and e = b⊕β: `c ⊕ d·β ⊕ e·a` is a valid sharing of α∧β. -/
def beaverOut (a c β : Nat → Share) (d e : Bool) : Nat → Share := fun p => ((c p).xor ((β p).cond d)).xor ((a p).cond e)

theorem C10_beaver (n : Nat) (Δ : Nat → V) (a b c α β : Nat → Share) (h : IsAnd n Δ a b c) (vα : Valid n Δ α) (vβ : Valid n Δ β)
    (d e : Bool) (hd : d = (xorBit n a != xorBit n α)) (he : e = (xorBit n b != xorBit n β)) :
    IsAnd n Δ α β (beaverOut a c β d e) where
  vx := vα
  vy := vβ
  vz := (h.vz.xor (vβ.cond d)).xor (h.vx.cond e)
  rel := by
    have e1 : xorBit n (beaverOut a c β d e) = ((xorBit n c != (d && xorBit n β)) != (e && xorBit n a)) := by
      unfold beaverOut
      rw [xorBit_xor n (fun p => (c p).xor ((β p).cond d)) (fun p => (a p).cond e), xorBit_xor, xorBit_cond, xorBit_cond]
    rw [e1, h.rel, hd, he]
    cases xorBit n a <;> cases xorBit n b <;> cases xorBit n α <;> cases xorBit n β <;> rfl

/-- half-authenticated AND, one ordered pair (i → j): whatever the hash bit function, the two contributions XOR to x_j ∧ y_i. -/
theorem C10_haand_pair (Hb : V → Bool) (K Δi : V) (xj yi s : Bool) :
    let h0 := (Hb K != s)
    let h1 := ((Hb (K ^^^ Δi) != s) != yi)
    let M := K ^^^ sc xj Δi                                  -- the MAC party j holds on x_j under i's key
    let t := (Hb M != (if xj then h1 else h0))
    (s != t) = (xj && yi) := by
  cases xj <;> cases yi <;> cases s <;> cases h1 : Hb K <;> cases h2 : Hb (K ^^^ Δi) <;> simp [sc, h1, h2]

end PolytuneModel
