import PolytuneModel.Proto.OnlineMsgs
import PolytuneModel.Thm.C09
/-! C09 on the TIED model: the byte lengths (and senders / recipients / order) of the online-phase messages of `OnlineMsgs.online` —
    the model compared byte for byte with the real traffic — are the same for all tapped coins and all private inputs: they are a
    function of the circuit, the number of parties, the evaluator and the output set only. -/
namespace PolytuneModel.OnlineMsgs
open PolytuneModel.Bincode

theorem countSome_map_congr {α β} (l : List Nat) (f : Nat → Option α) (g : Nat → Option β) (h : ∀ r ∈ l, (f r).isSome = (g r).isSome) :
    countSome (l.map f) = countSome (l.map g) := by
  unfold countSome
  induction l with
  | nil => rfl
  | cons r rest ih =>
    have hr := h r (by simp)
    have ih' := ih (fun x hx => h x (by simp [hx]))
    simp only [List.map_cons, List.filter_cons]
    cases hf : (f r).isSome <;> rw [hf] at hr <;> simp [← hr, hf, ih']

/-- same `Some` pattern, fixed-size payload ⇒ same encoded length. -/
theorem encLen_optList_congr {α β} (ea : α → Bytes) (eb : β → Bytes) (k : Nat) (ha : ∀ a, (ea a).length = k) (hb : ∀ b, (eb b).length = k)
    (m : Nat) (f : Nat → Option α) (g : Nat → Option β) (h : ∀ r, r < m → (f r).isSome = (g r).isSome) :
    (encVec (encOpt ea) (Online.optList m f)).length = (encVec (encOpt eb) (Online.optList m g)).length := by
  rw [encVecOpt_length ea k ha, encVecOpt_length eb k hb]
  unfold Online.optList
  rw [countSome_map_congr (List.range m) f g (fun r hr => h r (List.mem_range.mp hr))]
  simp

theorem flatMap_congr' {α β} (l : List α) (f g : α → List β) (h : ∀ a ∈ l, f a = g a) : l.flatMap f = l.flatMap g := by
  induction l with
  | nil => rfl
  | cons a rest ih => simp only [List.flatMap_cons]; rw [h a (by simp), ih (fun x hx => h x (by simp [hx]))]

theorem len17 (a : Bool × Nat) : (encPair encBool encU128 a).length = 17 := by simp [encPair, encBool, encU128_length]

/-- the registers for which a masked input was recorded are the outputs of the `Input` instructions, whatever the coins and inputs. -/
theorem walk_masked_regs (n e : Nat) (c : Coins) (insts : List Inst) :
    (walk n e c insts).2.2.map (·.1) = (insts.filter (fun i => match i.op with | .input _ _ => true | _ => false)).map (·.out) := by
  unfold walk
  have h : ∀ (l : List Inst) (k : Nat) (acc : St × List Online.Row × List (Nat × Bool)),
      ((l.zipIdx k).foldl (fun (acc : St × List Online.Row × List (Nat × Bool)) (iw : Inst × Nat) =>
        let (s, rows, masked) := acc
        let s' := step n e c s iw.1
        match iw.1.op with
        | .and a b => (s', rows ++ rowsAt n e c s iw.2 a b, masked)
        | .input _ _ => (s', rows, masked ++ [(iw.1.out, s'.val iw.1.out)])
        | _ => (s', rows, masked)) acc).2.2.map (·.1)
      = acc.2.2.map (·.1) ++ (l.filter (fun i => match i.op with | .input _ _ => true | _ => false)).map (·.out) := by
    intro l
    induction l with
    | nil => intro k acc; simp
    | cons i rest ih =>
      intro k acc
      obtain ⟨s, rows, masked⟩ := acc
      simp only [List.zipIdx_cons, List.foldl_cons]
      rw [ih (k + 1)]
      cases hop : i.op <;> simp [hop, List.filter_cons]
  have := h insts 0 (init, [], [])
  simp only [List.map_nil, List.nil_append] at this
  exact this

theorem find_isSome_of_map_fst (l l' : List (Nat × Bool)) (h : l.map (·.1) = l'.map (·.1)) (r : Nat) :
    (l.find? (·.1 == r)).isSome = (l'.find? (·.1 == r)).isSome := by
  induction l generalizing l' with
  | nil => cases l' with
    | nil => rfl
    | cons _ _ => simp at h
  | cons a rest ih => cases l' with
    | nil => simp at h
    | cons b rest' =>
      simp only [List.map_cons, List.cons.injEq] at h
      simp only [List.find?_cons, h.1]
      cases hb : (b.1 == r) <;> simp [hb, ih rest' h.2]

/-- **C09 on the tied model**, all five message families and the garbled rows' plaintext lengths. -/
theorem C09_tied_lengths_public (t t' : Online.Taps) (hn : t'.n = t.n) (circ : Circuit) (e : Nat) (pOut : List Nat) (inputs inputs' : List (List Bool)) :
    let o := online t circ e pOut inputs; let o' := online t' circ e pOut inputs'
    o.wireShares.map (fun x => (x.1, x.2.1, x.2.2.length)) = o'.wireShares.map (fun x => (x.1, x.2.1, x.2.2.length))
    ∧ o.maskedIn.map (fun x => (x.1, x.2.length)) = o'.maskedIn.map (fun x => (x.1, x.2.length))
    ∧ o.labels.map (fun x => (x.1, x.2.length)) = o'.labels.map (fun x => (x.1, x.2.length))
    ∧ o.outShares.map (fun x => (x.1, x.2.1, x.2.2.length)) = o'.outShares.map (fun x => (x.1, x.2.1, x.2.2.length))
    ∧ o.lambda.map (fun x => (x.1, x.2.length)) = o'.lambda.map (fun x => (x.1, x.2.length)) := by
  intro o o'
  have hm : ∀ (n1 n2 : Nat) r, (((walk n1 e (coinsOfTaps t circ.numInputs (inputsOf inputs)) circ.insts).2.2.find? (·.1 == r)).map (·.2)).isSome
      = (((walk n2 e (coinsOfTaps t' circ.numInputs (inputsOf inputs')) circ.insts).2.2.find? (·.1 == r)).map (·.2)).isSome := by
    intro n1 n2 r; simp only [Option.isSome_map]
    exact find_isSome_of_map_fst _ _ (by rw [walk_masked_regs, walk_masked_regs]) r
  refine ⟨?_, ?_, ?_, ?_, ?_⟩
  · simp only [o, o', online, hn, List.map_flatMap, List.map_map]
    apply flatMap_congr'; intro p _; apply List.map_congr_left; intro q _
    simp only [Function.comp, Prod.mk.injEq, true_and]
    apply encLen_optList_congr _ _ 17 len17 len17; intro r _
    cases circ.insts[r]? with
    | none => rfl
    | some i => obtain ⟨_, op⟩ := i; cases op <;> simp <;> split <;> rfl
  · simp only [o, o', online, hn, List.map_map]
    apply List.map_congr_left; intro p _
    simp only [Function.comp, Prod.mk.injEq, true_and]
    apply encLen_optList_congr _ _ 1 (by intro a; simp [encBool]) (by intro a; simp [encBool]); intro r _
    cases circ.insts[r]? with
    | none => rfl
    | some i => obtain ⟨_, op⟩ := i; cases op <;> simp <;> (try split) <;> (first | rfl | exact hm _ _ r)
  · simp only [o, o', online, hn, List.map_map]
    apply List.map_congr_left; intro p _
    simp only [Function.comp, Prod.mk.injEq, true_and]
    apply encLen_optList_congr _ _ 16 (by intro a; simp [encU128_length]) (by intro a; simp [encU128_length]); intro r _
    simp only [Option.isSome_map]; have := hm t.n t.n r; simp only [Option.isSome_map] at this; exact this
  · simp only [o, o', online, hn, List.map_flatMap, List.map_map]
    apply flatMap_congr'; intro p _; apply List.map_congr_left; intro q _
    simp only [Function.comp, Prod.mk.injEq, true_and]
    apply encLen_optList_congr _ _ 17 len17 len17; intro r _; split <;> rfl
  · simp only [o, o', online, hn, List.map_map]
    apply List.map_congr_left; intro q _
    simp only [Function.comp, Prod.mk.injEq, true_and]
    apply encLen_optList_congr _ _ 17 len17 len17; intro r _; split <;> rfl

end PolytuneModel.OnlineMsgs
