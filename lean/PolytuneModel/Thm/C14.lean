import PolytuneModel.Server.Step
/-! C14 / C16 / C17 — local (single-actor) theorems about the server-core step function. -/
namespace PolytuneModel.Server

def followerPol : Pol := ⟨1, 0, 2, 42, true, true, false, 0⟩
/-- a follower in the middle of an MPC run (endpoints of generation 1 are live). -/
def executingSt : St := { kind := .executing, pol := some followerPol, chanLen := 2, chanGen := 1, liveGen := some 1 }

/-- does the effect list contain a panic / a stop of the actor? -/
def hasPanic (e : List Eff) : Bool := e.any fun x => match x with | .panic _ => true | _ => false
def hasStop (e : List Eff) : Bool := e.any fun x => x == .stopActor

/-! ### counterexamples on the pinned tree (each is replayed on the real actors by the harness) -/

/-- C14-a: an MPC message naming an unknown sender panics the actor … -/
theorem C14_cex_msg_oob : hasPanic (step Cfg.pinned executingSt (.mpcMsg 7)).2 = true := by decide
/-- … and so does *any* MPC message before `schedule` (the sender vector is still empty). -/
theorem C14_cex_msg_before_schedule : hasPanic (step Cfg.pinned {} (.mpcMsg 0)).2 = true := by decide
/-- a follower that has been validated and waits for one constant (of party 0) -/
def waitingConstsSt : St := { kind := .sendingConstsCompleted, pol := some ⟨1, 0, 2, 42, true, true, false, 1⟩, chanLen := 2, chanGen := 1 }
/-- C14-d: on the tree as it was a constants request from a party that does not exist (index 9) is ANSWERED Ok, stored, and — the count of stored
    entries now equals the number the program needs — starts the run without the real constant. -/
theorem C14_cex_stray_consts :
    let r := step Cfg.pinned waitingConstsSt (.consts 9 true)
    r.2 = [.reply "consts" true "", .selfSend "Run"] ∧ r.1.kind = .running ∧ r.1.consts = [9] := by decide
/-- … now it is refused and nothing changes. -/
theorem C14_stray_consts_refused :
    let r := step Cfg.current waitingConstsSt (.consts 9 true)
    let r' := step Cfg.current waitingConstsSt (.consts 1 true)      -- the party's own index is no valid sender either
    r.2 = [.reply "consts" false "UnknownSender"] ∧ r.1.kind = .sendingConstsCompleted ∧ r.1.consts = []
    ∧ r'.2 = [.reply "consts" false "UnknownSender"] ∧ r'.1.kind = .sendingConstsCompleted ∧ r'.1.consts = [] := by decide
/-- C14-b: a duplicate schedule is answered with an error, but the live endpoints have already been replaced. -/
theorem C14_cex_dup_schedule :
    let r := step Cfg.pinned executingSt (.schedule followerPol)
    r.2 = [.reply "schedule" false "InvalidStateFollower"] ∧ r.1.kind = .executing ∧ r.1.endpointsLive = false := by decide
/-- C14-c: an ill-typed duplicate schedule stops the actor of a running computation. -/
theorem C14_cex_illtyped_dup :
    hasStop (step Cfg.pinned executingSt (.schedule { followerPol with wellTyped := false })).2 = true := by decide
/-- C17-a: a failed run RPC at a leader without destination falls through: permit kept, no stop. -/
theorem C17_cex_run_fail_no_output :
    let leader : Pol := ⟨0, 0, 2, 42, true, false, false, 0⟩
    let s : St := { kind := .init, pol := some leader, permit := true, chanLen := 2, chanGen := 1 }
    let r := step Cfg.pinned s (.leaderRunDone false)
    r.1.permit = true ∧ r.1.stopped = false ∧ r.1.kind = .validated := by decide

/-! ### the repaired step function -/

/-- commands that the state machine rejects (they are invalid for the current state or carry a bad index). -/
def Rejected (e : List Eff) : Prop := ∃ c err, Eff.reply c false err ∈ e

/-- **C14 (repaired), for every state of a live actor and every command:** a rejected command never panics,
    never stops the actor, and leaves the kind, the policy, the constants, the permit and the live endpoints
    untouched — the computation under way cannot tell that the command ever arrived. -/
theorem C14_no_disturb (s : St) (c : Cmd) (hs : s.stopped = false) (hlive : s.kind ≠ .init ∧ s.kind ≠ .validateRequested ∧ s.kind ≠ .awaitingValidation)
    (hext : match c with | .schedule _ | .validate _ | .run true | .consts _ _ | .mpcMsg _ => True | _ => False)
    (hrej : Rejected (step Cfg.repaired s c).2) :
    let r := step Cfg.repaired s c
    hasPanic r.2 = false ∧ hasStop r.2 = false ∧ r.1 = s := by
  obtain ⟨h1, h2, h3⟩ := hlive
  obtain ⟨cn, err, hmem⟩ := hrej
  cases c with
  | schedule p =>
    by_cases hw : p.wellTyped <;> by_cases hl : p.party = p.leader <;>
      cases hk : s.kind <;> simp_all [step, Cfg.repaired, hasPanic, hasStop, stopWith]
  | validate r => cases hk : s.kind <;> simp_all [step, Cfg.repaired, hasPanic, hasStop, stopWith]
  | run ext =>
    cases ext with
    | false => simp at hext
    | true => cases hk : s.kind <;> cases hp : s.pol <;> simp_all [step, Cfg.repaired, hasPanic, hasStop, stopWith, insertConsts] <;> (try split at hmem) <;> simp_all
  | consts sender ne =>
    cases hk : s.kind <;> cases hp : s.pol <;> simp_all [step, Cfg.repaired, hasPanic, hasStop, stopWith, insertConsts, checkConsts, apply_ite Prod.snd]
      <;> (try split at hmem) <;> simp_all
  | mpcMsg sender =>
    by_cases hb : sender < s.chanLen
    · simp [step, Cfg.repaired, hs, hb] at hmem
    · simp [step, Cfg.repaired, hasPanic, hasStop, hs, hb]
  | _ => simp at hext

/-- the repaired `msg` never panics, whatever the index and the state. -/
theorem C14_msg_no_panic (s : St) (sender : Nat) : hasPanic (step Cfg.repaired s (.mpcMsg sender)).2 = false := by
  by_cases hst : s.stopped <;> by_cases hb : sender < s.chanLen <;> simp [step, Cfg.repaired, hasPanic, hst, hb]

/-! ### C16: incompatible policies are rejected (both arrival orders), for the step function that models the current tree -/

/-- validate arrives after the follower's schedule (`AwaitingValidation`): mismatch ⇒ validate error, schedule reply dropped, actor stops. -/
theorem C16_mismatch_after_schedule (s : St) (p : Pol) (r : VReq) (hs : s.stopped = false) (hk : s.kind = .awaitingValidation) (hp : s.pol = some p)
    (hm : r.leader ≠ p.leader ∨ r.hash ≠ p.hash) :
    let e := (step Cfg.current s (.validate r)).2
    (∃ err, Eff.reply "validate" false err ∈ e) ∧ Eff.replyDropped "schedule" ∈ e ∧ hasStop e = true ∧ Eff.reply "schedule" true "" ∉ e := by
  by_cases h1 : r.leader = p.leader <;> by_cases h2 : r.hash = p.hash <;> simp_all [step, stopWith, hasStop] <;> (split <;> simp_all)

/-- validate arrives before the follower's schedule (`ValidateRequested`): mismatch ⇒ the schedule call ends in an error
    (an error reply, or its reply channel is dropped) and the actor stops. -/
theorem C16_mismatch_before_schedule (s : St) (p : Pol) (r : VReq) (hs : s.stopped = false) (hk : s.kind = .validateRequested) (hv : s.vreq = some r)
    (hw : p.wellTyped = true) (hf : p.party ≠ p.leader) (hm : r.leader ≠ p.leader ∨ r.hash ≠ p.hash) :
    let e := (step Cfg.current s (.schedule p)).2
    ((∃ err, Eff.reply "schedule" false err ∈ e) ∨ Eff.replyDropped "schedule" ∈ e) ∧ hasStop e = true ∧ Eff.reply "schedule" true "" ∉ e := by
  by_cases h1 : r.leader = p.leader <;> by_cases h2 : r.hash = p.hash <;> simp_all [step, stopWith, hasStop, initChannel, Cfg.current] <;> (split <;> simp_all)

/-- an ill-typed program is refused by its own party's schedule call. -/
theorem C16_illtyped (s : St) (p : Pol) (hs : s.stopped = false) (hw : p.wellTyped = false) :
    Eff.reply "schedule" false "InvalidProgram" ∈ (step Cfg.current s (.schedule p)).2 := by
  by_cases hk : s.kind = .init <;> simp [step, hs, hw, hk, Cfg.current, Cfg.repaired, stopWith]

end PolytuneModel.Server
