import PolytuneModel.Gen.Arith
namespace PolytuneModel
/-! C12 at the server level. `polytune-server-core` hands every incoming MPC message to the engine through one command loop that
pushes it into a per-peer buffer of `Gen.mpcPeerBufferSlots` slots and BLOCKS while that buffer is full; a blocked loop delays the
messages of every other peer as well. The only one-way stream of the engine (messages one party sends to the same peer without
needing anything from it in between) is the garbled-gate stream of `garble()`: `chunk_size_iter(ands, and_share_batch_size())`
chunks, followed by the contributor's "wire shares" message of the input phase. Both size functions and the capacity are
REGENERATED from `/repo` on every run; the theorem says the whole stream fits, for every circuit size. -/

theorem chunkSizeIter_length (total c : Nat) (hc : 0 < c) :
    (Gen.chunkSizeIter total c).length = total / c + (if total % c ≠ 0 then 1 else 0) := by
  unfold Gen.chunkSizeIter
  have : ¬ c = 0 := by omega
  simp only [this, if_false]
  by_cases h : total % c ≠ 0 <;> simp [h]

/-- at most nine garbled-gate chunks, whatever the number of AND gates -/
theorem garbled_chunks_le_nine (ands : Nat) : (Gen.chunkSizeIter ands (Gen.andShareBatchSize ands)).length ≤ 9 := by
  by_cases h0 : Gen.andShareBatchSize ands = 0
  · simp [Gen.chunkSizeIter, h0]
  · have hc : 0 < Gen.andShareBatchSize ands := by omega
    rw [chunkSizeIter_length _ _ hc]
    generalize hcd : Gen.andShareBatchSize ands = c at *
    have h9 : ands ≤ 9 * c := by
      have : c = (min ands (max ((ands + (3 * 3) - 1) / (3 * 3)) 1000)) := by rw [← hcd]; rfl
      omega
    have hdm : ands / c * c + ands % c = ands := Nat.div_add_mod' ands c
    have hr : ands % c < c := Nat.mod_lt _ hc
    by_cases hq : ands / c ≤ 8
    · split <;> omega
    · have h9q : 9 * c ≤ ands / c * c := by
        have := Nat.mul_le_mul_right c (show 9 ≤ ands / c by omega); omega
      have hr0 : ands % c = 0 := by omega
      have hqc : ands / c * c = 9 * c := by omega
      have : ands / c = 9 := Nat.eq_of_mul_eq_mul_right hc hqc
      simp [hr0, this]

/-- the stream (all chunks and the wire-shares message that follows them) fits the per-peer buffer of the server's command loop -/
theorem C12_stream_fits_peer_buffer (ands : Nat) :
    (Gen.chunkSizeIter ands (Gen.andShareBatchSize ands)).length + 1 ≤ Gen.mpcPeerBufferSlots := by
  have := garbled_chunks_le_nine ands
  have : Gen.mpcPeerBufferSlots = 10 ∨ 10 ≤ Gen.mpcPeerBufferSlots := by decide
  omega

/-- the bound is attained: a circuit with 8001 AND gates streams nine chunks, so ten slots are needed (non-vacuity, tightness) -/
theorem C12_stream_tight : (Gen.chunkSizeIter 8001 (Gen.andShareBatchSize 8001)).length + 1 = 10 := by decide

end PolytuneModel
