import PolytuneModel.Thm.C03
import PolytuneModel.Lemmas.AndGate
/-! C02 — integrity of the EVALUATOR's computation against malicious garblers. For every AND gate the evaluator decrypts one row per
    garbler and obtains a claimed share `(r', mac')` of the gate's output mask; it checks the MAC against its own key
    (`InvalidInputMacForInst` in `evaluate`). In the F_pre-hybrid model garbler `p` really holds `(r, key ⊕ r·Δ_e)`.
    Over ANY list of gates and ANY number of parties: if every check passes, then either some garbler has produced a valid MAC on a
    flipped bit — and that MAC XOR the one it holds is the evaluator's global key (extraction) — or every claimed bit is the true
    one, and then the evaluator computes exactly what it computes in the honest run (`C01_honest_correct` applies verbatim). -/
namespace PolytuneModel

theorem C02_evaluator_rows (n e : Nat) (Δe : V) (gates : List Nat) (key : Nat → Nat → V) (tb : Nat → Nat → Bool)
    (claimed : Nat → Nat → Bool × V)
    (hchk : ∀ g ∈ gates, ∀ p, p < n → p ≠ e → macCheck (key g p) Δe (claimed g p) = true) :
    (∃ g ∈ gates, ∃ p, p < n ∧ p ≠ e ∧ (claimed g p).1 ≠ tb g p ∧ (claimed g p).2 ^^^ (key g p ^^^ sc (tb g p) Δe) = Δe)
    ∨ (∀ g ∈ gates, ∀ p, p < n → p ≠ e → (claimed g p).1 = tb g p) := by
  by_cases hex : ∃ g ∈ gates, ∃ p, p < n ∧ p ≠ e ∧ (claimed g p).1 ≠ tb g p ∧ (claimed g p).2 ^^^ (key g p ^^^ sc (tb g p) Δe) = Δe
  · exact Or.inl hex
  · right
    intro g hg p hp hpe
    rcases macCheck_detect_or_extract (key g p) Δe (tb g p) (claimed g p) (hchk g hg p hp hpe) with h | h
    · exact h
    · by_cases hb : (claimed g p).1 = tb g p
      · exact hb
      · exact absurd ⟨g, hg, p, hp, hpe, hb, h⟩ hex

theorem bsum_congr (n : Nat) (f g : Nat → Bool) (h : ∀ p, p < n → f p = g p) : bsum n f = bsum n g := by
  induction n with
  | zero => rfl
  | succ k ih => simp only [bsum]; rw [ih (fun p hp => h p (Nat.lt_succ_of_lt hp)), h k (Nat.lt_succ_self k)]

/-- the masked value the evaluator assigns to an AND gate's output: `(a ∧ b) ⊕ ⨁ shares`, its own share being the one it holds. -/
def evalValue (n e : Nat) (own : Bool) (bits : Nat → Bool) (a b : Bool) : Bool :=
  ((a && b) != bsum n (fun p => if p = e then own else bits p))

/-- … so without extraction the evaluator's gate values are the honest ones, gate by gate. -/
theorem C02_evaluator_values (n e : Nat) (Δe : V) (gates : List Nat) (key : Nat → Nat → V) (tb : Nat → Nat → Bool)
    (claimed : Nat → Nat → Bool × V) (own : Nat → Bool) (a b : Nat → Bool)
    (hchk : ∀ g ∈ gates, ∀ p, p < n → p ≠ e → macCheck (key g p) Δe (claimed g p) = true)
    (hno : ¬ ∃ g ∈ gates, ∃ p, p < n ∧ p ≠ e ∧ (claimed g p).1 ≠ tb g p ∧ (claimed g p).2 ^^^ (key g p ^^^ sc (tb g p) Δe) = Δe) :
    ∀ g ∈ gates, evalValue n e (own g) (fun p => (claimed g p).1) (a g) (b g) = evalValue n e (own g) (tb g) (a g) (b g) := by
  rcases C02_evaluator_rows n e Δe gates key tb claimed hchk with hx | hall
  · exact absurd hx hno
  · intro g hg
    unfold evalValue
    have hc : bsum n (fun p => if p = e then own g else (claimed g p).1) = bsum n (fun p => if p = e then own g else tb g p) := by
      apply bsum_congr; intro p hp
      by_cases hpe : p = e
      · simp [hpe]
      · simp [hpe, hall g hg p hp hpe]
    rw [hc]

/-- non-vacuity: a forged bit with a MAC that passes is exactly the extraction case. -/
example : let Δe : V := 0xabcdef#128; let k : V := 0x1234#128
    macCheck k Δe (true, k ^^^ Δe) = true ∧ (k ^^^ Δe) ^^^ (k ^^^ sc false Δe) = Δe := by decide

end PolytuneModel
