import PolytuneModel.Thm.C14netB
/-! C14 at network level (FOUR two-party setups, see `straySetups`; a finite statement), assembled from the six kernel-checked certificates (one per stray command: duplicate schedule, MPC message
    from an unknown sender, consts request from an unknown party — each addressed to party 0 or party 1). -/
namespace PolytuneModel.Server

theorem strays_length (su : Setup) (h : su ∈ straySetups) : (strays su).length = 6 := by
  have : straySetups.all (fun su => (strays su).length == 6) = true := by decide +kernel
  simpa using List.all_eq_true.mp this su h

/-- **C14, two parties, every setup, every interleaving, any one stray command at any moment:** every reachable state of the network
    is a good final state (C13's, tolerating the one error reply that answers the stray command) or has a successor. In particular
    no actor ever panics and the computation the stray command interleaves with still completes. -/
theorem C14_n2_stray_net (su : Setup) (hsu : su ∈ straySetups) (x : Nat × Cmd) (hx : x ∈ strays su) (s : Net)
    (h : Reach (successors Cfg.current su) (initNetStray su x) s) : stateOkStray Cfg.current su s = true := by
  obtain ⟨k, hk, hget⟩ := List.getElem_of_mem hx
  have hlen := strays_length su hsu
  have hk6 : k < 6 := by omega
  have hc : certificateStrayAt k su = true := by
    have h0 := List.all_eq_true.mp C14_n2_cert_0 su hsu
    have h1 := List.all_eq_true.mp C14_n2_cert_1 su hsu
    have h2 := List.all_eq_true.mp C14_n2_cert_2 su hsu
    have h3 := List.all_eq_true.mp C14_n2_cert_3 su hsu
    have h4 := List.all_eq_true.mp C14_n2_cert_4 su hsu
    have h5 := List.all_eq_true.mp C14_n2_cert_5 su hsu
    match k, hk6 with
    | 0, _ => exact h0 | 1, _ => exact h1 | 2, _ => exact h2 | 3, _ => exact h3 | 4, _ => exact h4 | 5, _ => exact h5
  have hx' : certificateStrayOne su x = true := by
    unfold certificateStrayAt at hc
    rw [List.getElem?_eq_getElem hk, hget] at hc
    exact hc
  simp only [certificateStrayOne, Bool.and_eq_true, List.all_eq_true, List.contains_iff_mem] at hx'
  obtain ⟨⟨hinit, hclosed⟩, hok⟩ := hx'
  exact hok s (closed_covers _ _ _ hinit (fun a ha t ht => hclosed a ha t ht) s h)

/-- non-vacuity: the explorations are not trivial (the stray duplicate schedule at the leader of the first setup alone reaches > 50 states,
    some of them terminal) -/
theorem C14_n2_stray_explored :
    (50 < (statesOfStray Cfg.current ⟨2, 0, [true, true], [false, false]⟩ (0, .schedule (polOf ⟨2, 0, [true, true], [false, false]⟩ 0))).length
     ∧ (statesOfStray Cfg.current ⟨2, 0, [true, true], [false, false]⟩ (1, .mpcMsg 7)).any terminal = true) := by decide +kernel

/-- **the tree as it was:** the unknown-sender message crashes an actor (C14-a): some reachable terminal state is not good. -/
theorem C14_cex_stray_net :
    (statesOfStray Cfg.pinned ⟨2, 0, [true, true], [false, false]⟩ (1, .mpcMsg 7)).any
      (fun s => terminal s && !goodModErr ⟨2, 0, [true, true], [false, false]⟩ s) = true := by decide +kernel

end PolytuneModel.Server
