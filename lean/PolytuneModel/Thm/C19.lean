import PolytuneModel.Proto.Buf
import PolytuneModel.Lemmas.Chunk
/-! C19 — spilling to a temp file is observationally identical to staying in memory. -/
namespace PolytuneModel.Buf
open PolytuneModel

/-- between operations the shared offset sits at the end of the file (what the `Drop` impls establish). -/
def File.AtEnd {α} (f : File α) : Prop := f.pos = f.disk.length

theorem writeAt_end {α} (disk cs : List (List α)) : writeAt disk disk.length cs = disk ++ cs := by
  simp [writeAt]

theorem flush_atEnd {α} (f : File α) (h : f.AtEnd) :
    f.flush.disk = f.disk ++ f.wbuf ∧ f.flush.wbuf = [] ∧ f.flush.AtEnd := by
  unfold File.AtEnd at h
  simp [File.flush, File.AtEnd, h, writeAt_end]

/-- every chunks(s) request in `ops` is made when the chunks written so far are `Regular s`
    (all but the last of length `s`) — the situation `init_and_shares` creates. -/
def ChunkOK {α} (s0 : List (List α)) : List (Op α) → Prop
  | [] => True
  | .append c :: os => ChunkOK (s0 ++ [c]) os
  | .autoFlush :: os => ChunkOK s0 os
  | .iterTake _ :: os => ChunkOK s0 os
  | .chunksTake s _ :: os => 0 < s ∧ Regular s s0 ∧ ChunkOK s0 os

/-- **C19 (refinement).** From any state whose offset is at the end, every operation sequence — appends,
    spontaneous flushes, partial or full item reads, partial or full chunk reads, in any order and of any
    length — is observed identically on the file variant and on the in-memory variant holding the same items. -/
theorem C19_refines {α} (f : File α) (h : f.AtEnd) (ops : List (Op α)) (hc : ChunkOK (f.disk ++ f.wbuf) ops) :
    runFile f ops = runMem f.abs ops := by
  induction ops generalizing f with
  | nil => rfl
  | cons o os ih =>
    cases o with
    | append c =>
      simp only [runFile, runMem, stepFile, stepMem]
      have h' : (f.writeChunk c).AtEnd := by simpa [File.writeChunk, File.AtEnd] using h
      have hc' : ChunkOK ((f.writeChunk c).disk ++ (f.writeChunk c).wbuf) os := by
        simpa [File.writeChunk, ChunkOK, List.append_assoc] using hc
      rw [ih _ h' hc']
      simp [File.abs, File.writeChunk, List.append_assoc]
    | autoFlush =>
      simp only [runFile, runMem, stepFile, stepMem]
      obtain ⟨hd, hw, he⟩ := flush_atEnd f h
      have hc' : ChunkOK (f.flush.disk ++ f.flush.wbuf) os := by simpa [hd, hw, ChunkOK] using hc
      rw [ih _ he hc']
      simp [File.abs, hd, hw]
    | iterTake k =>
      simp only [runFile, runMem, stepFile, stepMem]
      obtain ⟨hd, hw, _⟩ := flush_atEnd f h
      have e : (f.openRead.closeRead).AtEnd := by simp [File.closeRead, File.AtEnd]
      have hc' : ChunkOK (f.openRead.closeRead.disk ++ f.openRead.closeRead.wbuf) os := by
        simpa [File.openRead, File.closeRead, hd, hw, ChunkOK] using hc
      rw [ih _ e hc']
      simp [File.abs, File.openRead, File.closeRead, hd, hw]
    | chunksTake s k =>
      simp only [runFile, runMem, stepFile, stepMem]
      obtain ⟨hd, hw, _⟩ := flush_atEnd f h
      obtain ⟨hs, hreg, hrest⟩ := hc
      have e : (f.openRead.closeRead).AtEnd := by simp [File.closeRead, File.AtEnd]
      have hc' : ChunkOK (f.openRead.closeRead.disk ++ f.openRead.closeRead.wbuf) os := by
        simpa [File.openRead, File.closeRead, hd, hw] using hrest
      rw [ih _ e hc']
      have hb : chunksOf s f.abs = f.disk ++ f.wbuf := chunksOf_flatten s hs _ hreg
      simp [File.abs, File.openRead, File.closeRead, hd, hw] at hb ⊢
      rw [hb]

/-- corollary from the empty buffer (`FileOrMemBuf::new`). -/
theorem C19_from_new {α} (ops : List (Op α)) (hc : ChunkOK ([] : List (List α)) ops) :
    runFile File.empty ops = runMem ([] : Mem α) ops := by
  simpa [File.abs, File.empty] using C19_refines (File.empty) rfl ops (by simpa [File.empty] using hc)

/-- non-vacuity: a concrete history with a partial read, an append after the read and a chunked read. -/
example : runFile (File.empty : File Nat) [.append [1,2], .append [3,4], .iterTake 3, .append [5], .autoFlush, .chunksTake 2 5, .iterTake 9]
    = [.unit, .unit, .items [1,2,3], .unit, .unit, .chunks [[1,2],[3,4],[5]], .items [1,2,3,4,5]] := by decide
example : ChunkOK ([] : List (List Nat)) [.append [1,2], .append [3,4], .iterTake 3, .append [5], .autoFlush, .chunksTake 2 5, .iterTake 9] := by
  simp [ChunkOK, Regular]

/-- the `Drop` impl is necessary: abandon a partial read without seeking to the end, append, and the data is lost. -/
example : let f : File Nat := { disk := [[1],[2],[3]], wbuf := [], pos := 3 }
    ((f.openRead.abandonRead 1).writeChunk [9]).flush.disk.flatten ≠ [1,2,3,9] := by decide

/-- empty appends are observable (why the property restricts to non-empty chunks). -/
example : runFile (File.empty : File Nat) [.append [], .append [1], .chunksTake 1 9] ≠ runMem [] [.append [], .append [1], .chunksTake 1 9] := by decide

end PolytuneModel.Buf
