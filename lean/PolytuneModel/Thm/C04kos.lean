import PolytuneModel.Thm.C11kos
/-! C04 — the KOS correlation check against a receiver that LIES in its final message. The sender holds rows `q_j = t_j ⊕ r_j·s`,
    draws the shared coefficients `χ_j` and accepts the receiver's `(x', t')` iff `⨁ q_j·χ_j ⊕ x'·s = t'` (carry-less products,
    256 bits). With the honest values `x = ⨁ r_j χ_j`, `t = ⨁ t_j·χ_j`: the lie `(dx, dt) = (x' ⊕ x, t' ⊕ t)` is accepted
    exactly when `dt = dx ⊗ s` — the receiver would have to produce the carry-less product of its lie with the sender's secret
    base-OT choice string. In particular an `x'` that differs from the honest one cannot come with the honest `t` (unless
    `dx ⊗ s = 0`), and a lie in `t` alone is always rejected. No probability is involved: this is the exact acceptance condition. -/
namespace PolytuneModel.Kos

theorem xor_cancel_left (a b c : Nat) : a ^^^ b = a ^^^ c ↔ b = c := by
  constructor
  · intro h
    have := congrArg (a ^^^ ·) h
    simpa [← Nat.xor_assoc] using this
  · intro h; rw [h]

/-- **exact acceptance condition of the KOS check.** -/
theorem C04_kos_check_exact (m : Nat) (t χ : Nat → Nat) (r : Nat → Bool) (s x' t' : Nat) :
    (xsumN m (fun j => M (t j ^^^ scN (r j) s) (χ j)) ^^^ M x' s = t')
      ↔ (t' ^^^ xsumN m (fun j => M (t j) (χ j)) = M (x' ^^^ xsumN m (fun j => scN (r j) (χ j))) s) := by
  have hon := C11_kos_check_honest m t χ r s
  -- ⨁ q_j χ_j = t_honest ⊕ x_honest·s
  have hq : xsumN m (fun j => M (t j ^^^ scN (r j) s) (χ j))
      = xsumN m (fun j => M (t j) (χ j)) ^^^ M (xsumN m (fun j => scN (r j) (χ j))) s := by
    rw [← hon, Nat.xor_assoc, Nat.xor_self, Nat.xor_zero]
  rw [hq, M_xor_left]
  generalize xsumN m (fun j => M (t j) (χ j)) = T
  generalize M (xsumN m (fun j => scN (r j) (χ j))) s = XS
  generalize M x' s = XS'
  constructor
  · intro h; rw [← h]
    -- (T ⊕ XS ⊕ XS') ⊕ T = XS' ⊕ XS
    apply Nat.eq_of_testBit_eq; intro i; simp only [Nat.testBit_xor]
    cases T.testBit i <;> cases XS.testBit i <;> cases XS'.testBit i <;> rfl
  · intro h
    have : t' = T ^^^ (XS' ^^^ XS) := by rw [← h]; apply Nat.eq_of_testBit_eq; intro i; simp only [Nat.testBit_xor]; cases t'.testBit i <;> cases T.testBit i <;> rfl
    rw [this]
    apply Nat.eq_of_testBit_eq; intro i; simp only [Nat.testBit_xor]
    cases T.testBit i <;> cases XS.testBit i <;> cases XS'.testBit i <;> rfl

/-- a lie in `t` alone (honest `x`) is always rejected. -/
theorem C04_kos_wrong_t_rejected (m : Nat) (t χ : Nat → Nat) (r : Nat → Bool) (s t' : Nat)
    (hlie : t' ≠ xsumN m (fun j => M (t j) (χ j))) :
    xsumN m (fun j => M (t j ^^^ scN (r j) s) (χ j)) ^^^ M (xsumN m (fun j => scN (r j) (χ j))) s ≠ t' := by
  rw [C11_kos_check_honest]; exact fun h => hlie h.symm

/-- an accepted lie in `x` hands over the product of the lie with the sender's secret: the detect-or-extract form. -/
theorem C04_kos_detect_or_extract (m : Nat) (t χ : Nat → Nat) (r : Nat → Bool) (s x' t' : Nat)
    (hacc : xsumN m (fun j => M (t j ^^^ scN (r j) s) (χ j)) ^^^ M x' s = t') :
    M (x' ^^^ xsumN m (fun j => scN (r j) (χ j))) s = t' ^^^ xsumN m (fun j => M (t j) (χ j)) :=
  ((C04_kos_check_exact m t χ r s x' t').mp hacc).symm

end PolytuneModel.Kos
