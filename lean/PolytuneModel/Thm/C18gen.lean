import PolytuneModel.Gen.Validate
import PolytuneModel.Thm.C18
/-! The definition REGENERATED from `protocol.rs::validate` (`Gen.validateArgs`, translator/rs2lean_validate.py) is the hand-written
    `validateArgs` that the C18 theorems are about. A guard that is removed, reordered, or whose condition changes in the source
    changes the generated text, and this equality (hence every C18 theorem, restated below for the generated function) stops checking. -/
namespace PolytuneModel

theorem badOutputParty_eq_find (pMax : Nat) : ∀ (rest seen : List Nat),
    badOutputParty pMax seen rest =
      ((rest.zipIdx seen.length).find? (fun (o, idx) => decide (o ≥ pMax ∨ ((seen ++ rest).take idx).contains o = true))).map (·.1)
  | [], seen => by simp [badOutputParty]
  | x :: r, seen => by
    have htake : ((seen ++ x :: r).take seen.length) = seen := by simp
    unfold badOutputParty
    simp only [List.zipIdx_cons, List.find?_cons, htake]
    by_cases hx : x ≥ pMax ∨ x ∈ seen
    · have : decide (x ≥ pMax ∨ seen.contains x = true) = true := by simpa using hx
      simp [hx, this]
    · have : decide (x ≥ pMax ∨ seen.contains x = true) = false := by simpa using hx
      simp only [hx, if_false, this]
      have ih := badOutputParty_eq_find pMax r (seen ++ [x])
      simpa [List.append_assoc] using ih

theorem inputAfterGateIdx_eq (c : Circuit) :
    inputAfterGateIdx c = ((c.insts.zipIdx.drop ((c.insts.findIdx? (fun inst => !inst.op.isInput)).getD c.insts.length)).find? (fun (inst, _) => inst.op.isInput)).map (·.2) := rfl

/-- **the generated definition is the model the theorems are about.** -/
theorem Gen_validateArgs_eq (c : Circuit) (pOwn len pEval : Nat) (pOut : List Nat) :
    Gen.validateArgs c pOwn len pEval pOut = validateArgs c pOwn len pEval pOut := by
  unfold Gen.validateArgs validateArgs
  cases hv : c.validate with
  | error e => rfl
  | ok u =>
    simp only [inputAfterGateIdx_eq]
    cases hf : ((c.insts.zipIdx.drop ((c.insts.findIdx? (fun inst => !inst.op.isInput)).getD c.insts.length)).find? (fun (inst, _) => inst.op.isInput)) with
    | some p => simp
    | none =>
      simp only [Option.map_none]
      cases hg : c.inputRegs[pOwn]? with
      | none => rfl
      | some expected =>
        simp only
        by_cases h1 : pEval ≥ c.inputRegs.length
        · simp [h1]
        · by_cases h2 : expected ≠ len
          · simp [h1, h2]
          · by_cases h3 : pOut.isEmpty = true
            · simp [h1, h2, h3]
            · have hb := badOutputParty_eq_find c.inputRegs.length pOut []
              simp only [List.length_nil, List.nil_append] at hb
              simp only [h1, h2, h3, if_false, hb]
              cases hfind : (pOut.zipIdx.find? (fun (o, idx) => decide (o ≥ c.inputRegs.length ∨ (pOut.take idx).contains o = true))) with
              | none => simp
              | some q => simp

/-- the C18 theorems, for the function generated from the current source. -/
theorem C18_gen_reject_peval (c : Circuit) (pOwn len pEval : Nat) (pOut : List Nat) (h : c.inputRegs.length ≤ pEval) :
    accepted (Gen.validateArgs c pOwn len pEval pOut) = false := by rw [Gen_validateArgs_eq]; exact C18_reject_peval c pOwn len pEval pOut h
theorem C18_gen_reject_pout_repeats (c : Circuit) (pOwn len pEval : Nat) (pOut : List Nat) (h : ¬ pOut.Nodup) :
    accepted (Gen.validateArgs c pOwn len pEval pOut) = false := by rw [Gen_validateArgs_eq]; exact C18_reject_pout_repeats c pOwn len pEval pOut h
theorem C18_gen_accepted_ok (c : Circuit) (pOwn len pEval : Nat) (pOut : List Nat) (h : accepted (Gen.validateArgs c pOwn len pEval pOut) = true) :
    pOut.Nodup ∧ pOut ≠ [] ∧ (∀ o ∈ pOut, o < c.inputRegs.length) ∧ pEval < c.inputRegs.length ∧ pOwn < c.inputRegs.length := by
  rw [Gen_validateArgs_eq] at h; exact C18_accepted_pout_ok c pOwn len pEval pOut h

end PolytuneModel
