import PolytuneModel.Lemmas.Digits
import PolytuneModel.Gen.Gf128
/-! C20 — `gf128.rs::scalar::clmul64` (the "holes" multiplication, text regenerated from the source) returns the exact
    carry-less product of its 64-bit operands: `(Gen.clmul64 x y).toNat = Kos.M x.toNat y.toNat` for all 2^128 operand pairs. -/
namespace PolytuneModel.Holes
open Kos Digits

/-- the bits of `x` in residue class `k` (positions k, k+5, …). -/
def part (x k : Nat) : Nat := x &&& (HOLES <<< k)

theorem part_testBit (x k p : Nat) (hk : k < 5) : (part x k).testBit p = (x.testBit p && decide (p % 5 = k ∧ p < 64 + k)) := by
  simp only [part, Nat.testBit_and, Nat.testBit_shiftLeft, HOLES_testBit]
  congr 1
  by_cases h1 : p ≥ k
  · have e : (decide (p ≥ k) && decide ((p - k) % 5 = 0 ∧ p - k < 64)) = decide (p % 5 = k ∧ p < 64 + k) := by
      simp only [h1, decide_true, Bool.true_and]; congr 1; apply propext; constructor <;> intro h <;> omega
    exact e
  · have : ¬ (p % 5 = k ∧ p < 64 + k) := by omega
    simp [h1, this]

theorem part_eq (x k : Nat) (hk : k < 5) : part x k = (ofD (digs x k)) <<< k := by
  apply Nat.eq_of_testBit_eq; intro p
  rw [part_testBit x k p hk, Nat.testBit_shiftLeft]
  by_cases h1 : p ≥ k
  · have hq := Nat.div_add_mod (p - k) 5
    have hd : ∀ d ∈ digs x k, d < 32 := fun d hd => Nat.lt_of_le_of_lt (digs_le_one x k d hd) (by decide)
    have hb := ofD_testBit (digs x k) hd ((p - k) / 5) ((p - k) % 5) (Nat.mod_lt _ (by decide))
    rw [hq] at hb
    rw [hb, testBit_le_one _ _ (getD_le_one _ (digs_le_one x k) _), digs_getD]
    simp only [h1, decide_true, Bool.true_and]
    by_cases h0 : (p - k) % 5 = 0
    · have e1 : 5 * ((p - k) / 5) + k = p := by omega
      have e2 : p % 5 = k := by omega
      by_cases hx : x.testBit p
      · by_cases hlt : p < 64 + k
        · have : (p - k) / 5 < 13 := by omega
          simp [h0, e1, e2, hx, hlt, this]
        · have : ¬ (p - k) / 5 < 13 := by omega
          simp [h0, e2, hx, hlt, this]
      · simp [h0, e1, e2, hx]
    · have e2 : ¬ (p % 5 = k) := by omega
      simp [h0, e2]
  · have : ¬ (p % 5 = k ∧ p < 64 + k) := by omega
    simp [h1, this]

/-- the integer product of two class parts, and their carry-less product, are the products of the digit numbers shifted by `i + j`. -/
theorem shl_mul_shl (A B i j : Nat) : (A <<< i) * (B <<< j) = (A * B) <<< (i + j) := by
  rw [Nat.shiftLeft_eq, Nat.shiftLeft_eq, Nat.shiftLeft_eq, Nat.pow_add, Nat.mul_mul_mul_comm]
theorem part_mul (x y i j : Nat) (hi : i < 5) (hj : j < 5) : part x i * part y j = (ofD (digs x i) * ofD (digs y j)) <<< (i + j) := by
  rw [part_eq x i hi, part_eq y j hj, shl_mul_shl]
theorem part_M (x y i j : Nat) (hi : i < 5) (hj : j < 5) : M (part x i) (part y j) = (M (ofD (digs x i)) (ofD (digs y j))) <<< (i + j) := by
  rw [part_eq x i hi, part_eq y j hj, M_shiftN, M_comm, M_shiftN, M_comm, ← Nat.shiftLeft_add, Nat.add_comm j i]

/-- **in its own residue class the integer product has the carry-less product's bits** … -/
theorem prod_bit_in_class (x y i j p : Nat) (hi : i < 5) (hj : j < 5) (hp : p % 5 = (i + j) % 5) :
    (part x i * part y j).testBit p = (M (part x i) (part y j)).testBit p := by
  rw [part_mul x y i j hi hj, part_M x y i j hi hj, Nat.testBit_shiftLeft, Nat.testBit_shiftLeft]
  by_cases h1 : p ≥ i + j
  · have e : p - (i + j) = 5 * ((p - (i + j)) / 5) := by omega
    simp only [h1, decide_true, Bool.true_and]
    rw [e]
    exact mul_testBit_eq_M _ _ (digs_le_one x i) (digs_le_one y j) (by rw [digs_length]; decide) _
  · simp [h1]
/-- … and outside that class the carry-less product has no bits. -/
theorem M_bit_off_class (x y i j p : Nat) (hi : i < 5) (hj : j < 5) (hp : p % 5 ≠ (i + j) % 5) :
    (M (part x i) (part y j)).testBit p = false := by
  rw [part_M x y i j hi hj, Nat.testBit_shiftLeft]
  by_cases h1 : p ≥ i + j
  · simp only [h1, decide_true, Bool.true_and]
    exact M_ofD_off _ _ (digs_le_one x i) (digs_le_one y j) _ (by omega)
  · simp [h1]

/-! ### five residue classes -/
def xor5 (f : Nat → Nat) : Nat := f 0 ^^^ f 1 ^^^ f 2 ^^^ f 3 ^^^ f 4
def bxor5 (g : Nat → Bool) : Bool := ((((g 0 ^^ g 1) ^^ g 2) ^^ g 3) ^^ g 4)

theorem testBit_xor5 (f : Nat → Nat) (p : Nat) : (xor5 f).testBit p = bxor5 (fun i => (f i).testBit p) := by
  simp only [xor5, bxor5, Nat.testBit_xor]
theorem M_xor5_left (f : Nat → Nat) (b : Nat) : M (xor5 f) b = xor5 (fun i => M (f i) b) := by
  simp only [xor5, M_xor_left]
theorem M_xor5_right (a : Nat) (f : Nat → Nat) : M a (xor5 f) = xor5 (fun j => M a (f j)) := by
  simp only [xor5, M_xor_right]

theorem bxor5_single (g : Nat → Bool) (j0 : Nat) (hj0 : j0 < 5) (h : ∀ j, j < 5 → j ≠ j0 → g j = false) : bxor5 g = g j0 := by
  have h0 := h 0 (by decide); have h1 := h 1 (by decide); have h2 := h 2 (by decide); have h3 := h 3 (by decide); have h4 := h 4 (by decide)
  have : j0 = 0 ∨ j0 = 1 ∨ j0 = 2 ∨ j0 = 3 ∨ j0 = 4 := by omega
  rcases this with rfl | rfl | rfl | rfl | rfl <;> simp_all [bxor5]

/-- a 64-bit operand is the XOR of its five class parts. -/
theorem split5 (x : Nat) (hx : x < 2 ^ 64) : x = xor5 (part x) := by
  apply Nat.eq_of_testBit_eq; intro p
  rw [testBit_xor5]
  by_cases hxp : x.testBit p
  · have hp : p < 64 := by
      apply Nat.lt_of_not_le; intro hge
      have := Nat.testBit_lt_two_pow (Nat.lt_of_lt_of_le hx (Nat.pow_le_pow_right (by decide) hge)); simp [this] at hxp
    rw [bxor5_single _ (p % 5) (Nat.mod_lt _ (by decide))]
    · rw [part_testBit x _ p (Nat.mod_lt _ (by decide)), hxp]; simp; omega
    · intro j hj hne; rw [part_testBit x j p hj]
      have : ¬ (p % 5 = j ∧ p < 64 + j) := by omega
      simp [this]
  · simp only [hxp, bxor5]
    simp [part_testBit, hxp]

theorem M_lt (a n : Nat) (ha : a < 2 ^ n) : ∀ (m b : Nat), b < 2 ^ m → M a b < 2 ^ (n + m)
  | 0, b, hb => by
    have : b = 0 := by simpa using hb
    subst this; rw [M_zero_right]; exact Nat.two_pow_pos (n + 0)
  | m+1, b, hb => by
    rw [M_step]
    have hb' : b >>> 1 < 2 ^ m := by rw [Nat.shiftRight_eq_div_pow]; have : 2 ^ (m + 1) = 2 * 2 ^ m := by rw [Nat.pow_succ]; omega
                                     omega
    have ih := M_lt a n ha m (b >>> 1) hb'
    apply Nat.xor_lt_two_pow
    · have : scN (b.testBit 0) a ≤ a := by cases b.testBit 0 <;> simp [scN]
      exact Nat.lt_of_le_of_lt this (Nat.lt_of_lt_of_le ha (Nat.pow_le_pow_right (by decide) (by omega)))
    · rw [Nat.shiftLeft_eq, ← Nat.add_assoc, Nat.pow_succ]; exact Nat.mul_lt_mul_of_pos_right ih (by decide)

/-- which class part of `y` meets part `i` of `x` in result class `k`. -/
def jk (k i : Nat) : Nat := (k + 5 - i) % 5

/-- `gf128.rs::scalar::clmul64` over `Nat`: five masked classes, each the XOR of five integer products. -/
def Z (x y k : Nat) : Nat := xor5 (fun i => part x i * part y (jk k i))
def MK (k : Nat) : Nat := (((HOLES <<< 65) ||| HOLES) <<< k) % 2 ^ 128
def clmul64N (x y : Nat) : Nat :=
  (Z x y 0 &&& MK 0) ||| (Z x y 1 &&& MK 1) ||| (Z x y 2 &&& MK 2) ||| (Z x y 3 &&& MK 3) ||| (Z x y 4 &&& MK 4)

theorem MK_testBit (k p : Nat) (hk : k < 5) : (MK k).testBit p = decide (p < 128 ∧ p % 5 = k) := by
  simp only [MK, Nat.testBit_mod_two_pow, Nat.testBit_shiftLeft, Nat.testBit_or, HOLES_testBit]
  by_cases h1 : p < 128
  · by_cases h2 : p % 5 = k
    · have hge : p ≥ k := by omega
      by_cases h3 : p - k ≥ 65
      · have : (p - k - 65) % 5 = 0 ∧ p - k - 65 < 64 := by omega
        simp [h1, h2, hge, h3, this]
      · have : (p - k) % 5 = 0 ∧ p - k < 64 := by omega
        simp [h1, h2, hge, h3, this]
    · by_cases hge : p ≥ k
      · have a1 : ¬ ((p - k - 65) % 5 = 0 ∧ p - k - 65 < 64 ∧ p - k ≥ 65) := by omega
        have a2 : ¬ ((p - k) % 5 = 0 ∧ p - k < 64) := by omega
        by_cases h3 : p - k ≥ 65
        · have : ¬ ((p - k - 65) % 5 = 0 ∧ p - k - 65 < 64) := by omega
          simp [h1, h2, hge, h3, this, a2]
        · simp [h1, h2, hge, h3, a2]
      · simp [h1, h2, hge]
  · simp [h1]

theorem jk_lt (k i : Nat) : jk k i < 5 := Nat.mod_lt _ (by decide)
theorem jk_class (k i : Nat) (hk : k < 5) (hi : i < 5) : (i + jk k i) % 5 = k := by unfold jk; omega

theorem Z_testBit (x y k p : Nat) (hk : k < 5) (hp : p % 5 = k) :
    (Z x y k).testBit p = bxor5 (fun i => (M (part x i) (part y (jk k i))).testBit p) := by
  rw [Z, testBit_xor5]
  simp only [bxor5]
  rw [prod_bit_in_class x y 0 (jk k 0) p (by decide) (jk_lt _ _) (by rw [jk_class k 0 hk (by decide)]; exact hp),
      prod_bit_in_class x y 1 (jk k 1) p (by decide) (jk_lt _ _) (by rw [jk_class k 1 hk (by decide)]; exact hp),
      prod_bit_in_class x y 2 (jk k 2) p (by decide) (jk_lt _ _) (by rw [jk_class k 2 hk (by decide)]; exact hp),
      prod_bit_in_class x y 3 (jk k 3) p (by decide) (jk_lt _ _) (by rw [jk_class k 3 hk (by decide)]; exact hp),
      prod_bit_in_class x y 4 (jk k 4) p (by decide) (jk_lt _ _) (by rw [jk_class k 4 hk (by decide)]; exact hp)]

theorem inner_single (x y i p : Nat) (hi : i < 5) :
    (M (part x i) (xor5 (part y))).testBit p = (M (part x i) (part y (jk (p % 5) i))).testBit p := by
  rw [M_xor5_right, testBit_xor5]
  apply bxor5_single _ _ (jk_lt _ _)
  intro j hj hne
  apply M_bit_off_class x y i j p hi hj
  intro h; apply hne; unfold jk; omega

theorem Mxy_testBit (x y p : Nat) (hx : x < 2 ^ 64) (hy : y < 2 ^ 64) :
    (M x y).testBit p = bxor5 (fun i => (M (part x i) (part y (jk (p % 5) i))).testBit p) := by
  have e : M x y = M (xor5 (part x)) (xor5 (part y)) := by rw [← split5 x hx, ← split5 y hy]
  rw [e, M_xor5_left, testBit_xor5]
  simp only [bxor5]
  rw [inner_single x y 0 p (by decide), inner_single x y 1 p (by decide), inner_single x y 2 p (by decide),
      inner_single x y 3 p (by decide), inner_single x y 4 p (by decide)]

/-- the `Nat` rendering of the holes multiplication is the carry-less product. -/
theorem clmul64N_eq (x y : Nat) (hx : x < 2 ^ 64) (hy : y < 2 ^ 64) : clmul64N x y = M x y := by
  apply Nat.eq_of_testBit_eq; intro p
  simp only [clmul64N, Nat.testBit_or, Nat.testBit_and,
    MK_testBit 0 p (by decide), MK_testBit 1 p (by decide), MK_testBit 2 p (by decide), MK_testBit 3 p (by decide), MK_testBit 4 p (by decide)]
  by_cases h128 : p < 128
  · have hk : p % 5 = 0 ∨ p % 5 = 1 ∨ p % 5 = 2 ∨ p % 5 = 3 ∨ p % 5 = 4 := by omega
    rw [Mxy_testBit x y p hx hy]
    rcases hk with h | h | h | h | h
    · simp [h128, h]; rw [Z_testBit x y 0 p (by decide) h]
    · simp [h128, h]; rw [Z_testBit x y 1 p (by decide) h]
    · simp [h128, h]; rw [Z_testBit x y 2 p (by decide) h]
    · simp [h128, h]; rw [Z_testBit x y 3 p (by decide) h]
    · simp [h128, h]; rw [Z_testBit x y 4 p (by decide) h]
  · have hM : (M x y).testBit p = false :=
      Nat.testBit_lt_two_pow (Nat.lt_of_lt_of_le (M_lt x 64 hx 64 y hy) (Nat.pow_le_pow_right (by decide) (by omega)))
    simp [h128, hM]

/-! ### from the generated `BitVec` text to the `Nat` rendering -/

theorem part_lt (x k : Nat) (hx : x < 2 ^ 64) : part x k < 2 ^ 64 := Nat.lt_of_le_of_lt Nat.and_le_left hx

theorem and_mod64 (x m : Nat) (hx : x < 2 ^ 64) : x &&& (m % 2 ^ 64) = x &&& m := by
  apply Nat.eq_of_testBit_eq; intro p
  simp only [Nat.testBit_and, Nat.testBit_mod_two_pow]
  by_cases hp : p < 64
  · simp [hp]
  · have : x.testBit p = false := Nat.testBit_lt_two_pow (Nat.lt_of_lt_of_le hx (Nat.pow_le_pow_right (by decide) (by omega)))
    simp [this]

theorem toNat_part (x : BitVec 64) (k : Nat) :
    ((x &&& ((1190112520884487201 : BitVec 64) <<< k)).setWidth 128).toNat = part x.toNat k := by
  simp only [BitVec.toNat_setWidth, BitVec.toNat_and, BitVec.toNat_shiftLeft]
  have h1 : (1190112520884487201 : BitVec 64).toNat = HOLES := by decide
  rw [h1, and_mod64 _ _ x.isLt]
  exact Nat.mod_eq_of_lt (Nat.lt_of_lt_of_le (part_lt x.toNat k x.isLt) (by decide))
theorem toNat_part0 (x : BitVec 64) : ((x &&& (1190112520884487201 : BitVec 64)).setWidth 128).toNat = part x.toNat 0 := by
  have := toNat_part x 0; simpa using this

theorem toNat_mul128 (a b : BitVec 128) (ha : a.toNat < 2 ^ 64) (hb : b.toNat < 2 ^ 64) : (a * b).toNat = a.toNat * b.toNat := by
  rw [BitVec.toNat_mul]; apply Nat.mod_eq_of_lt
  calc a.toNat * b.toNat < 2 ^ 64 * 2 ^ 64 := Nat.mul_lt_mul'' ha hb
    _ = 2 ^ 128 := by decide

theorem toNat_mask (k : Nat) :
    (((((1190112520884487201 : BitVec 64).setWidth 128) <<< 65) ||| ((1190112520884487201 : BitVec 64).setWidth 128)) <<< k).toNat = MK k := by
  simp only [MK, BitVec.toNat_shiftLeft, BitVec.toNat_or, BitVec.toNat_setWidth]
  have h1 : ((1190112520884487201 : BitVec 64).toNat % 2 ^ 128) = HOLES := by decide
  have h2 : (HOLES <<< 65) % 2 ^ 128 = HOLES <<< 65 := by decide
  rw [h1, h2]
theorem toNat_mask0 :
    (((1190112520884487201 : BitVec 64).setWidth 128) <<< 65).toNat ||| ((1190112520884487201 : BitVec 64).setWidth 128).toNat = MK 0 := by decide

/-- **C20 — the "holes" multiplication is exact**, for all 2^128 pairs of 64-bit operands. -/
theorem C20_clmul64_holes (x y : BitVec 64) : (Gen.clmul64 x y).toNat = M x.toNat y.toNat := by
  rw [← clmul64N_eq x.toNat y.toNat x.isLt y.isLt]
  have hx : ∀ k, (part x.toNat k) < 2 ^ 64 := fun k => part_lt _ _ x.isLt
  have hy : ∀ k, (part y.toNat k) < 2 ^ 64 := fun k => part_lt _ _ y.isLt
  have px : ∀ k, ((x &&& ((1190112520884487201 : BitVec 64) <<< k)).setWidth 128).toNat < 2 ^ 64 := fun k => by rw [toNat_part]; exact hx k
  have py : ∀ k, ((y &&& ((1190112520884487201 : BitVec 64) <<< k)).setWidth 128).toNat < 2 ^ 64 := fun k => by rw [toNat_part]; exact hy k
  have px0 : ((x &&& (1190112520884487201 : BitVec 64)).setWidth 128).toNat < 2 ^ 64 := by rw [toNat_part0]; exact hx 0
  have py0 : ((y &&& (1190112520884487201 : BitVec 64)).setWidth 128).toNat < 2 ^ 64 := by rw [toNat_part0]; exact hy 0
  unfold Gen.clmul64
  simp only [BitVec.toNat_or, BitVec.toNat_and, BitVec.toNat_xor, toNat_mask, toNat_mask0,
    toNat_mul128 _ _ px0 py0, toNat_mul128 _ _ px0 (py _), toNat_mul128 _ _ (px _) py0, toNat_mul128 _ _ (px _) (py _),
    toNat_part, toNat_part0, clmul64N, Z, xor5, jk, Nat.reduceAdd, Nat.reduceSub, Nat.reduceMod]

end PolytuneModel.Holes
