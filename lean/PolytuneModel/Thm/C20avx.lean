import PolytuneModel.Thm.C20avxCert
namespace PolytuneModel.Avx

theorem transpose128_bit (s : Regs Bool) (rq : Nat × Nat) (hin : InR rq = true) (src : Nat × Nat) (h : pullAll rq = some src) :
    transpose128 s rq.1 rq.2 = s src.1 src.2 := by
  have hc0 := fun ρ => t2x2_commutes (ev_isHom ρ)
  have hc (sh m : Nat) := fun ρ => pswap_commutes (ev_isHom ρ) sh m
  have hc6 := fun ρ => pswap64_commutes (α := Sym) (β := Bool) (h := ev ρ)
  have inr : ∀ p : Nat × Nat, InR p = true → p.1 < 64 ∧ p.2 < 256 := by
    intro p hp; simpa [InR] using hp
  unfold pullAll at h
  simp only [Bool.not_eq_true'] at h
  split at h; · cases h
  rename_i h6
  split at h; · cases h
  rename_i h5
  split at h; · cases h
  rename_i h4
  split at h; · cases h
  rename_i h3
  split at h; · cases h
  rename_i h2
  split at h; · cases h
  rename_i h1
  simp only [Bool.not_eq_false] at h6 h5 h4 h3 h2 h1
  injection h with h
  subst h
  obtain ⟨a, b⟩ := rq
  have r0 := inr _ hin
  have r6 := inr _ h6; have r5 := inr _ h5; have r4 := inr _ h4; have r3 := inr _ h3; have r2 := inr _ h2; have r1 := inr _ h1
  unfold transpose128
  simp only []
  rw [stage_bit F6 hc6 sing_pswap64 c1 c2 idx_F6 32 (by omega) pairsOK_32 _ a b r0.1 r0.2]
  rw [stage_bit F5 (hc 32 _) sing_pswap5 _ _ idx_F5 16 (by omega) pairsOK_16 _ _ _ r6.1 r6.2]
  rw [stage_bit F4 (hc 16 _) sing_pswap4 _ _ idx_F4 8 (by omega) pairsOK_8 _ _ _ r5.1 r5.2]
  rw [stage_bit F3 (hc 8 _) sing_pswap3 _ _ idx_F3 4 (by omega) pairsOK_4 _ _ _ r4.1 r4.2]
  rw [stage_bit F2 (hc 4 _) sing_pswap2 _ _ idx_F2 2 (by omega) pairsOK_2 _ _ _ r3.1 r3.2]
  rw [stage_bit F1 (hc 2 _) sing_pswap1 _ _ idx_F1 1 (by omega) pairsOK_1 _ _ _ r2.1 r2.2]
  rw [stage_bit F0 hc0 sing_t2x2 a1 a2 idx_F0 1 (by omega) pairsOK_1 _ _ _ r1.1 r1.2]

/-- **C20, AVX2 kernel.** `avx_transpose128x128` transposes the 128×128 bit square held in the 64 registers: for every content of the
    registers, bit (`row`, `col`) of the result is bit (`col`, `row`) of the input. -/
theorem C20_avx_transpose128 (s : Regs Bool) (row col : Nat) (hr : row < 128) (hc : col < 128) :
    transpose128 s (pos row col).1 (pos row col).2 = s (pos col row).1 (pos col row).2 := by
  apply transpose128_bit s (pos row col) _ (pos col row) (pullAll_transposes row hr col hc)
  have h1 : row / 2 < 64 := by omega
  have h2 : row % 2 * 128 + col < 256 := by omega
  simp [InR, pos, h1, h2]

/-! ### the executable (array-backed) form is the same function on the register file -/

theorem range_F0 : ∀ r < 64, ∀ q < 256, InR (pullI a1 a2 1 (r, q)) = true := by decide +kernel
theorem range_F1 : ∀ r < 64, ∀ q < 256, InR (pullI (b1 2) (b2 2) 1 (r, q)) = true := by decide +kernel
theorem range_F2 : ∀ r < 64, ∀ q < 256, InR (pullI (b1 4) (b2 4) 2 (r, q)) = true := by decide +kernel
theorem range_F3 : ∀ r < 64, ∀ q < 256, InR (pullI (b1 8) (b2 8) 4 (r, q)) = true := by decide +kernel
theorem range_F4 : ∀ r < 64, ∀ q < 256, InR (pullI (b1 16) (b2 16) 8 (r, q)) = true := by decide +kernel
theorem range_F5 : ∀ r < 64, ∀ q < 256, InR (pullI (b1 32) (b2 32) 16 (r, q)) = true := by decide +kernel
theorem range_F6 : ∀ r < 64, ∀ q < 256, InR (pullI c1 c2 32 (r, q)) = true := by decide +kernel

/-- `a` holds the register file `s` -/
def EqOn (a : Array Bool) (s : Regs Bool) : Prop := ∀ r < 64, ∀ q < 256, ofArr a r q = s r q

theorem eqOn_toArr (s : Regs Bool) : EqOn (toArr s) s := fun r hr q hq => ofArr_toArr s r q hr hq

theorem eqOn_stage (f : PF) (hf : ∀ ρ, Commutes (α := Sym) (β := Bool) (h := ev ρ) f) (hs : Sing f) (i1 i2 : Nat → Nat) (hi : IdxOK f i1 i2)
    (off : Nat) (hoff : 0 < off) (hp : PairsOK off) (hrange : ∀ r < 64, ∀ q < 256, InR (pullI i1 i2 off (r, q)) = true)
    (a : Array Bool) (s : Regs Bool) (h : EqOn a s) : EqOn (toArr (stage f off (ofArr a))) (stage f off s) := by
  intro r hr q hq
  rw [ofArr_toArr _ r q hr hq, stage_bit f hf hs i1 i2 hi off hoff hp _ r q hr hq, stage_bit f hf hs i1 i2 hi off hoff hp _ r q hr hq]
  have := hrange r hr q hq
  simp only [InR, Bool.and_eq_true, decide_eq_true_eq] at this
  exact h _ this.1 _ this.2

theorem transpose128A_eq (s : Regs Bool) : EqOn (transpose128A s) (transpose128 s) := by
  have hc0 := fun ρ => t2x2_commutes (ev_isHom ρ)
  have hc (sh m : Nat) := fun ρ => pswap_commutes (ev_isHom ρ) sh m
  have hc6 := fun ρ => pswap64_commutes (α := Sym) (β := Bool) (h := ev ρ)
  unfold transpose128A transpose128
  simp only []
  exact eqOn_stage F6 hc6 sing_pswap64 c1 c2 idx_F6 32 (by omega) pairsOK_32 range_F6 _ _
    (eqOn_stage F5 (hc 32 _) sing_pswap5 _ _ idx_F5 16 (by omega) pairsOK_16 range_F5 _ _
    (eqOn_stage F4 (hc 16 _) sing_pswap4 _ _ idx_F4 8 (by omega) pairsOK_8 range_F4 _ _
    (eqOn_stage F3 (hc 8 _) sing_pswap3 _ _ idx_F3 4 (by omega) pairsOK_4 range_F3 _ _
    (eqOn_stage F2 (hc 4 _) sing_pswap2 _ _ idx_F2 2 (by omega) pairsOK_2 range_F2 _ _
    (eqOn_stage F1 (hc 2 _) sing_pswap1 _ _ idx_F1 1 (by omega) pairsOK_1 range_F1 _ _
    (eqOn_stage F0 hc0 sing_t2x2 a1 a2 idx_F0 1 (by omega) pairsOK_1 range_F0 _ _ (eqOn_toArr s)))))))

end PolytuneModel.Avx
