import PolytuneModel.Thm.C20avxCert
namespace PolytuneModel.Avx

theorem transpose128_bit (s : Regs Bool) (rq : Nat × Nat) (hin : InR rq = true) (src : Nat × Nat) (h : pullAll rq = some src) :
    transpose128 s rq.1 rq.2 = s src.1 src.2 := by
  have hc0 := fun ρ => t2x2_commutes (ev_isHom ρ)
  have hc (sh m : Nat) := fun ρ => pswap_commutes (ev_isHom ρ) sh m
  have hc6 := fun ρ => pswap64_commutes (α := Sym) (β := Bool) (h := ev ρ)
  have inr : ∀ p : Nat × Nat, InR p = true → p.1 < 64 ∧ p.2 < 256 := by
    intro p hp; simpa [InR] using hp
  unfold pullAll at h
  simp only [Bool.not_eq_true'] at h
  split at h; · cases h
  rename_i h6
  split at h; · cases h
  rename_i h5
  split at h; · cases h
  rename_i h4
  split at h; · cases h
  rename_i h3
  split at h; · cases h
  rename_i h2
  split at h; · cases h
  rename_i h1
  simp only [Bool.not_eq_false] at h6 h5 h4 h3 h2 h1
  injection h with h
  subst h
  obtain ⟨a, b⟩ := rq
  have r0 := inr _ hin
  have r6 := inr _ h6; have r5 := inr _ h5; have r4 := inr _ h4; have r3 := inr _ h3; have r2 := inr _ h2; have r1 := inr _ h1
  unfold transpose128
  simp only []
  rw [stage_bit F6 hc6 sing_pswap64 c1 c2 idx_F6 32 (by omega) pairsOK_32 _ a b r0.1 r0.2]
  rw [stage_bit F5 (hc 32 _) sing_pswap5 _ _ idx_F5 16 (by omega) pairsOK_16 _ _ _ r6.1 r6.2]
  rw [stage_bit F4 (hc 16 _) sing_pswap4 _ _ idx_F4 8 (by omega) pairsOK_8 _ _ _ r5.1 r5.2]
  rw [stage_bit F3 (hc 8 _) sing_pswap3 _ _ idx_F3 4 (by omega) pairsOK_4 _ _ _ r4.1 r4.2]
  rw [stage_bit F2 (hc 4 _) sing_pswap2 _ _ idx_F2 2 (by omega) pairsOK_2 _ _ _ r3.1 r3.2]
  rw [stage_bit F1 (hc 2 _) sing_pswap1 _ _ idx_F1 1 (by omega) pairsOK_1 _ _ _ r2.1 r2.2]
  rw [stage_bit F0 hc0 sing_t2x2 a1 a2 idx_F0 1 (by omega) pairsOK_1 _ _ _ r1.1 r1.2]

/-- **C20, AVX2 kernel.** `avx_transpose128x128` transposes the 128×128 bit square held in the 64 registers: for every content of the
    registers, bit (`row`, `col`) of the result is bit (`col`, `row`) of the input. -/
theorem C20_avx_transpose128 (s : Regs Bool) (row col : Nat) (hr : row < 128) (hc : col < 128) :
    transpose128 s (pos row col).1 (pos row col).2 = s (pos col row).1 (pos col row).2 := by
  apply transpose128_bit s (pos row col) _ (pos col row) (pullAll_transposes row hr col hc)
  have h1 : row / 2 < 64 := by omega
  have h2 : row % 2 * 128 + col < 256 := by omega
  simp [InR, pos, h1, h2]

end PolytuneModel.Avx
