import PolytuneModel.Http.Api
/-! C14 (and the handle-lifetime half of C15/C17) at the HTTP layer: no request — whatever the state machine answers to it —
    unregisters a computation; only the end of its state machine does.  Hence a stray or refused request can never make the later
    requests of a computation under way (`/run`, `/consts`, `/msg`) fall into `404 UnknownComputationId`. -/
namespace PolytuneModel.Http

/-- no route removes anything from the registry. -/
theorem serve_keeps (reg : Reg) (r : Route) (id : Nat) (reply : Reply) (id' : Nat) (h : id' ∈ reg) : id' ∈ (serve reg r id reply).1 := by
  unfold serve; split
  · exact h
  · split
    · exact List.mem_cons_of_mem _ h
    · exact h

/-- a request for a registered computation reaches its handle and is never answered 404. -/
theorem serve_registered (reg : Reg) (r : Route) (id : Nat) (reply : Reply) (h : id ∈ reg) :
    (serve reg r id reply) = (reg, true, errStatus r reply) ∧ errStatus r reply ≠ .s404 := by
  refine ⟨by simp [serve, h], ?_⟩
  cases r <;> cases reply <;> simp [errStatus]

/-- `schedule` and `validate` register the computation (and reach the new state machine). -/
theorem serve_creates (reg : Reg) (r : Route) (id : Nat) (reply : Reply) (h : r.creates = true) :
    id ∈ (serve reg r id reply).1 ∧ (serve reg r id reply).2.1 = true := by
  unfold serve; split
  · exact ⟨by assumption, rfl⟩
  · simp

/-- `run`, `consts` and `msg` for an unknown computation: 404, no handle reached, no state created. -/
theorem serve_unknown (reg : Reg) (r : Route) (id : Nat) (reply : Reply) (h : id ∉ reg) (hr : r.creates = false) :
    serve reg r id reply = (reg, false, .s404) := by
  simp [serve, h, hr]

/-- the end of another computation's state machine does not unregister this one; the end of its own does. -/
theorem finish_other (reg : Reg) (id id' : Nat) (h : id' ∈ reg) (hne : id' ≠ id) : id' ∈ finish reg id := by
  simp [finish, h, hne]
theorem finish_self (reg : Reg) (id : Nat) : id ∉ finish reg id := by simp [finish]

/-- **C14 at the HTTP layer, every history.**  Once a computation is registered it stays registered through every sequence of requests
    (for any computation, with any reply) and through the end of every OTHER computation. -/
theorem C14_http_registered_until_finished (reg : Reg) (evs : List Ev) (id : Nat) (h : id ∈ reg)
    (hfin : ∀ e ∈ evs, ∀ j, e = .fin j → j ≠ id) : id ∈ runEvs reg evs := by
  induction evs generalizing reg with
  | nil => exact h
  | cons e es ih =>
    simp only [runEvs, List.foldl_cons]
    apply ih
    · cases e with
      | req r j reply => exact serve_keeps reg r j reply id h
      | fin j => exact finish_other reg j id h (fun e => hfin (.fin j) (List.mem_cons_self) j rfl e.symm)
    · intro e he j hj; exact hfin e (List.mem_cons_of_mem _ he) j hj

/-- … hence after any such history a `/run`, `/consts` or `/msg` of that computation reaches the state machine (never 404). -/
theorem C14_http_never_404_while_alive (reg : Reg) (evs : List Ev) (id : Nat) (h : id ∈ reg)
    (hfin : ∀ e ∈ evs, ∀ j, e = .fin j → j ≠ id) (r : Route) (reply : Reply) :
    (serve (runEvs reg evs) r id reply).2.1 = true ∧ (serve (runEvs reg evs) r id reply).2.2 ≠ .s404 := by
  have hm := C14_http_registered_until_finished reg evs id h hfin
  have := serve_registered (runEvs reg evs) r id reply hm
  rw [this.1]; exact ⟨rfl, this.2⟩

/-- what the seeded change "unregister the handle when schedule returns an error" does to this model: the variant is refuted. -/
def serveBad (reg : Reg) (r : Route) (id : Nat) (reply : Reply) : Reg × Bool × Resp :=
  let out := serve reg r id reply
  if r = .schedule ∧ reply ≠ .ok then (finish out.1 id, out.2) else out
theorem C14_http_cex_unregister_on_error :
    let reg := (serve [] .schedule 7 .ok).1                           -- the follower's own schedule call
    let reg' := (serveBad reg .schedule 7 .policyErr).1               -- a duplicate schedule, refused (400) …
    (serveBad reg .schedule 7 .policyErr).2.2 = .s400 ∧ (serve reg' .run 7 .ok).2.2 = .s404 := by decide   -- … and the leader's run finds nothing

/-- non-vacuity: a history with a refused duplicate schedule, a stray message and the end of another computation. -/
example : 7 ∈ runEvs [7, 3] [.req .schedule 7 .policyErr, .req .msg 7 .policyErr, .fin 3, .req .run 9 .ok] := by decide

end PolytuneModel.Http
