/-! C04-e — the commit-then-open round of the leaky-AND check (`flaand`: `flaand comm`, then `flaand hash`).

    Every party commits to its check value `H_i`, all commitments are exchanged, then all values are opened; a party accepts iff every
    opening matches its commitment and the XOR of all `H` (its own included) is zero. The round is meant to force a cheater to fix its
    value before it sees the others'. The commitment is a hash: `com v id` below is `BLAKE3(v ‖ id)` on the current tree and was
    `BLAKE3(v)` (no id) on the tree as it was.

    * `C04_cex_mirror`: without the id, the peer that simply sends the honest party's own commitment and, later, its own opening back is
      accepted — for EVERY value of the honest party, i.e. whatever the peer did before. (Replayed on the real code by the C04 check:
      witness `C04-e:flaand-commitment-mirrored`.)
    * `C04_mirror_rejected`: with the id, and a collision-free hash, a copied commitment can not be opened by anybody but its author.
    * `C04_accept_forces_own_value`: what acceptance then means for two parties: the peer's opened value equals the honest party's
      value, under a commitment that is NOT the honest party's — the peer had to commit to the right value before seeing it. -/
namespace PolytuneModel.Mirror

variable {V C : Type} [DecidableEq C]

/-- two-party acceptance test of party `me` with own value `h`: the peer `k` sent commitment `c` and later opened it to `v` -/
def accepts (com : V → Nat → C) (xor : V → V → V) (isZero : V → Bool) (h : V) (k : Nat) (c : C) (v : V) : Bool :=
  decide (com v k = c) && isZero (xor h v)

/-- **the tree as it was** (`com` ignores the id): echoing commitment and opening is accepted, whatever the honest value is. -/
theorem C04_cex_mirror (hash : V → C) (xor : V → V → V) (isZero : V → Bool) (hself : ∀ v, isZero (xor v v) = true) (h : V) (me k : Nat) :
    accepts (fun v _ => hash v) xor isZero h k ((fun v (_ : Nat) => hash v) h me) h = true := by
  simp [accepts, hself]

/-- **current tree**: a collision-free commitment that includes the id. A copy of `me`'s commitment is never opened by `k ≠ me`. -/
theorem C04_mirror_rejected (com : V → Nat → C) (hinj : ∀ v w a b, com v a = com w b → v = w ∧ a = b)
    (xor : V → V → V) (isZero : V → Bool) (h : V) (me k : Nat) (hk : k ≠ me) (v : V) :
    accepts com xor isZero h k (com h me) v = false := by
  unfold accepts
  have : ¬ com v k = com h me := fun e => hk (hinj _ _ _ _ e).2
  simp [this]

/-- acceptance pins the peer to a commitment of its own (different from `me`'s) that contains exactly the value that makes the XOR zero -/
theorem C04_accept_forces_own_value (com : V → Nat → C) (hinj : ∀ v w a b, com v a = com w b → v = w ∧ a = b)
    (xor : V → V → V) (isZero : V → Bool) (hz : ∀ a b, isZero (xor a b) = true → a = b) (h : V) (me k : Nat) (hk : k ≠ me) (c : C) (v : V)
    (hacc : accepts com xor isZero h k c v = true) : v = h ∧ c = com h k ∧ c ≠ com h me := by
  unfold accepts at hacc
  simp only [Bool.and_eq_true, decide_eq_true_eq] at hacc
  have hv : v = h := (hz _ _ hacc.2).symm
  subst hv
  refine ⟨rfl, hacc.1.symm, ?_⟩
  rw [← hacc.1]
  intro e
  exact hk (hinj _ _ _ _ e).2

/-- non-vacuity: an injective pairing exists and the honest exchange is accepted -/
example : accepts (fun (v : Nat) (id : Nat) => (v, id)) (fun a b => a ^^^ b) (fun a => a == 0) 5 1 (5, 1) 5 = true := by decide

end PolytuneModel.Mirror
