import PolytuneModel.Server.Net
/-! C13 as a statement about REACHABLE states (two parties, all 32 setups), independent of how the set of states was
    computed: a list that contains the initial state and is closed under `successors` contains every reachable state
    (`closed_covers`, generic); the kernel checks closure and the per-state conditions on the explored list. -/
namespace PolytuneModel.Server

inductive Reach {α : Type} (succ : α → List α) (init : α) : α → Prop
  | init : Reach succ init init
  | step {s t : α} : Reach succ init s → t ∈ succ s → Reach succ init t

theorem closed_covers {α : Type} (succ : α → List α) (all : List α) (init : α) (hinit : init ∈ all)
    (hclosed : ∀ s ∈ all, ∀ t ∈ succ s, t ∈ all) : ∀ s, Reach succ init s → s ∈ all := by
  intro s h
  induction h with
  | init => exact hinit
  | step _ ht ih => exact hclosed _ ih _ ht

def bools2' : List (List Bool) := [[false, false], [false, true], [true, false], [true, true]]
def allSetups2' : List Setup :=
  [0, 1].flatMap fun leader => bools2'.flatMap fun outs => bools2'.map fun consts => ⟨2, leader, outs, consts⟩

def statesOf (su : Setup) : List Net := let r := explore Cfg.current su 60 [] [initNet su]; r.1 ++ r.2

/-- per state: a terminal state is good (no error anywhere, every actor stopped, one result exactly where a destination
    was named, no permit held); any other state has a successor. -/
def stateOk (su : Setup) (s : Net) : Bool :=
  if terminal s then good su s else !(successors Cfg.current su s).isEmpty

def certificate (su : Setup) : Bool :=
  let all := statesOf su
  all.contains (initNet su)
  && all.all (fun s => (successors Cfg.current su s).all (fun t => all.contains t))
  && all.all (stateOk su)

theorem C13_n2_certificates : allSetups2'.all certificate = true := by decide +kernel

/-- **C13, two parties, every setup, every interleaving:** every state reachable by delivering in-flight commands in any
    order is either a good final state or has a next step. -/
theorem C13_n2_reachable_ok (su : Setup) (hsu : su ∈ allSetups2') (s : Net)
    (h : Reach (successors Cfg.current su) (initNet su) s) : stateOk su s = true := by
  have hc : certificate su = true := List.all_eq_true.mp C13_n2_certificates su hsu
  simp only [certificate, Bool.and_eq_true, List.all_eq_true, List.contains_iff_mem] at hc
  obtain ⟨⟨hinit, hclosed⟩, hok⟩ := hc
  exact hok s (closed_covers _ _ _ hinit (fun a ha t ht => hclosed a ha t ht) s h)

end PolytuneModel.Server
