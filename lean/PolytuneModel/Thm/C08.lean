import PolytuneModel.Prim.Bincode
/-! C08 — hostile bytes cause an error return, never a panic: decoder totality/bounds and the receive handlers in which the
    Rust indexes without a check (pinned tree) versus the repaired handlers. -/
namespace PolytuneModel
open Bincode

inductive Outcome (α : Type)
  | ok (a : α) | err (e : String) | panic (site : String)
deriving Repr

def Outcome.isPanic {α} : Outcome α → Bool | .panic _ => true | _ => false

/-- a successful `Vec` decode never yields more elements than bytes were supplied: a huge length prefix cannot drive
    allocation (the elements are only materialised while input lasts; the count itself is checked first). -/
theorem decVec_bounded {α} (d : Dec α) (bs : Bytes) (l : List α) (r : Bytes) (h : decVec d bs = .ok (l, r))
    (hn : ∀ k bs l r, decN d k bs = .ok (l, r) → l.length = k) : l.length ≤ bs.length := by
  unfold decVec at h
  cases h8 : decU64 bs with
  | error e => simp [h8] at h
  | ok p =>
    obtain ⟨n, rest⟩ := p
    simp only [h8] at h
    by_cases hgt : n > rest.length
    · simp [hgt] at h
    · simp only [hgt, if_false] at h
      have := hn n rest l r h
      have hrest : rest.length ≤ bs.length := by
        unfold decU64 decLE at h8
        by_cases hl : bs.length < 8
        · simp [hl] at h8
        · simp only [hl, if_false] at h8; cases h8; simp [List.length_drop]
      omega

theorem decN_length {α} (d : Dec α) : ∀ k bs l r, decN d k bs = .ok (l, r) → l.length = k := by
  intro k
  induction k with
  | zero => intro bs l r h; simp [decN] at h; simp [h.1.symm]
  | succ k ih =>
    intro bs l r h
    simp only [decN] at h
    cases hd : d bs with
    | error e => simp [hd] at h
    | ok p =>
      obtain ⟨a, r1⟩ := p
      simp only [hd] at h
      cases hk : decN d k r1 with
      | error e => simp [hk] at h
      | ok q =>
        obtain ⟨as, r2⟩ := q
        simp only [hk] at h
        cases h
        simp [ih r1 as _ hk]

/-! ### the `fashare ver` handler: the peers' decommitments `dm[r]` = check bit followed by (n-1) MACs -/

/-- pinned tree (step 3c of `fashare`): `dm_k[k][r][0]` is indexed without a length check. -/
def checkBitPinned (dm : List UInt8) : Outcome Bool :=
  match dm with
  | [] => .panic "faand.rs fashare: dm_k[k][r][0]"
  | b :: _ => if b > 1 then .err "InvalidBitValue" else .ok (b != 0)

/-- repaired: the inner length is validated first. -/
def checkBitRepaired (n : Nat) (dm : List UInt8) : Outcome Bool :=
  if dm.length ≠ 1 + (n - 1) * 16 then .err "InvalidLength"
  else match dm with
    | [] => .err "InvalidLength"
    | b :: _ => if b > 1 then .err "InvalidBitValue" else .ok (b != 0)

/-- C08-b: an empty inner vector panics the pinned handler … -/
theorem C08_cex_ashare_dm_short : (checkBitPinned []).isPanic = true := rfl
/-- … and no byte string at all panics the repaired one. -/
theorem C08_ashare_no_panic (n : Nat) (dm : List UInt8) : (checkBitRepaired n dm).isPanic = false := by
  unfold checkBitRepaired
  split
  · rfl
  · cases dm with
    | nil => rfl
    | cons b rest => simp only; split <;> rfl

/-! ### the `dvalue` handler: (bits, macs) per bucket -/
def dvaluePinned (own : List Bool) (bits : List Bool) (macs : List Nat) : Outcome (List Bool) :=
  -- `for (m, (d, dmac)) in dval.iter_mut().zip(d_macs_p).enumerate() { … d_value_p[m] … }`
  let k := min own.length macs.length
  if bits.length < k then .panic "faand.rs check_dvalue: d_value_p[m]" else .ok ((own.zip bits).map fun (a, b) => (a != b))
def dvalueRepaired (own : List Bool) (bits : List Bool) (macs : List Nat) : Outcome (List Bool) :=
  if bits.length ≠ own.length ∨ macs.length ≠ own.length then .err "InvalidLength" else .ok ((own.zip bits).map fun (a, b) => (a != b))

theorem C08_cex_dvalue_short : (dvaluePinned [true, false] [] [1, 2]).isPanic = true := by decide
theorem C08_dvalue_no_panic (own bits : List Bool) (macs : List Nat) : (dvalueRepaired own bits macs).isPanic = false := by
  unfold dvalueRepaired; split <;> rfl
/-- C02-b: with an EMPTY MAC vector the pinned loop body never runs: no MAC is checked and the peer's bits are ignored. -/
theorem C02_cex_empty_dvalue (own : List Bool) : min own.length ([] : List Nat).length = 0 := by simp

end PolytuneModel
