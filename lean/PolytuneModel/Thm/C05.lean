import PolytuneModel.Proto.Skeleton
/-! C05 — only designated output parties obtain the result (statements about the communication skeleton). -/
namespace PolytuneModel

/-- a party outside the output set is sent nothing once input processing is finished — by any sender, evaluator or not,
    for every circuit, every evaluator, every output set. -/
theorem C05_non_output_silent (pb : Pub) (i k : Nat) (hk : k ∉ pb.pOut) : outputPattern pb i k = [] := by
  have h : pb.pOut.filter (· == k) = [] := by
    apply List.filter_eq_nil_iff.mpr
    intro a ha hak
    have : a = k := by simpa using hak
    exact hk (this ▸ ha)
  simp [outputPattern, h]

/-- a party in the output set receives, per occurrence in the output list, exactly one opening message from every party,
    plus one `lambda` from the evaluator — and nothing else in that phase. -/
theorem C05_output_party_messages (pb : Pub) (i k : Nat) (hnd : pb.pOut.Nodup) (hk : k ∈ pb.pOut) :
    (outputPattern pb i k).map (·.1) = if i = pb.pEval then ["output wire shares", "lambda"] else ["output wire shares"] := by
  have h : pb.pOut.filter (· == k) = [k] := by
    have hc : (pb.pOut.filter (· == k)).length = 1 := by
      have := hnd.count (a := k)
      simp only [hk, if_true] at this
      simpa [List.count_eq_countP, List.countP_eq_length_filter] using this
    match hf : pb.pOut.filter (· == k), hc with
    | [a], _ =>
      have : a ∈ pb.pOut.filter (· == k) := by rw [hf]; exact List.mem_singleton.mpr rfl
      have := (List.mem_filter.mp this).2
      simp at this; rw [this]
  by_cases hi : i = pb.pEval <;> simp [outputPattern, h, hi]

end PolytuneModel
