import PolytuneModel.Lemmas.AndGate
import PolytuneModel.Thm.C11
/-! C10, first link of the chain: the authenticated bits that `fabitn` assembles from pairwise correlated OTs are valid shares.
    For every ordered pair (i, j) party j runs one correlated-OT session as SENDER with the constant correlation Δ_j and party i
    as RECEIVER with its bit x_i as choice; j keeps the zero message as its key for i, i keeps the received message as its MAC
    under j's key. `C11_cot` says what each session delivers; this file turns that into `Valid` for all parties at once, for
    any number of parties. (`fashare` then only truncates, and every later step — HaAND, LaAND, bucket, Beaver, the online phase —
    starts from `Valid`: `C10_laand_valid`, `C10_bucket`, `C10_beaver`, `C01_honest_correct`.) -/
namespace PolytuneModel

/-- the share party `i` assembles: its bit, the MACs it received from every peer, the keys it kept for every peer; own slots zero. -/
def abitShare (x : Nat → Bool) (mac key : Nat → Nat → V) (i : Nat) : Share :=
  ⟨x i, fun j => if j = i then 0 else mac i j, fun j => if j = i then 0 else key i j⟩

/-- if every ordered pair satisfies the correlated-OT relation with the sender's global key as correlation, the assembled shares are valid. -/
theorem C10_abit_valid (n : Nat) (Δ : Nat → V) (x : Nat → Bool) (mac key : Nat → Nat → V)
    (hcot : ∀ i j, i < n → j < n → i ≠ j → mac i j = key j i ^^^ sc (x i) (Δ j)) :
    Valid n Δ (abitShare x mac key) where
  mac i j hi hj hij := by
    have hji : j ≠ i := fun h => hij h.symm
    simp only [abitShare, hji, hij, if_false]
    exact hcot i j hi hj hij
  own i _ := by simp [abitShare]

/-- parameters of the OT-extension session in which `j` is sender and `i` receiver (at one fixed index of the batch). -/
structure Session (Seed : Type) where
  G  : Seed → Nat → Bool
  H  : Nat → (Nat → Bool) → V
  k0 : Nat → Seed
  k1 : Nat → Seed
  s  : Nat → Bool          -- the sender's base-OT choice bits
  idx : Nat                -- position inside the batch

/-- what the session gives the sender (its key) and the receiver (its MAC), exactly as in `C11_cot` with `δ := Δ_j`, `r idx := x_i`. -/
def Session.key {Seed} (S : Session Seed) (r : Nat → Bool) : V := S.H S.idx (fun j => OT.qRow S.G S.k0 S.k1 r S.s j S.idx)
def Session.mac {Seed} (S : Session Seed) (r : Nat → Bool) (δ : V) : V :=
  let q := fun j => OT.qRow S.G S.k0 S.k1 r S.s j S.idx
  let y := S.H S.idx (fun j => (q j != S.s j)) ^^^ (S.H S.idx q ^^^ δ)
  sc (r S.idx) y ^^^ S.H S.idx (fun j => OT.tRow S.G S.k0 j S.idx)

/-- **C10_abit** — for every number of parties, every PRG, every hash, every base-OT outcome and every choice of bits:
    the authenticated bits assembled from the n(n-1) OT-extension sessions are valid shares under the parties' global keys. -/
theorem C10_abit {Seed : Type} (n : Nat) (Δ : Nat → V) (x : Nat → Bool)
    (sess : Nat → Nat → Session Seed)                  -- sess i j : session with receiver i, sender j
    (r : Nat → Nat → Nat → Bool)                       -- r i j : receiver i's whole choice vector in that session
    (hx : ∀ i j, r i j (sess i j).idx = x i) :         -- at the position in question the choice bit is x_i
    Valid n Δ (abitShare x (fun i j => (sess i j).mac (r i j) (Δ j)) (fun j i => (sess i j).key (r i j))) := by
  apply C10_abit_valid
  intro i j _ _ _
  have h := OT.C11_cot (sess i j).G (sess i j).H (sess i j).k0 (sess i j).k1 (r i j) (sess i j).s (fun _ => Δ j) (sess i j).idx
  simp only [hx] at h
  simp only [Session.mac, Session.key, hx]
  exact h

/-- non-vacuity: three parties, concrete keys and global keys, party 1 holds bit 1. -/
example : let Δ : Nat → V := fun j => BitVec.ofNat 128 (j + 7); let k : Nat → Nat → V := fun j i => BitVec.ofNat 128 (10 * j + i)
    Valid 3 Δ (abitShare (fun i => i == 1) (fun i j => k j i ^^^ sc (i == 1) (Δ j)) k) := by
  intro Δ k; apply C10_abit_valid; intro i j _ _ _; rfl

end PolytuneModel
