import PolytuneModel.Thm.C12rounds
/-! C12 — the instance: a protocol given as a *list of global phases*. In phase `r` party `p` sends one message to `q`
    iff `link r p q`; program order is anything between "same channel, earlier phase first" (PairSerial) and "earlier
    phase first; inside a phase by a position `sub` under which every send precedes its matching receive" (so sequential
    loops over peers, joins, and send-then-receive or request-reply inside one phase are all covered). For every number of parties, every number of phases, every
    link relation and every channel capacity ≥ 1, no reachable state with unfinished events is stuck. -/
namespace PolytuneModel.Sched

structure Ev where
  r : Nat        -- phase
  p : Nat        -- the party executing the event
  q : Nat        -- its peer
  send : Bool
deriving DecidableEq, Repr

structure Phased where
  n    : Nat
  R    : Nat
  link : Nat → Nat → Nat → Bool
  cap  : Nat
  po   : Ev → Ev → Prop
  sub  : Ev → Nat                  -- position of an event inside its phase (e.g. sends in peer order, then receives)
  W    : Nat

def Phased.rounds (P : Phased) (c : Nat × Nat) : List Nat :=
  if c.1 < P.n ∧ c.2 < P.n then (List.range P.R).filter (fun r => P.link r c.1 c.2) else []

def Phased.sys (P : Phased) : Sys (Nat × Nat) Ev where
  sends c := (P.rounds c).map fun r => ⟨r, c.1, c.2, true⟩
  recvs c := (P.rounds c).map fun r => ⟨r, c.2, c.1, false⟩
  po := P.po
  cap := P.cap

def Phased.all (P : Phased) : List Ev :=
  (List.range P.n).flatMap fun p => (List.range P.n).flatMap fun q => P.sys.sends (p, q) ++ P.sys.recvs (p, q)

/-- what the real program order must satisfy. -/
structure Phased.Ok (P : Phased) : Prop where
  upper : ∀ a b, P.po a b → a.r < b.r ∨ (a.r = b.r ∧ P.sub a < P.sub b)
  bound : ∀ e, P.sub e < P.W
  matchSub : ∀ r p q, P.sub ⟨r, p, q, true⟩ < P.sub ⟨r, q, p, false⟩
  serial : ∀ a b : Ev, a.p = b.p → a.q = b.q → a.send = b.send → a.r < b.r → P.po a b

theorem rounds_incr (P : Phased) (c : Nat × Nat) (i j ri rj : Nat)
    (hi : (P.rounds c)[i]? = some ri) (hj : (P.rounds c)[j]? = some rj) (hij : i < j) : ri < rj := by
  unfold Phased.rounds at hi hj
  by_cases hc : c.1 < P.n ∧ c.2 < P.n
  · rw [if_pos hc] at hi hj
    have hp : ((List.range P.R).filter (fun r => P.link r c.1 c.2)).Pairwise (· < ·) :=
      List.Pairwise.filter _ List.pairwise_lt_range
    rw [List.pairwise_iff_getElem] at hp
    obtain ⟨hi', hie⟩ := List.getElem?_eq_some_iff.mp hi
    obtain ⟨hj', hje⟩ := List.getElem?_eq_some_iff.mp hj
    have := hp i j hi' hj' hij
    rw [hie, hje] at this; exact this
  · rw [if_neg hc] at hi; simp at hi

theorem map_idx {α β} (l : List α) (g : α → β) (k : Nat) (e : β) (h : (l.map g)[k]? = some e) : ∃ r, l[k]? = some r ∧ e = g r := by
  rw [List.getElem?_map] at h
  cases hr : l[k]? with
  | none => simp [hr] at h
  | some r => simp [hr] at h; exact ⟨r, rfl, h.symm⟩

def Phased.labelling (P : Phased) (ok : P.Ok) : Rounds P.sys where
  round e := e.r
  sub := P.sub
  W := P.W
  sub_lt := ok.bound
  po_ok a b h := ok.upper a b h
  sends_incr c i j a b ha hb hij := by
    obtain ⟨ri, hi, rfl⟩ := map_idx _ _ _ _ ha; obtain ⟨rj, hj, rfl⟩ := map_idx _ _ _ _ hb
    exact rounds_incr P c i j ri rj hi hj hij
  recvs_incr c i j a b ha hb hij := by
    obtain ⟨ri, hi, rfl⟩ := map_idx _ _ _ _ ha; obtain ⟨rj, hj, rfl⟩ := map_idx _ _ _ _ hb
    exact rounds_incr P c i j ri rj hi hj hij
  match_round c k a b ha hb := by
    obtain ⟨ri, hi, rfl⟩ := map_idx _ _ _ _ ha; obtain ⟨rj, hj, rfl⟩ := map_idx _ _ _ _ hb
    rw [hi] at hj; cases hj; exact ⟨rfl, ok.matchSub _ _ _⟩

theorem Phased.pairSerial (P : Phased) (ok : P.Ok) : PairSerial P.sys where
  sends c i j a b ha hb hij := by
    obtain ⟨ri, hi, rfl⟩ := map_idx _ _ _ _ ha; obtain ⟨rj, hj, rfl⟩ := map_idx _ _ _ _ hb
    exact ok.serial _ _ rfl rfl rfl (rounds_incr P c i j ri rj hi hj hij)
  recvs c i j a b ha hb hij := by
    obtain ⟨ri, hi, rfl⟩ := map_idx _ _ _ _ ha; obtain ⟨rj, hj, rfl⟩ := map_idx _ _ _ _ hb
    exact ok.serial _ _ rfl rfl rfl (rounds_incr P c i j ri rj hi hj hij)

theorem Phased.mem_all (P : Phased) (c : Nat × Nat) (k : Nat) (e : Ev)
    (h : (P.sys.sends c)[k]? = some e ∨ (P.sys.recvs c)[k]? = some e) : e ∈ P.all := by
  have hc : c.1 < P.n ∧ c.2 < P.n := by
    by_cases hc : c.1 < P.n ∧ c.2 < P.n
    · exact hc
    · rcases h with h | h <;> simp [Phased.sys, Phased.rounds, hc] at h
  unfold Phased.all
  simp only [List.mem_flatMap, List.mem_range, List.mem_append]
  refine ⟨c.1, hc.1, c.2, hc.2, ?_⟩
  rcases h with h | h
  · exact .inl (List.mem_of_getElem? h)
  · exact .inr (List.mem_of_getElem? h)

theorem Phased.all_is_event (P : Phased) : ∀ e ∈ P.all,
    (∃ (c : Nat × Nat) (k : Nat), (P.sys.sends c)[k]? = some e) ∨ (∃ (c : Nat × Nat) (k : Nat), (P.sys.recvs c)[k]? = some e) := by
  intro e he
  unfold Phased.all at he
  simp only [List.mem_flatMap, List.mem_range, List.mem_append] at he
  obtain ⟨p, _, q, _, h | h⟩ := he
  · obtain ⟨k, hk⟩ := List.getElem?_of_mem h; exact .inl ⟨(p, q), k, hk⟩
  · obtain ⟨k, hk⟩ := List.getElem?_of_mem h; exact .inr ⟨(p, q), k, hk⟩

/-- **C12 for phase-structured protocols** — any n, any number of phases, any link relation, any capacity ≥ 1. -/
theorem C12_phased_no_deadlock (P : Phased) (ok : P.Ok) (hcap : 0 < P.cap)
    (d : State Ev) (hreach : Reachable P.sys P.all d) (hund : ∃ e, d e = false) :
    ∃ (c : Nat × Nat) (k : Nat) (e : Ev), EnabledSend P.sys d c k e ∨ EnabledRecv P.sys d c k e :=
  C12_no_deadlock P.sys (P.labelling ok) (P.pairSerial ok) hcap (fun c => by simp [Phased.sys]) P.all
    P.all_is_event (P.mem_all) d hreach hund

/-- non-vacuity: three parties, two all-to-all phases, capacity 1, the strongest admissible program order. -/
def demo : Phased where
  n := 3
  R := 2
  link _ p q := p != q
  cap := 1
  po a b := a.p = b.p ∧ (a.r < b.r ∨ (a.r = b.r ∧ a.send = true ∧ b.send = false))
  sub e := if e.send then 0 else 1
  W := 2

theorem demo_ok : demo.Ok where
  upper a b h := by
    rcases h.2 with h | ⟨h1, h2, h3⟩
    · exact .inl h
    · exact .inr ⟨h1, by simp [demo, h2, h3]⟩
  bound e := by simp only [demo]; split <;> omega
  matchSub r p q := by simp [demo]
  serial a b hp _ _ hr := ⟨hp, .inl hr⟩
example : demo.all.length = 24 := by decide

/-- and the hypothesis is needed: when both parties of a phase receive before they send, the initial state is stuck. -/
def bad : Phased where
  n := 2
  R := 1
  link _ p q := p != q
  cap := 1
  po a b := a.p = b.p ∧ a.r = b.r ∧ a.send = false ∧ b.send = true
  sub e := if e.send then 0 else 1
  W := 2

theorem C12_cex_recv_before_send :
    ¬ ∃ (c : Nat × Nat) (k : Nat) (e : Ev), EnabledSend bad.sys (initState bad.all) c k e ∨ EnabledRecv bad.sys (initState bad.all) c k e := by
  rintro ⟨c, k, e, h | h⟩
  · -- a send needs its receive (same party, same phase) done first
    obtain ⟨hk, _, hpo, _⟩ := h
    obtain ⟨r, hr, rfl⟩ := map_idx _ _ _ _ hk
    have hc : c.1 < 2 ∧ c.2 < 2 := by
      by_cases hc : c.1 < 2 ∧ c.2 < 2
      · exact hc
      · simp [Phased.rounds, bad, hc] at hr
    have hmem : r ∈ bad.rounds c := List.mem_of_getElem? hr
    have hr0 : r = 0 ∧ c.1 ≠ c.2 := by
      simp [Phased.rounds, bad, hc] at hmem; exact hmem
    have := hpo ⟨0, c.1, c.2, false⟩ ⟨rfl, by simp [hr0.1], rfl, rfl⟩
    -- that receive is an event of the system, hence not done initially
    have hin : (⟨0, c.1, c.2, false⟩ : Ev) ∈ bad.all := by
      have h1 : c.1 = 0 ∨ c.1 = 1 := by omega
      have h2 : c.2 = 0 ∨ c.2 = 1 := by omega
      rcases h1 with h1 | h1 <;> rcases h2 with h2 | h2 <;> simp [h1, h2] at hr0 ⊢ <;> decide
    simp [initState, hin] at this
  · obtain ⟨_, _, _, hfl⟩ := h
    -- nothing is in flight initially
    have : inflight bad.sys (initState bad.all) c = 0 := by
      unfold inflight countDone
      have : (bad.sys.sends c).countP (fun e => initState bad.all e) = 0 := by
        rw [List.countP_eq_zero]; intro e he
        obtain ⟨k, hk⟩ := List.getElem?_of_mem he
        have := bad.mem_all c k e (.inl hk)
        simp [initState, this]
      omega
    omega

end PolytuneModel.Sched
