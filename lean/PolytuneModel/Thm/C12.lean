import PolytuneModel.Thm.C12phases
import PolytuneModel.Proto.Phases
/-! C12 for polytune's own skeleton: the phase list `phases pb` of `Proto/Phases.lean` — the object whose per-pair projections
    `patternP pb i k` are compared with the real traffic — is a `Phased` system for all public parameters, so with any channel
    capacity ≥ 1 and a program order inside `Phased.Ok` no reachable state with unfinished events is stuck. -/
namespace PolytuneModel
open Sched

def linkAt (l : List Phase) (r p q : Nat) : Bool := match l[r]? with | some ph => ph.link p q | none => false

/-- positions inside a phase: sends in peer order, then receives in peer order. -/
def subOf (n : Nat) (e : Ev) : Nat := if e.send then e.q % n else n + e.q % n

def phasedOf (pb : Pub) (cap : Nat) (po : Ev → Ev → Prop) : Phased :=
  ⟨pb.n, (phases pb).length, linkAt (phases pb), cap, po, subOf pb.n, 2 * pb.n + 1⟩

theorem C12_polytune (pb : Pub) (cap : Nat) (hcap : 0 < cap) (po : Ev → Ev → Prop) (ok : (phasedOf pb cap po).Ok)
    (d : State Ev) (hreach : Reachable (phasedOf pb cap po).sys (phasedOf pb cap po).all d) (hund : ∃ e, d e = false) :
    ∃ (c : Nat × Nat) (k : Nat) (e : Ev), EnabledSend (phasedOf pb cap po).sys d c k e ∨ EnabledRecv (phasedOf pb cap po).sys d c k e :=
  C12_phased_no_deadlock _ ok hcap d hreach hund

/-- the fully sequential program: phase after phase; inside a phase sends in peer order, then receives in peer order.
    The real program order (joins instead of loops, independent sessions with different peers) has FEWER edges. -/
def seqPo (n : Nat) (a b : Ev) : Prop := a.p = b.p ∧ (a.r < b.r ∨ (a.r = b.r ∧ subOf n a < subOf n b))

/-- everything in `Phased.Ok` that is not about the program order holds outright; what remains is: the real program
    order lies between "same channel in phase order" and `seqPo`. -/
theorem phasedOf_ok (pb : Pub) (hn : 0 < pb.n) (cap : Nat) (po : Ev → Ev → Prop)
    (hupper : ∀ a b, po a b → seqPo pb.n a b)
    (hserial : ∀ a b : Ev, a.p = b.p → a.q = b.q → a.send = b.send → a.r < b.r → po a b) : (phasedOf pb cap po).Ok where
  upper a b h := (hupper a b h).2
  bound e := by
    show subOf pb.n e < 2 * pb.n + 1
    have := Nat.mod_lt e.q hn
    unfold subOf; split <;> omega
  matchSub r p q := by
    show subOf pb.n ⟨r, p, q, true⟩ < subOf pb.n ⟨r, q, p, false⟩
    have := Nat.mod_lt q hn
    simp [subOf]; omega
  serial := hserial

/-- unconditional instance: the fully sequential program never gets stuck, for all public parameters and capacities ≥ 1. -/
theorem C12_polytune_sequential (pb : Pub) (hn : 0 < pb.n) (cap : Nat) (hcap : 0 < cap)
    (d : State Ev) (hreach : Reachable (phasedOf pb cap (seqPo pb.n)).sys (phasedOf pb cap (seqPo pb.n)).all d) (hund : ∃ e, d e = false) :
    ∃ (c : Nat × Nat) (k : Nat) (e : Ev), EnabledSend (phasedOf pb cap (seqPo pb.n)).sys d c k e ∨ EnabledRecv (phasedOf pb cap (seqPo pb.n)).sys d c k e :=
  C12_polytune pb cap hcap _ (phasedOf_ok pb hn cap _ (fun _ _ h => h) (fun _ _ hp _ _ hr => ⟨hp, .inl hr⟩)) d hreach hund

/-- index-filter = element-filter: the rounds in which `i` sends to `k` are exactly the phases that `patternP` keeps. -/
theorem filter_range_length (l : List Phase) (p q : Nat) :
    ((List.range l.length).filter (fun r => linkAt l r p q)).length = (l.filter (·.link p q)).length := by
  induction l with
  | nil => rfl
  | cons x xs ih =>
    rw [List.length_cons, List.range_succ_eq_map, List.filter_cons, List.filter_cons, List.filter_map]
    have h0 : linkAt (x :: xs) 0 p q = x.link p q := by simp [linkAt]
    have hs : ((fun r => linkAt (x :: xs) r p q) ∘ Nat.succ) = (fun r => linkAt xs r p q) := by
      funext r; simp [linkAt]
    rw [h0, hs]
    cases x.link p q <;> simp [ih]

/-- the C12 system has, on every channel, exactly as many messages as the pattern that is compared with the wire. -/
theorem C12_same_object (pb : Pub) (cap : Nat) (po : Ev → Ev → Prop) (i k : Nat) (hi : i < pb.n) (hk : k < pb.n) :
    ((phasedOf pb cap po).sys.sends (i, k)).length = (patternP pb i k).length := by
  simp only [Phased.sys, Phased.rounds, phasedOf, hi, hk, and_self, if_true, List.length_map, patternP]
  exact filter_range_length (phases pb) i k

end PolytuneModel
