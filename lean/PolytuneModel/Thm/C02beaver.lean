import PolytuneModel.Thm.C03
/-! C02 / C04 — the opening of the blinded Beaver values `(d, e)` in `beaver_aand` (message `faand`): a peer's pair of claimed bits is accepted
    iff BOTH MACs verify against the receiver's keys (`dmac != expected_dmac || emac != expected_emac ⇒ BeaverWrongMAC`).

    * `C02_beaver_open`: acceptance gives, for `d` AND for `e`, the true bit or the receiver's global key extracted from the forged MAC.
    * `C02_cex_beaver_and`: with the rejection condition "both MACs wrong" (seed C02-c) a forged `d` with an honest `e` is accepted — for every
      key, and every value of the global key; a consistently told wrong `d` turns the AND gate into `(x ∧ y) ⊕ mask`. -/
namespace PolytuneModel

/-- the acceptance test of one opened pair -/
def beaverOpenOk (dkey ekey Δ : V) (d : Bool × V) (e : Bool × V) : Bool := macCheck dkey Δ d && macCheck ekey Δ e

theorem C02_beaver_open (dkey ekey Δ : V) (td te : Bool) (d e : Bool × V) (h : beaverOpenOk dkey ekey Δ d e = true) :
    (d.1 = td ∨ d.2 ^^^ (dkey ^^^ sc td Δ) = Δ) ∧ (e.1 = te ∨ e.2 ^^^ (ekey ^^^ sc te Δ) = Δ) := by
  unfold beaverOpenOk at h
  simp only [Bool.and_eq_true] at h
  exact ⟨macCheck_detect_or_extract dkey Δ td d h.1, macCheck_detect_or_extract ekey Δ te e h.2⟩

/-- the weakened test of seed C02-c: reject only if both MACs are wrong -/
def beaverOpenOkWeak (dkey ekey Δ : V) (d : Bool × V) (e : Bool × V) : Bool := macCheck dkey Δ d || macCheck ekey Δ e

/-- a flipped `d` whose MAC is left as it was (the MAC of the true bit) passes the weakened test together with an honest `e` -/
theorem C02_cex_beaver_and (dkey ekey Δ : V) (td te : Bool) :
    beaverOpenOkWeak dkey ekey Δ (!td, dkey ^^^ sc td Δ) (te, ekey ^^^ sc te Δ) = true := by
  simp [beaverOpenOkWeak, macCheck]

/-- … and the real test rejects it whenever the global key is not zero -/
theorem xor_eq_self_imp (a d : V) (h : a ^^^ d = a) : d = 0 := by
  have := congrArg (fun x => a ^^^ x) h
  simpa [← BitVec.xor_assoc] using this

theorem C02_beaver_rejects_flipped_d (dkey ekey Δ : V) (td te : Bool) (hΔ : Δ ≠ 0) :
    beaverOpenOk dkey ekey Δ (!td, dkey ^^^ sc td Δ) (te, ekey ^^^ sc te Δ) = false := by
  have : macCheck dkey Δ (!td, dkey ^^^ sc td Δ) = false := by
    cases td <;> simp [macCheck, sc] <;> intro h <;> apply hΔ
    · exact xor_eq_self_imp dkey Δ h.symm
    · exact xor_eq_self_imp dkey Δ h
  simp [beaverOpenOk, this]

end PolytuneModel
