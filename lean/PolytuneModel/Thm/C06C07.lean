import PolytuneModel.Lemmas.Xor
/-! C06 — the revealed input bit is hidden by the party's own fresh mask share.
    C07 — what the peers see of a party does not depend on that party's global key (linear part of the protocol),
          and the pinned-tree aShare opening violates this as soon as a peer misreports its check bit. -/
namespace PolytuneModel

/-! ### C06 -/

/-- the masked input as computed in `input_processing`: input ⊕ own mask share ⊕ XOR of the other parties' shares. -/
def maskedInput (x own others : Bool) : Bool := ((x != own) != others)

/-- for either input value and whatever the others contribute, own share ↦ revealed bit is a bijection:
    a uniformly random own share makes the revealed bit uniformly random. -/
theorem C06_mask_bijective (x others : Bool) :
    (∀ a b, maskedInput x a others = maskedInput x b others → a = b) ∧ (∀ y, ∃ own, maskedInput x own others = y) := by
  constructor
  · intro a b h; cases x <;> cases others <;> cases a <;> cases b <;> simp_all [maskedInput]
  · intro y; cases x <;> cases others <;> cases y <;> simp [maskedInput]

/-- counting form ("balanced for input 0 and for input 1 alike"): among the two equally likely own shares exactly one
    yields each value of `revealed ⊕ others`, independently of the input. -/
theorem C06_balanced_count (x others b : Bool) :
    ([false, true].filter fun own => (maskedInput x own others != others) == b).length = 1 := by
  cases x <;> cases others <;> cases b <;> decide

/-- if the own share is NOT mixed in (the bug class "forgot the own-share contribution"), the input is revealed outright. -/
example (x others : Bool) : ((x != others) != others) = x := by cases x <;> cases others <;> rfl

/-! ### C07 -/

/-- a peer's MAC on its bit `b` under my key: `K ⊕ b·Δ`. Re-keying `K' = K ⊕ b·(Δ ⊕ Δ')` explains the same MAC with any other
    global key Δ': the MACs the peers hold carry no information about Δ. -/
theorem C07_mac_view_independent (K Δ Δ' : V) (b : Bool) :
    (K ^^^ sc b (Δ ^^^ Δ')) ^^^ sc b Δ' = K ^^^ sc b Δ := by
  cases b <;> simp <;> xor_nf

/-- aShare consistency opening for `n` peers with bits `x k` and my keys `K k`: I open `d_b = ⨁ K k ⊕ b·Δ` where `b` is the XOR of
    the bits the peers CLAIM. If the claims are truthful (`claimed = x`), the openedD value is the same under the re-keyed
    view for every alternative Δ' — it reveals nothing about Δ. -/
def openedD (n : Nat) (K : Nat → V) (Δ : V) (claimed : Nat → Bool) : V := xsum n K ^^^ sc (bsum n claimed) Δ

theorem C07_ashare_opening_independent (n : Nat) (K : Nat → V) (x : Nat → Bool) (Δ Δ' : V) :
    openedD n (fun k => K k ^^^ sc (x k) (Δ ^^^ Δ')) Δ' x = openedD n K Δ x := by
  unfold openedD
  rw [xsum_xor, xsum_sc]
  cases bsum n x <;> simp <;> xor_nf

/-- **C07-a (pinned tree):** one peer flips its claimed bit. What I open then differs from the truthful opening by exactly Δ;
    the peer, who can compute the truthful opening from the MACs it holds, learns my global key. -/
theorem C07_cex_ashare_offset (n : Nat) (K : Nat → V) (x claimed : Nat → Bool) (Δ : V)
    (hlie : bsum n claimed = !bsum n x) : openedD n K Δ claimed ^^^ openedD n K Δ x = Δ := by
  unfold openedD
  rw [hlie]
  cases bsum n x <;> simp <;> xor_nf

/-- the truthful opening is the XOR of the MACs the peers hold (this is the very check of step 3d), so the XOR above is
    computable by the peers: `openedD(lie) ⊕ ⨁ M_k = Δ`. -/
theorem C07_peers_can_compute (n : Nat) (K : Nat → V) (x : Nat → Bool) (Δ : V) :
    xsum n (fun k => K k ^^^ sc (x k) Δ) = openedD n K Δ x := by
  unfold openedD; rw [xsum_xor, xsum_sc]

end PolytuneModel
