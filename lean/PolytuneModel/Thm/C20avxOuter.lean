import PolytuneModel.Thm.C20avx
import PolytuneModel.Thm.C20transpose
namespace PolytuneModel.Avx.Outer
open PolytuneModel
open PolytuneModel.TransposeP (applyWrites applyWrites_get applyWrites_size specByte transposeSpec_eq foldl_if_congr)

/-! ### 1. every component is a fold of byte writes -/

theorem applyWrites_append (o : Array UInt8) (a b : List (Nat × UInt8)) : applyWrites (applyWrites o a) b = applyWrites o (a ++ b) := by
  simp [applyWrites, List.foldl_append]

def squareWrites (s : Regs Bool) (outStride off nrows : Nat) : List (Nat × UInt8) :=
  (List.range nrows).flatMap fun k => (List.range 16).map fun b => (off + k * outStride + b, rowByte s k b)

theorem storeSquare_eq (o : Array UInt8) (s : Regs Bool) (outStride off nrows : Nat) :
    storeSquare o s outStride off nrows = applyWrites o (squareWrites s outStride off nrows) := by
  unfold storeSquare squareWrites applyWrites
  simp only [List.foldl_flatMap, List.foldl_map]

/-- the writes of the full square in row block `i`, column block `jb` -/
def fullWrites (input : Array UInt8) (inStride outStride i jb : Nat) : List (Nat × UInt8) :=
  squareWrites (transpose128 (loadSquare input inStride (i * 128 * inStride + jb * 16) 0 16)) outStride (jb * 128 * outStride + i * 16) 128

theorem idx_eq (a x j block y : Nat) : a + j * 16 + x + 16 * block + y = a + (j + block) * 16 + x + 16 * 0 + y := by omega

theorem loadSquare_block (input : Array UInt8) (inStride i j block nb : Nat) :
    loadSquare input inStride (i * 128 * inStride + j * 16) block nb = loadSquare input inStride (i * 128 * inStride + (j + block) * 16) 0 nb := by
  funext r q
  show (if q % 128 / 8 < nb then byteBit (input.getD (i * 128 * inStride + j * 16 + (2 * r + q / 128) * inStride + 16 * block + q % 128 / 8) 0) (q % 128 % 8) else false)
     = (if q % 128 / 8 < nb then byteBit (input.getD (i * 128 * inStride + (j + block) * 16 + (2 * r + q / 128) * inStride + 16 * 0 + q % 128 / 8) 0) (q % 128 % 8) else false)
  rw [idx_eq]

theorem off_eq (j i g s : Nat) : j * 128 * s + i * 16 + g * 128 * s = (j + g) * 128 * s + i * 16 := by
  have e : (j + g) * 128 * s = j * 128 * s + g * 128 * s := by rw [Nat.add_mul, Nat.add_mul]
  omega

/-- one square of a group is the full square of its column block -/
theorem group_step (input : Array UInt8) (inStride outStride i j block : Nat) (o : Array UInt8) :
    storeSquare o (transpose128 (loadSquare input inStride (i * 128 * inStride + j * 16) block 16)) outStride
      (j * 128 * outStride + i * 16 + block * 128 * outStride) 128
    = applyWrites o (fullWrites input inStride outStride i (j + block)) := by
  rw [storeSquare_eq, loadSquare_block, off_eq]
  rfl

theorem foldl_applyWrites {β : Type} (l : List β) (F : β → List (Nat × UInt8)) (o : Array UInt8) :
    l.foldl (fun o b => applyWrites o (F b)) o = applyWrites o (l.flatMap F) := by
  induction l generalizing o with
  | nil => rfl
  | cons x xs ih => rw [List.foldl_cons, ih, List.flatMap_cons, applyWrites_append]

theorem group_eq (input : Array UInt8) (inStride outStride i j g : Nat) (o : Array UInt8) :
    group input inStride outStride i j g o = applyWrites o ((List.range g).flatMap fun block => fullWrites input inStride outStride i (j + block)) := by
  unfold group
  simp only [group_step]
  exact foldl_applyWrites _ _ _

/-! ### 2. the loops: whatever the grouping, the writes are those of all full squares of the row block (and of the partial one) -/

theorem mainLoop_writes (input : Array UInt8) (inStride outStride cMain i : Nat) (choose : Nat → Nat → Nat) (fuel j : Nat) (hf : cMain - j ≤ fuel)
    (o : Array UInt8) :
    ∃ ws, mainLoop input inStride outStride cMain i choose fuel j o = applyWrites o ws ∧
      ∀ w, w ∈ ws ↔ ∃ jb, j ≤ jb ∧ jb < cMain ∧ w ∈ fullWrites input inStride outStride i jb := by
  induction fuel generalizing j o with
  | zero =>
    refine ⟨[], rfl, fun w => ⟨fun h => by simp at h, ?_⟩⟩
    rintro ⟨jb, h1, h2, _⟩; omega
  | succ fuel ih =>
    unfold mainLoop
    by_cases hj : j < cMain
    · simp only [hj, if_true]
      generalize hg : min (if choose i j = 0 then 4 else choose i j) (cMain - j) = g
      have hg1 : 1 ≤ g := by
        rw [← hg]; split <;> omega
      have hg2 : g ≤ cMain - j := by rw [← hg]; exact Nat.min_le_right _ _
      obtain ⟨ws', hws', hmem'⟩ := ih (j + g) (by omega) (group input inStride outStride i j g o)
      refine ⟨((List.range g).flatMap fun block => fullWrites input inStride outStride i (j + block)) ++ ws', ?_, ?_⟩
      · rw [hws', group_eq, applyWrites_append]
      · intro w
        simp only [List.mem_append, List.mem_flatMap, List.mem_range, hmem']
        constructor
        · rintro (⟨block, hb, hw⟩ | ⟨jb, h1, h2, hw⟩)
          · exact ⟨j + block, by omega, by omega, hw⟩
          · exact ⟨jb, by omega, h2, hw⟩
        · rintro ⟨jb, h1, h2, hw⟩
          by_cases hlt : jb < j + g
          · left; refine ⟨jb - j, by omega, ?_⟩
            have : j + (jb - j) = jb := by omega
            rw [this]; exact hw
          · right; exact ⟨jb, by omega, h2, hw⟩
    · simp only [hj, if_false]
      refine ⟨[], rfl, fun w => ⟨fun h => by simp at h, ?_⟩⟩
      rintro ⟨jb, h1, h2, _⟩; omega

theorem fold_writes {β : Type} (l : List β) (step : Array UInt8 → β → Array UInt8) (S : β → Nat × UInt8 → Prop)
    (h : ∀ o x, ∃ ws, step o x = applyWrites o ws ∧ ∀ w, w ∈ ws ↔ S x w) (o : Array UInt8) :
    ∃ ws, l.foldl step o = applyWrites o ws ∧ ∀ w, w ∈ ws ↔ ∃ x ∈ l, S x w := by
  induction l generalizing o with
  | nil => exact ⟨[], rfl, fun w => by simp⟩
  | cons x xs ih =>
    obtain ⟨a, ha, hma⟩ := h o x
    obtain ⟨b, hb, hmb⟩ := ih (step o x)
    refine ⟨a ++ b, ?_, ?_⟩
    · rw [List.foldl_cons, hb, ha, applyWrites_append]
    · intro w
      simp only [List.mem_append, hma, hmb, List.mem_cons]
      constructor
      · rintro (h1 | ⟨y, hy, h2⟩)
        · exact ⟨x, Or.inl rfl, h1⟩
        · exact ⟨y, Or.inr hy, h2⟩
      · rintro ⟨y, (rfl | hy), h2⟩
        · exact Or.inl h2
        · exact Or.inr ⟨y, hy, h2⟩

/-- the writes of the partial column block of row block `i` -/
def restWrites (input : Array UInt8) (inStride outStride cMain cRest i : Nat) : List (Nat × UInt8) :=
  squareWrites (transpose128 (loadSquare input inStride (i * 128 * inStride + cMain * 16) 0 (cRest / 8))) outStride (cMain * 128 * outStride + i * 16) cRest

/-- which writes row block `i` performs -/
def RowS (input : Array UInt8) (inStride outStride cMain cRest i : Nat) (w : Nat × UInt8) : Prop :=
  (∃ jb, jb < cMain ∧ w ∈ fullWrites input inStride outStride i jb) ∨ (0 < cRest ∧ w ∈ restWrites input inStride outStride cMain cRest i)

theorem transposeInto_writes (input : Array UInt8) (rows : Nat) (choose : Nat → Nat → Nat) (o0 : Array UInt8) :
    ∃ ws, transposeInto input rows choose o0 = applyWrites o0 ws ∧
      ∀ w, w ∈ ws ↔ ∃ i, i < rows / 128 ∧
        RowS input (input.size * 8 / rows / 8) (rows / 8) (input.size * 8 / rows / 128) (input.size * 8 / rows % 128) i w := by
  unfold transposeInto
  simp only []
  have := fold_writes (List.range (rows / 128))
    (fun o i =>
      let o := mainLoop input (input.size * 8 / rows / 8) (rows / 8) (input.size * 8 / rows / 128) i choose (input.size * 8 / rows / 128) 0 o
      if 0 < input.size * 8 / rows % 128 then restCols input (input.size * 8 / rows / 8) (rows / 8) (input.size * 8 / rows % 128) i (input.size * 8 / rows / 128) o else o)
    (RowS input (input.size * 8 / rows / 8) (rows / 8) (input.size * 8 / rows / 128) (input.size * 8 / rows % 128)) ?_ o0
  · obtain ⟨ws, h1, h2⟩ := this
    exact ⟨ws, h1, fun w => by rw [h2]; simp only [List.mem_range]⟩
  · intro o i
    obtain ⟨a, ha, hma⟩ := mainLoop_writes input (input.size * 8 / rows / 8) (rows / 8) (input.size * 8 / rows / 128) i choose (input.size * 8 / rows / 128) 0 (Nat.sub_le _ _) o
    simp only [ha]
    by_cases hr : 0 < input.size * 8 / rows % 128
    · simp only [hr, if_true]
      refine ⟨a ++ restWrites input (input.size * 8 / rows / 8) (rows / 8) (input.size * 8 / rows / 128) (input.size * 8 / rows % 128) i, ?_, ?_⟩
      · unfold restCols restWrites; rw [storeSquare_eq, applyWrites_append]
      · intro w
        simp only [List.mem_append, hma, RowS, hr, true_and]
        constructor
        · rintro (⟨jb, _, h2, hw⟩ | hw)
          · exact Or.inl ⟨jb, h2, hw⟩
          · exact Or.inr hw
        · rintro (⟨jb, h2, hw⟩ | hw)
          · exact Or.inl ⟨jb, by omega, h2, hw⟩
          · exact Or.inr hw
    · simp only [hr, if_false]
      refine ⟨a, rfl, ?_⟩
      intro w
      simp only [hma, RowS, hr, false_and, or_false]
      constructor
      · rintro ⟨jb, _, h2, hw⟩; exact ⟨jb, h2, hw⟩
      · rintro ⟨jb, h2, hw⟩; exact ⟨jb, by omega, h2, hw⟩

/-! ### 3. values and coverage -/

theorem sq_index (R jb i k b : Nat) (hi : i < R) (hb : b < 16) :
    (jb * 128 * (16 * R) + i * 16 + k * (16 * R) + b) * 8 / (128 * R) = 128 * jb + k ∧
    (jb * 128 * (16 * R) + i * 16 + k * (16 * R) + b) * 8 % (128 * R) = 128 * i + 8 * b ∧
    jb * 128 * (16 * R) + i * 16 + k * (16 * R) + b = (128 * jb + k) * (16 * R) + (16 * i + b) := by
  have e1 : jb * 128 * (16 * R) = 2048 * (jb * R) := by
    rw [Nat.mul_assoc jb 128, show 128 * (16 * R) = 2048 * R by omega, Nat.mul_left_comm]
  have e2 : k * (16 * R) = 16 * (k * R) := Nat.mul_left_comm _ _ _
  have e3 : 128 * R * (128 * jb + k) = 16384 * (jb * R) + 128 * (k * R) := by
    rw [Nat.mul_add, Nat.mul_assoc 128 R (128 * jb), Nat.mul_left_comm R 128 jb, Nat.mul_comm R jb, Nat.mul_assoc 128 R k, Nat.mul_comm R k]
    omega
  have e4 : (128 * jb + k) * (16 * R) = 2048 * (jb * R) + 16 * (k * R) := by
    rw [Nat.add_mul, Nat.mul_assoc 128 jb, Nat.mul_left_comm jb 16 R, e2]
    omega
  have hsum : (jb * 128 * (16 * R) + i * 16 + k * (16 * R) + b) * 8 = 128 * R * (128 * jb + k) + (128 * i + 8 * b) := by
    rw [e1, e2, e3]; omega
  have hR : 0 < 128 * R := by omega
  have hlt : 128 * i + 8 * b < 128 * R := by omega
  refine ⟨?_, ?_, ?_⟩
  · rw [hsum, Nat.mul_add_div hR, Nat.div_eq_of_lt hlt]; rfl
  · rw [hsum, Nat.mul_add_mod, Nat.mod_eq_of_lt hlt]
  · rw [e1, e2, e4]; omega

theorem mem_squareWrites (s : Regs Bool) (outStride off nrows : Nat) (w : Nat × UInt8) :
    w ∈ squareWrites s outStride off nrows ↔ ∃ k < nrows, ∃ b < 16, w = (off + k * outStride + b, rowByte s k b) := by
  unfold squareWrites
  simp only [List.mem_flatMap, List.mem_map, List.mem_range]
  constructor
  · rintro ⟨k, hk, b, hb, rfl⟩; exact ⟨k, hk, b, hb, rfl⟩
  · rintro ⟨k, hk, b, hb, rfl⟩; exact ⟨k, hk, b, hb, rfl⟩

/-- the value of one row byte of a transposed square that was loaded from column block offset `16·jb` of row block `i` -/
theorem square_value (input : Array UInt8) (R q i jb nb k b : Nat) (hcols : input.size * 8 / (128 * R) = 8 * q)
    (hi : i < R) (hk : k < 128) (hknb : k / 8 < nb) (hb : b < 16) :
    rowByte (transpose128 (loadSquare input q (i * 128 * q + jb * 16) 0 nb)) k b
      = specByte input (128 * R) (jb * 128 * (16 * R) + i * 16 + k * (16 * R) + b) := by
  obtain ⟨hc, hr0, _⟩ := sq_index R jb i k b hi hb
  unfold rowByte specByte
  apply foldl_if_congr
  intro t ht
  have ht8 : t < 8 := List.mem_range.mp ht
  rw [hc, hr0, hcols]
  have hpos : (k / 2, k % 2 * 128 + 8 * b + t) = pos k (8 * b + t) := by simp [pos, Nat.add_assoc]
  have := C20_avx_transpose128 (loadSquare input q (i * 128 * q + jb * 16) 0 nb) k (8 * b + t) hk (by omega)
  simp only [pos] at this
  rw [Nat.add_assoc, this]
  simp only [loadSquare, getBit]
  have a1 : (2 * ((8 * b + t) / 2) + ((8 * b + t) % 2 * 128 + k) / 128) = 8 * b + t := by omega
  have a2 : ((8 * b + t) % 2 * 128 + k) % 128 = k := by omega
  have a3 : (128 * jb + k) / 8 = 16 * jb + k / 8 := by omega
  have a4 : (128 * jb + k) % 8 = k % 8 := by omega
  have a5 : (128 * i + 8 * b + t) * (8 * q) / 8 = (128 * i + 8 * b + t) * q := by
    rw [Nat.mul_left_comm, Nat.mul_div_cancel_left _ (by omega : 0 < 8)]
  have a6 : (128 * i + 8 * b + t) * q = i * 128 * q + (8 * b + t) * q := by
    rw [Nat.add_assoc, Nat.add_mul, Nat.mul_comm 128 i]
  rw [a1, a2, a3, a4, a5, a6, if_pos hknb]
  have hAB : i * 128 * q + jb * 16 + (8 * b + t) * q + 16 * 0 + k / 8 = i * 128 * q + (8 * b + t) * q + (16 * jb + k / 8) := by omega
  rw [hAB]
  rfl

/-- the shape facts that follow from the function's assertions (`rows ≥ 128`, `128 ∣ rows`, `rows ∣ input.len()`) -/
theorem shape (n rows : Nat) (h128 : 128 ≤ rows) (hr : rows % 128 = 0) (hdiv : n % rows = 0) :
    ∃ R q, 0 < R ∧ rows = 128 * R ∧ n = 128 * R * q ∧ n * 8 / rows = 8 * q := by
  refine ⟨rows / 128, n / rows, by omega, by omega, ?_, ?_⟩
  · have h1 : rows * (n / rows) = n := Nat.mul_div_cancel' (Nat.dvd_of_mod_eq_zero hdiv)
    have h2 : 128 * (rows / 128) = rows := by omega
    rw [h2, h1]
  · have h1 : rows * (n / rows) = n := Nat.mul_div_cancel' (Nat.dvd_of_mod_eq_zero hdiv)
    have : n * 8 = rows * (8 * (n / rows)) := by rw [Nat.mul_left_comm, h1, Nat.mul_comm]
    rw [this, Nat.mul_div_cancel_left _ (by omega : 0 < rows)]

theorem writes_values (input : Array UInt8) (R q i : Nat) (hR : 0 < R) (hn : input.size = 128 * R * q) (hcols : input.size * 8 / (128 * R) = 8 * q)
    (hi : i < 128 * R / 128) (w : Nat × UInt8)
    (hw : RowS input (input.size * 8 / (128 * R) / 8) (128 * R / 8) (input.size * 8 / (128 * R) / 128) (input.size * 8 / (128 * R) % 128) i w) :
    w.2 = specByte input (128 * R) w.1 := by
  have hi' : i < R := by omega
  have e1 : 8 * q / 8 = q := by omega
  have e2 : 128 * R / 8 = 16 * R := by omega
  rw [hcols, e1, e2] at hw
  rcases hw with ⟨jb, hjb, hw⟩ | ⟨hrest, hw⟩
  · unfold fullWrites at hw
    obtain ⟨k, hk, b, hb, rfl⟩ := (mem_squareWrites _ _ _ _ _).mp hw
    exact square_value input R q i jb 16 k b hcols hi' hk (by omega) hb
  · unfold restWrites at hw
    obtain ⟨k, hk, b, hb, rfl⟩ := (mem_squareWrites _ _ _ _ _).mp hw
    exact square_value input R q i (8 * q / 128) (8 * q % 128 / 8) k b hcols hi' (by omega) (by omega) hb

theorem writes_cover (input : Array UInt8) (R q : Nat) (hR : 0 < R) (hn : input.size = 128 * R * q) (hcols : input.size * 8 / (128 * R) = 8 * q)
    (idx : Nat) (hidx : idx < input.size) :
    ∃ w, (∃ i, i < 128 * R / 128 ∧
      RowS input (input.size * 8 / (128 * R) / 8) (128 * R / 8) (input.size * 8 / (128 * R) / 128) (input.size * 8 / (128 * R) % 128) i w) ∧ w.1 = idx := by
  have e1 : 8 * q / 8 = q := by omega
  have e2 : 128 * R / 8 = 16 * R := by omega
  have e3 : 128 * R / 128 = R := by omega
  rw [hcols, e1, e2, e3]
  -- output row c (= input column), byte t within the output row
  have h16R : 0 < 16 * R := by omega
  have hdm : 16 * R * (idx / (16 * R)) + idx % (16 * R) = idx := Nat.div_add_mod idx (16 * R)
  have ht : idx % (16 * R) < 16 * R := Nat.mod_lt _ h16R
  have hc : idx / (16 * R) < 8 * q := by
    apply Nat.div_lt_of_lt_mul
    have : 16 * R * (8 * q) = 128 * R * q := by
      rw [← Nat.mul_assoc, Nat.mul_right_comm 16 R 8]
    omega
  generalize hcdef : idx / (16 * R) = c at *
  generalize htdef : idx % (16 * R) = t at *
  have hi : t / 16 < R := by omega
  have hb : t % 16 < 16 := by omega
  have hk : c % 128 < 128 := by omega
  obtain ⟨_, _, hidxeq⟩ := sq_index R (c / 128) (t / 16) (c % 128) (t % 16) hi hb
  have hfinal : c / 128 * 128 * (16 * R) + t / 16 * 16 + c % 128 * (16 * R) + t % 16 = idx := by
    rw [hidxeq]
    have a1 : 128 * (c / 128) + c % 128 = c := by omega
    have a2 : 16 * (t / 16) + t % 16 = t := by omega
    rw [a1, a2, Nat.mul_comm c (16 * R)]
    exact hdm
  by_cases hfull : c / 128 < 8 * q / 128
  · refine ⟨(c / 128 * 128 * (16 * R) + t / 16 * 16 + c % 128 * (16 * R) + t % 16,
             rowByte (transpose128 (loadSquare input q (t / 16 * 128 * q + c / 128 * 16) 0 16)) (c % 128) (t % 16)),
            ⟨t / 16, hi, Or.inl ⟨c / 128, hfull, ?_⟩⟩, hfinal⟩
    unfold fullWrites
    exact (mem_squareWrites _ _ _ _ _).mpr ⟨c % 128, hk, t % 16, hb, rfl⟩
  · have hjb : c / 128 = 8 * q / 128 := by omega
    have hkr : c % 128 < 8 * q % 128 := by omega
    refine ⟨(8 * q / 128 * 128 * (16 * R) + t / 16 * 16 + c % 128 * (16 * R) + t % 16,
             rowByte (transpose128 (loadSquare input q (t / 16 * 128 * q + 8 * q / 128 * 16) 0 (8 * q % 128 / 8))) (c % 128) (t % 16)),
            ⟨t / 16, hi, Or.inr ⟨by omega, ?_⟩⟩, by rw [← hjb]; exact hfinal⟩
    unfold restWrites
    exact (mem_squareWrites _ _ _ _ _).mpr ⟨c % 128, hkr, t % 16, hb, rfl⟩

/-- no store is out of range (the Rust slices would panic) … -/
theorem writes_in_bounds (input : Array UInt8) (R q i : Nat) (hn : input.size = 128 * R * q) (hcols : input.size * 8 / (128 * R) = 8 * q)
    (hi : i < 128 * R / 128) (w : Nat × UInt8)
    (hw : RowS input (input.size * 8 / (128 * R) / 8) (128 * R / 8) (input.size * 8 / (128 * R) / 128) (input.size * 8 / (128 * R) % 128) i w) :
    w.1 < input.size := by
  have hi' : i < R := by omega
  have e1 : 8 * q / 8 = q := by omega
  have e2 : 128 * R / 8 = 16 * R := by omega
  rw [hcols, e1, e2] at hw
  have key : ∀ jb k b, 128 * jb + k < 8 * q → b < 16 → jb * 128 * (16 * R) + i * 16 + k * (16 * R) + b < input.size := by
    intro jb k b hck hb
    obtain ⟨_, _, hidx⟩ := sq_index R jb i k b hi' hb
    rw [hidx, hn]
    have h1 : (128 * jb + k + 1) * (16 * R) ≤ 8 * q * (16 * R) := Nat.mul_le_mul_right _ (by omega)
    have h2 : (128 * jb + k + 1) * (16 * R) = (128 * jb + k) * (16 * R) + 16 * R := by rw [Nat.add_mul, Nat.one_mul]
    have h3 : 8 * q * (16 * R) = 128 * R * q := by
      rw [Nat.mul_comm (8 * q) (16 * R), ← Nat.mul_assoc, Nat.mul_right_comm 16 R 8]
    omega
  rcases hw with ⟨jb, hjb, hw⟩ | ⟨_, hw⟩
  · unfold fullWrites at hw
    obtain ⟨k, hk, b, hb, rfl⟩ := (mem_squareWrites _ _ _ _ _).mp hw
    exact key jb k b (by omega) hb
  · unfold restWrites at hw
    obtain ⟨k, hk, b, hb, rfl⟩ := (mem_squareWrites _ _ _ _ _).mp hw
    exact key (8 * q / 128) k b (by omega) hb

/-- … and no load: byte `c8 < nb` of row `k` of the square at column-block offset `16·jb`, where the `nb` bytes lie within the row -/
theorem loads_in_bounds (n R q i jb nb k c8 : Nat) (hn : n = 128 * R * q) (hi : i < R) (hk : k < 128) (hrow : 16 * jb + nb ≤ q) (hc : c8 < nb) :
    i * 128 * q + jb * 16 + k * q + 16 * 0 + c8 < n := by
  have h1 : (128 * i + k + 1) * q ≤ 128 * R * q := Nat.mul_le_mul_right _ (by omega)
  have h2 : (128 * i + k + 1) * q = i * 128 * q + k * q + q := by
    rw [Nat.add_mul, Nat.add_mul, Nat.one_mul, Nat.mul_comm 128 i]
  omega

/-- **C20, AVX2 transpose.** For every shape the function accepts (`rows ≥ 128`, `128 ∣ rows`, `rows ∣ input.len()`), every grouping of
    squares the cache-line arithmetic may produce (`choose`) and every caller-provided output buffer of the right length,
    `avx2::transpose_bitmatrix` returns the exact transpose. -/
theorem C20_transpose_avx_into (input : Array UInt8) (rows : Nat) (choose : Nat → Nat → Nat) (o0 : Array UInt8) (ho : o0.size = input.size)
    (h128 : 128 ≤ rows) (hr : rows % 128 = 0) (hdiv : input.size % rows = 0) :
    transposeInto input rows choose o0 = transposeSpec input rows := by
  obtain ⟨R, q, hR, hrows, hn, hcols⟩ := shape input.size rows h128 hr hdiv
  subst hrows
  obtain ⟨ws, hws, hmem⟩ := transposeInto_writes input (128 * R) choose o0
  rw [hws, transposeSpec_eq]
  apply Array.ext
  · rw [applyWrites_size, ho]; simp
  · intro idx h1 h2
    have hi : idx < o0.size := by rw [applyWrites_size] at h1; exact h1
    have hval : ∀ w ∈ ws, w.2 = specByte input (128 * R) w.1 := by
      intro w hw
      obtain ⟨i, hi, hS⟩ := (hmem w).mp hw
      exact writes_values input R q i hR hn hcols hi w hS
    rw [applyWrites_get (specByte input (128 * R)) ws o0 hval idx hi]
    have hcov : ∃ w ∈ ws, w.1 = idx := by
      obtain ⟨w, hS, hw⟩ := writes_cover input R q hR hn hcols idx (by omega)
      exact ⟨w, (hmem w).mpr hS, hw⟩
    rw [if_pos hcov]
    simp

theorem C20_transpose_avx (input : Array UInt8) (rows : Nat) (choose : Nat → Nat → Nat) (h128 : 128 ≤ rows) (hr : rows % 128 = 0)
    (hdiv : input.size % rows = 0) : transposeAvx input rows choose = transposeSpec input rows :=
  C20_transpose_avx_into input rows choose _ (by simp) h128 hr hdiv

/-! ### 4. the executable form run by the driver is the model of the theorems -/

theorem foldl_ext_mem {α β : Type} (l : List β) (f g : α → β → α) (a : α) (h : ∀ x ∈ l, ∀ acc, f acc x = g acc x) : l.foldl f a = l.foldl g a := by
  induction l generalizing a with
  | nil => rfl
  | cons x xs ih => rw [List.foldl_cons, List.foldl_cons, h x List.mem_cons_self, ih _ (fun y hy => h y (List.mem_cons_of_mem _ hy))]

theorem rowByteA_eq (a : Array Bool) (s : Regs Bool) (h : EqOn a s) (k b : Nat) (hk : k < 128) (hb : b < 16) : rowByteA a k b = rowByte s k b := by
  unfold rowByteA rowByte
  apply foldl_if_congr
  intro t ht
  have ht8 : t < 8 := List.mem_range.mp ht
  exact h (k / 2) (by omega) (k % 2 * 128 + 8 * b + t) (by omega)

theorem storeSquareA_eq (o : Array UInt8) (a : Array Bool) (s : Regs Bool) (h : EqOn a s) (outStride off nrows : Nat) (hn : nrows ≤ 128) :
    storeSquareA o a outStride off nrows = storeSquare o s outStride off nrows := by
  unfold storeSquareA storeSquare
  apply foldl_ext_mem
  intro k hk o'
  have hk' : k < 128 := by have := List.mem_range.mp hk; omega
  apply foldl_ext_mem
  intro b hb o''
  rw [rowByteA_eq a s h k b hk' (List.mem_range.mp hb)]

theorem groupM_eq (input : Array UInt8) (inStride outStride i j g : Nat) (o : Array UInt8) :
    groupM input inStride outStride i j g o = group input inStride outStride i j g o := by
  unfold groupM group
  apply foldl_ext_mem
  intro block _ o'
  exact storeSquareA_eq o' _ _ (transpose128A_eq _) _ _ 128 (Nat.le_refl _)

theorem mainLoopM_eq (input : Array UInt8) (inStride outStride cMain i : Nat) (choose : Nat → Nat → Nat) (fuel j : Nat) (o : Array UInt8) :
    mainLoopM input inStride outStride cMain i choose fuel j o = mainLoop input inStride outStride cMain i choose fuel j o := by
  induction fuel generalizing j o with
  | zero => rfl
  | succ fuel ih => simp only [mainLoopM, mainLoop, groupM_eq, ih]

theorem restColsM_eq (input : Array UInt8) (inStride outStride cRest i j : Nat) (o : Array UInt8) (h : cRest ≤ 128) :
    restColsM input inStride outStride cRest i j o = restCols input inStride outStride cRest i j o := by
  unfold restColsM restCols
  exact storeSquareA_eq o _ _ (transpose128A_eq _) _ _ cRest h

/-- the executable form is the model the theorems are about -/
theorem transposeAvxM_eq (input : Array UInt8) (rows : Nat) (choose : Nat → Nat → Nat) :
    transposeAvxM input rows choose = transposeAvx input rows choose := by
  unfold transposeAvxM transposeAvx transposeIntoM transposeInto
  simp only []
  apply foldl_ext_mem
  intro i _ o
  rw [mainLoopM_eq]
  split
  · exact restColsM_eq _ _ _ _ _ _ _ (by have := Nat.mod_lt (input.size * 8 / rows) (by omega : 0 < 128); omega)
  · rfl

/-- hence what the driver computes is the exact transpose, too -/
theorem C20_transpose_avx_executable (input : Array UInt8) (rows : Nat) (choose : Nat → Nat → Nat) (h128 : 128 ≤ rows) (hr : rows % 128 = 0)
    (hdiv : input.size % rows = 0) : transposeAvxM input rows choose = transposeSpec input rows := by
  rw [transposeAvxM_eq]; exact C20_transpose_avx input rows choose h128 hr hdiv

end PolytuneModel.Avx.Outer
