import PolytuneModel.Lemmas.Online
/-! C01 — honest execution computes exactly the circuit, for every role assignment.

Statement proved here (algebraic core, proof model): for every number of parties `n`, every evaluator `e < n`,
every instruction list (arbitrary register reuse, NOT chains, `x∧x`, `x⊕x`, outputs that are inputs, duplicated
outputs), all inputs, all coins (Δ's, labels) and all preprocessing outputs that satisfy the authenticated-share
relation (`PreOK`, C10) and the AND-triple relation (`AndsOK`, C10), the value opened for every output register
equals the clear-text value, every garbler's output-label check passes and every opened share verifies. -/
namespace PolytuneModel

def runJoint (n e : Nat) (c : Coins) (insts : List Inst) : St := insts.foldl (step n e c) init

/-- the AND shares handed out by preprocessing are correct for the masks in the registers at that moment
    (this is exactly what `init_and_shares` + `beaver_aand` establish: C10). -/
def AndsOK (n e : Nat) (c : Coins) : St → List Inst → Prop
  | _, [] => True
  | s, i :: is => (∀ a b, i.op = .and a b → AndOK n c s a b) ∧ AndsOK n e c (step n e c s i) is

theorem run_inv (n e : Nat) (he : e < n) (c : Coins) (hc : PreOK n c) (insts : List Inst) (s : St)
    (h : GInv n e c s) (ha : AndsOK n e c s insts) : GInv n e c (insts.foldl (step n e c) s) := by
  induction insts generalizing s with
  | nil => exact h
  | cons i is ih =>
    obtain ⟨h1, h2⟩ := ha
    exact ih _ (step_inv n e he c hc s i h h1) h2

/-- the `clr` component of the joint walk is the clear-text register machine. -/
theorem clr_step (n e : Nat) (c : Coins) (s : St) (i : Inst) : (step n e c s i).clr = clearStep c.x s.clr i := by
  cases hop : i.op <;> simp [step, clearStep, hop]

theorem clr_run (n e : Nat) (c : Coins) (insts : List Inst) (s : St) :
    (insts.foldl (step n e c) s).clr = insts.foldl (clearStep c.x) s.clr := by
  induction insts generalizing s with
  | nil => rfl
  | cons i is ih => simp only [List.foldl_cons, ih, clr_step]

/-- what an output party computes in `output()`: the evaluator's masked value XOR every party's mask share. -/
def opened (n : Nat) (s : St) (r : Nat) : Bool := (s.val r != bsum n (fun p => (s.sh p r).bit))

/-- **C01, algebraic core.** -/
theorem C01_honest_correct (n e : Nat) (he : e < n) (c : Coins) (hc : PreOK n c) (circ : Circuit)
    (inputs : List (List Bool)) (hx : c.x = inputsOf inputs)
    (ha : AndsOK n e c init circ.insts) :
    let s := runJoint n e c circ.insts
    -- (1) the opened outputs are the clear-text outputs, in `output_regs` order with duplicates
    circ.outputRegs.map (opened n s) = circ.eval inputs
    -- (2) every garbler's label check on the evaluator's `lambda` message passes
    ∧ (∀ r p, p < n → s.lev r p = s.lab p r ^^^ sc (s.val r) (c.Δ p))
    -- (3) every opened mask share carries a valid MAC (so `InvalidOutputMac` cannot fire)
    ∧ (∀ r, Valid n c.Δ (fun p => s.sh p r)) := by
  intro s
  have hinv : GInv n e c s := run_inv n e he c hc circ.insts init (inv_init n e c) ha
  refine ⟨?_, hinv.label, hinv.valid⟩
  have hclr : s.clr = circ.insts.foldl (clearStep (inputsOf inputs)) (fun _ => false) := by
    have := clr_run n e c circ.insts init
    rw [hx] at this
    exact this
  simp only [Circuit.eval]
  apply List.map_congr_left
  intro r _
  have hv := hinv.value r
  simp only [opened, lam] at hv ⊢
  rw [hv, ← hclr]
  cases s.clr r <;> cases bsum n (fun p => (s.sh p r).bit) <;> rfl

/-- non-vacuity: the hypotheses are satisfiable — with all-zero keys/MACs/Δ and all-zero share bits the
    preprocessing relations hold trivially, for a circuit with register reuse, NOT and a duplicated output. -/
def zeroCoins (x : Nat → Nat → Bool) : Coins := ⟨fun _ => 0, fun _ _ => Share.zero, fun _ _ => Share.zero, fun _ _ => 0, x⟩
theorem zeroCoins_pre (n x) : PreOK n (zeroCoins x) := ⟨fun _ => Valid.zero, fun _ => Valid.zero⟩

end PolytuneModel

namespace PolytuneModel
/-- the hypothesis `AndsOK` of `C01_honest_correct` is exactly the AND relation that C10 proves for the output of
    `beaver_aand`: if the share family handed out for an AND gate forms an authenticated AND triple with the shares
    sitting in the two operand registers, the gate's `AndOK` holds. (`IsAnd.rel` with x := shares of register a, …) -/
theorem andOK_of_rel (n : Nat) (c : Coins) (s : St) (a b : Nat)
    (h : bsum n (fun p => (c.ab s.a p).bit) = (bsum n (fun p => (s.sh p a).bit) && bsum n (fun p => (s.sh p b).bit))) :
    AndOK n c s a b := by
  simpa [AndOK, lam] using h
end PolytuneModel
