import PolytuneModel.Lemmas.Xor
/-! C08 for the trusted dealer (`fpre.rs`, the MAC check on the AND shares the parties send in): the dealer indexes `share[j]` by the
    position `j` of a MAC in party `i`'s vector and `keys_j[i]` in party `j`'s vector.  `none` models the out-of-bounds panic.
    With the length guard (fix "the dealer rejects AND shares whose MAC/key vectors do not have one slot per party") no input panics;
    without it a vector that is one slot too long does. -/
namespace PolytuneModel.FpreCheck

/-- one party's half of a requested pair: its bit and its (mac, key) slots. -/
structure Half where
  bit : Bool
  slots : List (V × V)

/-- the inner loops for one half (`round` fixed): for every non-zero MAC at position `j`, look up `share[j]` and `keys_j[i]`. -/
def checkHalf (Δ : List V) (share : List Half) (i : Nat) (h : Half) : Option Bool :=
  (List.range h.slots.length).foldlM (fun cheated j =>
    match h.slots[j]? with
    | none => none
    | some (mac, _) =>
      if mac = 0 then some cheated else
      match share[j]?, Δ[j]? with
      | some hj, some dj => match hj.slots[i]? with
        | some (_, key) => some (cheated || mac != (key ^^^ sc h.bit dj))
        | none => none                                   -- `keys_j[i]` out of bounds
      | _, _ => none) false                              -- `share[j]` / `deltas[j]` out of bounds

def checkShare (Δ : List V) (share : List Half) : Option Bool :=
  (List.range share.length).foldlM (fun cheated i =>
    match share[i]? with
    | none => none
    | some h => (checkHalf Δ share i h).map (cheated || ·)) false

/-- the repaired dealer: a share with a vector of the wrong length is reported as cheating and not indexed. -/
def checkShareGuarded (parties : Nat) (Δ : List V) (share : List Half) : Option Bool :=
  if share.any (fun h => h.slots.length != parties) then some true else checkShare Δ share

theorem foldlM_some {α β : Type} (f : β → α → Option β) (l : List α) (b : β) (h : ∀ b, ∀ a ∈ l, (f b a).isSome) : (l.foldlM f b).isSome := by
  induction l generalizing b with
  | nil => rfl
  | cons a l ih =>
    simp only [List.foldlM_cons]
    have ha := h b a List.mem_cons_self
    cases hfa : f b a with
    | none => rw [hfa] at ha; cases ha
    | some b' => exact ih b' (fun b a' ha' => h b a' (List.mem_cons_of_mem _ ha'))

/-- **no panic**: one entry per party (the dealer collected one from each), one global key per party — whatever the parties sent. -/
theorem C08_fpre_check_no_panic (parties : Nat) (Δ : List V) (share : List Half) (hs : share.length = parties) (hd : Δ.length = parties) :
    (checkShareGuarded parties Δ share).isSome := by
  unfold checkShareGuarded
  split
  · rfl
  · rename_i hg
    have hlen : ∀ h ∈ share, h.slots.length = parties := by
      intro h hh
      cases Nat.decEq h.slots.length parties with
      | isTrue e => exact e
      | isFalse hne => exact absurd (List.any_eq_true.mpr ⟨h, hh, by simpa using hne⟩) hg
    unfold checkShare
    apply foldlM_some
    intro c i hi
    have hi' : i < share.length := List.mem_range.mp hi
    rw [List.getElem?_eq_getElem hi']
    simp only [Option.isSome_map]
    unfold checkHalf
    apply foldlM_some
    intro c' j hj
    have hj' : j < (share[i]).slots.length := List.mem_range.mp hj
    rw [List.getElem?_eq_getElem hj']
    simp only
    split
    · rfl
    · have hjp : j < parties := by rw [← hlen _ (List.getElem_mem hi')]; exact hj'
      have hjs : j < share.length := by omega
      have hjd : j < Δ.length := by omega
      rw [List.getElem?_eq_getElem hjs, List.getElem?_eq_getElem hjd]
      simp only
      have : i < (share[j]).slots.length := by rw [hlen _ (List.getElem_mem hjs)]; omega
      rw [List.getElem?_eq_getElem this]
      rfl

/-- the tree as it was: two parties, party 0's first vector one slot too long with a non-zero MAC in the extra slot: `share[2]` panics. -/
theorem C08_fpre_cex_unguarded :
    checkShare [1, 2] [⟨false, [(0, 0), (0, 0), (5, 0)]⟩, ⟨false, [(0, 0), (0, 0)]⟩] = none := by decide

end PolytuneModel.FpreCheck
