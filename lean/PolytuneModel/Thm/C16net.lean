import PolytuneModel.Server.Net
import PolytuneModel.Thm.C13reach
/-! C16 at network level: two parties, all 32 setups, every delivery order; the follower has scheduled a policy that names a DIFFERENT
    program than the leader's. In every reachable state no MPC task has been started and no result has been delivered; every
    reachable state is terminal or has a successor; and in every terminal state both state machines have stopped and NEITHER
    schedule call has been answered `Ok` (an error reply, or the reply channel was dropped). Both arrival orders (validate before
    or after the follower's schedule) are interleavings of the same exploration. -/
namespace PolytuneModel.Server

def badOf (su : Setup) : Nat := 1 - su.leader          -- the follower of a two-party setup

def statesOfBad (su : Setup) : List Net := let r := explore Cfg.current su 60 [] [initNetBad su (badOf su)]; r.1 ++ r.2

def noMpc (net : Net) : Bool := net.executing.all (! ·) && net.outputs.all (· == 0) && net.actors.all (fun a => a.kind != .executing && a.kind != .running)

def stateOkBad (su : Setup) (s : Net) : Bool :=
  noMpc s &&
  (if terminal s then s.actors.all (·.stopped) && s.schedOk.all (· == 0) && decide (2 ≤ s.errors)
   else !(successors Cfg.current su s).isEmpty)

def certificateBad (su : Setup) : Bool :=
  let all := statesOfBad su
  all.contains (initNetBad su (badOf su))
  && all.all (fun s => (successors Cfg.current su s).all (fun t => all.contains t))
  && all.all (stateOkBad su)

theorem C16_n2_certificates : allSetups2'.all certificateBad = true := by decide +kernel

/-- **C16, two parties, every setup, every interleaving, program mismatch at the follower.** -/
theorem C16_n2_mismatch_net (su : Setup) (hsu : su ∈ allSetups2') (s : Net)
    (h : Reach (successors Cfg.current su) (initNetBad su (badOf su)) s) : stateOkBad su s = true := by
  have hc : certificateBad su = true := List.all_eq_true.mp C16_n2_certificates su hsu
  simp only [certificateBad, Bool.and_eq_true, List.all_eq_true, List.contains_iff_mem] at hc
  obtain ⟨⟨hinit, hclosed⟩, hok⟩ := hc
  exact hok s (closed_covers _ _ _ hinit (fun a ha t ht => hclosed a ha t ht) s h)

/-- non-vacuity: both arrival orders are explored — somewhere the follower is `AwaitingValidation` (its schedule came first) and
    somewhere it is `ValidateRequested` (the leader's validate came first) — and a terminal state is reached. -/
theorem C16_n2_both_orders_explored :
    allSetups2'.all (fun su => (statesOfBad su).any (fun s => (s.actors.getD (badOf su) {}).kind == .awaitingValidation)
      && (statesOfBad su).any (fun s => (s.actors.getD (badOf su) {}).kind == .validateRequested)
      && (statesOfBad su).any terminal) = true := by decide +kernel

end PolytuneModel.Server
