import PolytuneModel.Prim.Bincode
/-! C08/C01 — the model's total decoders are left inverses of its encoders: a well-formed (honest) message is never
    rejected and decodes to exactly the value that was sent, whatever bytes follow it. Together with `decVec_bounded`
    (hostile bytes: bounded, total) this fixes the decoders the receive handlers of `Proto/OutputTie` and `Thm/C08*`
    are stated over. Element decoders are parameters with the round-trip as hypothesis, so the statement composes to
    every message type of the engine (`Vec<Option<(bool, u128)>>`, `Vec<Vec<u128>>`, …). -/
namespace PolytuneModel.Bincode

/-- an element codec round-trips, with any continuation. -/
def RT {α} (e : α → Bytes) (d : Dec α) : Prop := ∀ a r, d (e a ++ r) = .ok (a, r)

theorem rt_bool : RT encBool decBool := by
  intro b r; cases b <;> simp [encBool, decBool]

theorem rt_opt {α} {e : α → Bytes} {d : Dec α} (h : RT e d) : RT (encOpt e) (decOpt d) := by
  intro o r
  cases o with
  | none => simp [encOpt, decOpt]
  | some a => simp [encOpt, decOpt, h a r]

theorem rt_pair {α β} {ea : α → Bytes} {eb : β → Bytes} {da : Dec α} {db : Dec β} (ha : RT ea da) (hb : RT eb db) :
    RT (encPair ea eb) (decPair da db) := by
  intro p r
  simp [encPair, decPair, List.append_assoc, ha p.1, hb p.2]

theorem decN_enc {α} {e : α → Bytes} {d : Dec α} (h : RT e d) (l : List α) (r : Bytes) :
    decN d l.length (l.flatMap e ++ r) = .ok (l, r) := by
  induction l with
  | nil => simp [decN]
  | cons a l ih => simp [decN, List.flatMap_cons, List.append_assoc, h a, ih]

theorem encU64_eq (n : Nat) : encU64 n = [UInt8.ofNat (n % 256), UInt8.ofNat (n / 2^8 % 256), UInt8.ofNat (n / 2^16 % 256),
    UInt8.ofNat (n / 2^24 % 256), UInt8.ofNat (n / 2^32 % 256), UInt8.ofNat (n / 2^40 % 256), UInt8.ofNat (n / 2^48 % 256),
    UInt8.ofNat (n / 2^56 % 256)] := by
  simp [encU64, List.range, List.range.loop, Nat.shiftRight_eq_div_pow]

theorem decLE_append (k : Nat) (l r : Bytes) (h : l.length = k) :
    decLE k (l ++ r) = .ok (l.foldr (fun b acc => acc * 256 + b.toNat) 0, r) := by
  have hl : ¬ (l ++ r).length < k := by rw [List.length_append]; omega
  unfold decLE
  rw [if_neg hl, List.take_left' h, List.drop_left' h]

theorem byte_toNat (x : Nat) : (UInt8.ofNat (x % 256)).toNat = x % 256 := by
  rw [UInt8.toNat_ofNat']; omega

theorem decU64_enc (n : Nat) (hn : n < 2 ^ 64) (r : Bytes) : decU64 (encU64 n ++ r) = .ok (n, r) := by
  unfold decU64
  rw [decLE_append 8 _ _ (encU64_length n), encU64_eq]
  simp only [List.foldr, byte_toNat]
  have : (((((((0 * 256 + n / 2 ^ 56 % 256) * 256 + n / 2 ^ 48 % 256) * 256 + n / 2 ^ 40 % 256) * 256 + n / 2 ^ 32 % 256) * 256 +
      n / 2 ^ 24 % 256) * 256 + n / 2 ^ 16 % 256) * 256 + n / 2 ^ 8 % 256) * 256 + n % 256 = n := by omega
  rw [this]

theorem flatMap_length_ge {α} (e : α → Bytes) (h1 : ∀ a, 1 ≤ (e a).length) (l : List α) :
    l.length ≤ (l.flatMap e).length := by
  induction l with
  | nil => simp
  | cons a l ih =>
    rw [List.flatMap_cons, List.length_append, List.length_cons]; have := h1 a; omega

/-- `Vec<T>` round-trips for every list shorter than 2^64 whose elements occupy at least one byte each (true of every
    element type the engine sends); the "length prefix exceeds remaining bytes" rejection never fires on it. -/
theorem rt_vec {α} {e : α → Bytes} {d : Dec α} (h : RT e d) (h1 : ∀ a, 1 ≤ (e a).length)
    (l : List α) (hl : l.length < 2 ^ 64) (r : Bytes) : decVec d (encVec e l ++ r) = .ok (l, r) := by
  unfold decVec encVec
  rw [List.append_assoc, decU64_enc _ hl]
  have := flatMap_length_ge e h1 l
  have hng : ¬ l.length > (l.flatMap e ++ r).length := by rw [List.length_append]; omega
  simp only [hng, if_false]
  exact decN_enc h l r

/-- non-vacuity: the share message type `Vec<Option<bool>>` with a trailing byte. -/
example : decVec (decOpt decBool) (encVec (encOpt encBool) [some true, none, some false] ++ [7])
    = .ok ([some true, none, some false], [7]) :=
  rt_vec (rt_opt rt_bool) (by intro a; cases a <;> simp [encOpt]) _ (by simp) _

end PolytuneModel.Bincode
