import PolytuneModel.Prim.Bincode
/-! C08/C01 — the model's total decoders are left inverses of its encoders: a well-formed (honest) message is never
    rejected and decodes to exactly the value that was sent, whatever bytes follow it. Together with `decVec_bounded`
    (hostile bytes: bounded, total) this fixes the decoders the receive handlers of `Proto/OutputTie` and `Thm/C08*`
    are stated over. Element decoders are parameters with the round-trip as hypothesis, so the statement composes to
    every message type of the engine (`Vec<Option<(bool, u128)>>`, `Vec<Vec<u128>>`, …). -/
namespace PolytuneModel.Bincode

/-- an element codec round-trips, with any continuation. -/
def RT {α} (e : α → Bytes) (d : Dec α) : Prop := ∀ a r, d (e a ++ r) = .ok (a, r)

theorem rt_bool : RT encBool decBool := by
  intro b r; cases b <;> simp [encBool, decBool]

theorem rt_opt {α} {e : α → Bytes} {d : Dec α} (h : RT e d) : RT (encOpt e) (decOpt d) := by
  intro o r
  cases o with
  | none => simp [encOpt, decOpt]
  | some a => simp [encOpt, decOpt, h a r]

theorem rt_pair {α β} {ea : α → Bytes} {eb : β → Bytes} {da : Dec α} {db : Dec β} (ha : RT ea da) (hb : RT eb db) :
    RT (encPair ea eb) (decPair da db) := by
  intro p r
  simp [encPair, decPair, List.append_assoc, ha p.1, hb p.2]

theorem decN_enc {α} {e : α → Bytes} {d : Dec α} (h : RT e d) (l : List α) (r : Bytes) :
    decN d l.length (l.flatMap e ++ r) = .ok (l, r) := by
  induction l with
  | nil => simp [decN]
  | cons a l ih => simp [decN, List.flatMap_cons, List.append_assoc, h a, ih]

theorem decLE_append (k : Nat) (l r : Bytes) (h : l.length = k) :
    decLE k (l ++ r) = .ok (l.foldr (fun b acc => acc * 256 + b.toNat) 0, r) := by
  have hl : ¬ (l ++ r).length < k := by rw [List.length_append]; omega
  unfold decLE
  rw [if_neg hl, List.take_left' h, List.drop_left' h]

theorem byte_toNat (x : Nat) : (UInt8.ofNat (x % 256)).toNat = x % 256 := by
  rw [UInt8.toNat_ofNat']; omega

theorem foldr_le (n k a : Nat) :
    ((List.range k).map fun i => UInt8.ofNat ((n >>> (8 * i)) % 256)).foldr (fun b acc => acc * 256 + b.toNat) a
      = a * 256 ^ k + n % 256 ^ k := by
  induction k generalizing a with
  | zero => simp [Nat.mod_one]
  | succ k ih =>
    rw [List.range_succ, List.map_append, List.foldr_append]
    simp only [List.map, List.foldr, byte_toNat]
    have h28 : (2:Nat) ^ (8 * k) = 256 ^ k := by rw [Nat.pow_mul]
    have hs : (256:Nat) ^ (k + 1) = 256 ^ k * 256 := Nat.pow_succ 256 k
    rw [ih, Nat.shiftRight_eq_div_pow, h28, Nat.mod_pow_succ, hs]
    generalize 256 ^ k = P
    generalize n / P % 256 = q
    generalize n % P = m
    rw [Nat.add_mul, Nat.mul_assoc, Nat.mul_comm 256 P, Nat.mul_comm q P]
    omega
theorem decU64_enc (n : Nat) (hn : n < 2 ^ 64) (r : Bytes) : decU64 (encU64 n ++ r) = .ok (n, r) := by
  unfold decU64
  rw [decLE_append 8 _ _ (encU64_length n)]
  unfold encU64
  rw [foldr_le, Nat.mod_eq_of_lt (by have : (256:Nat) ^ 8 = 2 ^ 64 := by decide
                                     omega)]
  simp

theorem decU128_enc (n : Nat) (hn : n < 2 ^ 128) (r : Bytes) : decU128 (encU128 n ++ r) = .ok (n, r) := by
  unfold decU128
  rw [decLE_append 16 _ _ (encU128_length n)]
  unfold encU128
  rw [foldr_le, Nat.mod_eq_of_lt (by have : (256:Nat) ^ 16 = 2 ^ 128 := by decide
                                     omega)]
  simp

theorem flatMap_length_ge {α} (e : α → Bytes) (h1 : ∀ a, 1 ≤ (e a).length) (l : List α) :
    l.length ≤ (l.flatMap e).length := by
  induction l with
  | nil => simp
  | cons a l ih =>
    rw [List.flatMap_cons, List.length_append, List.length_cons]; have := h1 a; omega

/-- `Vec<T>` round-trips for every list shorter than 2^64 whose elements occupy at least one byte each (true of every
    element type the engine sends); the "length prefix exceeds remaining bytes" rejection never fires on it. -/
theorem rt_vec {α} {e : α → Bytes} {d : Dec α} (h : RT e d) (h1 : ∀ a, 1 ≤ (e a).length)
    (l : List α) (hl : l.length < 2 ^ 64) (r : Bytes) : decVec d (encVec e l ++ r) = .ok (l, r) := by
  unfold decVec encVec
  rw [List.append_assoc, decU64_enc _ hl]
  have := flatMap_length_ge e h1 l
  have hng : ¬ l.length > (l.flatMap e ++ r).length := by rw [List.length_append]; omega
  simp only [hng, if_false]
  exact decN_enc h l r

/-- round-trip restricted to values satisfying `P` (a `u128` is a `Nat` below 2^128 in the model). -/
def RTOn {α} (P : α → Prop) (e : α → Bytes) (d : Dec α) : Prop := ∀ a r, P a → d (e a ++ r) = .ok (a, r)

theorem decN_enc_on {α} {P : α → Prop} {e : α → Bytes} {d : Dec α} (h : RTOn P e d) (l : List α) (hp : ∀ a ∈ l, P a) (r : Bytes) :
    decN d l.length (l.flatMap e ++ r) = .ok (l, r) := by
  induction l with
  | nil => simp [decN]
  | cons a l ih =>
    have ha := h a (l.flatMap e ++ r) (hp a (by simp))
    have := ih (fun b hb => hp b (by simp [hb]))
    simp [decN, List.flatMap_cons, List.append_assoc, ha, this]

/-- the output-phase share message `Vec<Option<(bool, u128)>>` (wire form of `Vec<Option<(bool, Mac)>>`) round-trips for
    every honest content: every MAC below 2^128, fewer than 2^64 slots, any trailing bytes. -/
theorem rt_share_msg (l : List (Option (Bool × Nat))) (hl : l.length < 2 ^ 64)
    (hm : ∀ b m, some (b, m) ∈ l → m < 2 ^ 128) (r : Bytes) :
    decVec (decOpt (decPair decBool decU128)) (encVec (encOpt (encPair encBool encU128)) l ++ r) = .ok (l, r) := by
  have hel : RTOn (fun o : Option (Bool × Nat) => ∀ b m, o = some (b, m) → m < 2 ^ 128)
      (encOpt (encPair encBool encU128)) (decOpt (decPair decBool decU128)) := by
    intro o r ho
    cases o with
    | none => simp [encOpt, decOpt]
    | some p =>
      obtain ⟨b, m⟩ := p
      have hb := rt_bool b (encU128 m ++ r)
      have hm := decU128_enc m (ho b m rfl) r
      simp [encOpt, decOpt, encPair, decPair, List.append_assoc, hb, hm]
  unfold decVec encVec
  rw [List.append_assoc, decU64_enc _ hl]
  have := flatMap_length_ge (encOpt (encPair encBool encU128)) (by intro a; cases a <;> simp [encOpt]) l
  have hng : ¬ l.length > (l.flatMap (encOpt (encPair encBool encU128)) ++ r).length := by rw [List.length_append]; omega
  simp only [hng, if_false]
  exact decN_enc_on hel l (fun o ho b m h => hm b m (h ▸ ho)) r

/-- `rt_vec` for codecs that round-trip on a predicate (integers below their width). -/
theorem rt_vec_on {α} {P : α → Prop} {e : α → Bytes} {d : Dec α} (h : RTOn P e d) (h1 : ∀ a, 1 ≤ (e a).length)
    (l : List α) (hl : l.length < 2 ^ 64) (hp : ∀ a ∈ l, P a) (r : Bytes) : decVec d (encVec e l ++ r) = .ok (l, r) := by
  unfold decVec encVec
  rw [List.append_assoc, decU64_enc _ hl]
  have := flatMap_length_ge e h1 l
  have hng : ¬ l.length > (l.flatMap e ++ r).length := by rw [List.length_append]; omega
  simp only [hng, if_false]
  exact decN_enc_on h l hp r

theorem rton_u128 : RTOn (fun m : Nat => m < 2 ^ 128) encU128 decU128 := fun m r hm => decU128_enc m hm r

/-- the nested d-value / key-vector messages `Vec<Vec<u128>>` round-trip for every honest content. -/
theorem rt_vecvec_u128 (ll : List (List Nat)) (hl : ll.length < 2 ^ 64)
    (hin : ∀ l ∈ ll, l.length < 2 ^ 64 ∧ ∀ m ∈ l, m < 2 ^ 128) (r : Bytes) :
    decVec (decVec decU128) (encVec (encVec encU128) ll ++ r) = .ok (ll, r) := by
  have hel : RTOn (fun l : List Nat => l.length < 2 ^ 64 ∧ ∀ m ∈ l, m < 2 ^ 128) (encVec encU128) (decVec decU128) :=
    fun l r hp => rt_vec_on rton_u128 (by intro a; rw [encU128_length]; omega) l hp.1 hp.2 r
  exact rt_vec_on hel (by intro l; unfold encVec; rw [List.length_append, encU64_length]; omega) ll hl hin r

theorem rton_opt {α} {P : α → Prop} {e : α → Bytes} {d : Dec α} (h : RTOn P e d) :
    RTOn (fun o : Option α => ∀ a, o = some a → P a) (encOpt e) (decOpt d) := by
  intro o r ho
  cases o with
  | none => simp [encOpt, decOpt]
  | some a => simp [encOpt, decOpt, h a r (ho a rfl)]

/-- the `masked inputs` message `Vec<Option<bool>>`. -/
theorem rt_masked_msg (l : List (Option Bool)) (hl : l.length < 2 ^ 64) (r : Bytes) :
    decVec (decOpt decBool) (encVec (encOpt encBool) l ++ r) = .ok (l, r) :=
  rt_vec (rt_opt rt_bool) (by intro a; cases a <;> simp [encOpt]) l hl r

/-- the `input labels` message `Vec<Option<u128>>`. -/
theorem rt_labels_msg (l : List (Option Nat)) (hl : l.length < 2 ^ 64) (hm : ∀ m, some m ∈ l → m < 2 ^ 128) (r : Bytes) :
    decVec (decOpt decU128) (encVec (encOpt encU128) l ++ r) = .ok (l, r) :=
  rt_vec_on (rton_opt rton_u128) (by intro a; cases a <;> simp [encOpt]) l hl (fun o ho a h => hm a (h ▸ ho)) r

/-- a codec that round-trips is prefix-free and injective: two values never share an encoding, and the bytes that follow an
    encoded value are determined too — the framing cannot be re-split by a peer into a different (value, rest) pair. -/
theorem rt_injective {α} {e : α → Bytes} {d : Dec α} (h : RT e d) (a b : α) (r r' : Bytes)
    (he : e a ++ r = e b ++ r') : a = b ∧ r = r' := by
  have h1 := h a r
  rw [he, h b r'] at h1
  injection h1 with h1
  injection h1 with h2 h3
  exact ⟨h2.symm, h3.symm⟩

theorem encVec_injective {α} {e : α → Bytes} {d : Dec α} (h : RT e d) (h1 : ∀ a, 1 ≤ (e a).length)
    (l l' : List α) (hl : l.length < 2 ^ 64) (hl' : l'.length < 2 ^ 64) (he : encVec e l = encVec e l') : l = l' := by
  have a := rt_vec h h1 l hl []
  have b := rt_vec h h1 l' hl' []
  rw [he, b] at a
  injection a with a
  injection a with a _
  exact a.symm

/-- non-vacuity: the share message type `Vec<Option<bool>>` with a trailing byte. -/
example : decVec (decOpt decBool) (encVec (encOpt encBool) [some true, none, some false] ++ [7])
    = .ok ([some true, none, some false], [7]) :=
  rt_vec (rt_opt rt_bool) (by intro a; cases a <;> simp [encOpt]) _ (by simp) _

end PolytuneModel.Bincode
