import PolytuneModel.Thm.C01batches
import PolytuneModel.Thm.GenArith
/-! C19 / C01 — how `mpc` itself uses the spill buffer for the AND shares (`protocol.rs::init_and_shares`): one pair is pushed per
    AND instruction, and after EVERY instruction (AND or not) the chunk is flushed when it has reached the batch size; a last partial
    chunk is flushed at the end. For every instruction list the chunks appended are exactly `chunk_size_iter (#ANDs) batch` — all of
    length `batch` but possibly the last — which is the hypothesis under which the file variant and the memory variant return the
    same chunk boundaries (`C19_refines` / chunk boundaries), and what `gen_auth_bits` reads back with `chunks(batch)`. -/
namespace PolytuneModel

/-- the flush loop over the instruction list (`true` = AND instruction), `cur` pairs buffered, `out` = lengths appended so far. -/
def initLoop (max : Nat) : List Bool → Nat → List Nat → Nat × List Nat
  | [], cur, out => (cur, out)
  | isAnd :: rest, cur, out =>
    let cur' := if isAnd then cur + 1 else cur
    if cur' ≥ max then initLoop max rest 0 (out ++ [cur']) else initLoop max rest cur' out

def initChunks (insts : List Bool) (max : Nat) : List Nat := finish (initLoop max insts 0 [])

theorem initLoop_spec (max : Nat) (hmax : 0 < max) : ∀ (l : List Bool) (cur : Nat) (out : List Nat), cur < max →
    finish (initLoop max l cur out) = out ++ chunkSizeIter (cur + l.count true) max := by
  intro l
  induction l with
  | nil =>
    intro cur out hc
    simp only [initLoop, finish, List.count_nil, Nat.add_zero, chunkSizeIter_small cur max hc]
    by_cases h0 : cur = 0 <;> simp [h0]
  | cons b rest ih =>
    intro cur out hc
    cases b with
    | false =>
      have hn : ¬ (cur ≥ max) := by omega
      simp only [initLoop, Bool.false_eq_true, if_false, hn]
      rw [ih cur out hc]; simp
    | true =>
      simp only [initLoop, if_true]
      by_cases hf : cur + 1 ≥ max
      · have hcm : cur + 1 = max := by omega
        simp only [hf, if_true]
        rw [ih 0 _ hmax, hcm, Nat.zero_add]
        have : cur + (true :: rest).count true = max + rest.count true := by simp [List.count_cons]; omega
        rw [this, chunkSizeIter_add _ max hmax]; simp
      · simp only [hf, if_false]
        rw [ih (cur + 1) out (by omega)]
        have : cur + 1 + rest.count true = cur + (true :: rest).count true := by simp [List.count_cons]; omega
        rw [this]

/-- **C19_mpc_use** — for every instruction list, with the code's own batch size and the code's own `chunk_size_iter`
    (both regenerated from the source): the chunks `init_and_shares` appends are the chunks `gen_auth_bits` asks for. -/
theorem C19_mpc_use (insts : List Bool) (h : 0 < insts.count true) :
    initChunks insts (Gen.andShareBatchSize (insts.count true)) = Gen.chunkSizeIter (insts.count true) (Gen.andShareBatchSize (insts.count true)) := by
  have hp := Gen_andShareBatchSize_pos _ h
  have := initLoop_spec _ hp insts 0 [] hp
  rw [Gen_chunkSizeIter_eq]; simpa [initChunks] using this

/-- all appended chunks but the last have the batch length, the last is non-empty and not longer: the `Regular` shape. -/
theorem chunkSizeIter_regular (total max : Nat) (hmax : 0 < max) :
    ∀ c ∈ chunkSizeIter total max, 0 < c ∧ c ≤ max := by
  intro c hc
  simp only [chunkSizeIter, Nat.pos_iff_ne_zero.mp hmax, if_false, List.mem_append, List.mem_replicate] at hc
  rcases hc with ⟨_, rfl⟩ | hc
  · exact ⟨hmax, Nat.le_refl _⟩
  · split at hc
    · simp at hc; subst hc; exact ⟨Nat.pos_of_ne_zero (by assumption), Nat.le_of_lt (Nat.mod_lt _ hmax)⟩
    · simp at hc

example : initChunks [false, true, true, false, true, false, false, true, true] 2 = [2, 2, 1] := by decide

end PolytuneModel
