import PolytuneModel.Thm.C16general
/-! C16, the other half, for ANY number of parties: in the scenario of `C16general` (a follower `b` whose policy names another program or
    another leader) no reachable state is stuck (commands in flight, none deliverable), and in every state in which nothing is in flight
    both the leader's and `b`'s state machine have stopped — with `C16_general_mismatch_net`: without their schedule calls ever having been
    answered `Ok`, without an MPC task, without an output. -/
namespace PolytuneModel.Server

attribute [-simp] List.getD_eq_getElem?_getD
set_option linter.unusedSimpArgs false

/-! ### what `deliver` does in general -/
theorem applyEff_actors (su : Setup) (p : Nat) (net : Net) (e : Eff) : (applyEff su p net e).actors = net.actors := by
  unfold applyEff; split <;> (try dsimp only) <;> (try split) <;> (try split) <;> rfl

theorem applyEff_flight_mono (su : Setup) (p : Nat) (net : Net) (e : Eff) (y : Nat × Cmd) (h : y ∈ net.flight) : y ∈ (applyEff su p net e).flight := by
  unfold applyEff
  split <;> (try dsimp only) <;> (try split) <;> (try split) <;> first
    | exact h
    | (simp only [mem_insertSorted]; exact .inr h)
    | (simp only [mem_foldl_insertSorted]; exact .inl h)

theorem foldl_applyEff_actors (su : Setup) (p : Nat) (effs : List Eff) (net : Net) : (effs.foldl (applyEff su p) net).actors = net.actors := by
  induction effs generalizing net with
  | nil => rfl
  | cons e es ih => simp only [List.foldl_cons]; rw [ih, applyEff_actors]

theorem foldl_applyEff_flight_mono (su : Setup) (p : Nat) (effs : List Eff) (net : Net) (y : Nat × Cmd) (h : y ∈ net.flight) :
    y ∈ (effs.foldl (applyEff su p) net).flight := by
  induction effs generalizing net with
  | nil => exact h
  | cons e es ih => simp only [List.foldl_cons]; exact ih _ (applyEff_flight_mono su p net e y h)

theorem keep {l : List (Nat × Cmd)} {k : Nat} {x y : Nat × Cmd} (hk : l[k]? = some x) (hy : y ∈ l) (hne : y ≠ x) : y ∈ l.eraseIdx k := by
  rw [List.mem_eraseIdx_iff_getElem?]
  obtain ⟨i, hi, rfl⟩ := List.getElem_of_mem hy
  refine ⟨i, ?_, List.getElem?_eq_getElem hi⟩
  intro hik; subst hik
  rw [List.getElem?_eq_getElem hi] at hk
  exact hne (Option.some.inj hk)

/-! ### the liveness invariant -/
def LS (su : Setup) (bp : Pol) (b : Nat) : Nat × Cmd := (su.leader, .schedule (badPol su bp b su.leader))
def BS (su : Setup) (bp : Pol) (b : Nat) : Nat × Cmd := (b, .schedule (badPol su bp b b))
def BV (su : Setup) (b : Nat) : Nat × Cmd := (b, .validate ⟨42, su.leader⟩)
def LV (su : Setup) : Nat × Cmd := (su.leader, .leaderValidated false)

structure Inv2 (su : Setup) (bp : Pol) (b : Nat) (net : Net) : Prop where
  b1 : ∀ p, p ≠ su.leader → net.busy.getD p false = false
  b2 : (net.actors.getD su.leader {}).stopped = true → net.busy.getD su.leader false = false
  b3 : (net.actors.getD su.leader {}).pol = none →
    net.busy.getD su.leader false = false ∧ (net.actors.getD su.leader {}).stopped = false ∧ LS su bp b ∈ net.flight
  l2 : (net.actors.getD su.leader {}).pol ≠ none → (net.actors.getD su.leader {}).stopped = false →
    LV su ∈ net.flight ∨ ((net.actors.getD b {}).stopped = false ∧
      (BV su b ∈ net.flight ∨ ((net.actors.getD b {}).kind = .validateRequested ∧ BS su bp b ∈ net.flight)))
  l3 : (net.actors.getD b {}).stopped = false → BS su bp b ∈ net.flight ∨ (net.actors.getD b {}).kind = .awaitingValidation
  l4 : (net.actors.getD su.leader {}).pol ≠ none → (net.actors.getD b {}).stopped = false →
    ((net.actors.getD b {}).kind = .init ∨ (net.actors.getD b {}).kind = .awaitingValidation) → BV su b ∈ net.flight
  l0 : (net.actors.getD su.leader {}).pol = none → (net.actors.getD b {}).stopped = false

/-- a third party's step: nothing the invariant looks at changes, except that its command has left the flight. -/
theorem Inv2_third {su : Setup} {bp : Pol} {b : Nat} {net t : Net} (hI : Inv su bp b net) (hJ : Inv2 su bp b net) (p : Nat) (c : Cmd)
    (hpl : p ≠ su.leader) (hpb : p ≠ b) (s' : St)
    (hA : t.actors = net.actors.set p s') (hB : t.busy = net.busy) (hF : ∀ y ∈ net.flight, y ≠ (p, c) → y ∈ t.flight) : Inv2 su bp b t := by
  have hL : (net.actors.set p s').getD su.leader {} = net.actors.getD su.leader {} := getD_set_ne _ _ _ _ hpl
  have hBb : (net.actors.set p s').getD b {} = net.actors.getD b {} := getD_set_ne _ _ _ _ hpb
  have k1 : LS su bp b ≠ (p, c) := by intro h; exact hpl (congrArg Prod.fst h).symm
  have k2 : BS su bp b ≠ (p, c) := by intro h; exact hpb (congrArg Prod.fst h).symm
  have k3 : BV su b ≠ (p, c) := by intro h; exact hpb (congrArg Prod.fst h).symm
  have k4 : LV su ≠ (p, c) := by intro h; exact hpl (congrArg Prod.fst h).symm
  constructor
  · rw [hB]; exact hJ.b1
  · rw [hA, hL, hB]; exact hJ.b2
  · rw [hA, hL, hB]; intro h; obtain ⟨x1, x2, x3⟩ := hJ.b3 h; exact ⟨x1, x2, hF _ x3 k1⟩
  · rw [hA, hL, hBb]; intro h1 h2
    rcases hJ.l2 h1 h2 with h | ⟨hs, h | ⟨hk, h⟩⟩
    · exact .inl (hF _ h k4)
    · exact .inr ⟨hs, .inl (hF _ h k3)⟩
    · exact .inr ⟨hs, .inr ⟨hk, hF _ h k2⟩⟩
  · rw [hA, hBb]; intro h; rcases hJ.l3 h with h | h
    · exact .inl (hF _ h k2)
    · exact .inr h
  · rw [hA, hL, hBb]; intro h1 h2 h3; exact hF _ (hJ.l4 h1 h2 h3) k3
  · rw [hA, hL, hBb]; exact hJ.l0

/-- a step of `b` itself: the caller says what holds of `b`'s new state and of the new flight. -/
theorem Inv2_b {su : Setup} {bp : Pol} {b : Nat} {net t : Net} (hJ : Inv2 su bp b net) (hne : b ≠ su.leader) (hlen : b < net.actors.length)
    (c : Cmd) (s' : St) (hA : t.actors = net.actors.set b s') (hB : t.busy = net.busy) (hF : ∀ y ∈ net.flight, y ≠ (b, c) → y ∈ t.flight)
    (n2 : (net.actors.getD su.leader {}).pol ≠ none → (net.actors.getD su.leader {}).stopped = false →
      LV su ∈ t.flight ∨ (s'.stopped = false ∧ (BV su b ∈ t.flight ∨ (s'.kind = .validateRequested ∧ BS su bp b ∈ t.flight))))
    (n3 : s'.stopped = false → BS su bp b ∈ t.flight ∨ s'.kind = .awaitingValidation)
    (n4 : (net.actors.getD su.leader {}).pol ≠ none → s'.stopped = false → (s'.kind = .init ∨ s'.kind = .awaitingValidation) → BV su b ∈ t.flight)
    (n0 : (net.actors.getD su.leader {}).pol = none → s'.stopped = false) :
    Inv2 su bp b t := by
  have hL : (net.actors.set b s').getD su.leader {} = net.actors.getD su.leader {} := getD_set_ne _ _ _ _ hne
  have hBb : (net.actors.set b s').getD b {} = s' := getD_set_self _ _ _ hlen
  have k1 : LS su bp b ≠ (b, c) := by intro h; exact hne (congrArg Prod.fst h).symm
  constructor
  · rw [hB]; exact hJ.b1
  · rw [hA, hL, hB]; exact hJ.b2
  · rw [hA, hL, hB]; intro h; obtain ⟨x1, x2, x3⟩ := hJ.b3 h; exact ⟨x1, x2, hF _ x3 k1⟩
  · rw [hA, hL, hBb]; exact n2
  · rw [hA, hBb]; exact n3
  · rw [hA, hL, hBb]; exact n4
  · rw [hA, hL, hBb]; exact n0

theorem bv_ne_bs (su : Setup) (bp : Pol) (b : Nat) : BV su b ≠ BS su bp b := by simp [BV, BS]
theorem lv_ne_bs (su : Setup) (bp : Pol) (b : Nat) : LV su ≠ BS su bp b := by simp [LV, BS]
theorem lv_ne_bv (su : Setup) (b : Nat) : LV su ≠ BV su b := by simp [LV, BV]
theorem lv_ne_ls (su : Setup) (bp : Pol) (b : Nat) : LV su ≠ LS su bp b := by simp [LV, LS]
theorem getDb_set_ne (l : List Bool) (p q : Nat) (v : Bool) (h : p ≠ q) : (l.set p v).getD q false = l.getD q false := by
  simp [List.getD_eq_getElem?_getD, List.getElem?_set_ne h]
theorem getDb_set_self (l : List Bool) (p : Nat) (v : Bool) (h : p < l.length) : (l.set p v).getD p false = v := by
  simp [List.getD_eq_getElem?_getD, h]

theorem deliver_inv2 (su : Setup) (bp : Pol) (b : Nat) (hwf : WF su bp b) (net t : Net) (k : Nat) (hI : Inv su bp b net) (hJ : Inv2 su bp b net)
    (h : deliver Cfg.current su net k = some t) : Inv2 su bp b t := by
  have hblen : b < net.actors.length := by rw [hI.alen]; exact hwf.hb
  have hllen : su.leader < net.actors.length := by rw [hI.alen]; exact hwf.hl
  have hlb : su.leader ≠ b := Ne.symm hwf.hne
  unfold deliver at h
  split at h
  · cases h
  · rename_i p c hk
    have hx : (p, c) ∈ net.flight := List.mem_of_getElem? hk
    have hok := hI.fl _ hx
    have ke : ∀ y ∈ net.flight, y ≠ (p, c) → y ∈ net.flight.eraseIdx k := fun y hy hne => keep hk hy hne
    have ki : ∀ z, ∀ y ∈ net.flight, y ≠ (p, c) → y ∈ insertSorted z (net.flight.eraseIdx k) :=
      fun z y hy hne => (mem_insertSorted _ _ _).mpr (.inr (keep hk hy hne))
    split at h
    · cases h
    · rename_i hbusy
      cases c <;> simp only [okCmd] at hok
      case schedule pol =>
        obtain ⟨hp, rfl⟩ := hok
        have ha := hI.act p hp
        by_cases hst : (net.actors.getD p {}).stopped = true
        · rw [step_stopped _ _ hst] at h
          simp [applyEff] at h
          subst h
          by_cases hpl : p = su.leader
          · subst hpl
            have hL : (net.actors.set su.leader (net.actors.getD su.leader {})).getD su.leader {} = net.actors.getD su.leader {} := getD_set_self _ _ _ hllen
            have hBb : (net.actors.set su.leader (net.actors.getD su.leader {})).getD b {} = net.actors.getD b {} := getD_set_ne _ _ _ _ hlb
            have hpn : (net.actors.getD su.leader {}).pol ≠ none := fun h0 => by have := (hJ.b3 h0).2.1; rw [hst] at this; cases this
            refine ⟨hJ.b1, ?_, ?_, ?_, ?_, ?_, ?_⟩
            · dsimp only; rw [hL]; exact hJ.b2
            · dsimp only; rw [hL]; intro h0; exact absurd h0 hpn
            · dsimp only; rw [hL]; intro _ h2; rw [hst] at h2; cases h2
            · dsimp only; rw [hBb]; intro hs; rcases hJ.l3 hs with h | h
              · exact .inl (ke _ h (fun e => hlb (congrArg Prod.fst e).symm))
              · exact .inr h
            · dsimp only; rw [hL, hBb]; intro h1 h2 h3; exact ke _ (hJ.l4 h1 h2 h3) (fun e => hlb (congrArg Prod.fst e).symm)
            · dsimp only; rw [hL, hBb]; exact hJ.l0
          · by_cases hpb : p = b
            · subst hpb
              refine Inv2_b hJ hwf.hne hblen _ _ rfl rfl ke ?_ ?_ ?_ ?_
              · intro h1 h2; rcases hJ.l2 h1 h2 with h | ⟨hs, _⟩
                · exact .inl (ke _ h (fun e => hlb (congrArg Prod.fst e)))
                · rw [hst] at hs; cases hs
              · intro hs; rw [hst] at hs; cases hs
              · intro _ hs; rw [hst] at hs; cases hs
              · intro h0; have := hJ.l0 h0; rw [hst] at this; cases this
            · exact Inv2_third hI hJ p _ hpl hpb _ rfl rfl ke
        · have hns : (net.actors.getD p {}).stopped = false := by simpa using hst
          by_cases hpl : p = su.leader
          · subst hpl
            have hki := ha.lead rfl
            by_cases h0 : (net.actors.getD su.leader {}).pol = none
            · rw [step_sched_leader _ _ hns hki (badPol_wt hwf _) (by rw [badPol_good _ _ _ _ hlb]; rfl)] at h
              simp [applyEff] at h
              subst h
              have hL : ∀ s' : St, (net.actors.set su.leader s').getD su.leader {} = s' := fun s' => getD_set_self _ _ _ hllen
              have hBb : ∀ s' : St, (net.actors.set su.leader s').getD b {} = net.actors.getD b {} := fun s' => getD_set_ne _ _ _ _ hlb
              have hbv : ∀ fl : List (Nat × Cmd), BV su b ∈ List.foldl (fun acc q => insertSorted (q, Cmd.validate ⟨42, su.leader⟩) acc) fl
                  (List.filter (fun x => x != su.leader) (List.range su.n)) := by
                intro fl; rw [mem_foldl_insertSorted]; exact .inr ⟨b, by simp [hwf.hb, hwf.hne], rfl⟩
              have hmono : ∀ y ∈ net.flight, y ≠ LS su bp b → y ∈ List.foldl (fun acc q => insertSorted (q, Cmd.validate ⟨42, su.leader⟩) acc) (net.flight.eraseIdx k)
                  (List.filter (fun x => x != su.leader) (List.range su.n)) := by
                intro y hy hne; rw [mem_foldl_insertSorted]; exact .inl (ke y hy hne)
              refine ⟨?_, ?_, ?_, ?_, ?_, ?_, ?_⟩
              · intro q hq; dsimp only; rw [getDb_set_ne _ _ _ _ (Ne.symm hq)]; exact hJ.b1 q hq
              · dsimp only; rw [hL]; intro hs; simp [initChannel, hns] at hs
              · dsimp only; rw [hL]; intro hp; simp at hp
              · dsimp only; rw [hL, hBb]; intro _ _; exact .inr ⟨hJ.l0 h0, .inl (hbv _)⟩
              · dsimp only; rw [hBb]; intro hs; rcases hJ.l3 hs with h | h
                · exact .inl (hmono _ h (fun e => hlb (congrArg Prod.fst e).symm))
                · exact .inr h
              · dsimp only; rw [hL, hBb]; intro _ _ _; exact hbv _
              · dsimp only; rw [hL]; intro hp; simp at hp
            · exfalso
              rcases (hI.phase1 h0).2 with hb | hs
              · exact hbusy ⟨hb, rfl⟩
              · rw [hs] at hns; cases hns
          · have hpp := badPol_follower hwf p hpl
            have hph_of_vr : (net.actors.getD p {}).kind = .validateRequested → (net.actors.getD su.leader {}).pol ≠ none := by
              intro hk h0; rcases (hI.phase0 h0).2.2 p hp with hh | hh <;> rw [hk] at hh <;> cases hh
            by_cases hpb : p = b
            · subst hpb
              have kLV : LV su ≠ (p, Cmd.schedule (badPol su bp p p)) := fun e => hlb (congrArg Prod.fst e)
              have kBV : BV su p ≠ (p, Cmd.schedule (badPol su bp p p)) := bv_ne_bs su bp p
              rcases ha.kind with hki | hki | hki | hki
              · rw [step_sched_init _ _ hns hki (badPol_wt hwf _) hpp] at h
                simp [applyEff] at h
                subst h
                refine Inv2_b hJ hwf.hne hblen _ _ rfl rfl ke ?_ ?_ ?_ ?_
                · intro h1 h2; rcases hJ.l2 h1 h2 with h | ⟨_, h | ⟨hk, _⟩⟩
                  · exact .inl (ke _ h kLV)
                  · exact .inr ⟨by simp [initChannel, hns], .inl (ke _ h kBV)⟩
                  · rw [hki] at hk; cases hk
                · intro _; exact .inr rfl
                · intro h1 _ _; exact ke _ (hJ.l4 h1 hns (.inl hki)) kBV
                · intro _; simp [initChannel, hns]
              · rw [step_sched_refused _ _ hns (.inl hki) (badPol_wt hwf _) hpp] at h
                simp [applyEff] at h
                subst h
                refine Inv2_b hJ hwf.hne hblen _ _ rfl rfl ke ?_ ?_ ?_ ?_
                · intro h1 h2; rcases hJ.l2 h1 h2 with h | ⟨hs, h | ⟨hk, _⟩⟩
                  · exact .inl (ke _ h kLV)
                  · exact .inr ⟨hs, .inl (ke _ h kBV)⟩
                  · rw [hki] at hk; cases hk
                · intro _; exact .inr hki
                · intro h1 _ _; exact ke _ (hJ.l4 h1 hns (.inr hki)) kBV
                · intro _; exact hns
              · -- the leader's request is already here: `b` refuses and stops, the leader is told
                have hvr := ha.vreq hki
                have hq : ∀ t' : Net, (∀ y, y ∈ insertSorted (su.leader, Cmd.leaderValidated false) (net.flight.eraseIdx k) → y ∈ t'.flight) →
                    t'.actors = net.actors.set p { net.actors.getD p {} with stopped := true, permit := false } → t'.busy = net.busy → Inv2 su bp p t' := by
                  intro t' hF hA hB
                  refine Inv2_b hJ hwf.hne hblen _ _ hA hB (fun y hy hne => hF y (ki _ y hy hne)) ?_ ?_ ?_ ?_
                  · intro _ _; exact .inl (hF _ ((mem_insertSorted _ _ _).mpr (.inl rfl)))
                  · intro hs; cases hs
                  · intro _ hs; cases hs
                  · intro h0; exact absurd h0 (hph_of_vr hki)
                rw [badPol_bad] at h hpp
                by_cases hL : su.leader = bp.leader
                · have hh : (42 : Nat) ≠ bp.hash := by
                    rcases hwf.bmis with hm | hm
                    · exact absurd hL.symm hm
                    · exact fun e => hm e.symm
                  rw [step_sched_vr_hash _ _ hns hki hwf.bwt hpp _ hvr hL hh ha.permit] at h
                  simp [applyEff] at h
                  subst h
                  exact hq _ (fun _ hy => hy) rfl rfl
                · rw [step_sched_vr_leader _ _ hns hki hwf.bwt hpp _ hvr hL ha.permit] at h
                  simp [applyEff] at h
                  subst h
                  exact hq _ (fun _ hy => hy) rfl rfl
              · exact absurd hki (ha.bad rfl)
            · -- a third party: whatever it does, the invariant does not look at it
              rcases ha.kind with hki | hki | hki | hki
              · rw [step_sched_init _ _ hns hki (badPol_wt hwf _) hpp] at h
                simp [applyEff] at h
                subst h
                exact Inv2_third hI hJ p _ hpl hpb _ rfl rfl ke
              · rw [step_sched_refused _ _ hns (.inl hki) (badPol_wt hwf _) hpp] at h
                simp [applyEff] at h
                subst h
                exact Inv2_third hI hJ p _ hpl hpb _ rfl rfl ke
              · have hvr := ha.vreq hki
                rw [step_sched_vr_ok _ _ hns hki (badPol_wt hwf _) hpp _ hvr (by rw [badPol_leader_good _ _ _ _ hpb]) (by rw [badPol_hash_good _ _ _ _ hpb])] at h
                have hw2 := waitVal_ge_two hwf hI p hp hpl hpb (by rw [hki]; simp) (hph_of_vr hki)
                have hne1 : net.waitVal ≠ 1 := by omega
                simp [applyEff, hne1] at h
                subst h
                exact Inv2_third hI hJ p _ hpl hpb _ rfl rfl ke
              · rw [step_sched_refused _ _ hns (.inr hki) (badPol_wt hwf _) hpp] at h
                simp [applyEff] at h
                subst h
                exact Inv2_third hI hJ p _ hpl hpb _ rfl rfl ke
      case validate r =>
        obtain ⟨hp, hpl, rfl⟩ := hok
        have ha := hI.act p hp
        have hph : (net.actors.getD su.leader {}).pol ≠ none := by
          intro h0; obtain ⟨pol, hpol⟩ := (hI.phase0 h0).2.1 _ hx; cases hpol
        have kil : ∀ y ∈ net.flight, y ≠ (p, Cmd.validate ⟨42, su.leader⟩) → y ∈ insertSorted (su.leader, Cmd.leaderValidated false) (net.flight.eraseIdx k) := ki _
        by_cases hpb : p = b
        · subst hpb
          have kLV : LV su ≠ (p, Cmd.validate ⟨42, su.leader⟩) := fun e => hlb (congrArg Prod.fst e)
          have kBS : BS su bp p ≠ (p, Cmd.validate ⟨42, su.leader⟩) := fun e => bv_ne_bs su bp p e.symm
          -- `b` refuses and stops, the leader is told
          have hq : ∀ t' : Net, (∀ y, y ∈ insertSorted (su.leader, Cmd.leaderValidated false) (net.flight.eraseIdx k) → y ∈ t'.flight) →
              t'.actors = net.actors.set p { net.actors.getD p {} with stopped := true, permit := false } → t'.busy = net.busy → Inv2 su bp p t' := by
            intro t' hF hA hB
            refine Inv2_b hJ hwf.hne hblen _ _ hA hB (fun y hy hne => hF y (kil y hy hne)) ?_ ?_ ?_ ?_
            · intro _ _; exact .inl (hF _ ((mem_insertSorted _ _ _).mpr (.inl rfl)))
            · intro hs; cases hs
            · intro _ hs; cases hs
            · intro h0; exact absurd h0 hph
          by_cases hst : (net.actors.getD p {}).stopped = true
          · rw [step_stopped _ _ hst] at h
            simp [applyEff] at h
            subst h
            refine Inv2_b hJ hwf.hne hblen _ _ rfl rfl ke ?_ ?_ ?_ ?_
            · intro h1 h2; rcases hJ.l2 h1 h2 with h | ⟨hs, _⟩
              · exact .inl (ke _ h kLV)
              · rw [hst] at hs; cases hs
            · intro hs; rw [hst] at hs; cases hs
            · intro _ hs; rw [hst] at hs; cases hs
            · intro h0; exact absurd h0 hph
          · have hns : (net.actors.getD p {}).stopped = false := by simpa using hst
            rcases ha.kind with hki | hki | hki | hki
            · rw [step_val_init _ hns hki] at h
              simp [applyEff] at h
              subst h
              have hbs : BS su bp p ∈ net.flight := by
                rcases hJ.l3 hns with h | h
                · exact h
                · rw [hki] at h; cases h
              refine Inv2_b hJ hwf.hne hblen _ _ rfl rfl ke ?_ ?_ ?_ ?_
              · intro _ _; exact .inr ⟨hns, .inr ⟨rfl, ke _ hbs kBS⟩⟩
              · intro _; exact .inl (ke _ hbs kBS)
              · intro _ _ hk; rcases hk with hk | hk <;> cases hk
              · intro h0; exact absurd h0 hph
            · have hpo := ha.pol hki
              rw [badPol_bad] at hpo
              by_cases hL : su.leader = bp.leader
              · have hh : (42 : Nat) ≠ bp.hash := by
                  rcases hwf.bmis with hm | hm
                  · exact absurd hL.symm hm
                  · exact fun e => hm e.symm
                rw [step_val_aw_hash _ _ hns hki _ hpo hL hh ha.permit] at h
                simp [applyEff] at h
                subst h
                exact hq _ (fun _ hy => hy) rfl rfl
              · rw [step_val_aw_leader _ _ hns hki _ hpo hL ha.permit] at h
                simp [applyEff] at h
                subst h
                exact hq _ (fun _ hy => hy) rfl rfl
            · rw [step_val_refused _ hns (.inl hki)] at h
              simp [applyEff] at h
              subst h
              have hbs : BS su bp p ∈ net.flight := by
                rcases hJ.l3 hns with h | h
                · exact h
                · rw [hki] at h; cases h
              refine Inv2_b hJ hwf.hne hblen _ _ rfl rfl kil ?_ ?_ ?_ ?_
              · intro _ _; exact .inl ((mem_insertSorted _ _ _).mpr (.inl rfl))
              · intro _; exact .inl (kil _ hbs kBS)
              · intro _ _ hk; rw [hki] at hk; rcases hk with hk | hk <;> cases hk
              · intro h0; exact absurd h0 hph
            · exact absurd hki (ha.bad rfl)
        · -- a third party
          by_cases hst : (net.actors.getD p {}).stopped = true
          · rw [step_stopped _ _ hst] at h
            simp [applyEff] at h
            subst h
            exact Inv2_third hI hJ p _ hpl hpb _ rfl rfl ke
          · have hns : (net.actors.getD p {}).stopped = false := by simpa using hst
            rcases ha.kind with hki | hki | hki | hki
            · rw [step_val_init _ hns hki] at h
              simp [applyEff] at h
              subst h
              exact Inv2_third hI hJ p _ hpl hpb _ rfl rfl ke
            · have hpo := ha.pol hki
              rw [step_val_aw_ok _ _ hns hki _ hpo (by rw [badPol_leader_good _ _ _ _ hpb]) (by rw [badPol_hash_good _ _ _ _ hpb])] at h
              have hw2 := waitVal_ge_two hwf hI p hp hpl hpb (by rw [hki]; simp) hph
              have hne1 : net.waitVal ≠ 1 := by omega
              simp [applyEff, hne1] at h
              subst h
              exact Inv2_third hI hJ p _ hpl hpb _ rfl rfl ke
            · rw [step_val_refused _ hns (.inl hki)] at h
              simp [applyEff] at h
              subst h
              exact Inv2_third hI hJ p _ hpl hpb _ rfl rfl kil
            · rw [step_val_refused _ hns (.inr hki)] at h
              simp [applyEff] at h
              subst h
              exact Inv2_third hI hJ p _ hpl hpb _ rfl rfl kil
      case leaderValidated ok =>
        cases ok <;> simp only at hok
        subst hok
        have ha := hI.act su.leader hwf.hl
        have hph : (net.actors.getD su.leader {}).pol ≠ none := by
          intro h0; obtain ⟨pol, hpol⟩ := (hI.phase0 h0).2.1 _ hx; cases hpol
        have hBb : ∀ s' : St, (net.actors.set su.leader s').getD b {} = net.actors.getD b {} := fun s' => getD_set_ne _ _ _ _ hlb
        have hL : ∀ s' : St, (net.actors.set su.leader s').getD su.leader {} = s' := fun s' => getD_set_self _ _ _ hllen
        have hblen' : su.leader < net.busy.length := by rw [hI.blen]; exact hwf.hl
        -- in both cases (the leader had stopped already / stops now): the new leader state is stopped and has a policy, its busy flag is cleared
        have hq : ∀ t' : Net, ∀ s' : St, s'.stopped = true → s'.pol ≠ none → t'.actors = net.actors.set su.leader s' → t'.busy = net.busy.set su.leader false →
            t'.flight = net.flight.eraseIdx k → Inv2 su bp b t' := by
          intro t' s' hs hp' hA hB hF
          have kx : ∀ y ∈ net.flight, y.1 = b → y ∈ t'.flight := fun y hy hb => by rw [hF]; exact ke y hy (fun e => hlb (by rw [← hb, e]))
          refine ⟨?_, ?_, ?_, ?_, ?_, ?_, ?_⟩
          · intro q hq; rw [hB, getDb_set_ne _ _ _ _ (Ne.symm hq)]; exact hJ.b1 q hq
          · intro _; rw [hB]; exact getDb_set_self _ _ _ hblen'
          · rw [hA, hL]; intro h0; exact absurd h0 hp'
          · rw [hA, hL]; intro _ h2; rw [hs] at h2; cases h2
          · rw [hA, hBb]; intro hs'; rcases hJ.l3 hs' with h | h
            · exact .inl (kx _ h rfl)
            · exact .inr h
          · rw [hA, hL, hBb]; intro _ h2 h3; exact kx _ (hJ.l4 hph h2 h3) rfl
          · rw [hA, hL]; intro h0; exact absurd h0 hp'
        by_cases hst : (net.actors.getD su.leader {}).stopped = true
        · rw [step_stopped _ _ hst] at h
          simp [applyEff] at h
          subst h
          exact hq _ _ hst hph rfl rfl rfl
        · have hns : (net.actors.getD su.leader {}).stopped = false := by simpa using hst
          rw [step_lvfalse _ hns ha.permit] at h
          simp [applyEff] at h
          subst h
          exact hq _ { net.actors.getD su.leader {} with stopped := true, permit := false } rfl hph rfl rfl rfl

theorem initNetBad_inv2 (su : Setup) (bp : Pol) (b : Nat) (hwf : WF su bp b) : Inv2 su bp b (initNetBadPol su bp b) := by
  have hfl : (initNetBadPol su bp b).flight = (List.range su.n).foldl (fun acc q => insertSorted ((fun q => (q, Cmd.schedule (badPol su bp b q))) q) acc) [] := rfl
  have hact : ∀ p, (initNetBadPol su bp b).actors.getD p {} = {} := by
    intro p
    show (List.replicate su.n ({} : St)).getD p {} = {}
    rw [List.getD_eq_getElem?_getD, List.getElem?_replicate]; split <;> rfl
  have hbusy : ∀ p, (initNetBadPol su bp b).busy.getD p false = false := by
    intro p
    show (List.replicate su.n false).getD p false = false
    rw [List.getD_eq_getElem?_getD, List.getElem?_replicate]; split <;> rfl
  have hin : ∀ q, q < su.n → (q, Cmd.schedule (badPol su bp b q)) ∈ (initNetBadPol su bp b).flight := by
    intro q hq; rw [hfl, mem_foldl_insertSorted]; exact .inr ⟨q, by simpa using hq, rfl⟩
  refine ⟨fun p _ => hbusy p, fun _ => hbusy _, fun _ => ⟨hbusy _, by rw [hact], hin _ hwf.hl⟩, ?_, fun _ => .inl (hin _ hwf.hb), ?_, fun _ => by rw [hact]⟩
  · intro h; rw [hact] at h; exact absurd rfl h
  · intro h; rw [hact] at h; exact absurd rfl h

theorem successors_inv2 (su : Setup) (bp : Pol) (b : Nat) (hwf : WF su bp b) (net t : Net) (hI : Inv su bp b net) (hJ : Inv2 su bp b net)
    (h : t ∈ successors Cfg.current su net) : Inv2 su bp b t := by
  unfold successors at h
  rw [List.mem_eraseDups, List.mem_append, List.mem_filterMap, List.mem_filterMap] at h
  rcases h with ⟨k, _, hk⟩ | ⟨k, _, hk⟩
  · exact deliver_inv2 su bp b hwf net t k hI hJ hk
  · rw [failAt_none su net k hI.nofail] at hk; cases hk

theorem reach_inv (su : Setup) (bp : Pol) (b : Nat) (hwf : WF su bp b) (s : Net)
    (h : Reach (successors Cfg.current su) (initNetBadPol su bp b) s) : Inv su bp b s ∧ Inv2 su bp b s := by
  induction h with
  | init => exact ⟨initNetBad_inv su bp b, initNetBad_inv2 su bp b hwf⟩
  | step _ ht ih => exact ⟨successors_inv su bp b hwf _ _ ih.1 ht, successors_inv2 su bp b hwf _ _ ih.1 ih.2 ht⟩

theorem deliver_isSome (su : Setup) (net : Net) (k p : Nat) (c : Cmd) (hk : net.flight[k]? = some (p, c)) (hc : ∀ s ne, c ≠ .consts s ne)
    (hb : ¬(net.busy.getD p false = true ∧ (!isContinuation c) = true)) : (deliver Cfg.current su net k).isSome = true := by
  unfold deliver
  rw [hk]
  dsimp only
  rw [if_neg hb]
  cases c <;> first | rfl | exact absurd rfl (hc _ _)

theorem successors_of_deliverable (su : Setup) (net : Net) (x : Nat × Cmd) (hx : x ∈ net.flight) (hc : ∀ s ne, x.2 ≠ .consts s ne)
    (hb : ¬(net.busy.getD x.1 false = true ∧ (!isContinuation x.2) = true)) : successors Cfg.current su net ≠ [] := by
  obtain ⟨k, hk, rfl⟩ := List.getElem_of_mem hx
  have hs := deliver_isSome su net k _ _ (List.getElem?_eq_getElem hk) hc hb
  obtain ⟨t, ht⟩ := Option.isSome_iff_exists.mp hs
  intro he
  have : t ∈ successors Cfg.current su net := by
    unfold successors
    rw [List.mem_eraseDups, List.mem_append, List.mem_filterMap]
    exact .inl ⟨k, List.mem_range.mpr hk, ht⟩
  rw [he] at this; cases this

/-- **C16, any number of parties, the other half.**  In the scenario of `C16_general_mismatch_net`, in every reachable state:
    (1) if commands are in flight, one of them can be delivered (no stuck state);
    (2) if nothing is in flight, the leader's and `b`'s state machines have both stopped — and by the safety theorem neither schedule call
        was answered `Ok`, nobody executes and nothing was delivered: both calls have ended with an error. -/
theorem C16_general_mismatch_ends (su : Setup) (bp : Pol) (b : Nat) (hl : su.leader < su.n) (hb : b < su.n) (hne : b ≠ su.leader)
    (hwt : bp.wellTyped = true) (hpar : bp.party = b) (hnl : bp.leader ≠ b) (hmis : bp.leader ≠ su.leader ∨ bp.hash ≠ 42) (s : Net)
    (h : Reach (successors Cfg.current su) (initNetBadPol su bp b) s) :
    (s.flight ≠ [] → successors Cfg.current su s ≠ [])
    ∧ (s.flight = [] → (s.actors.getD su.leader {}).stopped = true ∧ (s.actors.getD b {}).stopped = true
        ∧ s.schedOk.getD su.leader 0 = 0 ∧ s.schedOk.getD b 0 = 0) := by
  obtain ⟨hI, hJ⟩ := reach_inv su bp b ⟨hl, hb, hne, hwt, hpar, hnl, hmis⟩ s h
  constructor
  · intro hne'
    by_cases hbz : s.busy.getD su.leader false = true
    · -- the leader awaits the validate replies: the failed-validation continuation, or a command of `b`, is deliverable
      have hns : (s.actors.getD su.leader {}).stopped = false := by
        cases hst : (s.actors.getD su.leader {}).stopped with
        | false => rfl
        | true => have := hJ.b2 hst; rw [hbz] at this; cases this
      have hph : (s.actors.getD su.leader {}).pol ≠ none := fun h0 => by have := (hJ.b3 h0).1; rw [hbz] at this; cases this
      have hbb : s.busy.getD b false = false := hJ.b1 b hne
      rcases hJ.l2 hph hns with h | ⟨_, h | ⟨_, h⟩⟩
      · exact successors_of_deliverable su s _ h (by simp [LV]) (by simp [LV, isContinuation])
      · exact successors_of_deliverable su s _ h (by simp [BV]) (by simp [BV, hbb])
      · exact successors_of_deliverable su s _ h (by simp [BS]) (by simp [BS, hbb])
    · -- nobody awaits anything: whatever is in flight can be delivered
      obtain ⟨x, xs, hx⟩ := List.exists_cons_of_ne_nil hne'
      have hxm : x ∈ s.flight := by rw [hx]; exact List.mem_cons_self
      have hokx := hI.fl x hxm
      refine successors_of_deliverable su s x hxm (by obtain ⟨q, c⟩ := x; cases c <;> simp_all [okCmd]) ?_
      by_cases hxl : x.1 = su.leader
      · rw [hxl]; intro hh; exact hbz hh.1
      · rw [hJ.b1 _ hxl]; simp
  · intro he
    have hph : (s.actors.getD su.leader {}).pol ≠ none := fun h0 => by have := (hJ.b3 h0).2.2; rw [he] at this; cases this
    have hls : (s.actors.getD su.leader {}).stopped = true := by
      cases hst : (s.actors.getD su.leader {}).stopped with
      | true => rfl
      | false =>
        rcases hJ.l2 hph hst with h | ⟨_, h | ⟨_, h⟩⟩ <;> (rw [he] at h; cases h)
    have hbs : (s.actors.getD b {}).stopped = true := by
      cases hst : (s.actors.getD b {}).stopped with
      | true => rfl
      | false =>
        rcases hJ.l3 hst with h | h
        · rw [he] at h; cases h
        · have := hJ.l4 hph hst (.inr h); rw [he] at this; cases this
    exact ⟨hls, hbs, hI.sched.2, hI.sched.1⟩

end PolytuneModel.Server
