import PolytuneModel.Thm.C13reach
/-! C13 — termination certificates (slow kernel evaluation: thorough tier). -/

namespace PolytuneModel.Server

/-! termination: a height function that strictly decreases along every transition between reachable states. -/

def lookupH (d : List (Net × Nat)) (t : Net) : Nat := ((d.find? (fun e => e.1 == t)).map (·.2)).getD 0

def relax (su : Setup) (all : List Net) (d : List (Net × Nat)) : List (Net × Nat) :=
  all.map fun s => (s, (successors Cfg.current su s).foldl (fun m t => max m (1 + lookupH d t)) 0)

def heights (su : Setup) (all : List Net) : Nat → List (Net × Nat)
  | 0 => all.map fun s => (s, 0)
  | k+1 => relax su all (heights su all k)

def heightOf (su : Setup) (s : Net) : Nat := lookupH (heights su (statesOf su) 40) s

def termCertificate (su : Setup) : Bool :=
  (statesOf su).all fun s => (successors Cfg.current su s).all fun t => decide (heightOf su t < heightOf su s)

theorem C13_n2_term_certificates : allSetups2'.all termCertificate = true := by decide +kernel

/-- **every history is finite:** along every transition out of a reachable state the height drops, so from a reachable
    state `s` at most `heightOf su s` further deliveries are possible — together with `C13_n2_reachable_ok`, every maximal
    history ends in a good final state. -/
theorem C13_n2_terminates (su : Setup) (hsu : su ∈ allSetups2') (s t : Net)
    (h : Reach (successors Cfg.current su) (initNet su) s) (ht : t ∈ successors Cfg.current su s) :
    heightOf su t < heightOf su s := by
  have hc : certificate su = true := List.all_eq_true.mp C13_n2_certificates su hsu
  simp only [certificate, Bool.and_eq_true, List.all_eq_true, List.contains_iff_mem] at hc
  obtain ⟨⟨hinit, hclosed⟩, _⟩ := hc
  have hmem := closed_covers _ _ _ hinit (fun a ha t ht => hclosed a ha t ht) s h
  have htc : termCertificate su = true := List.all_eq_true.mp C13_n2_term_certificates su hsu
  simp only [termCertificate, List.all_eq_true, decide_eq_true_eq] at htc
  exact htc s hmem t ht

end PolytuneModel.Server
