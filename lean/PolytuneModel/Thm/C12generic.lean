/-! C12 (generic part) — a system of sequential-parallel processes over bounded FIFO channels whose event graph
    admits a rank function cannot get stuck: in every state that has an unexecuted event, some event is enabled
    under the *queue* semantics (a send needs a free slot, a receive needs a buffered message).

    Events and channels are arbitrary types. `po a b` is the program order of one process. Every channel (ordered pair)
    has its sends and its receives listed in program order; the k-th send matches the k-th receive. -/
namespace PolytuneModel.Sched

structure Sys (C E : Type) where
  sends : C → List E                   -- events that send on channel c, in program order
  recvs : C → List E                   -- events that receive on channel c, in program order
  po    : E → E → Prop                 -- strict program order
  cap   : Nat                          -- channel capacity

variable {C E : Type}

/-- the causal edges of the event graph. -/
inductive Edge (S : Sys C E) : E → E → Prop
  | po {a b : E} : S.po a b → Edge S a b
  | sendOrder {c : C} {i j : Nat} {a b : E} : (S.sends c)[i]? = some a → (S.sends c)[j]? = some b → i < j → Edge S a b     -- PairSerial (sends)
  | recvOrder {c : C} {i j : Nat} {a b : E} : (S.recvs c)[i]? = some a → (S.recvs c)[j]? = some b → i < j → Edge S a b     -- PairSerial (receives)
  | matching {c : C} {k : Nat} {a b : E} : (S.sends c)[k]? = some a → (S.recvs c)[k]? = some b → Edge S a b                -- k-th send → k-th receive
  | capacity {c : C} {k : Nat} {a b : E} : (S.recvs c)[k]? = some a → (S.sends c)[k + S.cap]? = some b → Edge S a b        -- k-th receive → (k+cap)-th send

/-- a state: which events have been executed. -/
abbrev State (E : Type) := E → Bool

def countDone (d : State E) (l : List E) : Nat := l.countP (fun e => d e)
def inflight (S : Sys C E) (d : State E) (c : C) : Nat := countDone d (S.sends c) - countDone d (S.recvs c)

/-- queue semantics. -/
def EnabledSend (S : Sys C E) (d : State E) (c : C) (k : Nat) (e : E) : Prop :=
  (S.sends c)[k]? = some e ∧ d e = false ∧ (∀ a, S.po a e → d a = true) ∧ inflight S d c < S.cap
def EnabledRecv (S : Sys C E) (d : State E) (c : C) (k : Nat) (e : E) : Prop :=
  (S.recvs c)[k]? = some e ∧ d e = false ∧ (∀ a, S.po a e → d a = true) ∧ 0 < inflight S d c

/-- states closed under causes that are relevant for counting: on every channel the executed sends (receives)
    form a prefix of the program-order list. Reachable states have this property (sends/receives of one channel
    are totally ordered by program order and an event runs only after its program-order predecessors). -/
def PrefixClosed (d : State E) (l : List E) : Prop := ∀ (i j : Nat) (a b : E), l[i]? = some a → l[j]? = some b → i < j → d b = true → d a = true

theorem countDone_prefix (d : State E) (l : List E) (k : Nat) (e : E) (hk : l[k]? = some e) (he : d e = false)
    (hbefore : ∀ i a, i < k → l[i]? = some a → d a = true) (hpre : PrefixClosed d l) : countDone d l = k := by
  induction l generalizing k with
  | nil => simp at hk
  | cons x xs ih =>
    cases k with
    | zero =>
      simp at hk; subst hk
      -- nothing after an unexecuted head is executed
      have : ∀ b ∈ xs, d b = false := by
        intro b hb
        obtain ⟨j, hj⟩ := List.getElem?_of_mem hb
        cases hdb : d b with
        | false => rfl
        | true =>
          have := hpre 0 (j+1) x b (by simp) (by simpa using hj) (by omega) hdb
          simp [he] at this
      simp only [countDone, List.countP_cons, he]
      have h0 : xs.countP (fun e => d e) = 0 := by
        rw [List.countP_eq_zero]; intro b hb; simp [this b hb]
      simp [h0]
    | succ k =>
      have hx : d x = true := hbefore 0 x (by omega) (by simp)
      have hk' : xs[k]? = some e := by simpa using hk
      have hb' : ∀ i a, i < k → xs[i]? = some a → d a = true := fun i a hi ha => hbefore (i+1) a (by omega) (by simpa using ha)
      have hp' : PrefixClosed d xs := fun i j a b ha hb hij hd => hpre (i+1) (j+1) a b (by simpa using ha) (by simpa using hb) (by omega) hd
      have := ih k hk' hb' hp'
      simp only [countDone, List.countP_cons, hx] at this ⊢
      simp; exact this

theorem countDone_ge (d : State E) (l : List E) (k : Nat) (e : E) (hk : l[k]? = some e) (he : d e = true)
    (hpre : PrefixClosed d l) : k + 1 ≤ countDone d l := by
  induction l generalizing k with
  | nil => simp at hk
  | cons x xs ih =>
    cases k with
    | zero => simp at hk; subst hk; simp [countDone, List.countP_cons, he]
    | succ k =>
      have hk' : xs[k]? = some e := by simpa using hk
      have hx : d x = true := hpre 0 (k+1) x e (by simp) hk (by omega) he
      have hp' : PrefixClosed d xs := fun i j a b ha hb hij hd => hpre (i+1) (j+1) a b (by simpa using ha) (by simpa using hb) (by omega) hd
      have := ih k hk' hp'
      simp only [countDone, List.countP_cons, hx] at this ⊢
      simp; omega

/-- **Generic progress theorem.** If a rank strictly increases along every causal edge (so the event graph is
    acyclic), every channel's executed sends/receives form prefixes, and `e` is an unexecuted event of minimal
    rank that is the `k`-th send (resp. receive) of channel `c`, then `e` is enabled under the queue semantics. -/
theorem min_undone_send_enabled (S : Sys C E) (hcap : 0 < S.cap) (rank : E → Nat)
    (hrank : ∀ a b, Edge S a b → rank a < rank b) (d : State E)
    (hps : ∀ c, PrefixClosed d (S.sends c)) (hpr : ∀ c, PrefixClosed d (S.recvs c))
    (c : C) (k : Nat) (e : E) (hk : (S.sends c)[k]? = some e) (he : d e = false)
    (hmin : ∀ a, d a = false → rank e ≤ rank a)
    (hdual : ∀ c, (S.sends c).length = (S.recvs c).length) :
    EnabledSend S d c k e := by
  have smaller_done : ∀ a, Edge S a e → d a = true := by
    intro a hae
    cases hda : d a with
    | true => rfl
    | false => have := hmin a hda; have := hrank a e hae; omega
  refine ⟨hk, he, fun a ha => smaller_done a (.po ha), ?_⟩
  have hS : countDone d (S.sends c) = k :=
    countDone_prefix d _ k e hk he (fun i a hi ha => smaller_done a (.sendOrder ha hk hi)) (hps c)
  unfold inflight; rw [hS]
  by_cases hkc : k < S.cap
  · omega
  · -- the receive `cap` messages back is a cause of `e`, hence executed, hence enough receives are done
    have hk2 : k = (k - S.cap) + S.cap := by omega
    cases hr : (S.recvs c)[k - S.cap]? with
    | none =>
      exfalso
      have h1 : (S.recvs c).length ≤ k - S.cap := List.getElem?_eq_none_iff.mp hr
      have h2 : k < (S.sends c).length := by
        rcases Nat.lt_or_ge k (S.sends c).length with h | h
        · exact h
        · rw [List.getElem?_eq_none_iff.mpr h] at hk; cases hk
      have := hdual c; omega
    | some a =>
      have hda : d a = true := smaller_done a (by rw [hk2] at hk; exact .capacity hr hk)
      have := countDone_ge d (S.recvs c) (k - S.cap) a hr hda (hpr c)
      omega

theorem min_undone_recv_enabled (S : Sys C E) (rank : E → Nat)
    (hrank : ∀ a b, Edge S a b → rank a < rank b) (d : State E)
    (hps : ∀ c, PrefixClosed d (S.sends c)) (hpr : ∀ c, PrefixClosed d (S.recvs c))
    (c : C) (k : Nat) (e : E) (hk : (S.recvs c)[k]? = some e) (he : d e = false)
    (hmin : ∀ a, d a = false → rank e ≤ rank a)
    (hdual : ∀ c, (S.sends c).length = (S.recvs c).length) :
    EnabledRecv S d c k e := by
  have smaller_done : ∀ a, Edge S a e → d a = true := by
    intro a hae
    cases hda : d a with
    | true => rfl
    | false => have := hmin a hda; have := hrank a e hae; omega
  refine ⟨hk, he, fun a ha => smaller_done a (.po ha), ?_⟩
  have hR : countDone d (S.recvs c) = k :=
    countDone_prefix d _ k e hk he (fun i a hi ha => smaller_done a (.recvOrder ha hk hi)) (hpr c)
  unfold inflight; rw [hR]
  cases hs : (S.sends c)[k]? with
  | none =>
    exfalso
    have h1 : (S.sends c).length ≤ k := List.getElem?_eq_none_iff.mp hs
    have h2 : k < (S.recvs c).length := by
      rcases Nat.lt_or_ge k (S.recvs c).length with h | h
      · exact h
      · rw [List.getElem?_eq_none_iff.mpr h] at hk; cases hk
    have := hdual c; omega
  | some a =>
    have hda : d a = true := smaller_done a (.matching hs hk)
    have := countDone_ge d (S.sends c) k a hs hda (hps c)
    omega

end PolytuneModel.Sched
