import PolytuneModel.Thm.C01
import PolytuneModel.Thm.C10
/-! the link between C10 and C01: what `beaver_aand` delivers is what the online phase needs. -/
namespace PolytuneModel
theorem andOK_of_beaver (n : Nat) (c : Coins) (s : St) (a b : Nat) (ta tb tc : Nat → Share) (d e : Bool)
    (h : IsAnd n c.Δ ta tb tc) (va : Valid n c.Δ (fun q => s.sh q a)) (vb : Valid n c.Δ (fun q => s.sh q b))
    (hd : d = (xorBit n ta != xorBit n (fun q => s.sh q a))) (he : e = (xorBit n tb != xorBit n (fun q => s.sh q b)))
    (hab : c.ab s.a = beaverOut ta tc (fun q => s.sh q b) d e) : AndOK n c s a b := by
  have := (C10_beaver n c.Δ ta tb tc (fun q => s.sh q a) (fun q => s.sh q b) h va vb d e hd he).rel
  apply andOK_of_rel
  simpa [xorBit, hab] using this
end PolytuneModel
