import PolytuneModel.Server.Step
/-! C17 — the leader concurrency limit as a counting invariant. A host's `Semaphore` with `cap` permits is shared by all policies
    scheduled on that host; a leader acquires one permit inside `schedule` (the actor blocks there while none is available) and
    the permit is dropped when the actor stops or when the MPC task ends. `Host` abstracts exactly that: a counter and the list
    of policies currently holding a permit. The tie is the C17 harness' batch scenario (`avail` snapshot at every actor step). -/
namespace PolytuneModel.Sem

structure Host where
  cap     : Nat
  avail   : Nat
  holders : List Nat      -- policy ids that hold a permit of this host
deriving Repr

inductive Ev
  | acquire (p : Nat)     -- `acquire_owned().await` of policy p completes (only possible when a permit is available)
  | release (p : Nat)     -- policy p's permit is dropped (actor stopped, MPC task ended, cancelled)
deriving Repr

def step (h : Host) : Ev → Host
  | .acquire p => if 0 < h.avail ∧ p ∉ h.holders then { h with avail := h.avail - 1, holders := p :: h.holders } else h
  | .release p => if p ∈ h.holders then { h with avail := h.avail + 1, holders := h.holders.erase p } else h

structure Inv (h : Host) : Prop where
  count : h.avail + h.holders.length = h.cap
  nodup : h.holders.Nodup

theorem inv_init (cap : Nat) : Inv ⟨cap, cap, []⟩ := ⟨by simp, by simp⟩

theorem step_inv (h : Host) (e : Ev) (hi : Inv h) : Inv (step h e) := by
  cases e with
  | acquire p =>
    simp only [step]
    by_cases hc : 0 < h.avail ∧ p ∉ h.holders
    · simp only [hc, and_self, if_true]
      exact ⟨by have := hi.count; simp; omega, List.nodup_cons.mpr ⟨hc.2, hi.nodup⟩⟩
    · simp only [hc, if_false]; exact hi
  | release p =>
    simp only [step]
    by_cases hc : p ∈ h.holders
    · simp only [hc, if_true]
      refine ⟨?_, hi.nodup.erase p⟩
      have hl := List.length_erase_of_mem hc
      have hpos : 0 < h.holders.length := List.length_pos_of_mem hc
      have := hi.count; simp only [hl]; omega
    · simp only [hc, if_false]; exact hi

theorem step_cap (h : Host) (e : Ev) : (step h e).cap = h.cap := by
  cases e <;> simp only [step] <;> split <;> rfl

/-- **C17_bound** — for every history of acquisitions and releases (any number of policies, any order), the number of
    computations holding a permit of the host never exceeds its configured concurrency, and permits are conserved. -/
theorem C17_bound (cap : Nat) (evs : List Ev) :
    let h := evs.foldl step ⟨cap, cap, []⟩
    h.holders.length ≤ cap ∧ h.avail + h.holders.length = cap := by
  have key : ∀ (evs : List Ev) (h : Host), Inv h → Inv (evs.foldl step h) ∧ (evs.foldl step h).cap = h.cap := by
    intro evs
    induction evs with
    | nil => intro h hi; exact ⟨hi, rfl⟩
    | cons e rest ih => intro h hi; have := ih (step h e) (step_inv h e hi); exact ⟨this.1, by simp only [List.foldl_cons]; rw [this.2, step_cap]⟩
  have := key evs ⟨cap, cap, []⟩ (inv_init cap)
  simp only at this
  have hc := this.1.count; rw [this.2] at hc
  exact ⟨by omega, hc⟩

/-- **no leak** — once every policy that acquired a permit has released it, the whole budget is available again. -/
theorem C17_all_released (cap : Nat) (evs : List Ev) (h0 : (evs.foldl step ⟨cap, cap, []⟩).holders = []) :
    (evs.foldl step ⟨cap, cap, []⟩).avail = cap := by
  have := (C17_bound cap evs).2; simp only [h0, List.length_nil, Nat.add_zero] at this; exact this

/-- a blocked acquisition changes nothing (the actor waits): with no permit available `acquire` is the identity. -/
theorem acquire_blocked (h : Host) (p : Nat) (h0 : h.avail = 0) : step h (.acquire p) = h := by simp [step, h0]

example : (([.acquire 1, .acquire 2, .acquire 3, .release 1, .acquire 3] : List Ev).foldl step ⟨2, 2, []⟩).holders = [3, 2] := by decide

end PolytuneModel.Sem
