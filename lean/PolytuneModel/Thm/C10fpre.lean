import PolytuneModel.Proto.Fpre
import PolytuneModel.Thm.C10
/-! C10 for the trusted-dealer provider (`fpre.rs`): whatever the dealer samples, the shares it hands out satisfy the
    authenticated-share relation for every ordered pair of parties, and the AND shares it returns for valid requests
    form an authenticated AND triple.  Any number of parties. -/
namespace PolytuneModel

/-- **the dealer's shares are valid**, for every choice of global keys, bits and keys. -/
theorem C10_fpre_dealer_valid (n : Nat) (Δ : Nat → V) (bits : Nat → Bool) (keys : Nat → Nat → V) :
    Valid n Δ (dealerShare Δ bits keys) where
  mac i j _ _ hij := by simp [dealerShare, hij, Ne.symm hij]
  own i _ := by simp [dealerShare]

theorem bsum_congr (n : Nat) (f g : Nat → Bool) (h : ∀ i, i < n → f i = g i) : bsum n f = bsum n g := by
  induction n with
  | zero => rfl
  | succ n ih => simp only [bsum]; rw [h n (Nat.lt_succ_self n), ih (fun i hi => h i (Nat.lt_succ_of_lt hi))]

/-- the AND bit shares XOR to `c` (at least one party). -/
theorem dealerAndBit_sum (n : Nat) (r : Nat → Bool) (c : Bool) (hn : 0 < n) : bsum n (dealerAndBit n r c) = c := by
  obtain ⟨m, rfl⟩ : ∃ m, n = m + 1 := ⟨n - 1, by omega⟩
  have h1 : dealerAndBit (m + 1) r c m = (bsum m r != c) := by simp [dealerAndBit]
  have h2 : bsum m (dealerAndBit (m + 1) r c) = bsum m r := by
    apply bsum_congr; intro i hi
    have hne : ¬ (i + 1 = m + 1) := by omega
    simp only [dealerAndBit, hne, if_false]
  simp only [bsum, h1, h2]
  cases bsum m r <;> cases c <;> rfl

/-- **the dealer's AND shares**: for valid requested shares `x`, `y` (the dealer verifies their MACs and reports cheating otherwise),
    the returned shares are valid and share `(⊕x) ∧ (⊕y)`. -/
theorem C10_fpre_dealer_and (n : Nat) (hn : 0 < n) (Δ : Nat → V) (x y : Nat → Share) (hx : Valid n Δ x) (hy : Valid n Δ y)
    (r : Nat → Bool) (keys : Nat → Nat → V) :
    IsAnd n Δ x y (dealerShare Δ (dealerAndBit n r (xorBit n x && xorBit n y)) keys) where
  vx := hx
  vy := hy
  vz := C10_fpre_dealer_valid n Δ _ keys
  rel := by
    have : xorBit n (dealerShare Δ (dealerAndBit n r (xorBit n x && xorBit n y)) keys) = bsum n (dealerAndBit n r (xorBit n x && xorBit n y)) := rfl
    rw [this, dealerAndBit_sum n r _ hn]

/-- what goes wrong if the dealer indexes its key table the other way round (`keys[i][j]` for the MAC): refuted for two parties. -/
def dealerShareSwapped (Δ : Nat → V) (bits : Nat → Bool) (keys : Nat → Nat → V) (i : Nat) : Share :=
  ⟨bits i, fun j => if i = j then 0 else keys i j ^^^ sc (bits i) (Δ j), fun j => if i = j then 0 else keys i j⟩
theorem C10_fpre_cex_swapped : ¬ Valid 2 (fun _ => 5) (dealerShareSwapped (fun _ => 5) (fun _ => false) (fun i j => BitVec.ofNat 128 (i + 2 * j))) := by
  intro h; have := h.mac 0 1 (by decide) (by decide) (by decide); revert this; decide

end PolytuneModel
