import PolytuneModel.Thm.C14netA
namespace PolytuneModel.Server
theorem C14_n2_cert_3 : straySetups.all (certificateStrayAt 3) = true := by decide +kernel
theorem C14_n2_cert_4 : straySetups.all (certificateStrayAt 4) = true := by decide +kernel
theorem C14_n2_cert_5 : straySetups.all (certificateStrayAt 5) = true := by decide +kernel
end PolytuneModel.Server
