import PolytuneModel.Server.Net
/-! C13 — compatible policies always run to exactly one correct result each: EVERY interleaving of the coordination commands
    (schedule arrivals, validate / run / consts RPCs, self-sent commands, compile completions), explored exhaustively by the
    kernel for the instances below. `report` returns (reachable states, terminal states, terminal states that are not good,
    stuck states); good = no error reply or panic anywhere, every actor stopped, every destination notified exactly once,
    no permit held. -/
namespace PolytuneModel.Server

theorem C13_n2_leader0 : (report Cfg.current ⟨2, 0, [true, true], [false, false]⟩ 60).2.2 = (0, 0) := by decide +kernel
theorem C13_n2_leader1_consts : (report Cfg.current ⟨2, 1, [true, false], [true, false]⟩ 60).2.2 = (0, 0) := by decide +kernel
theorem C13_n2_both_consts_no_dest : (report Cfg.current ⟨2, 0, [false, false], [true, true]⟩ 60).2.2 = (0, 0) := by decide +kernel
/-- the exploration is complete (the frontier is empty before the fuel runs out): more fuel finds nothing new. -/
theorem C13_n2_complete : (report Cfg.current ⟨2, 0, [true, true], [false, false]⟩ 61).1 = (report Cfg.current ⟨2, 0, [true, true], [false, false]⟩ 60).1 := by decide +kernel
/-- non-vacuity: a good terminal state is actually reached. -/
theorem C13_n2_reaches_end : (report Cfg.current ⟨2, 0, [true, true], [false, false]⟩ 60).2.1 = 1 := by decide +kernel

end PolytuneModel.Server
