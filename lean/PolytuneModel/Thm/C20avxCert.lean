import PolytuneModel.Prim.TransposeAvx
namespace PolytuneModel.Avx

/-! ### 1. the definitions commute with every homomorphism of bit algebras -/

structure IsHom {α β : Type} [BitAlg α] [BitAlg β] (h : α → β) : Prop where
  zero : h BitAlg.zero = BitAlg.zero
  xor : ∀ a b, h (BitAlg.xor a b) = BitAlg.xor (h a) (h b)

section hom
variable {α β : Type} [BitAlg α] [BitAlg β] (h : α → β)

def mapR (a : R α) : R β := fun q => h (a q)

variable {h} (hh : IsHom h)
include hh

theorem mapR_rxor (a b : R α) : mapR h (rxor a b) = rxor (mapR h a) (mapR h b) := by
  funext q; simp only [mapR, rxor, hh.xor]
theorem mapR_randc (m : Nat → Bool) (a : R α) : mapR h (randc m a) = randc m (mapR h a) := by
  funext q; simp only [mapR, randc]; split <;> simp [hh.zero]
theorem mapR_slli (w s : Nat) (a : R α) : mapR h (slli w s a) = slli w s (mapR h a) := by
  funext q; simp only [mapR, slli]; split <;> simp [hh.zero]
theorem mapR_srli (w s : Nat) (a : R α) : mapR h (srli w s a) = srli w s (mapR h a) := by
  funext q; simp only [mapR, srli]; split <;> simp [hh.zero]
omit hh [BitAlg α] [BitAlg β] in
theorem mapR_perm20 (x y : R α) : mapR h (perm20 x y) = perm20 (mapR h x) (mapR h y) := by
  funext q; simp only [mapR, perm20]; split <;> rfl
omit hh [BitAlg α] [BitAlg β] in
theorem mapR_perm31 (x y : R α) : mapR h (perm31 x y) = perm31 (mapR h x) (mapR h y) := by
  funext q; simp only [mapR, perm31]; split <;> rfl
omit hh [BitAlg α] [BitAlg β] in
theorem mapR_unpacklo64 (x y : R α) : mapR h (unpacklo64 x y) = unpacklo64 (mapR h x) (mapR h y) := by
  funext q; simp only [mapR, unpacklo64]; split <;> rfl
omit hh [BitAlg α] [BitAlg β] in
theorem mapR_unpackhi64 (x y : R α) : mapR h (unpackhi64 x y) = unpackhi64 (mapR h x) (mapR h y) := by
  funext q; simp only [mapR, unpackhi64]; split <;> rfl

/-- a pair function commutes with `h` -/
def Commutes (f : ∀ {γ : Type} [BitAlg γ], R γ → R γ → R γ × R γ) : Prop :=
  ∀ x y : R α, (mapR h (f x y).1, mapR h (f x y).2) = f (mapR h x) (mapR h y)

theorem t2x2_commutes : Commutes (α := α) (β := β) (h := h) (fun {γ} [BitAlg γ] => @t2x2 γ _) := by
  intro x y
  simp only [t2x2, mapR_perm20, mapR_perm31, mapR_rxor hh, mapR_randc hh, mapR_slli hh, mapR_srli hh]
theorem pswap_commutes (shift m : Nat) : Commutes (α := α) (β := β) (h := h) (fun {γ} [BitAlg γ] => @pswap γ _ shift m) := by
  intro x y
  simp only [pswap, mapR_rxor hh, mapR_randc hh, mapR_slli hh, mapR_srli hh]
omit hh in
theorem pswap64_commutes : Commutes (α := α) (β := β) (h := h) (fun {γ} [BitAlg γ] => @pswap64 γ) := by
  intro x y
  simp only [pswap64, mapR_unpacklo64, mapR_unpackhi64]
end hom

/-! ### 2. symbolic bits: XOR-combinations of input positions, kept as sorted lists with cancellation -/

def cins (x : Nat) : List Nat → List Nat
  | [] => [x]
  | y :: ys => if x < y then x :: y :: ys else if x = y then ys else y :: cins x ys
def sxor (a b : List Nat) : List Nat := a.foldr cins b

abbrev Sym := List Nat
instance : BitAlg Sym := ⟨[], sxor⟩

def ev (ρ : Nat → Bool) (l : List Nat) : Bool := l.foldr (fun i acc => ρ i != acc) false

theorem ev_cins (ρ : Nat → Bool) (x : Nat) (l : List Nat) : ev ρ (cins x l) = (ρ x != ev ρ l) := by
  induction l with
  | nil => rfl
  | cons y ys ih =>
    simp only [cins]
    split
    · rfl
    · split
      · rename_i h; subst h; simp [ev]
      · simp only [ev, List.foldr_cons] at ih ⊢
        rw [ih]; cases ρ x <;> cases ρ y <;> simp

theorem ev_sxor (ρ : Nat → Bool) (a b : List Nat) : ev ρ (sxor a b) = (ev ρ a != ev ρ b) := by
  induction a with
  | nil => simp [sxor, ev]
  | cons x xs ih =>
    have : sxor (x :: xs) b = cins x (sxor xs b) := rfl
    rw [this, ev_cins, ih]
    simp only [ev, List.foldr_cons]
    cases ρ x <;> simp

theorem ev_isHom (ρ : Nat → Bool) : IsHom (α := Sym) (β := Bool) (ev ρ) :=
  ⟨rfl, fun a b => ev_sxor ρ a b⟩

/-! ### 3. one pair function on concrete registers, read off its symbolic evaluation -/

/-- a pair function, polymorphic in the bit algebra -/
abbrev PF := ∀ {γ : Type} [BitAlg γ], R γ → R γ → R γ × R γ

def symX : R Sym := fun q => [2 * q]
def symY : R Sym := fun q => [2 * q + 1]
/-- the assignment that reads symbolic position `2q` as bit `q` of `x` and `2q+1` as bit `q` of `y` -/
def pick (x y : R Bool) (i : Nat) : Bool := if i % 2 = 0 then x (i / 2) else y (i / 2)

theorem mapR_symX (x y : R Bool) : mapR (ev (pick x y)) symX = x := by
  funext q
  have h1 : 2 * q % 2 = 0 := by omega
  have h2 : 2 * q / 2 = q := by omega
  simp [mapR, symX, ev, pick, h1, h2]
theorem mapR_symY (x y : R Bool) : mapR (ev (pick x y)) symY = y := by
  funext q
  have h1 : (2 * q + 1) % 2 = 1 := by omega
  have h2 : (2 * q + 1) / 2 = q := by omega
  simp [mapR, symY, ev, pick, h1, h2]

theorem pair_concrete (f : PF) (hf : ∀ ρ, Commutes (α := Sym) (β := Bool) (h := ev ρ) f) (x y : R Bool) (q : Nat) :
    (f x y).1 q = ev (pick x y) ((f symX symY).1 q) ∧ (f x y).2 q = ev (pick x y) ((f symX symY).2 q) := by
  have h := hf (pick x y) symX symY
  rw [mapR_symX, mapR_symY] at h
  constructor
  · have := congrArg (fun p => p.1 q) h; simpa [mapR] using this.symm
  · have := congrArg (fun p => p.2 q) h; simpa [mapR] using this.symm

def idx1 (f : PF) (q : Nat) : Nat := ((f symX symY).1 q).headD 0
def idx2 (f : PF) (q : Nat) : Nat := ((f symX symY).2 q).headD 0
/-- every output bit of the pair function is exactly ONE input bit (checked by evaluation for all 2·256 output positions) -/
def Sing (f : PF) : Prop := ∀ q < 256, (f symX symY).1 q = [idx1 f q] ∧ (f symX symY).2 q = [idx2 f q]

theorem pair_select (f : PF) (hf : ∀ ρ, Commutes (α := Sym) (β := Bool) (h := ev ρ) f) (hs : Sing f) (x y : R Bool) (q : Nat) (hq : q < 256) :
    (f x y).1 q = pick x y (idx1 f q) ∧ (f x y).2 q = pick x y (idx2 f q) := by
  obtain ⟨h1, h2⟩ := pair_concrete f hf x y q
  obtain ⟨s1, s2⟩ := hs q hq
  rw [h1, h2, s1, s2]
  simp [ev]

/-! ### 4. a loop over disjoint register pairs -/

def comps (ps : List (Nat × Nat)) : List Nat := ps.flatMap fun ab => [ab.1, ab.2]

theorem fold_pairs {α : Type} (f : R α → R α → R α × R α) (ps : List (Nat × Nat)) (s : Regs α) (r : Nat) (hnd : (comps ps).Nodup) :
    (ps.foldl (fun s ab => upd2 s ab.1 ab.2 (f (s ab.1) (s ab.2))) s) r
      = match ps.find? (fun ab => ab.1 == r || ab.2 == r) with
        | some ab => if r = ab.1 then (f (s ab.1) (s ab.2)).1 else (f (s ab.1) (s ab.2)).2
        | none => s r := by
  induction ps generalizing s with
  | nil => rfl
  | cons ab ps ih =>
    obtain ⟨a, b⟩ := ab
    have hnd' : (a :: b :: comps ps).Nodup := by simpa [comps] using hnd
    have hab : a ≠ b := by intro h; subst h; simp at hnd'
    have ha : a ∉ comps ps := by intro h; have := List.nodup_cons.mp hnd'; exact this.1 (List.mem_cons_of_mem _ h)
    have hb : b ∉ comps ps := by intro h; have := List.nodup_cons.mp (List.nodup_cons.mp hnd').2; exact this.1 h
    have hps : (comps ps).Nodup := (List.nodup_cons.mp (List.nodup_cons.mp hnd').2).2
    have hmem : ∀ cd ∈ ps, cd.1 ∈ comps ps ∧ cd.2 ∈ comps ps := by
      intro cd hcd
      constructor <;> (apply List.mem_flatMap.mpr; exact ⟨cd, hcd, by simp⟩)
    simp only [List.foldl_cons]
    rw [ih _ hps]
    by_cases hra : r = a
    · subst hra
      have hnone : ps.find? (fun cd => cd.1 == r || cd.2 == r) = none := by
        apply List.find?_eq_none.mpr
        intro cd hcd
        have := hmem cd hcd
        simp only [Bool.or_eq_true, beq_iff_eq, not_or]
        exact ⟨fun h => ha (h ▸ this.1), fun h => ha (h ▸ this.2)⟩
      simp [hnone, List.find?_cons, upd2]
    · by_cases hrb : r = b
      · subst hrb
        have hnone : ps.find? (fun cd => cd.1 == r || cd.2 == r) = none := by
          apply List.find?_eq_none.mpr
          intro cd hcd
          have := hmem cd hcd
          simp only [Bool.or_eq_true, beq_iff_eq, not_or]
          exact ⟨fun h => hb (h ▸ this.1), fun h => hb (h ▸ this.2)⟩
        have hne : ¬ a = r := fun h => hab h
        simp [hnone, List.find?_cons, upd2, hne, hra]
      · have hskip : ((a, b) :: ps).find? (fun cd => cd.1 == r || cd.2 == r) = ps.find? (fun cd => cd.1 == r || cd.2 == r) := by
          have : ¬ a = r := fun h => hra h.symm
          have : ¬ b = r := fun h => hrb h.symm
          simp [List.find?_cons, *]
        rw [hskip]
        cases hfind : ps.find? (fun cd => cd.1 == r || cd.2 == r) with
        | none => simp [upd2, hra, hrb]
        | some cd =>
          have hcd := List.mem_of_find?_eq_some hfind
          have ⟨h1, h2⟩ := hmem cd hcd
          have e1 : upd2 s a b (f (s a) (s b)) cd.1 = s cd.1 := by
            have : cd.1 ≠ a := fun h => ha (h ▸ h1)
            have : cd.1 ≠ b := fun h => hb (h ▸ h1)
            simp [upd2, *]
          have e2 : upd2 s a b (f (s a) (s b)) cd.2 = s cd.2 := by
            have : cd.2 ≠ a := fun h => ha (h ▸ h2)
            have : cd.2 ≠ b := fun h => hb (h ▸ h2)
            simp [upd2, *]
          simp only [e1, e2]

/-! ### 5. one loop of the algorithm, bit by bit -/

/-- facts about the pair list of one loop (decided by evaluation): no register occurs twice, and register `r` sits in the pair
    `(r, r+off)` if `r mod 2·off < off`, else in `(r-off, r)` -/
def PairsOK (off : Nat) : Prop :=
  (comps (pairs off)).Nodup ∧
  ∀ r < 64, (pairs off).find? (fun ab => ab.1 == r || ab.2 == r) = some (if r % (2 * off) < off then (r, r + off) else (r - off, r))

instance (off : Nat) : Decidable (PairsOK off) := by unfold PairsOK; infer_instance

theorem pairsOK_1 : PairsOK 1 := by decide +kernel
theorem pairsOK_2 : PairsOK 2 := by decide +kernel
theorem pairsOK_4 : PairsOK 4 := by decide +kernel
theorem pairsOK_8 : PairsOK 8 := by decide +kernel
theorem pairsOK_16 : PairsOK 16 := by decide +kernel
theorem pairsOK_32 : PairsOK 32 := by decide +kernel

theorem stage_reg {α : Type} [BitAlg α] (f : R α → R α → R α × R α) (off : Nat) (hoff : 0 < off) (hp : PairsOK off) (s : Regs α) (r : Nat) (hr : r < 64) :
    stage f off s r = if r % (2 * off) < off then (f (s r) (s (r + off))).1 else (f (s (r - off)) (s r)).2 := by
  unfold stage
  rw [fold_pairs f _ s r hp.1, hp.2 r hr]
  by_cases hc : r % (2 * off) < off
  · simp [hc]
  · have : r % (2 * off) ≤ r := Nat.mod_le _ _
    have hne : ¬ r = r - off := by omega
    simp [hc, hne]

/-- where bit `q` of register `r` comes from, one loop back; `i1`, `i2` say which input bit (position `2p`: bit `p` of the first
    register of the pair, `2p+1`: bit `p` of the second) each output bit of the pair function is -/
def pullI (i1 i2 : Nat → Nat) (off : Nat) (rq : Nat × Nat) : Nat × Nat :=
  if rq.1 % (2 * off) < off then (if i1 rq.2 % 2 = 0 then rq.1 else rq.1 + off, i1 rq.2 / 2)
  else (if i2 rq.2 % 2 = 0 then rq.1 - off else rq.1, i2 rq.2 / 2)

/-- the closed forms `i1`, `i2` agree with the symbolic evaluation of the pair function (checked at all 256 positions) -/
def IdxOK (f : PF) (i1 i2 : Nat → Nat) : Prop := ∀ q < 256, idx1 f q = i1 q ∧ idx2 f q = i2 q

theorem stage_bit (f : PF) (hf : ∀ ρ, Commutes (α := Sym) (β := Bool) (h := ev ρ) f) (hs : Sing f) (i1 i2 : Nat → Nat) (hi : IdxOK f i1 i2)
    (off : Nat) (hoff : 0 < off) (hp : PairsOK off) (s : Regs Bool) (r q : Nat) (hr : r < 64) (hq : q < 256) :
    stage f off s r q = s (pullI i1 i2 off (r, q)).1 (pullI i1 i2 off (r, q)).2 := by
  rw [stage_reg f off hoff hp s r hr]
  unfold pullI
  obtain ⟨e1, e2⟩ := hi q hq
  split
  · rw [(pair_select f hf hs _ _ q hq).1, e1]; unfold pick; split <;> rfl
  · rw [(pair_select f hf hs _ _ q hq).2, e2]; unfold pick; split <;> rfl

instance (f : PF) : Decidable (Sing f) := by unfold Sing; infer_instance

theorem sing_t2x2 : Sing (fun {γ} [BitAlg γ] => @t2x2 γ _) := by decide +kernel
theorem sing_pswap1 : Sing (fun {γ} [BitAlg γ] => @pswap γ _ 2 (maskN 1)) := by decide +kernel
theorem sing_pswap2 : Sing (fun {γ} [BitAlg γ] => @pswap γ _ 4 (maskN 2)) := by decide +kernel
theorem sing_pswap3 : Sing (fun {γ} [BitAlg γ] => @pswap γ _ 8 (maskN 3)) := by decide +kernel
theorem sing_pswap4 : Sing (fun {γ} [BitAlg γ] => @pswap γ _ 16 (maskN 4)) := by decide +kernel
theorem sing_pswap5 : Sing (fun {γ} [BitAlg γ] => @pswap γ _ 32 (maskN 5)) := by decide +kernel
theorem sing_pswap64 : Sing (fun {γ} [BitAlg γ] => @pswap64 γ) := by decide +kernel

/-! ### 6. the seven loops composed -/

abbrev F0 : PF := fun {γ} [BitAlg γ] => @t2x2 γ _
abbrev F1 : PF := fun {γ} [BitAlg γ] => @pswap γ _ 2 (maskN 1)
abbrev F2 : PF := fun {γ} [BitAlg γ] => @pswap γ _ 4 (maskN 2)
abbrev F3 : PF := fun {γ} [BitAlg γ] => @pswap γ _ 8 (maskN 3)
abbrev F4 : PF := fun {γ} [BitAlg γ] => @pswap γ _ 16 (maskN 4)
abbrev F5 : PF := fun {γ} [BitAlg γ] => @pswap γ _ 32 (maskN 5)
abbrev F6 : PF := fun {γ} [BitAlg γ] => @pswap64 γ

instance (f : PF) (i1 i2 : Nat → Nat) : Decidable (IdxOK f i1 i2) := by unfold IdxOK; infer_instance

/-- 2×2 step: both rows of a 2×2 block live in ONE register (low and high lane) -/
def a1 (q : Nat) : Nat := if q < 128 then (if q % 2 = 1 then 2 * (q + 127) else 2 * q) else (if q % 2 = 0 then 2 * (q - 127) else 2 * q)
def a2 (q : Nat) : Nat := if q < 128 then (if q % 2 = 1 then 2 * (q + 127) + 1 else 2 * q + 1) else (if q % 2 = 0 then 2 * (q - 127) + 1 else 2 * q + 1)
/-- swap step with shift `sh = 2^N`: the mask selects the positions whose bit `N` (within the 64-bit element) is set -/
def b1 (sh q : Nat) : Nat := if q % 64 / sh % 2 = 1 then 2 * (q - sh) + 1 else 2 * q
def b2 (sh q : Nat) : Nat := if q % 64 / sh % 2 = 0 then 2 * (q + sh) else 2 * q + 1
/-- 64×64 step -/
def c1 (q : Nat) : Nat := if q % 128 < 64 then 2 * (q / 128 * 128 + q % 64) else 2 * (q / 128 * 128 + q % 64) + 1
def c2 (q : Nat) : Nat := if q % 128 < 64 then 2 * (q / 128 * 128 + 64 + q % 64) else 2 * (q / 128 * 128 + 64 + q % 64) + 1

theorem idx_F0 : IdxOK F0 a1 a2 := by decide +kernel
theorem idx_F1 : IdxOK F1 (b1 2) (b2 2) := by decide +kernel
theorem idx_F2 : IdxOK F2 (b1 4) (b2 4) := by decide +kernel
theorem idx_F3 : IdxOK F3 (b1 8) (b2 8) := by decide +kernel
theorem idx_F4 : IdxOK F4 (b1 16) (b2 16) := by decide +kernel
theorem idx_F5 : IdxOK F5 (b1 32) (b2 32) := by decide +kernel
theorem idx_F6 : IdxOK F6 c1 c2 := by decide +kernel

def InR (rq : Nat × Nat) : Bool := decide (rq.1 < 64) && decide (rq.2 < 256)

/-- where bit `q` of register `r` of the result comes from in the input, following the loops backwards; `none` if a position left the
    register file on the way (it never does) -/
def pullAll (rq : Nat × Nat) : Option (Nat × Nat) :=
  let p6 := pullI c1 c2 32 rq
  if !InR p6 then none else
  let p5 := pullI (b1 32) (b2 32) 16 p6
  if !InR p5 then none else
  let p4 := pullI (b1 16) (b2 16) 8 p5
  if !InR p4 then none else
  let p3 := pullI (b1 8) (b2 8) 4 p4
  if !InR p3 then none else
  let p2 := pullI (b1 4) (b2 4) 2 p3
  if !InR p2 then none else
  let p1 := pullI (b1 2) (b2 2) 1 p2
  if !InR p1 then none else
  some (pullI a1 a2 1 p1)

/-- row `row`, column `col` of the 128×128 square: register `row/2`, lane `row%2`, bit `col` of the lane -/
def pos (row col : Nat) : Nat × Nat := (row / 2, row % 2 * 128 + col)

/-- **the certificate:** for each of the 16 384 bit positions of the result, the chain of loops leads back to the transposed position -/
theorem pullAll_transposes : ∀ row < 128, ∀ col < 128, pullAll (pos row col) = some (pos col row) := by decide +kernel

end PolytuneModel.Avx
