/-! C15 — cancel in state `Executing`: the actor (inside `cancel()`) and the spawned MPC task (a `select!` over the computation and
    `cancel.notified()`), under every interleaving.

    Model of `tokio::sync::Notify`: at most one stored permit; `notify_one` wakes a registered waiter or else stores a permit;
    `notified().await` consumes a stored permit immediately or else registers as waiter. Model of a `oneshot` acknowledgement:
    the receiver resolves once the sender has sent or has been dropped.

    * `Design.pinned`  — the tree as it was: ONE `Notify` used in both directions (request and acknowledgement).
    * `Design.current` — the tree as it is (fix commit "cancel during execution waits for the task's acknowledgement"):
      the request travels on the `Notify`, the acknowledgement on a separate `oneshot` whose sender lives in the task, so it
      also resolves when the task has already finished with the real result.

    The task may at any moment before it is woken complete the computation (deliver the real result, release the permit, drop the
    acknowledgement sender); when it has been woken AND the computation is complete at the same poll, `select!` may take either
    branch — both are transitions of the model. -/
namespace PolytuneModel.Cancel

inductive Design | pinned | current deriving DecidableEq, Repr

structure S where
  permit        : Bool := false    -- stored permit of the request `Notify`
  taskWaits     : Bool := false    -- the task's `cancel.notified()` is registered (first poll of the `select!` happened)
  taskWoken     : Bool := false    -- … and has been notified
  taskEnded     : Bool := false    -- the `select!` has completed (either branch); futures dropped, permit of the semaphore released
  actorPc       : Nat := 0         -- 0: before notify_one, 1: before awaiting the acknowledgement, 2: waiting, 3: replied Ok and stopped
  actorWoken    : Bool := false    -- pinned design: the task's `notify_one` reached the actor
  ackResolved   : Bool := false    -- current design: the oneshot has been sent on or dropped
  cancelledSent : Nat := 0         -- `Cancelled` notifications sent to the destination
  resultSent    : Nat := 0         -- real results sent to the destination
  semPermitHeld : Bool := true     -- the leader's concurrency permit (moved into the computation future)
deriving DecidableEq, Repr

inductive Who | actor | taskCancel | taskFinish deriving DecidableEq, Repr

def step (d : Design) (s : S) : Who → Option S
  | .actor =>
    match s.actorPc with
    | 0 => -- cancel.notify_one()
      if s.taskWaits ∧ !s.taskWoken ∧ !s.taskEnded then some { s with taskWoken := true, actorPc := 1 } else some { s with permit := true, actorPc := 1 }
    | 1 =>
      match d with
      | .current => if s.ackResolved then some { s with actorPc := 3 } else some { s with actorPc := 2 }     -- `cancelled.await`
      | .pinned  =>                                                                                        -- `cancel.notified().await` on the SAME Notify
        if s.permit then some { s with permit := false, actorPc := 3 }        -- consumes ITS OWN permit
        else if s.actorWoken then some { s with actorPc := 3 } else some { s with actorPc := 2 }
    | 2 => if (d = .current ∧ s.ackResolved) ∨ (d = .pinned ∧ s.actorWoken) then some { s with actorPc := 3 } else none
    | _ => none
  | .taskCancel =>
    if s.taskEnded then none
    else if !s.taskWaits then
      -- first poll of the select!: a stored permit is consumed immediately, otherwise register
      if s.permit then some { s with permit := false, taskWoken := true, taskWaits := true } else some { s with taskWaits := true }
    else if s.taskWoken then
      -- cancel branch: futures dropped (permit released), send_cancel(...), then acknowledge
      some { s with taskEnded := true, semPermitHeld := false, cancelledSent := s.cancelledSent + 1,
                    actorWoken := (d = .pinned) || s.actorWoken, ackResolved := (d = .current) || s.ackResolved }
    else none
  | .taskFinish =>
    -- the computation completes: result delivered, permit released, `Stop` enqueued behind the cancel; the acknowledgement sender is dropped
    if s.taskEnded then none
    else some { s with taskEnded := true, taskWaits := true, semPermitHeld := false, resultSent := s.resultSent + 1, ackResolved := (d = .current) || s.ackResolved }

def succs (d : Design) (s : S) : List S := [step d s .actor, step d s .taskCancel, step d s .taskFinish].filterMap id

/-- all states reachable within `fuel` steps under every interleaving. -/
def reach (d : Design) : Nat → List S → List S
  | 0, acc => acc
  | f+1, acc => reach d f ((acc ++ acc.flatMap (succs d)).eraseDups)

/-- **C15-a (pinned tree):** there is an interleaving in which `cancel` has replied `Ok` (pc = 3) although neither a `Cancelled`
    notification nor a result has been sent and the permit is still held: the actor calls `notify_one` before the task first polls
    `notified()`, the permit is stored, and the actor's own `notified().await` consumes it. -/
theorem C15_cex_notify_self : ∃ s ∈ reach .pinned 6 [{}], s.actorPc = 3 ∧ s.cancelledSent = 0 ∧ s.resultSent = 0 ∧ s.semPermitHeld = true := by decide

/-- the pinned design can moreover hang: when the task has already finished, nobody ever acknowledges (pc stays 2 in a terminal state). -/
theorem C15_cex_pinned_stuck : ∃ s ∈ reach .pinned 6 [{}], succs .pinned s = [] ∧ s.actorPc = 2 := by decide

def okAtReply (s : S) : Bool := s.cancelledSent + s.resultSent == 1 && !s.semPermitHeld && s.taskEnded

/-- **Current design, safety:** in every reachable state in which cancel has replied `Ok`, the destination has been sent exactly one
    notification (`Cancelled`, or the real result if the run had already finished), the task has ended (so nothing is sent afterwards)
    and the leader's permit has been released. -/
theorem C15_current_sound : ∀ s ∈ reach .current 8 [{}], s.actorPc = 3 → okAtReply s = true := by decide
/-- never more than one notification, at any time. -/
theorem C15_current_at_most_one : ∀ s ∈ reach .current 8 [{}], s.cancelledSent + s.resultSent ≤ 1 := by decide
/-- **liveness:** the current design cannot get stuck before replying (every terminal state has pc = 3). -/
theorem C15_current_live : ∀ s ∈ reach .current 8 [{}], succs .current s = [] → s.actorPc = 3 := by decide
/-- 8 steps exhaust the state space (a ninth adds nothing), so the three statements above are about ALL reachable states. -/
theorem C15_fixpoint : (reach .current 9 [{}]).length = (reach .current 8 [{}]).length ∧ (reach .pinned 9 [{}]).length = (reach .pinned 8 [{}]).length := by decide

/-- generic closure lemma: a list closed under `succs` that contains the start contains everything reachable by any schedule. -/
inductive Reach (d : Design) : S → Prop
  | init : Reach d {}
  | step {s t} : Reach d s → t ∈ succs d s → Reach d t

def allStates : List S := reach .current 8 [{}]
theorem allStates_closed : ∀ s ∈ allStates, ∀ t ∈ succs .current s, t ∈ allStates := by decide
theorem allStates_init : ({} : S) ∈ allStates := by decide

/-- **C15 for the current design, over every schedule of any length** (not only the explored prefix). -/
theorem C15_current_all_schedules (s : S) (h : Reach .current s) :
    (s.actorPc = 3 → okAtReply s = true) ∧ s.cancelledSent + s.resultSent ≤ 1 ∧ (succs .current s = [] → s.actorPc = 3) := by
  have hmem : s ∈ allStates := by
    induction h with
    | init => exact allStates_init
    | step _ ht ih => exact allStates_closed _ ih _ ht
  exact ⟨C15_current_sound s hmem, C15_current_at_most_one s hmem, C15_current_live s hmem⟩

end PolytuneModel.Cancel
