/-! C15 — cancel in state `Executing`: the actor and the spawned MPC task talk through ONE `tokio::sync::Notify` used in both
    directions. Model of `Notify`: at most one stored permit; `notify_one` wakes a registered waiter or else stores a permit;
    `notified().await` consumes a stored permit immediately or else registers as waiter.  -/
namespace PolytuneModel.Cancel

structure S where
  permit      : Bool := false     -- stored permit of the Notify
  taskWaits   : Bool := false     -- the MPC task's `cancel.notified()` (inside `select!`) is registered
  taskWoken   : Bool := false
  taskDone    : Bool := false     -- task has sent `Cancelled` to the destination and called notify_one
  actorPc     : Nat := 0          -- 0: before notify_one, 1: before notified().await, 2: waiting, 3: replied Ok and stopped
  actorWoken  : Bool := false
  cancelledSent : Bool := false
deriving DecidableEq, Repr

inductive Who | actor | task deriving DecidableEq, Repr

/-- one scheduling step of the pinned design (`twoSignals = false`) or of the repaired one, in which the acknowledgement
    travels on a second, separate signal so that the actor can never consume its own notification. -/
def step (twoSignals : Bool) (s : S) : Who → Option S
  | .actor =>
    match s.actorPc with
    | 0 => -- cancel.notify_one()
      if s.taskWaits ∧ !s.taskWoken then some { s with taskWoken := true, actorPc := 1 } else some { s with permit := true, actorPc := 1 }
    | 1 => -- cancel.notified().await  (pinned: same Notify; repaired: a separate acknowledgement signal)
      if twoSignals then (if s.taskDone then some { s with actorPc := 3 } else some { s with actorPc := 2 })
      else if s.permit then some { s with permit := false, actorPc := 3 }        -- consumes ITS OWN permit
      else if s.actorWoken then some { s with actorPc := 3 } else some { s with actorPc := 2 }
    | 2 => if (twoSignals ∧ s.taskDone) ∨ (!twoSignals ∧ s.actorWoken) then some { s with actorPc := 3 } else none
    | _ => none
  | .task =>
    if s.taskDone then none
    else if !s.taskWaits ∧ !s.taskWoken then
      -- first poll of the select!: a stored permit is consumed immediately, otherwise register
      if s.permit then some { s with permit := false, taskWoken := true, taskWaits := true } else some { s with taskWaits := true }
    else if s.taskWoken then
      -- send_cancel(...) then cancel.notify_one()
      some { s with taskDone := true, cancelledSent := true, actorWoken := (if twoSignals then s.actorWoken else true) }
    else none

/-- all states reachable within `fuel` steps under every interleaving. -/
def reach (two : Bool) : Nat → List S → List S
  | 0, acc => acc
  | f+1, acc =>
    let next := acc.flatMap fun s => [step two s .actor, step two s .task].filterMap id
    reach two f ((acc ++ next).eraseDups)

/-- **C15-a (pinned tree):** there is an interleaving in which `cancel` has replied `Ok` (pc = 3) although no `Cancelled`
    notification was sent: the actor calls `notify_one` before the task first polls `notified()`, the permit is stored,
    and the actor's own `notified().await` consumes it. -/
theorem C15_cex_notify_self : ∃ s ∈ reach false 6 [{}], s.actorPc = 3 ∧ s.cancelledSent = false := by decide

/-- **Repaired design:** in every reachable state, a replied cancel implies that the destination has been notified. -/
theorem C15_two_signals_sound : ∀ s ∈ reach true 8 [{}], s.actorPc = 3 → s.cancelledSent = true := by decide
/-- … and the repaired design cannot get stuck before replying (every terminal state has pc = 3). -/
theorem C15_two_signals_live : ∀ s ∈ reach true 8 [{}], (step true s .actor = none ∧ step true s .task = none) → s.actorPc = 3 := by decide
/-- 8 steps exhaust the state space (a ninth adds nothing). -/
theorem C15_fixpoint : (reach true 9 [{}]).length = (reach true 8 [{}]).length ∧ (reach false 9 [{}]).length = (reach false 8 [{}]).length := by decide

end PolytuneModel.Cancel
