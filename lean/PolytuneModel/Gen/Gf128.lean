-- GENERATED from /repo/src/block/gf128.rs — do not edit
namespace PolytuneModel.Gen
def clmul64 (x : BitVec 64) (y : BitVec 64) : BitVec 128 :=
  let x0 := (((x &&& (1190112520884487201 : BitVec 64))).setWidth 128)
  let x1 := (((x &&& ((1190112520884487201 : BitVec 64) <<< 1))).setWidth 128)
  let x2 := (((x &&& ((1190112520884487201 : BitVec 64) <<< 2))).setWidth 128)
  let x3 := (((x &&& ((1190112520884487201 : BitVec 64) <<< 3))).setWidth 128)
  let x4 := (((x &&& ((1190112520884487201 : BitVec 64) <<< 4))).setWidth 128)
  let y0 := (((y &&& (1190112520884487201 : BitVec 64))).setWidth 128)
  let y1 := (((y &&& ((1190112520884487201 : BitVec 64) <<< 1))).setWidth 128)
  let y2 := (((y &&& ((1190112520884487201 : BitVec 64) <<< 2))).setWidth 128)
  let y3 := (((y &&& ((1190112520884487201 : BitVec 64) <<< 3))).setWidth 128)
  let y4 := (((y &&& ((1190112520884487201 : BitVec 64) <<< 4))).setWidth 128)
  let z0 := ((x0 * y0) ^^^ (x1 * y4) ^^^ (x2 * y3) ^^^ (x3 * y2) ^^^ (x4 * y1))
  let z1 := ((x0 * y1) ^^^ (x1 * y0) ^^^ (x2 * y4) ^^^ (x3 * y3) ^^^ (x4 * y2))
  let z2 := ((x0 * y2) ^^^ (x1 * y1) ^^^ (x2 * y0) ^^^ (x3 * y4) ^^^ (x4 * y3))
  let z3 := ((x0 * y3) ^^^ (x1 * y2) ^^^ (x2 * y1) ^^^ (x3 * y0) ^^^ (x4 * y4))
  let z4 := ((x0 * y4) ^^^ (x1 * y3) ^^^ (x2 * y2) ^^^ (x3 * y1) ^^^ (x4 * y0))
  let z0_1 := z0 &&& ((((((1190112520884487201 : BitVec 64)).setWidth 128) <<< 65) ||| (((1190112520884487201 : BitVec 64)).setWidth 128)) : BitVec 128)
  let z1_1 := z1 &&& (((((((1190112520884487201 : BitVec 64)).setWidth 128) <<< 65) ||| (((1190112520884487201 : BitVec 64)).setWidth 128)) : BitVec 128) <<< 1)
  let z2_1 := z2 &&& (((((((1190112520884487201 : BitVec 64)).setWidth 128) <<< 65) ||| (((1190112520884487201 : BitVec 64)).setWidth 128)) : BitVec 128) <<< 2)
  let z3_1 := z3 &&& (((((((1190112520884487201 : BitVec 64)).setWidth 128) <<< 65) ||| (((1190112520884487201 : BitVec 64)).setWidth 128)) : BitVec 128) <<< 3)
  let z4_1 := z4 &&& (((((((1190112520884487201 : BitVec 64)).setWidth 128) <<< 65) ||| (((1190112520884487201 : BitVec 64)).setWidth 128)) : BitVec 128) <<< 4)
  (z0_1 ||| z1_1 ||| z2_1 ||| z3_1 ||| z4_1)

def clmul128 (a : BitVec 128) (b : BitVec 128) : BitVec 128 × BitVec 128 :=
  let (a_low, a_high) := (((a).setWidth 64), (((a >>> 64)).setWidth 64))
  let (b_low, b_high) := (((b).setWidth 64), (((b >>> 64)).setWidth 64))
  let ab_low := (clmul64 a_low b_low)
  let ab_high := (clmul64 a_high b_high)
  let ab_mid := ((clmul64 ((a_low ^^^ a_high)) ((b_low ^^^ b_high))) ^^^ ab_low ^^^ ab_high)
  let low := (ab_low ^^^ (ab_mid <<< 64))
  let high := (ab_high ^^^ (ab_mid >>> 64))
  (low, high)

def shift_u128 (x : BitVec 128) (shift : BitVec 32) : BitVec 128 × BitVec 128 :=
  let overflow := (x >>> (((128 : BitVec 32) - shift)).toNat)
  let lower := (x <<< (shift).toNat)
  (overflow, lower)

def gf128_reduce (low : BitVec 128) (high : BitVec 128) : BitVec 128 :=
  let (ov7, lo7) := (shift_u128 high (7))
  let (ov2, lo2) := (shift_u128 high (2))
  let (ov1, lo1) := (shift_u128 high (1))
  let lo0 := high
  let combined_low := (lo7 ^^^ lo2 ^^^ lo1 ^^^ lo0)
  let combined_overflow := (ov7 ^^^ ov2 ^^^ ov1)
  let reduced_overflow := ((combined_overflow <<< 7) ^^^ (combined_overflow <<< 2) ^^^ (combined_overflow <<< 1) ^^^ combined_overflow)
  let poly_contrib := (combined_low ^^^ reduced_overflow)
  (low ^^^ poly_contrib)
end PolytuneModel.Gen
