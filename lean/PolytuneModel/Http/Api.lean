/-! `crates/polytune-http-server/src/api.rs` as a function: the registry of state-machine handles (`state_handles`), the five routes that
    reach a `PolicyStateHandle`, the mapping of `ApiError` to HTTP status codes, and the removal of a handle when its state machine
    finishes (the task spawned in `get_or_insert_handle`).  The state machine behind a handle is a parameter: what it answers is an
    input (`Reply`), its end an event (`finish`).  Import-free, executable. -/
namespace PolytuneModel.Http

inductive Route | schedule | validate | run | consts | msg
deriving DecidableEq, Repr

/-- what the `PolicyStateHandle` call returned. -/
inductive Reply
  | ok
  | policyErr          -- `HandleError::PolicyStateError(_)`: the state machine refused the command and lives on (or stops by itself)
  | stopped            -- `HandleError::StateMachineStopped`: the command channel is closed
deriving DecidableEq, Repr

inductive Resp | s200 | s400 | s404 | s500
deriving DecidableEq, Repr

/-- `state_handles`: the computation ids that have a registered handle. -/
abbrev Reg := List Nat

/-- `schedule` and `validate` go through `get_or_insert_handle`; `run`, `consts` and `msg` only look the handle up. -/
def Route.creates : Route → Bool
  | .schedule | .validate => true
  | _ => false

/-- `impl IntoResponse for ApiError`: the status code of an error reply, by route. -/
def errStatus : Route → Reply → Resp
  | _, .ok => .s200
  | _, .stopped => .s500                 -- ApiError::StateMachineStopped
  | .msg, .policyErr => .s500            -- ApiError::MpcMsg
  | _, .policyErr => .s400               -- ApiError::{Schedule, Validate, Run, Consts}

/-- one request: the registry afterwards, whether the handle was reached (then `reply` is what it returned), the response. -/
def serve (reg : Reg) (r : Route) (id : Nat) (reply : Reply) : Reg × Bool × Resp :=
  if id ∈ reg then (reg, true, errStatus r reply)
  else if r.creates then (id :: reg, true, errStatus r reply)
  else (reg, false, .s404)               -- ApiError::UnknownComputationId

/-- the state machine of `id` has finished: the spawned task removes the handle. -/
def finish (reg : Reg) (id : Nat) : Reg := reg.filter (· != id)

inductive Ev
  | req (r : Route) (id : Nat) (reply : Reply)
  | fin (id : Nat)
deriving Repr

def stepEv (reg : Reg) : Ev → Reg
  | .req r id reply => (serve reg r id reply).1
  | .fin id => finish reg id

def runEvs (reg : Reg) (evs : List Ev) : Reg := evs.foldl stepEv reg

end PolytuneModel.Http
