import PolytuneModel.Server.Step
/-! A network of `PolicyState` actors running ONE computation with compatible policies and reliable RPCs:
    every command in flight may be delivered next (any interleaving), except that an actor that is awaiting inside
    `handle_cmd` (the leader between `rpcValidateAll` and `leaderRunDone`, anybody between `compile` and `compiled`) only
    accepts its own continuation. Import-free, executable; used for exhaustive exploration of small instances. -/
namespace PolytuneModel.Server

deriving instance DecidableEq for St
deriving instance DecidableEq for Cmd

structure Net where
  actors   : List St
  busy     : List Bool                 -- actor is awaiting inside handle_cmd
  flight   : List (Nat × Cmd)          -- (target, command); kept sorted: delivery order is the explorer's choice
  waitVal  : Nat                       -- outstanding validate replies of the leader
  waitRun  : Nat                       -- outstanding run replies of the leader
  errors   : Nat                       -- error replies / panics seen anywhere
  outputs  : List Nat                  -- number of results delivered per party
  executing : List Bool
deriving DecidableEq, Repr

structure Setup where
  n      : Nat
  leader : Nat
  outs   : List Bool                   -- destination present?
  consts : List Bool                   -- party supplies (non-empty) constants; const_deps = number of such parties
deriving Repr

def cmdKey : Cmd → Nat
  | .schedule _ => 0 | .validate _ => 1 | .run false => 2 | .run true => 3 | .consts s _ => 10 + s | .internalConstsSent => 4
  | .mpcMsg _ => 5 | .stop => 6 | .cancel => 7 | .leaderValidated _ => 8 | .leaderPermit => 9 | .leaderRunDone _ => 30 | .compiled _ => 31

def insertSorted (x : Nat × Cmd) : List (Nat × Cmd) → List (Nat × Cmd)
  | [] => [x]
  | y :: ys => if x.1 * 100 + cmdKey x.2 ≤ y.1 * 100 + cmdKey y.2 then x :: y :: ys else y :: insertSorted x ys

def polOf (su : Setup) (p : Nat) : Pol :=
  ⟨p, su.leader, su.n, 42, true, su.outs.getD p false, su.consts.getD p false, (su.consts.filter id).length⟩

def initNet (su : Setup) : Net :=
  { actors := List.replicate su.n {}, busy := List.replicate su.n false,
    flight := (List.range su.n).foldl (fun acc p => insertSorted (p, .schedule (polOf su p)) acc) [],
    waitVal := 0, waitRun := 0, errors := 0, outputs := List.replicate su.n 0, executing := List.replicate su.n false }

def isContinuation : Cmd → Bool
  | .leaderValidated _ | .leaderPermit | .leaderRunDone _ | .compiled _ => true
  | _ => false

/-- interpret the effects of one actor step on the network. -/
def applyEff (su : Setup) (p : Nat) (net : Net) : Eff → Net
  | .rpcValidateAll =>
    { net with flight := ((List.range su.n).filter (· != p)).foldl (fun acc q => insertSorted (q, .validate ⟨42, su.leader⟩) acc) net.flight,
               waitVal := su.n - 1, busy := net.busy.set p true }
  | .reply "validate" ok _ =>
    if ok then (if net.waitVal = 1 then { net with waitVal := 0, flight := insertSorted (su.leader, .leaderValidated true) net.flight } else { net with waitVal := net.waitVal - 1 })
    else { net with errors := net.errors + 1, flight := insertSorted (su.leader, .leaderValidated false) net.flight }
  | .awaitPermit => { net with flight := insertSorted (p, .leaderPermit) net.flight }
  | .rpcRunAll =>
    { net with flight := ((List.range su.n).filter (· != p)).foldl (fun acc q => insertSorted (q, .run true) acc) net.flight, waitRun := su.n - 1 }
  | .reply "run" ok _ =>
    if ok then (if net.waitRun = 1 then { net with waitRun := 0, flight := insertSorted (su.leader, .leaderRunDone true) net.flight } else { net with waitRun := net.waitRun - 1 })
    else { net with errors := net.errors + 1, flight := insertSorted (su.leader, .leaderRunDone false) net.flight }
  | .reply _ ok _ => if ok then net else { net with errors := net.errors + 1 }
  | .replyDropped _ => { net with errors := net.errors + 1 }
  | .selfSend "Run" => { net with flight := insertSorted (p, .run false) net.flight }
  | .selfSend _ => { net with flight := insertSorted (p, .internalConstsSent) net.flight }
  | .spawnConstsTask =>
    { net with flight := insertSorted (p, .internalConstsSent) (((List.range su.n).filter (· != p)).foldl (fun acc q => insertSorted (q, .consts p true) acc) net.flight) }
  | .compile => { net with flight := insertSorted (p, .compiled true) net.flight, busy := net.busy.set p true }
  | .spawnMpcTask =>
    let ex := net.executing.set p true
    if ex.all id then
      -- the MPC completes at every party: result to the destinations, then Stop
      { net with executing := ex, outputs := (List.range su.n).map (fun q => net.outputs.getD q 0 + (if su.outs.getD q false then 1 else 0)),
                 flight := (List.range su.n).foldl (fun acc q => insertSorted (q, .stop) acc) net.flight }
    else { net with executing := ex }
  | .output _ => { net with outputs := net.outputs.set p (net.outputs.getD p 0 + 1), errors := net.errors + 1 }
  | .panic _ => { net with errors := net.errors + 1 }
  | .permitReleased | .stopActor => net

/-- deliver the k-th command in flight (if its target may accept it now). -/
def deliver (cfg : Cfg) (su : Setup) (net : Net) (k : Nat) : Option Net :=
  match net.flight[k]? with
  | none => none
  | some (p, c) =>
    if net.busy.getD p false ∧ !isContinuation c then none else
    let (s', effs) := step cfg (net.actors.getD p {}) c
    let net1 : Net := { net with actors := net.actors.set p s', flight := net.flight.eraseIdx k,
                                 busy := if (match c with | .leaderRunDone _ | .compiled _ | .leaderValidated false => true | _ => false) then net.busy.set p false else net.busy }
    some (effs.foldl (applyEff su p) net1)

def successors (cfg : Cfg) (su : Setup) (net : Net) : List Net :=
  ((List.range net.flight.length).filterMap (deliver cfg su net)).eraseDups

def explore (cfg : Cfg) (su : Setup) : Nat → List Net → List Net → List Net × List Net   -- (visited, frontier)
  | 0, vis, fr => (vis, fr)
  | f+1, vis, fr =>
    if fr.isEmpty then (vis, fr) else
    let next := (fr.flatMap (successors cfg su)).eraseDups.filter (fun x => !vis.contains x && !fr.contains x)
    explore cfg su f (vis ++ fr) next

def terminal (net : Net) : Bool := net.flight.isEmpty
def good (su : Setup) (net : Net) : Bool :=
  net.errors == 0 && net.actors.all (·.stopped) && (List.range su.n).all (fun p => net.outputs.getD p 0 == (if su.outs.getD p false then 1 else 0))
  && net.actors.all (fun s => !s.permit)

/-- all reachable states; stuck = no successor although commands are in flight. -/
def report (cfg : Cfg) (su : Setup) (fuel : Nat) : Nat × Nat × Nat × Nat :=
  let (vis, fr) := explore cfg su fuel [] [initNet su]
  let all := vis ++ fr
  let terms := all.filter terminal
  let stuck := all.filter fun x => !terminal x && (successors cfg su x).isEmpty
  (all.length, terms.length, (terms.filter (fun x => !good su x)).length, stuck.length)

end PolytuneModel.Server
