import PolytuneModel.Server.Step
/-! A network of `PolicyState` actors running ONE computation with compatible policies and reliable RPCs:
    every command in flight may be delivered next (any interleaving), except that an actor that is awaiting inside
    `handle_cmd` (the leader between `rpcValidateAll` and `leaderRunDone`, anybody between `compile` and `compiled`) only
    accepts its own continuation. Import-free, executable; used for exhaustive exploration of small instances. -/
namespace PolytuneModel.Server

deriving instance DecidableEq for St
deriving instance DecidableEq for Cmd

structure Net where
  actors   : List St
  busy     : List Bool                 -- actor is awaiting inside handle_cmd
  flight   : List (Nat × Cmd)          -- (target, command); kept sorted: delivery order is the explorer's choice
  waitVal  : Nat                       -- outstanding validate replies of the leader
  waitRun  : Nat                       -- outstanding run replies of the leader
  errors   : Nat                       -- error replies / panics seen anywhere
  outputs  : List Nat                  -- number of results / error notifications delivered per party's destination
  executing : List Bool
  constsWait : List Nat                -- per party: outstanding replies of its consts task (the task reports back when the last one arrived)
  fails    : Nat                       -- how many RPC failures the environment may still inject
  failed   : Option (Nat × Nat)        -- (caller, kind) of the injected failure; kind 0 = validate, 1 = run, 2 = consts
  schedOk  : List Nat                  -- per party: number of `Ok` replies to its schedule call
  compileOk : Bool := true             -- does `compile_with_options` succeed? (the same program and constants at every party: the same outcome everywhere)
deriving DecidableEq, Repr

structure Setup where
  n      : Nat
  leader : Nat
  outs   : List Bool                   -- destination present?
  consts : List Bool                   -- party supplies (non-empty) constants; const_deps = number of such parties
deriving Repr

def cmdKey : Cmd → Nat
  | .schedule _ => 0 | .validate _ => 1 | .run false => 2 | .run true => 3 | .consts s _ => 10 + s | .internalConstsSent => 4
  | .mpcMsg _ => 5 | .stop => 6 | .cancel => 7 | .leaderValidated _ => 8 | .leaderPermit => 9 | .leaderRunDone _ => 30 | .compiled _ => 31

def insertSorted (x : Nat × Cmd) : List (Nat × Cmd) → List (Nat × Cmd)
  | [] => [x]
  | y :: ys => if x.1 * 100 + cmdKey x.2 ≤ y.1 * 100 + cmdKey y.2 then x :: y :: ys else y :: insertSorted x ys

def polOf (su : Setup) (p : Nat) : Pol :=
  ⟨p, su.leader, su.n, 42, true, su.outs.getD p false, su.consts.getD p false, (su.consts.filter id).length⟩

/-- initial network; `fails` = number of coordination RPCs the environment may make fail. -/
def initNetF (su : Setup) (fails : Nat) : Net :=
  { actors := List.replicate su.n {}, busy := List.replicate su.n false,
    flight := (List.range su.n).foldl (fun acc p => insertSorted (p, .schedule (polOf su p)) acc) [],
    waitVal := 0, waitRun := 0, errors := 0, outputs := List.replicate su.n 0, executing := List.replicate su.n false,
    constsWait := List.replicate su.n 0, fails := fails, failed := none, schedOk := List.replicate su.n 0 }
def initNet (su : Setup) : Net := initNetF su 0
/-- party `bad` (a follower) schedules a policy with a DIFFERENT program (hash 43 instead of 42); everybody else as in `initNet`. -/
def initNetBad (su : Setup) (bad : Nat) : Net :=
  { initNetF su 0 with flight := (List.range su.n).foldl (fun acc p => insertSorted (p, .schedule (if p = bad then { polOf su p with hash := 43 } else polOf su p)) acc) [] }

def isContinuation : Cmd → Bool
  | .leaderValidated _ | .leaderPermit | .leaderRunDone _ | .compiled _ => true
  | _ => false

/-- interpret the effects of one actor step on the network. -/
def applyEff (su : Setup) (p : Nat) (net : Net) : Eff → Net
  | .rpcValidateAll =>
    { net with flight := ((List.range su.n).filter (· != p)).foldl (fun acc q => insertSorted (q, .validate ⟨42, su.leader⟩) acc) net.flight,
               waitVal := su.n - 1, busy := net.busy.set p true }
  | .reply "validate" ok _ =>
    if ok then (if net.waitVal = 1 then { net with waitVal := 0, flight := insertSorted (su.leader, .leaderValidated true) net.flight } else { net with waitVal := net.waitVal - 1 })
    else { net with errors := net.errors + 1, flight := insertSorted (su.leader, .leaderValidated false) net.flight }
  | .awaitPermit => { net with flight := insertSorted (p, .leaderPermit) net.flight }
  | .rpcRunAll =>
    { net with flight := ((List.range su.n).filter (· != p)).foldl (fun acc q => insertSorted (q, .run true) acc) net.flight, waitRun := su.n - 1 }
  | .reply "run" ok _ =>
    if ok then (if net.waitRun = 1 then { net with waitRun := 0, flight := insertSorted (su.leader, .leaderRunDone true) net.flight } else { net with waitRun := net.waitRun - 1 })
    else { net with errors := net.errors + 1, flight := insertSorted (su.leader, .leaderRunDone false) net.flight }
  | .reply "schedule" ok _ => if ok then { net with schedOk := net.schedOk.set p (net.schedOk.getD p 0 + 1) } else { net with errors := net.errors + 1 }
  | .reply _ ok _ => if ok then net else { net with errors := net.errors + 1 }
  | .replyDropped _ => { net with errors := net.errors + 1 }
  | .selfSend "Run" => { net with flight := insertSorted (p, .run false) net.flight }
  | .selfSend _ => { net with flight := insertSorted (p, .internalConstsSent) net.flight }
  | .spawnConstsTask =>
    -- the task sends `consts` to every other party and reports `InternalConstsSent` to its own actor once ALL replies have arrived
    { net with flight := ((List.range su.n).filter (· != p)).foldl (fun acc q => insertSorted (q, .consts p true) acc) net.flight,
               constsWait := net.constsWait.set p (su.n - 1) }
  | .compile => { net with flight := insertSorted (p, .compiled net.compileOk) net.flight, busy := net.busy.set p true }
  | .spawnMpcTask =>
    let ex := net.executing.set p true
    if ex.all id then
      -- the MPC completes at every party: result to the destinations, then Stop
      { net with executing := ex, outputs := (List.range su.n).map (fun q => net.outputs.getD q 0 + (if su.outs.getD q false then 1 else 0)),
                 flight := (List.range su.n).foldl (fun acc q => insertSorted (q, .stop) acc) net.flight }
    else { net with executing := ex }
  | .output _ => { net with outputs := net.outputs.set p (net.outputs.getD p 0 + 1), errors := net.errors + 1 }
  | .panic _ => { net with errors := net.errors + 1 }
  | .permitReleased | .stopActor => net

/-- deliver the k-th command in flight (if its target may accept it now). -/
def deliver (cfg : Cfg) (su : Setup) (net : Net) (k : Nat) : Option Net :=
  match net.flight[k]? with
  | none => none
  | some (p, c) =>
    if net.busy.getD p false ∧ !isContinuation c then none else
    let (s', effs) := step cfg (net.actors.getD p {}) c
    let net1 : Net := { net with actors := net.actors.set p s', flight := net.flight.eraseIdx k,
                                 busy := if (match c with | .leaderRunDone _ | .compiled _ | .leaderValidated false => true | _ => false) then net.busy.set p false else net.busy }
    let net2 := effs.foldl (applyEff su p) net1
    -- a delivered `consts` is answered to the sender's consts task; the last answer makes the task report back
    match c with
    | .consts sender _ =>
      let w := net2.constsWait.getD sender 0
      if w = 1 then some { net2 with constsWait := net2.constsWait.set sender 0, flight := insertSorted (sender, .internalConstsSent) net2.flight }
      else some { net2 with constsWait := net2.constsWait.set sender (w - 1) }
    | _ => some net2

/-- the environment makes the k-th command in flight FAIL, if it is a coordination RPC (validate, external run, consts) and the
    failure budget allows: the command never reaches its target and the caller's `try_join_all` returns the error. -/
def failAt (cfg : Cfg) (su : Setup) (net : Net) (k : Nat) : Option Net :=
  if net.fails = 0 then none else
  match net.flight[k]? with
  | some (_, .validate _) =>
    if net.waitVal = 0 then none else
    some { net with flight := insertSorted (su.leader, .leaderValidated false) (net.flight.eraseIdx k), waitVal := 0, fails := net.fails - 1, failed := some (su.leader, 0) }
  | some (_, .run true) =>
    if net.waitRun = 0 then none else
    some { net with flight := insertSorted (su.leader, .leaderRunDone false) (net.flight.eraseIdx k), waitRun := 0, fails := net.fails - 1, failed := some (su.leader, 1) }
  | some (_, .consts sender _) =>
    if net.constsWait.getD sender 0 = 0 then none else
    -- the task reports the error to its destination (if any); then: repaired tree → `Stop`, pinned tree → hands the client back and carries on
    let outs := if su.outs.getD sender false then net.outputs.set sender (net.outputs.getD sender 0 + 1) else net.outputs
    some { net with flight := insertSorted (sender, if cfg.constsFailStops then .stop else .internalConstsSent) (net.flight.eraseIdx k),
                    constsWait := net.constsWait.set sender 0, outputs := outs, fails := net.fails - 1, failed := some (sender, 2) }
  | _ => none

def successors (cfg : Cfg) (su : Setup) (net : Net) : List Net :=
  ((List.range net.flight.length).filterMap (deliver cfg su net) ++ (List.range net.flight.length).filterMap (failAt cfg su net)).eraseDups

def explore (cfg : Cfg) (su : Setup) : Nat → List Net → List Net → List Net × List Net   -- (visited, frontier)
  | 0, vis, fr => (vis, fr)
  | f+1, vis, fr =>
    if fr.isEmpty then (vis, fr) else
    let next := (fr.flatMap (successors cfg su)).eraseDups.filter (fun x => !vis.contains x && !fr.contains x)
    explore cfg su f (vis ++ fr) next

def terminal (net : Net) : Bool := net.flight.isEmpty
def good (su : Setup) (net : Net) : Bool :=
  net.errors == 0 && net.actors.all (·.stopped) && (List.range su.n).all (fun p => net.outputs.getD p 0 == (if su.outs.getD p false then 1 else 0))
  && net.actors.all (fun s => !s.permit) && (List.range su.n).all (fun p => net.schedOk.getD p 0 == 1)   -- every schedule call was answered Ok, once

/-- what C17 asks of a terminal state after an injected RPC failure: the CALLER's policy has ended, its permit is back, and it was
    notified if it has a destination (for a failed `validate` the error reply of its own schedule call is the notification). -/
def failOk (su : Setup) (net : Net) : Bool :=
  match net.failed with
  | none => good su net
  | some (c, kind) =>
    let a := net.actors.getD c {}
    a.stopped && !a.permit && (if su.outs.getD c false && kind != 0 then decide (1 ≤ net.outputs.getD c 0) else true)

/-- all reachable states; stuck = no successor although commands are in flight. -/
def report (cfg : Cfg) (su : Setup) (fuel : Nat) : Nat × Nat × Nat × Nat :=
  let (vis, fr) := explore cfg su fuel [] [initNet su]
  let all := vis ++ fr
  let terms := all.filter terminal
  let stuck := all.filter fun x => !terminal x && (successors cfg su x).isEmpty
  (all.length, terms.length, (terms.filter (fun x => !good su x)).length, stuck.length)

end PolytuneModel.Server
