/-! One `PolicyState` actor of polytune-server-core as a step function, read off `state.rs` (DESIGN Appendix C).
    `Cfg.pinned` reproduces the pinned tree; the other flags switch on the individual repairs, so that the
    counterexamples and the repaired theorems are statements about the same function. Import-free, executable. -/
namespace PolytuneModel.Server

inductive Kind
  | init | awaitingValidation | validateRequested | validated | sendingConsts | sendingConstsCompleted | running | executing
deriving Repr, DecidableEq

structure Pol where
  party     : Nat
  leader    : Nat
  n         : Nat          -- participants.len()
  hash      : Nat          -- program hash (abstract)
  wellTyped : Bool         -- garble_lang::check succeeds
  hasOut    : Bool         -- output destination present
  ownConsts : Bool         -- constants map non-empty
  constDeps : Nat          -- typed_program.const_deps.len()
deriving Repr, DecidableEq

structure VReq where
  hash   : Nat
  leader : Nat
deriving Repr, DecidableEq

structure Cfg where
  msgBoundsCheck     : Bool   -- C14-a repaired: `channel_senders.get(from)`
  initChanOnAccept   : Bool   -- C14-b repaired: endpoints replaced only on the accepting arms
  illTypedKeepsAlive : Bool   -- C14-c repaired: a failing `check` stops the actor only in `Init`
  runFailStops       : Bool   -- C17-a repaired: a failed run RPC stops the leader even without destination
  constsFailStops    : Bool   -- C17-b repaired: a failed consts RPC makes the consts task send `Stop` instead of `InternalConstsSent` (Net model)
  constsSenderCheck  : Bool   -- C14-d repaired: constants are only accepted from one of the OTHER participants
deriving Repr
def Cfg.pinned : Cfg := ⟨false, false, false, false, false, false⟩
def Cfg.repaired : Cfg := ⟨true, true, true, true, true, true⟩
/-- the configuration that models `/repo` as it is now (all five repairs are `fix:` commits). The correspondence harness and
    the C13/C16 theorems use this one; `Cfg.pinned` is kept for the counterexample theorems that show each guard is needed. -/
def Cfg.current : Cfg := Cfg.repaired

structure St where
  kind     : Kind := .init
  pol      : Option Pol := none
  vreq     : Option VReq := none      -- the request kept in `ValidateRequested`
  consts   : List Nat := []           -- parties whose non-empty constants are stored
  permit   : Bool := false
  chanLen  : Nat := 0                 -- channel_senders.len()
  chanGen  : Nat := 0                 -- bumped by every init_channel
  liveGen  : Option Nat := none       -- generation of the endpoints owned by the running `Channel`
  stopped  : Bool := false
deriving Repr

inductive Cmd
  | schedule (p : Pol)
  | validate (r : VReq)
  | run (external : Bool)
  | consts (sender : Nat) (nonEmpty : Bool)
  | internalConstsSent
  | mpcMsg (sender : Nat)
  | stop
  | cancel
  -- continuations of the leader's `schedule`, which awaits RPC replies and the semaphore inside the actor
  | leaderValidated (ok : Bool)
  | leaderPermit
  | leaderRunDone (ok : Bool)
  -- continuation of `run` in `Running`: the compile thread answered
  | compiled (ok : Bool)
deriving Repr

inductive Eff
  | reply (cmd : String) (ok : Bool) (err : String)
  | replyDropped (cmd : String)
  | rpcValidateAll | rpcRunAll | awaitPermit | compile
  | selfSend (cmd : String)
  | spawnConstsTask | spawnMpcTask
  | output (what : String)
  | permitReleased
  | panic (site : String)
  | stopActor
deriving Repr, DecidableEq

def stopWith (s : St) (effs : List Eff) : St × List Eff :=
  ({ s with stopped := true, permit := false }, effs ++ (if s.permit then [.permitReleased] else []) ++ [.stopActor])

def initChannel (s : St) (p : Pol) : St := { s with chanLen := p.n, chanGen := s.chanGen + 1 }

def insertConsts (s : St) (party : Nat) (nonEmpty : Bool) : St :=
  if nonEmpty ∧ party ∉ s.consts then { s with consts := party :: s.consts } else s

/-- `check_consts`. -/
def checkConsts (s : St) (p : Pol) : St × List Eff :=
  if s.consts.length = p.constDeps then ({ s with kind := .running, liveGen := some s.chanGen }, [.selfSend "Run"])
  else ({ s with kind := .sendingConstsCompleted }, [])

def step (cfg : Cfg) (s : St) (c : Cmd) : St × List Eff :=
  if s.stopped then (s, [.replyDropped "any"]) else
  match c with
  | .schedule p =>
    if !p.wellTyped then
      if cfg.illTypedKeepsAlive ∧ s.kind ≠ .init then (s, [.reply "schedule" false "InvalidProgram"])
      else stopWith s [.reply "schedule" false "InvalidProgram"]
    else
      let s0 := if cfg.initChanOnAccept then s else initChannel s p
      if p.party = p.leader then
        if s.kind ≠ .init then (s0, [.reply "schedule" false "InvalidStateLeader"])
        else ({ initChannel s p with pol := some p }, [.rpcValidateAll])               -- actor now awaits the validate replies
      else
        match s.kind with
        | .init => ({ initChannel s p with kind := .awaitingValidation, pol := some p }, [])   -- schedule reply kept
        | .validateRequested =>
          match s.vreq with
          | some r =>
            if r.leader ≠ p.leader then stopWith s0 [.reply "validate" false "LeaderMismatch", .reply "schedule" false "LeaderMismatch"]
            else if r.hash ≠ p.hash then stopWith s0 [.reply "validate" false "ProgramHashMismatch", .replyDropped "schedule"]
            else ({ initChannel s p with kind := .validated, pol := some p, vreq := none }, [.reply "validate" true "", .reply "schedule" true ""])
          | none => (s0, [.panic "unreachable"])
        | _ => (s0, [.reply "schedule" false "InvalidStateFollower"])
  | .leaderValidated ok =>
    if ok then (s, [.reply "schedule" true "", .awaitPermit]) else stopWith s [.reply "schedule" false "ValidateFailed"]
  | .leaderPermit => ({ s with permit := true }, [.rpcRunAll])
  | .leaderRunDone ok =>
    match s.pol with
    | some p =>
      if !ok ∧ p.hasOut then stopWith s [.output "RequestRunError"]
      else if !ok ∧ cfg.runFailStops then stopWith s []
      else ({ s with kind := .validated }, [.selfSend "Run"])                          -- pinned tree: also after a failed run RPC without destination
    | none => (s, [.panic "unreachable"])
  | .validate r =>
    match s.kind with
    | .init => ({ s with kind := .validateRequested, vreq := some r }, [])              -- validate reply kept
    | .awaitingValidation =>
      match s.pol with
      | some p =>
        if r.leader ≠ p.leader then stopWith s [.reply "validate" false "LeaderMismatch", .replyDropped "schedule"]
        else if r.hash ≠ p.hash then stopWith s [.reply "validate" false "ProgramHashMismatch", .replyDropped "schedule"]
        else ({ s with kind := .validated }, [.reply "schedule" true "", .reply "validate" true ""])
      | none => (s, [.panic "unreachable"])
    | _ => (s, [.reply "validate" false "InvalidState"])
  | .run ext =>
    match s.kind, s.pol with
    | .validated, some p =>
      let s1 := insertConsts s p.party p.ownConsts
      ({ s1 with kind := .sendingConsts }, (if ext then [.reply "run" true ""] else []) ++ (if p.ownConsts then [.spawnConstsTask] else [.selfSend "InternalConstsSent"]))
    | .running, some _ => (s, [.compile])                                               -- actor awaits the compile thread
    | _, _ => (s, if ext then [.reply "run" false "InvalidState"] else [])
  | .compiled ok =>
    match s.pol with
    | some p =>
      if !ok then stopWith s (if p.hasOut then [.output "CompileError"] else [])
      else ({ s with kind := .executing, permit := false }, [.spawnMpcTask])             -- the permit moves into the MPC task
    | none => (s, [.panic "unreachable"])
  | .consts sender ne =>
    -- a sender that is not one of the other participants is refused in the states that accept constants (in the others the state test refuses anyway)
    if cfg.constsSenderCheck && (match s.kind, s.pol with
        | .validated, some p | .sendingConsts, some p | .sendingConstsCompleted, some p => decide (p.n ≤ sender) || sender == p.party
        | _, _ => false)
    then (s, [.reply "consts" false "UnknownSender"]) else
    match s.kind, s.pol with
    | .validated, _ | .sendingConsts, _ => (insertConsts s sender ne, [.reply "consts" true ""])
    | .sendingConstsCompleted, some p =>
      let (s2, e) := checkConsts (insertConsts s sender ne) p
      (s2, [.reply "consts" true ""] ++ e)
    | _, _ => (s, [.reply "consts" false "InvalidState"])
  | .internalConstsSent =>
    match s.kind, s.pol with
    | .sendingConsts, some p => checkConsts s p
    | _, _ => (s, [.panic "internal_consts_sent in wrong state"])
  | .mpcMsg sender =>
    if sender < s.chanLen then (s, [.reply "msg" true ""])
    else if cfg.msgBoundsCheck then (s, [.reply "msg" false "UnknownSender"])
    else ({ s with stopped := true }, [.panic "channel_senders[from]", .replyDropped "msg"])
  | .stop => stopWith s []
  | .cancel =>
    match s.kind with
    | .init | .validateRequested => stopWith s [.reply "cancel" true ""]
    | .executing => stopWith s [.reply "cancel" true ""]                               -- notification handled by the MPC task (Net model)
    | _ => stopWith s ((match s.pol with | some p => if p.hasOut then [.output "Cancelled"] else [] | none => []) ++ [.reply "cancel" true ""])

def run (cfg : Cfg) (s : St) (cs : List Cmd) : St × List (List Eff) :=
  cs.foldl (fun (acc : St × List (List Eff)) c => let r := step cfg acc.1 c; (r.1, acc.2 ++ [r.2])) (s, [])

/-- the running computation still owns live endpoints. -/
def St.endpointsLive (s : St) : Bool := match s.liveGen with | some g => g == s.chanGen | none => true

end PolytuneModel.Server
