/-! XOR algebra over 128-bit values and sums over the party list. -/
namespace PolytuneModel
notation "V" => BitVec 128
theorem xcl (a b : V) : a ^^^ (a ^^^ b) = b := by
  rw [← BitVec.xor_assoc, BitVec.xor_self, BitVec.zero_xor]
theorem xlc (a b c : V) : a ^^^ (b ^^^ c) = b ^^^ (a ^^^ c) := by
  rw [← BitVec.xor_assoc, BitVec.xor_comm a b, BitVec.xor_assoc]
macro "xor_nf" : tactic => `(tactic| simp only [BitVec.ofNat_eq_ofNat, BitVec.xor_assoc, BitVec.xor_comm, xlc, BitVec.xor_self, xcl, BitVec.xor_zero, BitVec.zero_xor])

def sc (b : Bool) (d : V) : V := if b then d else 0
@[simp] theorem sc_false (d : V) : sc false d = 0 := rfl
@[simp] theorem sc_true (d : V) : sc true d = d := rfl
theorem sc_xor (a b : Bool) (d : V) : sc (a != b) d = sc a d ^^^ sc b d := by
  cases a <;> cases b <;> simp

/-- XOR of `f 0 … f (n-1)`. -/
def xsum : Nat → (Nat → V) → V
  | 0, _ => 0
  | n+1, f => f n ^^^ xsum n f
/-- parity of `f 0 … f (n-1)`. -/
def bsum : Nat → (Nat → Bool) → Bool
  | 0, _ => false
  | n+1, f => (f n != bsum n f)

theorem xsum_xor (n) (f g : Nat → V) : xsum n (fun j => f j ^^^ g j) = xsum n f ^^^ xsum n g := by
  induction n with
  | zero => simp [xsum]
  | succ n ih => simp only [xsum, ih]; xor_nf
theorem xsum_sc (n) (b : Nat → Bool) (d : V) : xsum n (fun j => sc (b j) d) = sc (bsum n b) d := by
  induction n with
  | zero => simp [xsum, bsum]
  | succ n ih => simp only [xsum, bsum, ih, sc_xor]
theorem xsum_zero (n) : xsum n (fun _ => 0) = 0 := by
  induction n with
  | zero => rfl
  | succ n ih => simp only [xsum, ih]; xor_nf
theorem xsum_congr (n) (f g : Nat → V) (h : ∀ j, j < n → f j = g j) : xsum n f = xsum n g := by
  induction n with
  | zero => rfl
  | succ n ih =>
    simp only [xsum]
    rw [h n (Nat.lt_succ_self n), ih (fun j hj => h j (Nat.lt_succ_of_lt hj))]
/-- split off index `i`. -/
theorem xsum_split (n i) (f : Nat → V) (hi : i < n) :
    xsum n f = f i ^^^ xsum n (fun j => if j = i then 0 else f j) := by
  induction n with
  | zero => omega
  | succ n ih =>
    simp only [xsum]
    by_cases h : n = i
    · subst h
      simp only [if_true]
      have : xsum n (fun j => if j = n then 0 else f j) = xsum n f :=
        xsum_congr n _ _ (fun j hj => by simp [Nat.ne_of_lt hj])
      rw [this]; xor_nf
    · have hi' : i < n := by omega
      rw [ih hi']
      simp only [h, if_false]; xor_nf
theorem bsum_xor (n) (f g : Nat → Bool) : bsum n (fun j => (f j != g j)) = (bsum n f != bsum n g) := by
  induction n with
  | zero => simp [bsum]
  | succ n ih => simp only [bsum, ih]; cases f n <;> cases g n <;> cases bsum n f <;> cases bsum n g <;> rfl
theorem bsum_and (n) (f : Nat → Bool) (c : Bool) : bsum n (fun j => (c && f j)) = (c && bsum n f) := by
  induction n with
  | zero => simp [bsum]
  | succ n ih => simp only [bsum, ih]; cases c <;> simp
end PolytuneModel
