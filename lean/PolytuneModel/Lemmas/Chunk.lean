import PolytuneModel.Prim.Chunk
namespace PolytuneModel

theorem chunksOfAux_nil {α} (s fuel : Nat) : chunksOfAux s fuel ([] : List α) = [] := by
  cases fuel <;> rfl

/-- any two amounts of fuel that cover the list give the same chunks (for a positive chunk size). -/
theorem chunksOfAux_fuel2 {α} (s : Nat) (hs : 0 < s) : ∀ (fuel fuel' : Nat) (l : List α),
    l.length ≤ fuel → l.length ≤ fuel' → chunksOfAux s fuel l = chunksOfAux s fuel' l := by
  intro fuel
  induction fuel with
  | zero =>
    intro fuel' l h _
    have : l = [] := List.eq_nil_of_length_eq_zero (by omega)
    subst this; rw [chunksOfAux_nil, chunksOfAux_nil]
  | succ fuel ih =>
    intro fuel' l h h'
    cases l with
    | nil => rw [chunksOfAux_nil, chunksOfAux_nil]
    | cons a t =>
      cases fuel' with
      | zero => simp at h'
      | succ fuel' =>
        simp only [chunksOfAux]
        congr 1
        have hd : ((a :: t).drop s).length ≤ t.length := by simp [List.length_drop]; omega
        simp only [List.length_cons] at h h'
        exact ih fuel' _ (by omega) (by omega)

theorem chunksOfAux_fuel {α} (s : Nat) (hs : 0 < s) (fuel : Nat) (l : List α) (h : l.length ≤ fuel) :
    chunksOfAux s fuel l = chunksOfAux s l.length l :=
  chunksOfAux_fuel2 s hs fuel l.length l h (Nat.le_refl _)

/-- all chunks but the last have length exactly `s`; the last has length in `[1, s]`. -/
def Regular {α} (s : Nat) : List (List α) → Prop
  | [] => True
  | [c] => 1 ≤ c.length ∧ c.length ≤ s
  | c :: d :: rest => c.length = s ∧ Regular s (d :: rest)

theorem chunksOf_flatten {α} (s : Nat) (hs : 0 < s) (cs : List (List α)) (h : Regular s cs) :
    chunksOf s cs.flatten = cs := by
  induction cs with
  | nil => simp [chunksOf, chunksOfAux]
  | cons c rest ih =>
    cases rest with
    | nil =>
      obtain ⟨h1, h2⟩ := h
      simp only [List.flatten_cons, List.flatten_nil, List.append_nil, chunksOf]
      cases c with
      | nil => simp at h1
      | cons a t =>
        simp only [chunksOfAux, List.length_cons]
        have ht : (a :: t).take s = a :: t := List.take_of_length_le (by simpa using h2)
        have hd : (a :: t).drop s = [] := List.drop_eq_nil_of_le (by simpa using h2)
        rw [ht, hd, chunksOfAux_nil]
    | cons d rest' =>
      obtain ⟨h1, h2⟩ := h
      have ih' := ih h2
      simp only [List.flatten_cons, chunksOf] at ih' ⊢
      have hne : c ≠ [] := by intro hc; subst hc; simp at h1; omega
      obtain ⟨a, t, rfl⟩ := List.exists_cons_of_ne_nil hne
      simp only [List.cons_append, List.length_cons, chunksOfAux]
      have ht : (a :: (t ++ (d ++ rest'.flatten))).take s = a :: t := by
        have : (a :: t ++ (d ++ rest'.flatten)).take s = a :: t := by
          rw [List.take_append_of_le_length (by simp at h1 ⊢; omega)]
          exact List.take_of_length_le (by simp at h1 ⊢; omega)
        simpa using this
      have hd : (a :: (t ++ (d ++ rest'.flatten))).drop s = d ++ rest'.flatten := by
        have : (a :: t ++ (d ++ rest'.flatten)).drop s = d ++ rest'.flatten := by
          rw [List.drop_append_of_le_length (by simp at h1 ⊢; omega)]
          rw [List.drop_eq_nil_of_le (by simp at h1 ⊢; omega)]; rfl
        simpa using this
      rw [ht, hd]
      congr 1
      rw [chunksOfAux_fuel s hs _ _ (by simp [List.length_append])]
      exact ih'

theorem chunkSizeIter_sum (total chunk : Nat) (h : 0 < chunk) : (chunkSizeIter total chunk).sum = total := by
  unfold chunkSizeIter
  have hc : chunk ≠ 0 := by omega
  simp only [hc, if_false]
  by_cases hr : total % chunk = 0
  · simp [hr, List.sum_replicate_nat]; exact Nat.div_mul_cancel (Nat.dvd_of_mod_eq_zero hr)
  · simp [hr, List.sum_replicate_nat]; exact Nat.div_add_mod' total chunk

end PolytuneModel
