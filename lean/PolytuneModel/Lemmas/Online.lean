import PolytuneModel.Lemmas.AndGate
import PolytuneModel.Proto.Circuit
/-! Proof model of the online phase: all parties walk the instruction list together.
    (The executable, per-party, message-level model lives in `Proto/`; this file is the algebraic core of C01.) -/
namespace PolytuneModel

@[simp] theorem upd_same {α} (f : Nat → α) (i v) : upd f i v i = v := by simp [upd]
theorem upd_other {α} (f : Nat → α) (i v j) (h : j ≠ i) : upd f i v j = f j := by simp [upd, h]

/-- Joint state of all parties while walking the instruction list once.
    `sh p r` : party p's share register file, `lab p r` : garbler p's zero-labels,
    `val`/`lev` : the evaluator's masked values and active labels, `clr` : the clear values (specification only),
    `k` : next random share, `a` : next AND share. -/
structure St where
  sh  : Nat → Nat → Share
  lab : Nat → Nat → V
  val : Nat → Bool
  lev : Nat → Nat → V
  clr : Nat → Bool
  k   : Nat
  a   : Nat

structure Coins where
  Δ   : Nat → V
  rnd : Nat → Nat → Share      -- rnd k p : k-th random share of party p
  ab  : Nat → Nat → Share      -- ab a p  : a-th authenticated AND share of party p
  lbl : Nat → Nat → V          -- lbl k p : fresh zero-label of garbler p for the k-th Input/AND
  x   : Nat → Nat → Bool       -- private inputs

def lam (n : Nat) (s : St) (r : Nat) : Bool := bsum n (fun p => (s.sh p r).bit)

def step (n e : Nat) (c : Coins) (s : St) (i : Inst) : St :=
  match i.op with
  | .input p k =>
    let v := (c.x p k != bsum n (fun q => (c.rnd s.k q).bit))       -- masked input, as broadcast by the owner
    { s with sh := fun q => upd (s.sh q) i.out (c.rnd s.k q),
             lab := fun q => upd (s.lab q) i.out (c.lbl s.k q),
             val := upd s.val i.out v,
             lev := upd s.lev i.out (fun q => c.lbl s.k q ^^^ sc v (c.Δ q)),   -- `labels` message of garbler q
             clr := upd s.clr i.out (c.x p k), k := s.k + 1 }
  | .xor a b =>
    { s with sh := fun q => upd (s.sh q) i.out ((s.sh q a).xor (s.sh q b)),
             lab := fun q => upd (s.lab q) i.out (s.lab q a ^^^ s.lab q b),
             val := upd s.val i.out (s.val a != s.val b),
             lev := upd s.lev i.out (fun q => s.lev a q ^^^ s.lev b q),
             clr := upd s.clr i.out (s.clr a != s.clr b) }
  | .not a =>
    { s with sh := fun q => upd (s.sh q) i.out (s.sh q a),
             lab := fun q => upd (s.lab q) i.out (s.lab q a ^^^ c.Δ q),
             val := upd s.val i.out (!s.val a),
             lev := upd s.lev i.out (s.lev a),
             clr := upd s.clr i.out (!s.clr a) }
  | .and a b =>
    let R := rowShare (c.ab s.a) (c.rnd s.k) (fun q => s.sh q a) (fun q => s.sh q b) (s.val a) (s.val b)
    let z := evalBit n R (s.val a) (s.val b)
    { s with sh := fun q => upd (s.sh q) i.out (c.rnd s.k q),
             lab := fun q => upd (s.lab q) i.out (c.lbl s.k q),
             val := upd s.val i.out z,
             lev := upd s.lev i.out (fun q => evalLabel n e c.Δ R (s.val a) (s.val b) (c.lbl s.k q) q),
             clr := upd s.clr i.out (s.clr a && s.clr b), k := s.k + 1, a := s.a + 1 }

def init : St := ⟨fun _ _ => Share.zero, fun _ _ => 0, fun _ => false, fun _ _ => 0, fun _ => false, 0, 0⟩

/-- what ideal preprocessing guarantees, relative to the AND inputs met along the way. -/
structure PreOK (n : Nat) (c : Coins) : Prop where
  rnd : ∀ k, Valid n c.Δ (c.rnd k)
  abv : ∀ a, Valid n c.Δ (c.ab a)

structure GInv (n e : Nat) (c : Coins) (s : St) : Prop where
  valid : ∀ r, Valid n c.Δ (fun p => s.sh p r)
  value : ∀ r, s.val r = (s.clr r != lam n s r)
  label : ∀ r p, p < n → s.lev r p = s.lab p r ^^^ sc (s.val r) (c.Δ p)

theorem inv_init (n e c) : GInv n e c init where
  valid _ := Valid.zero
  value r := by
    simp only [init, lam, Share.zero]
    have : bsum n (fun _ => false) = false := by
      induction n with
      | zero => rfl
      | succ n ih => simp [bsum, ih]
    simp [this]
  label r p _ := by simp only [init, sc_false]; xor_nf

/-- the AND shares are correct for the masks currently in registers a, b. -/
def AndOK (n : Nat) (c : Coins) (s : St) (a b : Nat) : Prop :=
  bsum n (fun p => (c.ab s.a p).bit) = (lam n s a && lam n s b)

theorem step_inv (n e : Nat) (he : e < n) (c : Coins) (hc : PreOK n c) (s : St) (i : Inst) (h : GInv n e c s)
    (hand : ∀ a b, i.op = .and a b → AndOK n c s a b) : GInv n e c (step n e c s i) := by
  cases hop : i.op with
  | input p k =>
    simp only [step, hop]
    refine ⟨fun r => ?_, fun r => ?_, fun r q hq => ?_⟩
    · by_cases hr : r = i.out
      · subst hr; simpa using hc.rnd s.k
      · simpa [upd_other _ _ _ _ hr] using h.valid r
    · by_cases hr : r = i.out
      · subst hr; simp [lam]
      · simpa [lam, upd_other _ _ _ _ hr] using h.value r
    · by_cases hr : r = i.out
      · subst hr; simp
      · simpa [upd_other _ _ _ _ hr] using h.label r q hq
  | xor a b =>
    simp only [step, hop]
    refine ⟨fun r => ?_, fun r => ?_, fun r q hq => ?_⟩
    · by_cases hr : r = i.out
      · subst hr; simpa using (h.valid a).xor (h.valid b)
      · simpa [upd_other _ _ _ _ hr] using h.valid r
    · by_cases hr : r = i.out
      · subst hr
        have ha := h.value a; have hb := h.value b
        simp only [lam] at ha hb ⊢
        simp only [upd_same, Share.xor, bsum_xor, ha, hb]
        cases s.clr a <;> cases s.clr b <;> cases bsum n (fun p => (s.sh p a).bit) <;> cases bsum n (fun p => (s.sh p b).bit) <;> rfl
      · simpa [lam, upd_other _ _ _ _ hr] using h.value r
    · by_cases hr : r = i.out
      · subst hr; simp only [upd_same, h.label a q hq, h.label b q hq, sc_xor]; xor_nf
      · simpa [upd_other _ _ _ _ hr] using h.label r q hq
  | not a =>
    simp only [step, hop]
    refine ⟨fun r => ?_, fun r => ?_, fun r q hq => ?_⟩
    · by_cases hr : r = i.out
      · subst hr; simpa using h.valid a
      · simpa [upd_other _ _ _ _ hr] using h.valid r
    · by_cases hr : r = i.out
      · subst hr
        have ha := h.value a
        simp only [lam] at ha ⊢
        simp only [upd_same, ha]
        cases s.clr a <;> cases bsum n (fun p => (s.sh p a).bit) <;> rfl
      · simpa [lam, upd_other _ _ _ _ hr] using h.value r
    · by_cases hr : r = i.out
      · subst hr; simp only [upd_same, h.label a q hq]
        cases s.val a <;> simp <;> xor_nf
      · simpa [upd_other _ _ _ _ hr] using h.label r q hq
  | and a b =>
    simp only [step, hop]
    have hR : Valid n c.Δ (rowShare (c.ab s.a) (c.rnd s.k) (fun q => s.sh q a) (fun q => s.sh q b) (s.val a) (s.val b)) :=
      rowShare_valid (hc.abv s.a) (hc.rnd s.k) (h.valid a) (h.valid b) _ _
    refine ⟨fun r => ?_, fun r => ?_, fun r q hq => ?_⟩
    · by_cases hr : r = i.out
      · subst hr; simpa using hc.rnd s.k
      · simpa [upd_other _ _ _ _ hr] using h.valid r
    · by_cases hr : r = i.out
      · subst hr
        have ha := h.value a; have hb := h.value b; have hab := hand a b hop
        simp only [AndOK, lam] at ha hb hab
        simp only [upd_same, lam, evalBit, rowShare_bits, hab, ha, hb]
        cases s.clr a <;> cases s.clr b <;> cases bsum n (fun p => (s.sh p a).bit) <;> cases bsum n (fun p => (s.sh p b).bit)
          <;> cases bsum n (fun p => (c.rnd s.k p).bit) <;> rfl
      · simpa [lam, upd_other _ _ _ _ hr] using h.value r
    · by_cases hr : r = i.out
      · subst hr; simp only [upd_same]
        exact eval_label hR e q he hq (s.val a) (s.val b) _
      · simpa [upd_other _ _ _ _ hr] using h.label r q hq

end PolytuneModel
