import PolytuneModel.Lemmas.Xor
/-! One AND gate of WRK17 as implemented in garble()/evaluate(), for n parties. -/
namespace PolytuneModel
structure Share where
  bit : Bool
  mac : Nat → V      -- mac j : MAC on my bit under party j's global key
  key : Nat → V      -- key j : my key for party j's bit
def Share.xor (a b : Share) : Share := ⟨(a.bit != b.bit), fun j => a.mac j ^^^ b.mac j, fun j => a.key j ^^^ b.key j⟩
def Share.zero : Share := ⟨false, fun _ => 0, fun _ => 0⟩
def Share.cond (c : Bool) (a : Share) : Share := if c then a else Share.zero

/-- pairwise IT-MAC validity of one share per party, own slots zero. -/
structure Valid (n : Nat) (Δ : Nat → V) (s : Nat → Share) : Prop where
  mac : ∀ i j, i < n → j < n → i ≠ j → (s i).mac j = (s j).key i ^^^ sc (s i).bit (Δ j)
  own : ∀ i, i < n → (s i).key i = 0

theorem Valid.xor {n Δ s t} (hs : Valid n Δ s) (ht : Valid n Δ t) : Valid n Δ (fun p => (s p).xor (t p)) where
  mac i j hi hj hij := by
    simp only [Share.xor, hs.mac i j hi hj hij, ht.mac i j hi hj hij, sc_xor]; xor_nf
  own i hi := by simp only [Share.xor, hs.own i hi, ht.own i hi]; xor_nf
theorem Valid.zero {n Δ} : Valid n Δ (fun _ => Share.zero) where
  mac i j _ _ _ := by simp [Share.zero]
  own i _ := rfl
theorem Valid.cond {n Δ s} (c : Bool) (hs : Valid n Δ s) : Valid n Δ (fun p => (s p).cond c) := by
  cases c
  · exact Valid.zero
  · exact hs

/-- the row share of party `p` for masked inputs (â, b̂), before the row-3 corrections. -/
def rowShare (σ γ x y : Nat → Share) (a b : Bool) (p : Nat) : Share :=
  (((σ p).xor (γ p)).xor ((x p).cond b)).xor ((y p).cond a)

theorem rowShare_valid {n Δ σ γ x y} (hσ : Valid n Δ σ) (hγ : Valid n Δ γ) (hx : Valid n Δ x) (hy : Valid n Δ y) (a b : Bool) :
    Valid n Δ (rowShare σ γ x y a b) :=
  ((hσ.xor hγ).xor (hx.cond b)).xor (hy.cond a)

/-- what garbler `p` puts into row (â,b̂): its bit, its MACs, and the garbled label
    `label_γ0 ⊕ ⨁_j key'_j ⊕ bit·Δ_p`, where key'_e carries the extra Δ_p in row 3 (`xor_key(p_eval, delta)`). -/
def garbLabel (n e : Nat) (Δ : Nat → V) (R : Nat → Share) (a b : Bool) (L0 : V) (p : Nat) : V :=
  L0 ^^^ xsum n (fun j => (R p).key j ^^^ (if j = e then sc (a && b) (Δ p) else 0)) ^^^ sc (R p).bit (Δ p)

/-- the evaluator's masked output value: own table-share bit (with the row-3 `^ true`) XOR all garblers' bits. -/
def evalBit (n : Nat) (R : Nat → Share) (a b : Bool) : Bool := ((a && b) != bsum n (fun p => (R p).bit))

/-- the evaluator's recovered label for garbler `i`: garbled label XOR the MACs (under i's key) found in every other party's row. -/
def evalLabel (n e : Nat) (Δ : Nat → V) (R : Nat → Share) (a b : Bool) (L0 : V) (i : Nat) : V :=
  garbLabel n e Δ R a b L0 i ^^^ xsum n (fun j => if j = i then 0 else (R j).mac i)

/-- MAC check performed by the evaluator on garbler p's row share passes. -/
theorem eval_check {n Δ R} (hR : Valid n Δ R) (e p : Nat) (he : e < n) (hp : p < n) (hpe : p ≠ e) :
    (R p).mac e = (R e).key p ^^^ sc (R p).bit (Δ e) := hR.mac p e hp he hpe

/-- label recovery: the evaluator ends up with `L0 ⊕ ẑ·Δ_i`, ẑ its masked output value. -/
theorem eval_label {n Δ R} (hR : Valid n Δ R) (e i : Nat) (he : e < n) (hi : i < n) (a b : Bool) (L0 : V) :
    evalLabel n e Δ R a b L0 i = L0 ^^^ sc (evalBit n R a b) (Δ i) := by
  unfold evalLabel garbLabel evalBit
  -- rewrite the foreign MACs through validity
  have hm : xsum n (fun j => if j = i then 0 else (R j).mac i)
      = xsum n (fun j => if j = i then 0 else ((R i).key j ^^^ sc (R j).bit (Δ i))) := by
    apply xsum_congr; intro j hj
    by_cases h : j = i
    · simp [h]
    · simp only [h, if_false]; exact hR.mac j i hj hi h
  rw [hm]
  -- split both sums at i and at e
  have hk : xsum n (fun j => (R i).key j ^^^ (if j = e then sc (a && b) (Δ i) else 0))
      = xsum n (fun j => (R i).key j) ^^^ sc (a && b) (Δ i) := by
    rw [xsum_xor]
    congr 1
    rw [xsum_split n e _ he]
    have : xsum n (fun j => if j = e then (0:V) else if j = e then sc (a && b) (Δ i) else 0) = 0 := by
      have h0 : ∀ j, j < n → (if j = e then (0:V) else if j = e then sc (a && b) (Δ i) else 0) = (fun _ => (0:V)) j := by
        intro j _; by_cases h : j = e <;> simp [h]
      rw [xsum_congr n _ _ h0, xsum_zero]
    simp only [if_true, this]; xor_nf
  have hs : xsum n (fun j => if j = i then 0 else ((R i).key j ^^^ sc (R j).bit (Δ i)))
      = xsum n (fun j => (R i).key j) ^^^ xsum n (fun j => sc (R j).bit (Δ i)) ^^^ sc (R i).bit (Δ i) := by
    have h1 := xsum_split n i (fun j => (R i).key j ^^^ sc (R j).bit (Δ i)) hi
    rw [xsum_xor] at h1
    simp only [hR.own i hi] at h1
    rw [h1]; xor_nf
  rw [hk, hs, xsum_sc, sc_xor]
  xor_nf

/-- Boolean heart of the gate: with ⨁σ = λx∧λy, the masked output is (vx∧vy) ⊕ λγ. -/
theorem gate_bool (vx vy lx ly lg : Bool) :
    let a := (vx != lx); let b := (vy != ly)
    ((a && b) != ((((lx && ly) != lg) != (b && lx)) != (a && ly))) = ((vx && vy) != lg) := by
  cases vx <;> cases vy <;> cases lx <;> cases ly <;> cases lg <;> rfl

theorem rowShare_bits (n) (σ γ x y : Nat → Share) (a b : Bool) :
    bsum n (fun p => (rowShare σ γ x y a b p).bit)
      = (((bsum n (fun p => (σ p).bit) != bsum n (fun p => (γ p).bit)) != (b && bsum n (fun p => (x p).bit))) != (a && bsum n (fun p => (y p).bit))) := by
  have h : ∀ p, (rowShare σ γ x y a b p).bit = ((((σ p).bit != (γ p).bit) != (b && (x p).bit)) != (a && (y p).bit)) := by
    intro p; simp only [rowShare, Share.xor, Share.cond]; cases a <;> cases b <;> simp [Share.zero]
  simp only [h, bsum_xor, bsum_and]
end PolytuneModel
