import PolytuneModel.Thm.C11kos
/-! Base-32 digit lists ("numbers with holes"): the arithmetic behind `gf128.rs::scalar::clmul64`.
    A number whose set bits are 5 apart is `ofD l` for a 0/1 list `l`; the integer product of two such numbers is `ofD (conv a b)`
    (polynomial product, evaluated at 32); as long as every coefficient stays below 32 no carry leaves its 5-bit digit, so bit `5t`
    of the integer product is the parity of coefficient `t` — which is bit `5t` of the carry-less product. -/
namespace PolytuneModel.Digits
open Kos

theorem M_shiftN : ∀ (a b k : Nat), M (a <<< k) b = (M a b) <<< k
  | a, b, 0 => by simp
  | a, b, k+1 => by
    have : a <<< (k + 1) = (a <<< k) <<< 1 := by rw [Nat.shiftLeft_add]
    rw [this, M_shift_left, M_shiftN a b k, ← Nat.shiftLeft_add]
theorem M_shiftN5 (a b : Nat) : M (a <<< 5) b = (M a b) <<< 5 := M_shiftN a b 5

def ofD (l : List Nat) : Nat := l.foldr (fun d acc => d + 32 * acc) 0
@[simp] theorem ofD_nil : ofD [] = 0 := rfl
@[simp] theorem ofD_cons (d : Nat) (l : List Nat) : ofD (d :: l) = d + 32 * ofD l := rfl

/-- pointwise sum, the longer list decides the length. -/
def addL : List Nat → List Nat → List Nat
  | [], l => l
  | l, [] => l
  | a :: as, b :: bs => (a + b) :: addL as bs

theorem ofD_addL : ∀ (l1 l2 : List Nat), ofD (addL l1 l2) = ofD l1 + ofD l2
  | [], l => by simp [addL]
  | a :: as, [] => by simp [addL]
  | a :: as, b :: bs => by simp only [addL, ofD_cons, ofD_addL as bs]; omega

theorem ofD_scale (a : Nat) : ∀ l : List Nat, ofD (l.map (a * ·)) = a * ofD l
  | [] => by simp
  | d :: l => by simp only [List.map_cons, ofD_cons, ofD_scale a l]; rw [Nat.mul_add, Nat.mul_left_comm]

/-- polynomial product of coefficient lists. -/
def conv : List Nat → List Nat → List Nat
  | [], _ => []
  | a :: as, b => addL (b.map (a * ·)) (0 :: conv as b)

theorem ofD_conv : ∀ (a b : List Nat), ofD (conv a b) = ofD a * ofD b
  | [], b => by simp [conv]
  | a :: as, b => by
    simp only [conv, ofD_addL, ofD_scale, ofD_cons, ofD_conv as b]
    rw [Nat.add_mul, Nat.mul_assoc]; omega

theorem getD_addL : ∀ (l1 l2 : List Nat) (t : Nat), (addL l1 l2).getD t 0 = l1.getD t 0 + l2.getD t 0
  | [], l, t => by simp [addL]
  | a :: as, [], t => by simp [addL]
  | a :: as, b :: bs, 0 => by simp [addL]
  | a :: as, b :: bs, t+1 => by simp only [addL, List.getD_cons_succ]; exact getD_addL as bs t

theorem getD_map_mul (a : Nat) (l : List Nat) (t : Nat) : (l.map (a * ·)).getD t 0 = a * l.getD t 0 := by
  induction l generalizing t with
  | nil => simp
  | cons d l ih => cases t with
    | zero => simp
    | succ t => simp only [List.map_cons, List.getD_cons_succ]; exact ih t

theorem getD_le_one (b : List Nat) (hb : ∀ d ∈ b, d ≤ 1) (t : Nat) : b.getD t 0 ≤ 1 := by
  rw [List.getD_eq_getElem?_getD]
  cases h : b[t]? with
  | none => simp
  | some v => simp only [Option.getD_some]; exact hb v (List.mem_of_getElem? h)

/-- coefficient bound: with 0/1 entries every coefficient of the product is at most the length of the first factor. -/
theorem conv_bound : ∀ (a b : List Nat), (∀ d ∈ a, d ≤ 1) → (∀ d ∈ b, d ≤ 1) → ∀ t, (conv a b).getD t 0 ≤ a.length
  | [], b, _, _, t => by simp [conv]
  | a :: as, b, ha, hb, t => by
    simp only [conv, getD_addL, getD_map_mul, List.length_cons]
    have ha0 : a ≤ 1 := ha a (by simp)
    have hbt : b.getD t 0 ≤ 1 := getD_le_one b hb t
    have h1 : a * b.getD t 0 ≤ 1 := by
      calc a * b.getD t 0 ≤ 1 * 1 := Nat.mul_le_mul ha0 hbt
        _ = 1 := rfl
    have ih := conv_bound as b (fun d hd => ha d (by simp [hd])) hb
    cases t with
    | zero => simp only [List.getD_cons_zero]; omega
    | succ t => simp only [List.getD_cons_succ]; have := ih t; omega

/-- no carry leaves a digit: bit `5t + s` of `ofD l` is bit `s` of digit `t`, as long as all digits are below 32. -/
theorem ofD_testBit : ∀ (l : List Nat), (∀ d ∈ l, d < 32) → ∀ (t s : Nat), s < 5 → (ofD l).testBit (5 * t + s) = (l.getD t 0).testBit s
  | [], _, t, s, _ => by simp
  | d :: l, h, t, s, hs => by
    have hd : d < 2 ^ 5 := h d (by simp)
    have hrest := ofD_testBit l (fun x hx => h x (by simp [hx]))
    have e : ofD (d :: l) = 2 ^ 5 * ofD l + d := by simp only [ofD_cons]; omega
    rw [e, Nat.testBit_two_pow_mul_add _ hd]
    cases t with
    | zero => simp [hs]
    | succ t =>
      have h1 : ¬ (5 * (t + 1) + s < 5) := by omega
      have h2 : 5 * (t + 1) + s - 5 = 5 * t + s := by omega
      simp only [h1, if_false, h2, List.getD_cons_succ]; exact hrest t s hs

theorem add_eq_xor_shift (K a0 : Nat) (h : a0 < 2 ^ 5) : 2 ^ 5 * K + a0 = (K <<< 5) ^^^ a0 := by
  apply Nat.eq_of_testBit_eq; intro j
  rw [Nat.testBit_two_pow_mul_add _ h, Nat.testBit_xor, Nat.testBit_shiftLeft]
  by_cases hj : j < 5
  · have : ¬ (j ≥ 5) := by omega
    simp [hj, this]
  · have h5 : j ≥ 5 := by omega
    have : a0.testBit j = false := Nat.testBit_lt_two_pow (Nat.lt_of_lt_of_le h (Nat.pow_le_pow_right (by decide) h5))
    simp [hj, h5, this]

theorem testBit0_add (x y : Nat) : (x + y).testBit 0 = (x.testBit 0 ^^ y.testBit 0) := by
  simp only [Nat.testBit_zero]
  rcases Nat.mod_two_eq_zero_or_one x with hx | hx <;> rcases Nat.mod_two_eq_zero_or_one y with hy | hy <;>
    simp [Nat.add_mod, hx, hy]

theorem testBit_le_one (d s : Nat) (h : d ≤ 1) : d.testBit s = (decide (s = 0) && decide (d = 1)) := by
  have : d = 0 ∨ d = 1 := by omega
  rcases this with rfl | rfl
  · simp
  · cases s with
    | zero => simp
    | succ s => simp [Nat.testBit_succ]

theorem M_le_one (a0 Y : Nat) (h : a0 ≤ 1) : M a0 Y = scN (decide (a0 = 1)) Y := by
  have : a0 = 0 ∨ a0 = 1 := by omega
  rcases this with rfl | rfl
  · simp [M_zero_left, scN]
  · simp [M_one_left, scN]

/-- bits of the carry-less product of two numbers with holes: at a digit boundary the parity of the convolution coefficient, zero elsewhere. -/
theorem M_ofD : ∀ (a b : List Nat), (∀ d ∈ a, d ≤ 1) → (∀ d ∈ b, d ≤ 1) → ∀ (t s : Nat), s < 5 →
    (M (ofD a) (ofD b)).testBit (5 * t + s) = (decide (s = 0) && ((conv a b).getD t 0).testBit 0)
  | [], b, _, _, t, s, _ => by simp [conv, M_zero_left]
  | a0 :: as, b, ha, hb, t, s, hs => by
    have ha0 : a0 ≤ 1 := ha a0 (by simp)
    have ih := M_ofD as b (fun d hd => ha d (by simp [hd])) hb
    have hb32 : ∀ d ∈ b, d < 32 := fun d hd => Nat.lt_of_le_of_lt (hb d hd) (by decide)
    have e : ofD (a0 :: as) = (ofD as <<< 5) ^^^ a0 := by
      rw [← add_eq_xor_shift _ _ (Nat.lt_of_le_of_lt ha0 (by decide))]; simp only [ofD_cons]; omega
    rw [e, M_xor_left, M_shiftN5, M_le_one _ _ ha0, Nat.testBit_xor, Nat.testBit_shiftLeft]
    simp only [conv, getD_addL, getD_map_mul, testBit0_add]
    have hY : (ofD b).testBit (5 * t + s) = (decide (s = 0) && decide (b.getD t 0 = 1)) := by
      rw [ofD_testBit b hb32 t s hs, testBit_le_one _ _ (getD_le_one b hb t)]
    have hsc : (scN (decide (a0 = 1)) (ofD b)).testBit (5 * t + s) = (decide (a0 = 1) && (decide (s = 0) && decide (b.getD t 0 = 1))) := by
      cases h1 : decide (a0 = 1) <;> simp [scN, hY]
    rw [hsc]
    have hprod : (a0 * b.getD t 0).testBit 0 = (decide (a0 = 1) && decide (b.getD t 0 = 1)) := by
      have hbt := getD_le_one b hb t
      generalize b.getD t 0 = v at hbt
      have h1 : a0 = 0 ∨ a0 = 1 := by omega
      have h2 : v = 0 ∨ v = 1 := by omega
      rcases h1 with rfl | rfl <;> rcases h2 with rfl | rfl <;> decide
    rw [hprod]
    cases t with
    | zero =>
      have : ¬ (5 * 0 + s ≥ 5) := by omega
      simp only [this, decide_false, Bool.false_and, List.getD_cons_zero, Bool.false_xor]
      cases decide (s = 0) <;> cases decide (a0 = 1) <;> cases decide (b.getD 0 0 = 1) <;> simp
    | succ t =>
      have h5 : 5 * (t + 1) + s ≥ 5 := by omega
      have h2 : 5 * (t + 1) + s - 5 = 5 * t + s := by omega
      simp only [h5, decide_true, Bool.true_and, h2, ih t s hs, List.getD_cons_succ]
      cases decide (s = 0) <;> cases decide (a0 = 1) <;> cases decide (b.getD (t + 1) 0 = 1) <;> cases ((conv as b).getD t 0).testBit 0 <;> simp

theorem mem_getD {l : List Nat} {d : Nat} (h : d ∈ l) : ∃ t, l.getD t 0 = d := by
  obtain ⟨i, hi, rfl⟩ := List.mem_iff_getElem.mp h
  exact ⟨i, by rw [List.getD_eq_getElem?_getD, List.getElem?_eq_getElem hi]; rfl⟩

/-- **no carries**: at every digit boundary the INTEGER product of two numbers with holes has the bit of their CARRY-LESS product. -/
theorem mul_testBit_eq_M (a b : List Nat) (ha : ∀ d ∈ a, d ≤ 1) (hb : ∀ d ∈ b, d ≤ 1) (hlen : a.length < 32) (t : Nat) :
    (ofD a * ofD b).testBit (5 * t) = (M (ofD a) (ofD b)).testBit (5 * t) := by
  have hdig : ∀ d ∈ conv a b, d < 32 := by
    intro d hd; obtain ⟨u, rfl⟩ := mem_getD hd
    exact Nat.lt_of_le_of_lt (conv_bound a b ha hb u) hlen
  have h1 := ofD_testBit (conv a b) hdig t 0 (by decide)
  have h2 := M_ofD a b ha hb t 0 (by decide)
  rw [Nat.add_zero] at h1 h2
  rw [← ofD_conv, h1, h2]; simp

/-- off the digit boundaries the carry-less product of two numbers with holes has no bits. -/
theorem M_ofD_off (a b : List Nat) (ha : ∀ d ∈ a, d ≤ 1) (hb : ∀ d ∈ b, d ≤ 1) (p : Nat) (hp : p % 5 ≠ 0) :
    (M (ofD a) (ofD b)).testBit p = false := by
  have h := M_ofD a b ha hb (p / 5) (p % 5) (Nat.mod_lt _ (by decide))
  rw [Nat.div_add_mod] at h
  rw [h]; simp [hp]

/-- the 13 bits of `x` at positions `k, k+5, …, k+60`, as a 0/1 digit list. -/
def digs (x k : Nat) : List Nat := (List.range 13).map fun t => if x.testBit (5 * t + k) then 1 else 0

theorem digs_le_one (x k : Nat) : ∀ d ∈ digs x k, d ≤ 1 := by
  intro d hd; simp only [digs, List.mem_map] at hd; obtain ⟨t, _, rfl⟩ := hd; split <;> omega
theorem digs_length (x k : Nat) : (digs x k).length = 13 := by simp [digs]
theorem digs_getD (x k t : Nat) : (digs x k).getD t 0 = if t < 13 ∧ x.testBit (5 * t + k) then 1 else 0 := by
  rw [List.getD_eq_getElem?_getD]
  by_cases ht : t < 13
  · simp [digs, ht]
  · simp [digs, ht]

/-- HOLES of `gf128.rs`: bits 0, 5, …, 60. -/
def HOLES : Nat := 1190112520884487201
theorem HOLES_eq : HOLES = ofD (List.replicate 13 1) := by decide
theorem HOLES_testBit (q : Nat) : HOLES.testBit q = decide (q % 5 = 0 ∧ q < 64) := by
  by_cases hq : q < 64
  · have h : ∀ q, q < 64 → HOLES.testBit q = decide (q % 5 = 0 ∧ q < 64) := by decide
    exact h q hq
  · have : HOLES.testBit q = false := Nat.testBit_lt_two_pow (Nat.lt_of_lt_of_le (by decide : HOLES < 2 ^ 64) (Nat.pow_le_pow_right (by decide) (by omega)))
    simp [this, hq]

end PolytuneModel.Digits
