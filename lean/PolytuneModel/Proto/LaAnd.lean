import PolytuneModel.Proto.Online
import PolytuneModel.Prim.Blake3
import PolytuneModel.Prim.Bincode
import PolytuneModel.Proto.OnlineMsgs
import PolytuneModel.Thm.C04laand
/-! Π_HaAND and Π_LaAND of `faand.rs` (`fhaand`, `flaand`) for all parties, executable: from the tapped inputs (x, y, r shares,
    the global keys, the HaAND pads `s`) compute every message of the phases `haand`, `flaand`, `flaand comm`,
    `flaand hash` byte for byte, the check value `⨁ H_i` and the leaky z shares. Hashing is the model's own BLAKE3.
    The `u` values of the `flaand` message and the `H_i` of the commitment/hash messages are computed with `uMsg` and `Hi`
    of `Thm/C04laand.lean` — the functions `C04_laand_check_value` is stated about — instantiated with `Hh := hash128`. -/
namespace PolytuneModel.LaAnd
open PolytuneModel.Bincode

def leBytes16 (x : Nat) : Array UInt8 := (Array.range 16).map fun i => UInt8.ofNat ((x >>> (8 * i)) % 256)
def beBytes16 (x : Nat) : Array UInt8 := (Array.range 16).map fun i => UInt8.ofNat ((x >>> (8 * (15 - i))) % 256)
/-- `blake3::hash(&x.to_le_bytes()).as_bytes()[31] & 1` -/
def hashLsb (x : Nat) : Bool := ((Blake3.hash (leBytes16 x)).getD 31 0) % 2 == 1
/-- `hash128`: the first 16 output bytes, little endian -/
def hash128 (x : Nat) : Nat := ((Blake3.hash (leBytes16 x)).extract 0 16).foldr (fun b acc => acc * 256 + b.toNat) 0
/-- `commit(&hi_with_id(H_i, i))`: the check value followed by the 16-bit id of the committing party (fix "bind the leaky AND check
    commitment to the committing party"; before it the committed value was `H_i` alone, see `Thm/C04mirror.lean`) -/
def commit (x party : Nat) : List UInt8 := (Blake3.hash (beBytes16 x ++ #[UInt8.ofNat (party / 256 % 256), UInt8.ofNat (party % 256)])).toList

structure In where
  n     : Nat
  lp    : Nat                                   -- number of leaky triples (l · bucket size)
  delta : Array Nat
  xyz   : Array (Array Online.ShareL)           -- per party: x ‖ y ‖ r (3·lp shares)
  s     : Array (Array (Array Bool))            -- s[i][j][ll]: party i's pad for peer j

structure Out where
  haand  : List (Nat × Nat × Bytes)
  flaand : List (Nat × Nat × Bytes)
  comm   : List (Nat × Nat × Bytes)
  hash   : List (Nat × Nat × Bytes)
  z      : List (Nat × List (Bool × List Nat × List Nat))
  xorH   : List Nat                             -- ⨁_i H_i per triple: all zero iff the check of step 7 passes

def sc (b : Bool) (x : Nat) : Nat := if b then x else 0

def run (i : In) : Out :=
  let n := i.n; let lp := i.lp
  let parties := List.range n
  let sh (p idx : Nat) : Online.ShareL := (i.xyz.getD p #[]).getD idx (Online.zero n)
  let X (p ll : Nat) := sh p ll
  let Y (p ll : Nat) := sh p (lp + ll)
  let R (p ll : Nat) := sh p (2 * lp + ll)
  let Δ (p : Nat) := i.delta.getD p 0
  let S (p j ll : Nat) : Bool := ((i.s.getD p #[]).getD j #[]).getD ll false
  let others (p : Nat) := parties.filter (· != p)
  -- HaAND
  let h01 (p j ll : Nat) : Bool × Bool :=
    let k := (X p ll).keys.getD j 0
    (hashLsb k != S p j ll, (hashLsb (k ^^^ Δ p) != S p j ll) != (Y p ll).bit)
  let haand := parties.flatMap fun p => (others p).map fun j =>
    (p, j, encVec (encPair encBool encBool) ((List.range lp).map (h01 p j)))
  let v (p ll : Nat) : Bool :=
    (others p).foldl (fun acc j =>
      let t := hashLsb ((X p ll).macs.getD j 0) != (if (X p ll).bit then (h01 j p ll).2 else (h01 j p ll).1)
      (acc != S p j ll) != t) false
  let zb (p ll : Nat) : Bool := v p ll != ((X p ll).bit && (Y p ll).bit)
  let e (p ll : Nat) : Bool := zb p ll != (R p ll).bit
  -- LaAND check
  let phi (p ll : Nat) : Nat :=
    (others p).foldl (fun acc k => acc ^^^ (Y p ll).keys.getD k 0 ^^^ (Y p ll).macs.getD k 0) 0 ^^^ sc (Y p ll).bit (Δ p)
  let u (p j ll : Nat) : Nat :=
    let k := (X p ll).keys.getD j 0
    hash128 (k ^^^ Δ p) ^^^ hash128 k ^^^ phi p ll
  let uPM (p j ll : Nat) : Nat :=
    (uMsg n (fun q => OnlineMsgs.vOfNat (Δ q)) (fun v => OnlineMsgs.vOfNat (hash128 v.toNat))
      (fun q => OnlineMsgs.shareOfL (X q ll)) (fun q => OnlineMsgs.shareOfL (Y q ll)) p j).toNat
  let flaand := parties.flatMap fun p => (others p).map fun j =>
    (p, j, encVec (encPair encBool encU128) ((List.range lp).map fun ll => (e p ll, uPM p j ll)))
  let kxphi (p j ll : Nat) : Nat :=
    hash128 ((X p ll).keys.getD j 0) ^^^ hash128 ((X p ll).macs.getD j 0) ^^^ sc (X p ll).bit (u j p ll)
  let zKey (p j ll : Nat) : Nat := (R p ll).keys.getD j 0 ^^^ sc (e j ll) (Δ p)
  let zMac (p j ll : Nat) : Nat := (R p ll).macs.getD j 0
  -- the proof model's functions on the same data
  let Δv : Nat → V := fun p => OnlineMsgs.vOfNat (Δ p)
  let Hh : V → V := fun v => OnlineMsgs.vOfNat (hash128 v.toNat)
  let xF (ll : Nat) : Nat → Share := fun p => OnlineMsgs.shareOfL (X p ll)
  let yF (ll : Nat) : Nat → Share := fun p => OnlineMsgs.shareOfL (Y p ll)
  let zF (ll : Nat) : Nat → Share := fun p =>
    ⟨zb p ll, fun j => OnlineMsgs.vOfNat (if j == p then 0 else zMac p j ll), fun j => OnlineMsgs.vOfNat (if j == p then 0 else zKey p j ll)⟩
  let H (p ll : Nat) : Nat := (Hi n Δv Hh (xF ll) (yF ll) (zF ll) p).toNat
  let comm := parties.flatMap fun p => (others p).map fun j =>
    (p, j, encU64 lp ++ (List.range lp).flatMap fun ll => commit (H p ll) p)
  let hash := parties.flatMap fun p => (others p).map fun j =>
    (p, j, encVec encU128 ((List.range lp).map (H p)))
  let z := parties.map fun p => (p, (List.range lp).map fun ll =>
    (zb p ll, (List.range n).map (fun j => if j == p then 0 else zMac p j ll), (List.range n).map (fun j => if j == p then 0 else zKey p j ll)))
  let xorH := (List.range lp).map fun ll => parties.foldl (fun acc p => acc ^^^ H p ll) 0
  ⟨haand, flaand, comm, hash, z, xorH⟩

end PolytuneModel.LaAnd
