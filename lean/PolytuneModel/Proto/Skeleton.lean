import PolytuneModel.Prim.Chunk
import PolytuneModel.Proto.Circuit
import PolytuneModel.Gen.Arith
/-! The engine's communication skeleton as a function of PUBLIC parameters only:
    for an ordered pair (from, to), the sequence of (phase label, byte length) of the messages `from` sends to `to`
    during one `mpc` call with the untrusted preprocessor. Import-free, executable. (C05, C09, C12) -/
namespace PolytuneModel

structure Pub where
  circ  : Circuit
  n     : Nat
  pEval : Nat
  pOut  : List Nat

/-! Constants and size functions are NOT hand copies: they are the translator's output (`Gen/Arith.lean`, regenerated from
    `faand.rs`, `protocol.rs`, `kos.rs` on every run), so the pattern compared with the wire follows the source. -/
def RHO : Nat := Gen.RHO
def SSP : Nat := Gen.SSP
def bucketSize (l : Nat) : Nat := Gen.bucketSize l

def nextMultipleOf8 (m : Nat) : Nat := (m + 7) / 8 * 8

def randomSharesBatchSize (c : Circuit) : Nat := Gen.randomSharesBatchSize c.numInputs c.andOps
def andShareBatchSize (c : Circuit) : Nat := Gen.andShareBatchSize c.andOps

abbrev Msg := String × Nat

/-- the Goldwasser–Lindell echo round: `Vec<Option<u128>>` of length n with `Some` for the n-2 third parties. -/
def bv (n : Nat) (phase : String) : List Msg :=
  if n ≤ 2 then [] else [("broadcast " ++ phase, 8 + n + 16 * (n - 2))]

/-- messages `i → k` of the two back-to-back KOS sessions inside one `fabitn` call with `m` OTs. -/
def otMsgs (i k m : Nat) : List Msg :=
  let ncols := nextMultipleOf8 m + 128 + SSP
  let asSender   : List Msg := [("CO_OT_r", 8 + 128 * (8 + 32)), ("KOS_OT_corr", 8 + 16 * m)]
  let asReceiver : List Msg := [("CO_OT_s", 8 + 32), ("CO_OT_c0c1", 8 + 128 * 32), ("ALSZ_OT_setup", 8 + 128 * (8 + ncols / 8)), ("KOS_OT_x_t0_t1", 8 + 48)]
  if i < k then asSender ++ asReceiver else asReceiver ++ asSender

/-- one `fashare(l)` call. -/
def fashareMsgs (n i k l : Nat) : List Msg :=
  let lprime := l + RHO + 3 * RHO
  otMsgs i k lprime
  ++ [("fabitn", 8 + 3 * RHO * 17)] ++ bv n "fabitn"
  ++ [("fashare comm", 8 + RHO * 96)] ++ bv n "fashare comm"
  ++ [("fashare ver", 8 + RHO * (8 + 1 + 16 * (n - 1)))] ++ bv n "fashare ver"
  ++ [("fashare di_bi", 8 + RHO * 16)] ++ bv n "fashare di_bi"

/-- one AND batch of `L` gates: aShare for the triples, leaky AND, bucket combination, Beaver. -/
def andBatchMsgs (n i k L : Nat) : List Msg :=
  let b := bucketSize L
  let l' := L * b
  fashareMsgs n i k (L * b * 3)
  ++ [("haand", 8 + 2 * l')]
  ++ [("flaand", 8 + 17 * l')] ++ bv n "flaand"
  ++ [("flaand comm", 8 + 32 * l')] ++ bv n "flaand comm"
  ++ [("flaand hash", 8 + 16 * l')] ++ bv n "flaand hash"
  ++ [("dvalue", 8 + L * ((8 + (b - 1)) + (8 + 16 * (b - 1))))]
  ++ [("faand", 8 + 34 * L)]

def countInputsOf (c : Circuit) (p : Nat) : Nat :=
  (c.insts.filter fun i => match i.op with | .input q _ => q == p | _ => false).length

def uniqueOutputs (c : Circuit) : Nat := c.outputRegs.eraseDups.length

/-- what `i` sends to `k` once input processing is over (the output phase). -/
def outputPattern (pb : Pub) (i k : Nat) : List Msg :=
  (pb.pOut.filter (· == k)).map (fun _ => ("output wire shares", 8 + pb.circ.maxReg + 17 * uniqueOutputs pb.circ))
  ++ (if i = pb.pEval then (pb.pOut.filter (· == k)).map (fun _ => ("lambda", 8 + pb.circ.maxReg + 17 * uniqueOutputs pb.circ)) else [])

/-- everything `i` sends to `k` (i ≠ k, both < n), in order. -/
def pattern (pb : Pub) (i k : Nat) : List Msg :=
  let c := pb.circ; let n := pb.n
  let rowLen := 8 + ((1 + (8 + 16 * n) + 16) + 16)          -- Vec<u8> holding an AEAD ciphertext of (bool, Vec<Mac>, Label)
  -- coin tossing
  [("RNG comm", 40), ("RNG ver", 40), ("RNG comm", 40)] ++ bv n "RNG comm" ++ [("RNG ver", 40)]
  -- function-independent preprocessing, in batches
  ++ (chunkSizeIter (c.numInputs + c.andOps) (randomSharesBatchSize c)).flatMap (fashareMsgs n i k)
  -- function-dependent preprocessing, in batches
  ++ (chunkSizeIter c.andOps (andShareBatchSize c)).flatMap (andBatchMsgs n i k)
  -- garbled gates, streamed in chunks from every garbler to the evaluator
  ++ (if i ≠ pb.pEval ∧ k = pb.pEval then (chunkSizeIter c.andOps (andShareBatchSize c)).map (fun ch => ("preprocessed gates", 8 + ch * 4 * rowLen)) else [])
  -- input processing
  ++ [("wire shares", 8 + c.maxReg + 17 * countInputsOf c k)]
  ++ [("masked inputs", 8 + c.maxReg + countInputsOf c i)] ++ bv n "masked inputs"
  ++ (if i ≠ pb.pEval ∧ k = pb.pEval then [("labels", 8 + c.maxReg + 16 * c.numInputs)] else [])
  -- output: every party to every output party; then the evaluator to every output party
  ++ outputPattern pb i k

end PolytuneModel
