import PolytuneModel.Proto.OnlineMsgs
import PolytuneModel.Thm.C10
/-! Bucket combination and Beaver derandomisation of `faand.rs` (`faand`, `check_dvalue`, `combine_bucket`, `beaver_aand`) for all
    parties, computed with the very functions of `C10_bucket` / `C10_beaver` (`combineBucket`, `beaverOut`) from the tapped
    leaky triples, bucket permutation and wanted inputs. Produces the `dvalue` and `faand` messages byte for byte and the
    final authenticated AND shares. Executable. -/
namespace PolytuneModel.Triples
open PolytuneModel.Bincode

structure In where
  n    : Nat
  l    : Nat                                   -- AND gates in the batch
  b    : Nat                                   -- bucket size
  xyz  : Array (Array Online.ShareL)           -- per party: 3·l·b shares (x ‖ y ‖ r) handed to faand
  z    : Array (Array Online.ShareL)           -- per party: l·b leaky z shares (flaand output)
  perm : Array Nat                             -- the shuffled indices (identical at all parties)
  ab   : Array (Array Online.ShareL)           -- per party: 2·l shares (α₀ β₀ α₁ β₁ …)

def fam (a : Array (Array Online.ShareL)) (n idx : Nat) : Nat → Share :=
  fun p => OnlineMsgs.shareOfL ((a.getD p #[]).getD idx (Online.zero n))

def encMacs (v : List Nat) : Bytes := encVec encU128 v
def encBools (v : List Bool) : Bytes := encVec encBool v

structure Out where
  dvalue : List (Nat × Nat × Bytes)            -- (from, to, bytes)
  beaver : List (Nat × Nat × Bytes)            -- the `faand` message
  ands   : List (Nat × List (Bool × List Nat × List Nat))   -- per party: final AND shares (bit, macs, keys)

def run (i : In) : Out :=
  let n := i.n; let lp := i.l * i.b
  let X (idx : Nat) := fam i.xyz n idx
  let Y (idx : Nat) := fam i.xyz n (lp + idx)
  let Z (idx : Nat) := fam i.z n idx
  let parties := List.range n
  let bucket (j : Nat) : List Nat := (List.range i.b).map fun m => i.perm.getD (j * i.b + m) 0
  -- check_dvalue: own bits and MACs of y₀ ⊕ y_m for every bucket
  let dBits (p j : Nat) : List Bool := match bucket j with | [] => [] | i0 :: rest => rest.map fun im => ((Y i0 p).bit != (Y im p).bit)
  let dMacs (p k j : Nat) : List Nat := match bucket j with | [] => [] | i0 :: rest => rest.map fun im => ((Y i0 p).mac k ^^^ (Y im p).mac k).toNat
  let dvalue := parties.flatMap fun p => (parties.filter (· != p)).map fun k =>
    (p, k, encVec (encPair encBools encMacs) ((List.range i.l).map fun j => (dBits p j, dMacs p k j)))
  -- opened d-values: XOR over all parties
  let dOpen (j : Nat) : List Bool := match bucket j with | [] => [] | _ :: rest => (List.range rest.length).map fun m => parties.foldl (fun acc p => acc != (dBits p j).getD m false) false
  -- combine_bucket with the functions of C10
  let triple (j : Nat) : (Nat → Share) × (Nat → Share) × (Nat → Share) := match bucket j with
    | [] => (fun _ => Share.zero, fun _ => Share.zero, fun _ => Share.zero)
    | i0 :: rest => combineBucket (X i0, Y i0, Z i0) ((rest.zip (dOpen j)).map fun (im, d) => ((X im, Y im, Z im), d))
  -- beaver_aand
  let alpha (j : Nat) := fam i.ab n (2 * j)
  let beta (j : Nat) := fam i.ab n (2 * j + 1)
  let dShare (j p : Nat) : Share := ((triple j).1 p).xor (alpha j p)
  let eShare (j p : Nat) : Share := ((triple j).2.1 p).xor (beta j p)
  let beaver := parties.flatMap fun p => (parties.filter (· != p)).map fun k =>
    (p, k, encVec (fun (t : Bool × Bool × Nat × Nat) => encBool t.1 ++ encBool t.2.1 ++ encU128 t.2.2.1 ++ encU128 t.2.2.2)
      ((List.range i.l).map fun j => ((dShare j p).bit, (eShare j p).bit, ((dShare j p).mac k).toNat, ((eShare j p).mac k).toNat)))
  let dO (j : Nat) : Bool := parties.foldl (fun acc p => acc != (dShare j p).bit) false
  let eO (j : Nat) : Bool := parties.foldl (fun acc p => acc != (eShare j p).bit) false
  let ands := parties.map fun p => (p, (List.range i.l).map fun j =>
    let s := beaverOut (triple j).1 (triple j).2.2 (beta j) (dO j) (eO j) p
    (s.bit, (List.range n).map (fun q => (s.mac q).toNat), (List.range n).map (fun q => (s.key q).toNat)))
  ⟨dvalue, beaver, ands⟩

end PolytuneModel.Triples
