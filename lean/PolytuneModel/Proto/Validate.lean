import PolytuneModel.Proto.Circuit
/-! `protocol.rs::validate` — the argument checks `mpc` performs before anything else (it has no channel parameter, so a rejection
    here happens before any message). Hand-written model of the CURRENT tree (after the three `fix:` commits for C18); it is compared
    with the real `mpc` on every generated argument tuple by `drive C18` (driver command `vargs`). Import-free, executable. -/
namespace PolytuneModel

inductive ArgErr
  | circuit (e : CircuitError) | partyDoesNotExist | wrongInputSize (expected actual : Nat) | missingOutputParties | invalidOutputParty (p : Nat)
deriving Repr, DecidableEq

def Op.isInput : Op → Bool
  | .input _ _ => true
  | _ => false

/-- index of the first `Input` instruction that follows a non-`Input` instruction (`first_gate … skip … find`). -/
def inputAfterGateIdx (c : Circuit) : Option Nat :=
  let firstGate := (c.insts.findIdx? (fun i => !i.op.isInput)).getD c.insts.length
  ((c.insts.zipIdx.drop firstGate).find? (fun (i, _) => i.op.isInput)).map (·.2)

/-- first index in `pOut` that is out of range or repeats an earlier entry (`p_out[..idx].contains`). -/
def badOutputParty (pMax : Nat) : List Nat → List Nat → Option Nat
  | _, [] => none
  | seen, o :: rest => if o ≥ pMax ∨ o ∈ seen then some o else badOutputParty pMax (seen ++ [o]) rest

def validateArgs (c : Circuit) (pOwn inputLen pEval : Nat) (pOut : List Nat) : Except ArgErr Unit :=
  match c.validate with
  | .error e => .error (.circuit e)
  | .ok _ =>
    match inputAfterGateIdx c with
    | some w => .error (.circuit (.invalidInput w))
    | none =>
      let pMax := c.inputRegs.length
      match c.inputRegs[pOwn]? with
      | none => .error .partyDoesNotExist
      | some expected =>
        if pEval ≥ pMax then .error .partyDoesNotExist
        else if expected ≠ inputLen then .error (.wrongInputSize expected inputLen)
        else if pOut.isEmpty then .error .missingOutputParties
        else match badOutputParty pMax [] pOut with
          | some o => .error (.invalidOutputParty o)
          | none => .ok ()

def accepted (r : Except ArgErr Unit) : Bool := match r with | .ok _ => true | .error _ => false

def ArgErr.cls : ArgErr → String
  | .circuit _ => "circuit" | .partyDoesNotExist => "PartyDoesNotExist" | .wrongInputSize _ _ => "WrongInputSize"
  | .missingOutputParties => "MissingOutputParties" | .invalidOutputParty _ => "InvalidOutputParty"

end PolytuneModel
