import PolytuneModel.Thm.C01
import PolytuneModel.Proto.Online
/-! The messages of the online phase computed from the PROOF model (`Lemmas/Online.lean`: the `step` function that
    `C01_honest_correct` is about). Executable (closure register files: fine for the small circuits of the message-level
    tie); the `Array`-based `Proto/Online.lean` is the fast twin and is cross-checked against this one by the driver. -/
namespace PolytuneModel.OnlineMsgs
open PolytuneModel.Bincode

def vOfNat (x : Nat) : V := BitVec.ofNat 128 x

def shareOfL (s : Online.ShareL) : Share := ⟨s.bit, fun j => vOfNat (s.macs.getD j 0), fun j => vOfNat (s.keys.getD j 0)⟩

/-- the coins of the proof model from the tapped values; `k` counts Input and AND instructions together, inputs first. -/
def coinsOfTaps (t : Online.Taps) (numInputs : Nat) (x : Nat → Nat → Bool) : Coins :=
  { Δ := fun p => vOfNat (t.delta.getD p 0),
    rnd := fun k p => shareOfL ((t.rnd.getD p #[]).getD k (Online.zero t.n)),
    ab := fun a p => shareOfL ((t.ab.getD p #[]).getD a (Online.zero t.n)),
    lbl := fun k p => vOfNat (if k < numInputs then (t.inLab.getD p #[]).getD k 0 else (t.gateLab.getD p #[]).getD (k - numInputs) 0),
    x := x }

/-- garbled-row plaintexts and keys of all garblers for the AND instruction `inst` met in state `s`. -/
def rowsAt (n e : Nat) (c : Coins) (s : St) (w : Nat) (a b : Nat) : List Online.Row :=
  ((List.range n).filter (· != e)).flatMap fun p =>
    (List.range 4).map fun i =>
      let va := i / 2 == 1; let vb := i % 2 == 1
      let R := rowShare (c.ab s.a) (c.rnd s.k) (fun q => s.sh q a) (fun q => s.sh q b) va vb
      -- the garbler's bit and MACs are those of the plain row share; the label carries the row-3 key correction
      let label := garbLabel n e c.Δ R va vb (c.lbl s.k p) p
      ⟨p, w, i, (s.lab p a ^^^ sc va (c.Δ p)).toNat, (s.lab p b ^^^ sc vb (c.Δ p)).toNat,
        Online.encRow (R p).bit ((Array.range n).map fun j => ((R p).mac j).toNat) label.toNat⟩

/-- walk with the proof model's `step`, collecting the rows and the masked inputs on the way. -/
def walk (n e : Nat) (c : Coins) (insts : List Inst) : St × List Online.Row × List (Nat × Bool) :=
  (insts.zipIdx.foldl (fun (acc : St × List Online.Row × List (Nat × Bool)) (inst, w) =>
    let (s, rows, masked) := acc
    let s' := step n e c s inst
    match inst.op with
    | .and a b => (s', rows ++ rowsAt n e c s w a b, masked)
    | .input _ _ => (s', rows, masked ++ [(inst.out, s'.val inst.out)])
    | _ => (s', rows, masked)) (init, [], []))

def online (t : Online.Taps) (circ : Circuit) (e : Nat) (pOut : List Nat) (inputs : List (List Bool)) : Online.Out :=
  let n := t.n; let m := circ.maxReg
  let c := coinsOfTaps t circ.numInputs (inputsOf inputs)
  let (s, rows, masked) := walk n e c circ.insts
  let inputAt (r : Nat) : Option Nat := match circ.insts[r]? with | some ⟨_, .input p _⟩ => some p | _ => none
  let maskedAt (r : Nat) : Option Bool := (masked.find? (·.1 == r)).map (·.2)
  let parties := List.range n
  let wireShares := parties.flatMap fun p => (parties.filter (· != p)).map fun q =>
    (p, q, encVec (encOpt (encPair encBool encU128)) (Online.optList m fun r => match inputAt r with
      | some owner => if owner == q then some ((c.rnd r p).bit, ((c.rnd r p).mac q).toNat) else none | none => none))
  let maskedIn := parties.map fun p =>
    (p, encVec (encOpt encBool) (Online.optList m fun r => match inputAt r with | some owner => if owner == p then maskedAt r else none | none => none))
  let labels := (parties.filter (· != e)).map fun p =>
    (p, encVec (encOpt encU128) (Online.optList m fun r => (maskedAt r).map fun mb => (c.lbl r p ^^^ sc mb (c.Δ p)).toNat))
  let uniq := circ.outputRegs.eraseDups
  let outShares := parties.flatMap fun p => (pOut.filter (· != p)).map fun q =>
    (p, q, encVec (encOpt (encPair encBool encU128)) (Online.optList m fun r => if uniq.contains r then some ((s.sh p r).bit, ((s.sh p r).mac q).toNat) else none))
  let lambda := (pOut.filter (· != e)).map fun q =>
    (q, encVec (encOpt (encPair encBool encU128)) (Online.optList m fun r => if uniq.contains r then some (s.val r, (s.lev r q).toNat) else none))
  let results := parties.map fun p => (p, if pOut.contains p then circ.outputRegs.map (opened n s) else [])
  ⟨wireShares, maskedIn, labels, outShares, lambda, rows.toArray, results⟩

end PolytuneModel.OnlineMsgs
